"""Symbolic executor = verification-condition generator over the Python-subset AST (DESIGN 1.3).

Path exploration re-executes the function under a recorded decision prefix (DFS over decisions);
`decide` prunes infeasible branches with z3.  Definedness obligations are emitted at every
division / sqrt / log / pow under the current path condition.  Calls are resolved, in this order,
to: a callee CONTRACT (assert pre / assume post), a shim (numpy / math / builtins), an inlinable
extracted function, else the function leaves the subset (SymExError -> undecided, never a verdict).
"""
from __future__ import annotations
import ast, itertools
import sympy as sp
from . import terms as T
from .terms import Cx
from .oblig import Obligation


class SymExError(Exception):
    """construct outside the supported subset"""


class _Return(Exception):
    def __init__(self, v):
        self.v = v


class _Raise(Exception):
    def __init__(self, exc):
        self.exc = exc


class _Break(Exception):
    pass


class _Continue(Exception):
    pass


class Raised:
    def __init__(self, typ, args=()):
        self.typ = typ
        self.args = args

    def __repr__(self):
        return f"Raised({self.typ}, {self.args})"


class Contract:
    """callee contract: requires(args...) -> list of (label, Bool); ensures(res, args...) -> list of Bool;
    result(args...) -> fresh result value (default: one fresh real symbol)."""

    def __init__(self, name, requires=None, ensures=None, result=None, params=None, effect=None):
        self.name = name
        self.effect = effect
        self.requires = requires
        self.ensures = ensures
        self.result = result
        self.params = params


class SymArray:
    """array with symbolic content: concrete-index cells are cached symbols; symbolic index gives an
    uninterpreted application name(i...).  Writes are logged."""
    _n = itertools.count()

    def __init__(self, name, complex_=False, shape=None):
        self.name = name
        self.complex_ = complex_
        self.shape = shape
        self.cells = {}
        self.fun_re = sp.Function(name + ("_re" if complex_ else ""), real=True)
        self.fun_im = sp.Function(name + "_im", real=True) if complex_ else None
        self.writes = []      # (index tuple, value)

    def _norm(self, idx):
        if not isinstance(idx, tuple):
            idx = (idx,)
        return tuple(sp.Symbol(":") if isinstance(i, slice) else sp.sympify(i) for i in idx)

    def get(self, idx):
        raw = idx if isinstance(idx, tuple) else (idx,)
        if any(isinstance(i, slice) for i in raw):
            return ArrayView(self, raw)
        idx = self._norm(idx)
        for widx, val in reversed(self.writes):
            if widx == idx:
                return val
            if not all((a - b).is_number and (a - b) != 0 for a, b in zip(widx, idx) if a != b) and len(widx) == len(idx):
                if any(a != b for a, b in zip(widx, idx)) and not any(((a - b).is_number and (a - b) != 0) for a, b in zip(widx, idx)):
                    raise SymExError(f"array {self.name}: read at {idx} may alias write at {widx}")
        if idx in self.cells:
            return self.cells[idx]
        if self.complex_:
            v = Cx(self.fun_re(*idx), self.fun_im(*idx))
        else:
            v = self.fun_re(*idx)
        return v

    def set(self, idx, val):
        idx = self._norm(idx)
        self.writes.append((idx, val))


class NdArr(list):
    """a 1-D ndarray with numpy's OBJECT semantics: element-wise arithmetic gives a fresh array, np.real / np.imag give VIEWS, and an augmented
    assignment updates the array in place - through every alias and through the view into its parent.  `origin` names the function parameter the
    array came from (a write that reaches it is a frame obligation)."""

    def __init__(self, items=(), origin=None, view=None):
        super().__init__(items)
        self.origin = origin
        self.view = view          # (parent NdArr, "re" | "im")

    def root(self):
        a = self
        while a.view is not None:
            a = a.view[0]
        return a

    def write_through(self):
        """after this array's elements changed in place: update the parents it is a view of"""
        a = self
        while a.view is not None:
            parent, part = a.view
            for k in range(len(a)):
                old = Cx.of(parent[k])
                parent[k] = Cx(a[k], old.im) if part == "re" else Cx(old.re, a[k])
            a = parent


class ArrayView:
    """a[i, :, ...] : remaining axes indexed later"""

    def __init__(self, base, partial):
        self.base, self.partial = base, partial

    def get(self, idx):
        idx = list(idx) if isinstance(idx, tuple) else [idx]
        full = []
        for p in self.partial:
            full.append(idx.pop(0) if isinstance(p, slice) else p)
        return self.base.get(tuple(full + idx))


class Pointer:
    """C pointer into an array: p[i] == base[offset + i]  (1-D) ; for a tuple offset the LAST axis is advanced (row-major stack arrays)"""

    def __init__(self, base, offset):
        self.base, self.offset = base, offset

    def _at(self, i):
        i = sp.sympify(i)
        if isinstance(self.offset, tuple):
            shp = getattr(self.base, "shape", None)
            if shp is None or len(shp) != len(self.offset):
                raise SymExError("pointer into an array of unknown shape")
            flat = sp.Integer(0)
            for o, n_ in zip(self.offset, shp):
                flat = flat * n_ + o
            return ("flat", flat + i)
        return self.offset + i

    def get(self, i):
        at = self._at(i)
        if isinstance(at, tuple):
            return self.base.get_flat(at[1])
        if isinstance(self.base, list):
            return self.base[_concrete_int(at)]
        return self.base.get(at)

    def set(self, i, v):
        at = self._at(i)
        if isinstance(at, tuple):
            return self.base.set_flat(at[1], v)
        if isinstance(self.base, list):
            self.base[_concrete_int(at)] = v
            return
        self.base.set(at, v)


class RefCell:
    """&variable : p[0] reads / writes the variable"""

    def __init__(self, holder, name):
        self.holder, self.name = holder, name

    def get(self, i=0):
        if isinstance(self.holder, dict):
            return self.holder[self.name]
        return self.holder.getattr(self.name)

    def set(self, i, v):
        if isinstance(self.holder, dict):
            self.holder[self.name] = v
        else:
            self.holder.setattr(self.name, v)


class SuperProxy:
    def __init__(self, obj, cls):
        self.obj, self.cls = obj, cls


class Obj:
    """simple object store (attributes) for the OOP subset"""

    def __init__(self, cls=None, **attrs):
        self.__dict__["_cls"] = cls
        self.__dict__["_attrs"] = dict(attrs)
        self.__dict__["_writes"] = []

    def getattr(self, k):
        if k in self._attrs:
            return self._attrs[k]
        if self._attrs.get("_open") and not k.startswith("_"):
            # an object of another class given only by the attributes the contract names: any further PUBLIC data attribute the code reads is an
            # arbitrary positive real (mass, radius, ...), the same value at every read
            v = sp.Symbol(f"{self._attrs.get('name', 'obj')}_{k}", positive=True)
            self._attrs[k] = v
            return v
        raise SymExError(f"object of class {getattr(self._cls, 'name', None)} has no attribute {k}")

    def has(self, k):
        return k in self._attrs

    def setattr(self, k, v):
        self._attrs[k] = v
        self._writes.append(k)


class ClassModel:
    """a class of the real source: methods / properties resolved along the given bases (MRO order)"""

    def __init__(self, name, relpath, bases=()):
        from .extract import source
        self.name = name
        self.relpath = relpath
        self.src = source(relpath)
        self.node = self.src.find(name)
        self.bases = list(bases)
        self.methods, self.getters, self.setters = {}, {}, {}
        for st in self.node.body:
            if isinstance(st, ast.FunctionDef):
                decos = [ast.unparse(d) for d in st.decorator_list]
                if "property" in decos:
                    self.getters[st.name] = st
                elif any(d.endswith(".setter") for d in decos):
                    self.setters[st.name] = st
                else:
                    self.methods[st.name] = st
        self.class_attrs = {}
        for st in self.node.body:
            if isinstance(st, ast.Assign) and len(st.targets) == 1 and isinstance(st.targets[0], ast.Name):
                self.class_attrs[st.targets[0].id] = st.value

    def mro(self):
        out = [self]
        for b in self.bases:
            for c in b.mro():
                if c not in out:
                    out.append(c)
        return out

    def lookup(self, kind, name):
        for c in self.mro():
            tbl = getattr(c, kind)
            if name in tbl:
                return c, tbl[name]
        return None, None


class MethodFn:
    """Fn-like wrapper for a method node"""

    def __init__(self, cls: ClassModel, node):
        import hashlib
        self.src = cls.src
        self.relpath = cls.relpath
        self.qualname = f"{cls.name}.{node.name}"
        self.key = f"{cls.relpath}::{cls.name}.{node.name}"
        self.node = node
        self.cls = cls
        self.params = [a.arg for a in node.args.posonlyargs + node.args.args]
        self.kwonly = [a.arg for a in node.args.kwonlyargs]
        nd = len(node.args.defaults)
        self.defaults = dict(zip(self.params[len(self.params) - nd:], node.args.defaults)) if nd else {}
        for a, d in zip(node.args.kwonlyargs, node.args.kw_defaults):
            if d is not None:
                self.defaults[a.arg] = d
        self.dropped = ["decorators/annotations/docstring"]
        self.vararg = node.args.vararg.arg if node.args.vararg else None
        self.kwarg = node.args.kwarg.arg if node.args.kwarg else None
        seg = ast.get_source_segment(self.src.text, node) or ""
        self.sha = hashlib.sha256(seg.encode()).hexdigest()[:16]

    def info(self):
        return dict(function=self.key, line=self.node.lineno, source_sha=self.sha, translated_from_pyx=self.src.translated, dropped=self.dropped)


class Path:
    def __init__(self, pc, facts, outcome, value, env, decisions, effects):
        self.pc = pc
        self.facts = facts
        self.outcome = outcome      # 'return' | 'raise'
        self.value = value
        self.env = env
        self.decisions = decisions
        self.effects = effects

    @property
    def hyps(self):
        return list(self.pc) + list(self.facts)


_fresh = itertools.count()


def fresh(prefix="v"):
    return T.R(f"{prefix}!{next(_fresh)}")


class Exec:
    def __init__(self, fn, globals_env=None, contracts=None, inline=None, pre=None, opts=None):
        """fn: extract.Fn.  globals_env: name -> value.  contracts: name -> Contract.
        inline: name -> (extract.Fn, globals_env) executed in place (small helpers)."""
        self.fn = fn
        self.genv = dict(globals_env or {})
        self.contracts = dict(contracts or {})
        self.inline = dict(inline or {})
        self.pre = list(pre or [])
        self.opts = dict(opts or {})
        self.obligations = {}       # key -> Obligation (deduplicated across paths)
        self.pruned = 0
        self.paths = []
        self.max_paths = self.opts.get("max_paths", 512)
        self.feas_timeout = self.opts.get("feas_timeout_ms", 2000)
        self.check_feasibility = self.opts.get("check_feasibility", True)
        self.defined_checks = self.opts.get("definedness", True)
        self._ord = {}
        self._srcs = [fn.src]
        self.called = set()
        self._try_depth = 0

    # ------------------------------------------------------------------ path exploration
    def run(self, args: dict):
        stack = [[]]
        self.paths = []
        while stack:
            prefix = stack.pop()
            if len(self.paths) >= self.max_paths:
                raise SymExError(f"more than {self.max_paths} paths")
            self._prefix = prefix
            self._taken = []
            self._pending = []
            self.pc = list(self.pre)
            self.facts = []
            self.effects = []
            env = dict(self.opts["fresh_args"]()) if self.opts.get("fresh_args") else dict(args)   # fresh mutable state for every re-execution
            for k_, v_ in list(env.items()):
                if isinstance(v_, NdArr):
                    env[k_] = NdArr(list(v_), origin=k_)           # fresh copy per explored path, tagged with the parameter it came from
            self._fnstack = [self.fn]
            for p, d in self.fn.defaults.items():
                if p not in env:
                    env[p] = self.ev(d, {})
            for extra, dflt in ((getattr(self.fn, "vararg", None), ()), (getattr(self.fn, "kwarg", None), {})):
                if extra and extra not in env:
                    env[extra] = type(dflt)()
            missing = [p for p in self.fn.params if p not in env]
            if missing:
                raise SymExError(f"{self.fn.key}: no value for parameters {missing}")
            self._fnstack = [self.fn]
            try:
                self.exec_block(self.fn.node.body, env)
                outcome, val = "return", None
            except _Return as r:
                outcome, val = "return", r.v
            except _Raise as r:
                outcome, val = "raise", r.exc
            except _Break:
                outcome, val = "break", None          # a loop-body fragment left its (enclosing, not extracted) loop early
            except _Continue:
                outcome, val = "continue", None
            self.paths.append(Path(list(self.pc[len(self.pre):]), list(self.facts), outcome, val, env, list(self._taken), list(self.effects)))
            if self.opts.get("on_path_end"):
                self.paths[-1].state = self.opts["on_path_end"]()
            stack.extend(self._pending)
        return self.paths

    def decide(self, cond, node=None):
        """fork on a symbolic boolean"""
        cond = T.as_bool(cond)
        if cond is sp.true:
            return True
        if cond is sp.false:
            return False
        if not T.is_bool(cond):
            raise SymExError(f"decide on non-boolean {cond!r}")
        pos = len(self._taken)
        if pos < len(self._prefix):
            d = self._prefix[pos]
        else:
            ft = self.feasible(cond)
            ff = self.feasible(sp.Not(cond))
            if ft and ff:
                d = True
                self._pending.append(self._taken + [False])
            elif ft:
                d = True
                self.pruned += 1
            elif ff:
                d = False
                self.pruned += 1
            else:
                # path condition itself infeasible: keep going on True (obligations will be vacuous)
                d = True
        self._taken.append(d)
        self.pc.append(cond if d else sp.Not(cond))
        return d

    def feasible(self, cond):
        if not self.check_feasibility:
            return True
        from . import backends as B
        try:
            r = B.z3_check(self.pc + self.facts + [cond], sp.false, timeout_s=self.feas_timeout / 1000.0)
        except Exception:
            return True
        return r["verdict"] != "discharged"

    # ------------------------------------------------------------------ obligations
    def oblige(self, kind, node, goal, clause, extra_meta=None):
        goal = T.as_bool(goal)
        if goal is sp.true:
            return
        fn = self._fnstack[-1]
        ordk = (fn.key, kind)
        # stable ordinal: position of the node among same-kind sites of this function
        site = (fn.key, kind, getattr(node, "lineno", 0), getattr(node, "col_offset", 0))
        if site not in self._ord:
            self._ord[site] = sum(1 for s in self._ord if s[0] == fn.key and s[1] == kind)
        hyps = tuple(self.pc) + tuple(self.facts)
        key = (site, hyps, goal)
        if key in self.obligations:
            return
        nvar = sum(1 for k in self.obligations if k[0] == site)
        oid = f"{fn.key}::{kind}#{self._ord[site]}" + (f".{nvar}" if nvar else "")
        meta = dict(line=getattr(node, "lineno", None), src=(ast.unparse(node)[:120] if node is not None else None),
                    path_condition=[str(c)[:200] for c in self.pc[len(self.pre):]], auto=True)
        if extra_meta:
            meta.update(extra_meta)
        self.obligations[key] = Obligation(oid=oid, fn=fn.key, clause=clause, goal=goal, hyps=list(hyps),
                                           theory="nra", meta=meta)

    def nonzero(self, den, node):
        if not self.defined_checks:
            return
        if isinstance(den, Cx):
            if den.im == 0:
                den = den.re
            else:
                g = sp.Ne(den.abs2(), 0)
                self.oblige("defined", node, g, "definedness: complex divisor != 0")
                return
        den = sp.sympify(den)
        if den.is_number:
            if den == 0:
                self.oblige("defined", node, sp.false, "definedness: division by literal zero")
            return
        self.oblige("defined", node, sp.Ne(den, 0), "definedness: divisor != 0")

    # ------------------------------------------------------------------ statements
    def exec_block(self, stmts, env):
        for st in stmts:
            self.exec_stmt(st, env)

    def exec_stmt(self, st, env):
        m = getattr(self, "st_" + type(st).__name__, None)
        if m is None:
            raise SymExError(f"statement {type(st).__name__} at line {st.lineno} outside subset")
        return m(st, env)

    def st_Pass(self, st, env):
        pass

    def st_Expr(self, st, env):
        if isinstance(st.value, ast.Constant):
            return  # docstring
        self.ev(st.value, env)

    def st_Import(self, st, env):
        pass

    def st_ImportFrom(self, st, env):
        pass

    def st_Global(self, st, env):
        pass

    def st_Assign(self, st, env):
        v = self.ev(st.value, env)
        for t in st.targets:
            self.assign(t, v, env)
        # alias bookkeeping: `x = y` binds the same object (matters for in-place updates when the value is an ndarray at run time)
        if len(st.targets) == 1 and isinstance(st.targets[0], ast.Name) and isinstance(st.value, ast.Name) and T.is_num(v) and not isinstance(v, (bool, int, float)):
            al = env.setdefault("__alias__", {})
            gid = al.get(st.value.id)
            if gid is None:
                gid = al[st.value.id] = ("g", st.value.id, st.lineno)
            al[st.targets[0].id] = gid

    def _alias_live_after(self, st, name):
        """is `name` read after statement st (or anywhere in a loop enclosing st), or is it a parameter of the current function?"""
        fn = self._fnstack[-1]
        node = getattr(fn, "node", None)
        if node is None:
            return True
        if name in getattr(fn, "params", []):
            return True
        spans = [(n.lineno, n.end_lineno) for n in ast.walk(node) if isinstance(n, (ast.For, ast.While)) and n.lineno <= st.lineno <= (n.end_lineno or n.lineno)]
        for n in ast.walk(node):
            if isinstance(n, ast.Name) and n.id == name and isinstance(n.ctx, ast.Load):
                if n.lineno > (st.end_lineno or st.lineno):
                    return True
                if any(a <= n.lineno <= b for a, b in spans) and not (st.lineno <= n.lineno <= (st.end_lineno or st.lineno)):
                    return True
        return False

    def st_AnnAssign(self, st, env):
        if st.value is not None:
            self.assign(st.target, self.ev(st.value, env), env)

    def st_AugAssign(self, st, env):
        cur = self.ev(_load(st.target), env)
        v = self.binop(st.op, cur, self.ev(st.value, env), st)
        if isinstance(cur, NdArr) and isinstance(v, NdArr) and isinstance(st.target, ast.Name):
            # numpy: the update happens inside the existing array object (every alias and every parent of a view sees it)
            root = cur.root()
            old_root = list(root)
            for k in range(len(cur)):
                cur[k] = v[k]
            cur.write_through()
            if root.origin is not None and self.opts.get("alias_check", True):
                goals = []
                for o_, n_ in zip(old_root, root):
                    o_, n_ = T.Cx.of(o_), T.Cx.of(n_)
                    goals += [sp.Eq(n_.re, o_.re), sp.Eq(n_.im, o_.im)]
                self.oblige("frame", st, sp.And(*goals), f"in-place `{st.target.id} {type(st.op).__name__}= ...` writes into the caller's array `{root.origin}` "
                                                          f"(the target is a view of / alias for that argument): the argument must be left unchanged",
                            extra_meta=dict(argument=root.origin, target=st.target.id))
            return
        if isinstance(st.target, ast.Name) and self.opts.get("alias_check", True) and T.is_num(cur) and not isinstance(cur, (bool, int, float)):
            al = env.get("__alias__", {})
            gid = al.get(st.target.id)
            if gid is not None:
                for other, g2 in list(al.items()):
                    if other != st.target.id and g2 == gid and other in env and self._alias_live_after(st, other):
                        a_, b_ = (T.Cx.of(v), T.Cx.of(cur)) if (isinstance(v, T.Cx) or isinstance(cur, T.Cx)) else (None, None)
                        goal = sp.And(sp.Eq(a_.re, b_.re), sp.Eq(a_.im, b_.im)) if a_ is not None else sp.Eq(sp.sympify(v), sp.sympify(cur))
                        self.oblige("alias", st, goal, f"in-place `{st.target.id} {type(st.op).__name__}= ...` acts on the object also named `{other}` (bound by `=`), which is "
                                                       f"used afterwards: with ndarray arguments the update changes `{other}` too, so array and scalar calls differ unless the update is the identity",
                                    extra_meta=dict(alias=other, target=st.target.id))
        self.assign(st.target, v, env)

    def assign(self, t, v, env):
        if isinstance(t, ast.Name):
            env[t.id] = v
            al = env.get("__alias__")
            if al and t.id in al:
                del al[t.id]
        elif isinstance(t, (ast.Tuple, ast.List)):
            vs = list(v) if isinstance(v, (tuple, list)) else None
            if vs is None or len(vs) != len(t.elts):
                raise SymExError(f"cannot unpack {v!r} at line {t.lineno}")
            for a, b in zip(t.elts, vs):
                self.assign(a, b, env)
        elif isinstance(t, ast.Subscript):
            base = self.ev(t.value, env)
            idx = self.ev_index(t.slice, env)
            if isinstance(base, (Pointer, RefCell)):
                base.set(idx, v)
                self.effects.append(("pointer_write", base, idx, v))
            elif isinstance(base, SymArray):
                base.set(idx, v)
                self.effects.append(("array_write", base.name, idx, v))
            elif isinstance(base, (list, dict)):
                if isinstance(base, list):
                    idx = _concrete_int(idx)
                elif not isinstance(idx, (str, tuple, int, bool)) :
                    idx = _hashable(idx)
                base[idx] = v
            else:
                raise SymExError(f"store into {type(base).__name__} at line {t.lineno}")
        elif isinstance(t, ast.Attribute):
            base = self.ev(t.value, env)
            if isinstance(base, Obj):
                cls = base._cls
                if cls is not None and not base.has(t.attr):
                    c, st_ = cls.lookup("setters", t.attr)
                    if st_ is not None:
                        self.call_method(base, MethodFn(c, st_), [v], {}, t)
                        return
                base.setattr(t.attr, v)
                self.effects.append(("attr_write", base, t.attr, v))
            else:
                raise SymExError(f"attribute store on {type(base).__name__} at line {t.lineno}")
        else:
            raise SymExError(f"assignment target {type(t).__name__}")

    def st_If(self, st, env):
        c = self.truth(self.ev(st.test, env), st.test)
        self.exec_block(st.body if c else st.orelse, env)

    def st_Return(self, st, env):
        raise _Return(self.ev(st.value, env) if st.value is not None else None)

    def st_Raise(self, st, env):
        if st.exc is None:
            raise _Raise(Raised("reraise"))
        e = st.exc
        if isinstance(e, ast.Call):
            name = ast.unparse(e.func)
            raise _Raise(Raised(name, tuple(ast.unparse(a) for a in e.args)))
        raise _Raise(Raised(ast.unparse(e)))

    def st_Assert(self, st, env):
        c = self.truth(self.ev(st.test, env), st.test)
        if not c:
            raise _Raise(Raised("AssertionError"))

    def st_For(self, st, env):
        it = _obj_iter(self, st, self.ev(st.iter, env))
        if isinstance(it, dict):
            it = list(it.keys())
        if isinstance(it, SymRange):
            return self.symbolic_for(st, env, it)
        if not isinstance(it, (list, tuple, range)):
            raise SymExError(f"for over non-concrete iterable {type(it).__name__} at line {st.lineno}")
        broke = False
        for x in it:
            self.assign(st.target, T.lit(x) if isinstance(x, (int, float)) and not isinstance(x, bool) else x, env)
            try:
                self.exec_block(st.body, env)
            except _Break:
                broke = True
                break
            except _Continue:
                continue
        if not broke:
            self.exec_block(st.orelse, env)

    def symbolic_for(self, st, env, rng):
        hook = self.opts.get("loop_rule")
        if hook is None:
            raise SymExError(f"loop with symbolic bound at line {st.lineno} needs a loop contract")
        return hook(self, st, env, rng)

    def st_While(self, st, env):
        n = 0
        limit = self.opts.get("while_unroll", 64)
        while True:
            c = self.truth(self.ev(st.test, env), st.test)
            if not c:
                break
            n += 1
            if n > limit:
                raise SymExError(f"while at line {st.lineno}: more than {limit} iterations without a loop contract")
            try:
                self.exec_block(st.body, env)
            except _Break:
                return
            except _Continue:
                continue
        self.exec_block(st.orelse, env)

    def st_Break(self, st, env):
        raise _Break()

    def st_Continue(self, st, env):
        raise _Continue()

    def st_Try(self, st, env):
        try:
            try:
                catches_all = any(h.type is None or ast.unparse(h.type) in ("Exception", "BaseException", "ZeroDivisionError") for h in st.handlers)
                if catches_all:
                    self._try_depth += 1
                try:
                    self.exec_block(st.body, env)
                finally:
                    if catches_all:
                        self._try_depth -= 1
            except _Raise as r:
                handled = False
                for h in st.handlers:
                    names = [] if h.type is None else ([ast.unparse(e) for e in h.type.elts] if isinstance(h.type, ast.Tuple) else [ast.unparse(h.type)])
                    if h.type is None or r.exc.typ in names or "Exception" in names or "BaseException" in names:
                        if h.name:
                            env[h.name] = r.exc
                        self.exec_block(h.body, env)
                        handled = True
                        break
                if not handled:
                    raise
            else:
                self.exec_block(st.orelse, env)
        finally:
            # note: python's finally semantics (runs on return/raise/break as well)
            if st.finalbody:
                self.exec_block(st.finalbody, env)

    def st_FunctionDef(self, st, env):
        env[st.name] = ("localfn", st, env)

    def st_Delete(self, st, env):
        for t in st.targets:
            if isinstance(t, ast.Name):
                env.pop(t.id, None)
            elif isinstance(t, ast.Subscript):
                base = self.ev(t.value, env)
                idx = self.ev_index(t.slice, env)
                if isinstance(base, dict):
                    k = _hashable(idx)
                    if k not in base:
                        raise _Raise(Raised("KeyError", (str(k),)))
                    del base[k]
                elif isinstance(base, list):
                    del base[_concrete_int(idx)]
                else:
                    raise SymExError(f"del on {type(base).__name__} at line {st.lineno}")
            else:
                raise SymExError(f"del target {type(t).__name__} at line {st.lineno}")

    def st_With(self, st, env):
        raise SymExError(f"with-statement at line {st.lineno} outside subset")

    # ------------------------------------------------------------------ expressions
    def truth(self, v, node=None):
        if isinstance(v, bool):
            return v
        if v is None:
            return False
        if isinstance(v, (str, tuple, list, dict)):
            return bool(v)
        if T.is_bool(v):
            return self.decide(v, node)
        if isinstance(v, sp.Expr):
            if v.is_number:
                return v != 0
            return self.decide(sp.Ne(v, 0), node)
        if isinstance(v, Cx):
            return self.decide(sp.Ne(v.abs2(), 0), node)
        return bool(v)

    def ev(self, node, env):
        m = getattr(self, "ev_" + type(node).__name__, None)
        if m is None:
            raise SymExError(f"expression {type(node).__name__} at line {getattr(node, 'lineno', '?')} outside subset")
        return m(node, env)

    def ev_Constant(self, node, env):
        v = node.value
        if isinstance(v, float):
            seg = self._segment(node)
            if seg:
                try:
                    return T.dec(seg)
                except Exception:
                    pass
            return T.lit(v)
        if isinstance(v, complex):
            seg = self._segment(node)
            if seg and seg.endswith(("j", "J")):
                try:
                    return Cx(0, T.dec(seg[:-1]))
                except Exception:
                    pass
            return T.lit(v)
        if isinstance(v, bool) or v is None or isinstance(v, str) or v is Ellipsis:
            return v
        if isinstance(v, int):
            return sp.Integer(v)
        return v

    def _segment(self, node):
        src = self._fnstack[-1].src if self._fnstack else self.fn.src
        try:
            return ast.get_source_segment(src.text, node)
        except Exception:
            return None

    def ev_Name(self, node, env):
        k = node.id
        if k in env:
            return env[k]
        if k in self.genv:
            return self.genv[k]
        g = getattr(self._fnstack[-1], "genv", None)
        if g and k in g:
            return g[k]
        if k in BUILTIN_VALUES:
            return BUILTIN_VALUES[k]
        if k in self.contracts or k in self.inline or k in SHIMS:
            return ("fn", k)
        # a function defined at top level of the same source file is executed in place (its body is real code too)
        if self.opts.get("auto_inline_same_module", True):
            cur = self._fnstack[-1] if self._fnstack else self.fn
            try:
                from .extract import Fn as _Fn, ExtractError as _EE
                try:
                    f2 = _Fn(cur.relpath, k)
                except _EE:
                    f2 = None
                if f2 is not None:
                    self.inline[k] = (f2, None)
                    self.called.add(f2.key)
                    return ("fn", k)
            except Exception:
                pass
        raise SymExError(f"unbound name {k!r} at line {node.lineno}")

    def ev_Tuple(self, node, env):
        return tuple(self.ev(e, env) for e in node.elts)

    def ev_List(self, node, env):
        return [self.ev(e, env) for e in node.elts]

    def ev_Dict(self, node, env):
        d = {}
        abstract = []
        for k, v in zip(node.keys, node.values):
            if k is None:
                x = self.ev(v, env)
                if isinstance(x, dict):
                    d.update(x)
                elif type(x).__name__ == "AbsDict":
                    abstract.append(x)           # {**a, **b} over abstract dictionaries: merged below
                else:
                    raise SymExError(f"** unpacking of {type(x).__name__} in a dict display at line {node.lineno}")
            else:
                d[_hashable(self.ev(k, env))] = self.ev(v, env)
        if abstract:
            # a NEW top-level dictionary whose values are shared with the operands (shallow merge): it may reach whatever they reach.
            # Key order is not part of the abstraction.
            from .heap import AbsDict
            m = AbsDict({f"fresh#display{node.lineno}"}, "{**...}", abstract[0].log)
            for x in abstract:
                m.stored |= x.reach()
                m.known.update(x.known)
            for k_, v_ in d.items():
                m.known[k_ if isinstance(k_, str) else str(k_)] = v_
                if isinstance(v_, AbsDict):
                    m.stored |= v_.reach()
            return m
        return d

    def ev_Set(self, node, env):
        return set(_hashable(self.ev(e, env)) for e in node.elts)

    def ev_JoinedStr(self, node, env):
        out = ""
        for v in node.values:
            if isinstance(v, ast.Constant):
                out += str(v.value)
            else:
                out += str(self.ev(v.value, env))
        return out

    def ev_UnaryOp(self, node, env):
        v = self.ev(node.operand, env)
        if isinstance(node.op, ast.USub):
            return -v
        if isinstance(node.op, ast.UAdd):
            return v
        if isinstance(node.op, ast.Not):
            if T.is_bool(v) and not isinstance(v, bool):
                return sp.Not(v)
            return not self.truth(v, node)
        raise SymExError("unary op")

    def ev_BoolOp(self, node, env):
        is_and = isinstance(node.op, ast.And)
        v = None
        for e in node.values:
            v = self.ev(e, env)
            t = self.truth(v, e)
            if is_and and not t:
                return v if not T.is_bool(v) else False
            if not is_and and t:
                return v if not T.is_bool(v) else True
        return v if not T.is_bool(v) else is_and

    def ev_IfExp(self, node, env):
        c = self.truth(self.ev(node.test, env), node.test)
        return self.ev(node.body if c else node.orelse, env)

    def ev_Compare(self, node, env):
        left = self.ev(node.left, env)
        res = None
        for op, rn in zip(node.ops, node.comparators):
            right = self.ev(rn, env)
            c = self.compare(op, left, right, node)
            res = c if res is None else _and(res, c)
            left = right
        return res

    def compare(self, op, a, b, node):
        if (isinstance(a, NdArr) or isinstance(b, NdArr)) and not isinstance(op, (ast.Is, ast.IsNot, ast.In, ast.NotIn)):
            n_ = len(a) if isinstance(a, NdArr) else len(b)
            ai = list(a) if isinstance(a, NdArr) else [a] * n_
            bi = list(b) if isinstance(b, NdArr) else [b] * n_
            return NdArr([self.compare(op, x_, y_, node) for x_, y_ in zip(ai, bi)])       # numpy: element-wise, an array of booleans
        if isinstance(op, (ast.Is, ast.IsNot)):
            r = (a is b) or (a is None and b is None)
            if isinstance(a, (sp.Basic, Cx)) or isinstance(b, (sp.Basic, Cx)):
                r = (a is b)
            return r if isinstance(op, ast.Is) else not r
        if isinstance(op, (ast.In, ast.NotIn)):
            if isinstance(b, (dict, list, tuple, set, str)):
                r = _hashable(a) in ([_hashable(x) for x in b] if not isinstance(b, (dict, str)) else b)
                return r if isinstance(op, ast.In) else not r
            raise SymExError("`in` on symbolic container")
        if not (T.is_num(a) or isinstance(a, (int, float))) or not (T.is_num(b) or isinstance(b, (int, float))):
            # concrete python comparison (strings, None, tuples ...)
            try:
                r = {ast.Eq: lambda: a == b, ast.NotEq: lambda: a != b, ast.Lt: lambda: a < b, ast.LtE: lambda: a <= b,
                     ast.Gt: lambda: a > b, ast.GtE: lambda: a >= b}[type(op)]()
            except TypeError:
                raise SymExError(f"comparison of {type(a).__name__} and {type(b).__name__}")
            if isinstance(r, bool):
                return r
            return bool(r)
        a, b = _num(a), _num(b)
        if isinstance(a, Cx) or isinstance(b, Cx):
            a, b = Cx.of(a), Cx.of(b)
            if isinstance(op, ast.Eq):
                return sp.And(sp.Eq(a.re, b.re), sp.Eq(a.im, b.im))
            if isinstance(op, ast.NotEq):
                return sp.Or(sp.Ne(a.re, b.re), sp.Ne(a.im, b.im))
            raise SymExError("ordering of complex values")
        f = {ast.Eq: sp.Eq, ast.NotEq: sp.Ne, ast.Lt: sp.Lt, ast.LtE: sp.Le, ast.Gt: sp.Gt, ast.GtE: sp.Ge}[type(op)]
        r = f(a, b)
        if r is sp.true:
            return True
        if r is sp.false:
            return False
        return r

    def ev_BinOp(self, node, env):
        a = self.ev(node.left, env)
        b = self.ev(node.right, env)
        return self.binop(node.op, a, b, node)

    def binop(self, op, a, b, node):
        if isinstance(a, NdArr) or isinstance(b, NdArr):
            n_ = len(a) if isinstance(a, NdArr) else len(b)
            if isinstance(a, NdArr) and isinstance(b, NdArr) and len(a) != len(b):
                raise SymExError("ndarray shapes differ")
            ai = list(a) if isinstance(a, NdArr) else [a] * n_
            bi = list(b) if isinstance(b, NdArr) else [b] * n_
            return NdArr([self.binop(op, x_, y_, node) for x_, y_ in zip(ai, bi)])
        # strings / lists / tuples
        if isinstance(a, str) or isinstance(b, str):
            if isinstance(op, ast.Add):
                return a + b
            if isinstance(op, ast.Mod):
                return a % (b if not isinstance(b, sp.Basic) else str(b))
            if isinstance(op, ast.Mult):
                return a * _concrete_int(b) if isinstance(a, str) else _concrete_int(a) * b
            raise SymExError("string op")
        if isinstance(a, (list, tuple)) and isinstance(b, (list, tuple)) and isinstance(op, ast.Add):
            return a + b
        if isinstance(a, (list, tuple)) and isinstance(op, ast.Mult):
            return a * _concrete_int(b)
        # boolean masks: (cond) * value
        if T.is_bool(a):
            a = sp.Integer(1) if self.truth(a, node) else sp.Integer(0)
        if T.is_bool(b):
            b = sp.Integer(1) if self.truth(b, node) else sp.Integer(0)
        a, b = _num(a), _num(b)
        if isinstance(op, ast.Add):
            return a + b
        if isinstance(op, ast.Sub):
            return a - b
        if isinstance(op, ast.Mult):
            return a * b
        if isinstance(op, ast.Div):
            if self.opts.get("havoc_div_in_try") and self._try_depth > 0 and not (isinstance(b, sp.Expr) and b.is_number and b != 0):
                return fresh("havoc_div")
            self.nonzero(b, node)
            if isinstance(b, sp.Expr) and b.is_number and b == 0:
                raise _Raise(Raised("ZeroDivisionError"))
            if isinstance(a, Cx) or isinstance(b, Cx):
                return Cx.of(a) / Cx.of(b)
            return a / b
        if isinstance(op, ast.Pow):
            return self.power(a, b, node)
        if isinstance(op, (ast.FloorDiv, ast.Mod)):
            if isinstance(a, sp.Expr) and isinstance(b, sp.Expr) and a.is_Integer and b.is_Integer:
                if b == 0:
                    raise _Raise(Raised("ZeroDivisionError"))
                return sp.Integer(int(a) // int(b)) if isinstance(op, ast.FloorDiv) else sp.Integer(int(a) % int(b))
            if isinstance(a, sp.Expr) and isinstance(b, sp.Expr) and a.is_Rational and b.is_Rational and b != 0:
                q = sp.floor(a / b)
                return q if isinstance(op, ast.FloorDiv) else a - q * b
            raise SymExError(f"symbolic // or % at line {node.lineno}")
        if isinstance(op, (ast.BitAnd, ast.BitOr, ast.BitXor, ast.LShift, ast.RShift)):
            if isinstance(a, sp.Expr) and isinstance(b, sp.Expr) and a.is_Integer and b.is_Integer:
                x, y = int(a), int(b)
                return sp.Integer({ast.BitAnd: x & y, ast.BitOr: x | y, ast.BitXor: x ^ y, ast.LShift: x << y if isinstance(op, ast.LShift) else 0,
                                   ast.RShift: x >> y if isinstance(op, ast.RShift) else 0}[type(op)])
            raise SymExError("bit operation on symbolic numbers")
        raise SymExError(f"binary operator {type(op).__name__}")

    def power(self, a, b, node):
        if isinstance(b, Cx):
            if b.im == 0:
                b = b.re
            else:
                raise SymExError("complex exponent")
        b = sp.sympify(b)
        if b.is_Integer:
            n = int(b)
            if n < 0:
                self.nonzero(a, node)
            if isinstance(a, Cx):
                return a.ipow(n)
            return a ** n
        if isinstance(a, Cx):
            if a.im == 0:
                a = a.re
            else:
                raise SymExError(f"complex ** non-integer at line {node.lineno}")
        if b.is_Rational and b == sp.Rational(1, 2):
            return self.sqrt(a, node)
        if b.is_Rational and b == sp.Rational(-1, 2):
            s = self.sqrt(a, node)
            self.nonzero(s, node)
            return 1 / s
        if b.is_Rational and b == sp.Rational(1, 3):
            return T.cbrt_(a)
        if a.is_number and a == 0:
            return sp.Integer(0)
        if not (a.is_number and a > 0):
            self.oblige("defined", node, sp.Gt(a, 0), "definedness: base of non-integer power > 0")
        return T.pow_(a, b)

    def sqrt(self, a, node):
        if isinstance(a, Cx):
            if a.im == 0:
                a = a.re
            else:
                raise SymExError("sqrt of complex")
        a = sp.sympify(a)
        if a.is_number:
            if a < 0:
                self.oblige("defined", node, sp.false, "definedness: sqrt of negative literal")
            r = sp.sqrt(a)
            if r.is_Rational:
                return r
        else:
            self.oblige("defined", node, sp.Ge(a, 0), "definedness: sqrt argument >= 0")
        return T.sqrt_(a)

    def ev_index(self, sl, env):
        if isinstance(sl, ast.Tuple):
            return tuple(self.ev_index(e, env) for e in sl.elts)
        if isinstance(sl, ast.Slice):
            return slice(self.ev(sl.lower, env) if sl.lower else None, self.ev(sl.upper, env) if sl.upper else None,
                         self.ev(sl.step, env) if sl.step else None)
        return self.ev(sl, env)

    def ev_Subscript(self, node, env):
        base = self.ev(node.value, env)
        idx = self.ev_index(node.slice, env)
        if isinstance(base, (SymArray, ArrayView, Pointer, RefCell)):
            return base.get(idx)
        if isinstance(base, dict):
            k = _hashable(idx)
            if k not in base:
                raise _Raise(Raised("KeyError", (str(k),)))
            return base[k]
        if isinstance(base, (list, tuple, str)):
            if isinstance(idx, slice):
                return base[slice(_ci(idx.start), _ci(idx.stop), _ci(idx.step))]
            i = _concrete_int(idx)
            if not -len(base) <= i < len(base):
                raise _Raise(Raised("IndexError"))
            return base[i]
        if T.is_num(base):
            # scalar "array": x[()] / broadcasting no-op
            return base
        raise SymExError(f"subscript of {type(base).__name__} at line {node.lineno}")

    def ev_Attribute(self, node, env):
        base = self.ev(node.value, env)
        a = node.attr
        if isinstance(base, Namespace):
            return base.get(a)
        if isinstance(base, SuperProxy):
            if "=super." + a in self.contracts:       # explicit override of a modelled base method
                return ("method_contract", base.obj, self.contracts["=super." + a])
            mro = base.obj._cls.mro()
            after = mro[mro.index(base.cls) + 1:] if base.cls in mro else mro
            for c in after:
                if a in c.methods:
                    return ("method", base.obj, MethodFn(c, c.methods[a]))
            if ".super." + a in self.contracts:
                return ("method_contract", base.obj, self.contracts[".super." + a])
            raise SymExError(f"super().{a}: no such method in the modelled bases of {base.cls.name}")
        if isinstance(base, Obj):
            if base.has(a):
                return base.getattr(a)
            cls = base._cls
            if cls is not None:
                c, g = cls.lookup("getters", a)
                if g is not None:
                    return self.call_method(base, MethodFn(c, g), [], {}, node)
                c, m = cls.lookup("methods", a)
                if m is not None:
                    return ("method", base, MethodFn(c, m))
                for cc in cls.mro():
                    if a in cc.class_attrs:
                        self._fnstack.append(MethodFn(cc, cc.node.body[0]) if False else self._fnstack[-1])
                        try:
                            return self.ev(cc.class_attrs[a], {})
                        finally:
                            self._fnstack.pop()
            return base.getattr(a)
        if T.is_num(base):
            if a == "real":
                return base.re if isinstance(base, Cx) else base
            if a == "imag":
                return base.im if isinstance(base, Cx) else sp.Integer(0)
            if a in ("conjugate", "conj", "copy"):
                return ("bound", a, base)
            if a in ("shape", "size", "dtype", "ndim"):
                raise SymExError(f".{a} of scalar term")
        if isinstance(base, (dict, list, str, tuple, set)):
            return ("bound", a, base)
        if isinstance(base, SymArray):
            if a == "size" and base.shape is not None:
                return base.shape[0]
            if a == "shape" and base.shape is not None:
                return tuple(base.shape)
            return ("bound", a, base)
        raise SymExError(f"attribute .{a} of {type(base).__name__} at line {node.lineno}")

    def ev_Call(self, node, env):
        if isinstance(node.func, ast.Name) and node.func.id == "super" and not node.args:
            cur = self._fnstack[-1]
            if not isinstance(cur, MethodFn) or "self" not in env:
                raise SymExError("super() outside a method")
            return SuperProxy(env["self"], cur.cls)
        if isinstance(node.func, ast.Name) and node.func.id == "ADDR" and len(node.args) == 1:
            return self.address_of(node.args[0], env)
        f = self.ev(node.func, env)
        args = []
        for a in node.args:
            if isinstance(a, ast.Starred):
                args += list(self.ev(a.value, env))
            else:
                args.append(self.ev(a, env))
        kwargs = {}
        for k in node.keywords:
            if k.arg is None:
                kwargs.update(self.ev(k.value, env))
            else:
                kwargs[k.arg] = self.ev(k.value, env)
        return self.call(f, args, kwargs, node)

    def address_of(self, target, env):
        """&x (translated ADDR(x)): pointer into an array, or a reference cell for a scalar variable / attribute"""
        if isinstance(target, ast.Subscript):
            base = self.ev(target.value, env)
            idx = self.ev_index(target.slice, env)
            if isinstance(base, Pointer):
                return Pointer(base.base, base.offset + sp.sympify(idx))
            if isinstance(base, (SymArray, list)) or hasattr(base, "get"):
                return Pointer(base, sp.sympify(idx) if not isinstance(idx, tuple) else idx)
            raise SymExError(f"address of element of {type(base).__name__}")
        if isinstance(target, ast.Name):
            return RefCell(env, target.id)
        if isinstance(target, ast.Attribute):
            return RefCell(self.ev(target.value, env), target.attr)
        raise SymExError("address-of expression")

    def call(self, f, args, kwargs, node):
        if isinstance(f, tuple) and f and f[0] == "fn":
            name = f[1]
            if name in self.contracts:
                return self.call_contract(self.contracts[name], args, kwargs, node)
            if name in self.inline:
                return self.call_inline(name, args, kwargs, node)
            if name in SHIMS:
                return SHIMS[name](self, node, *args, **kwargs)
            raise SymExError(f"call of {name!r} at line {node.lineno}: no contract, shim or inline body")
        if isinstance(f, tuple) and f and f[0] == "bound":
            return self.call_bound(f[1], f[2], args, kwargs, node)
        if isinstance(f, tuple) and f and f[0] == "method":
            return self.call_method(f[1], f[2], args, kwargs, node)
        if isinstance(f, tuple) and f and f[0] == "method_contract":
            return self.call_contract(f[2], [f[1]] + list(args), kwargs, node)
        if isinstance(f, tuple) and f and f[0] == "localfn":
            raise SymExError("call of nested function")
        if isinstance(f, Contract):
            return self.call_contract(f, args, kwargs, node)
        if callable(f):
            return f(self, node, *args, **kwargs)
        raise SymExError(f"call of non-function {f!r} at line {node.lineno}")

    def call_contract(self, c: Contract, args, kwargs, node):
        if c.params:
            bound = dict(zip(c.params, args))
            bound.update(kwargs)
            cargs = [bound.get(p) for p in c.params]
        else:
            cargs = list(args) + list(kwargs.values())
        if c.requires:
            for label, g in c.requires(*cargs):
                self.oblige("pre", node, g, f"precondition of {c.name}: {label}")
        res = c.result(*cargs) if c.result else fresh(c.name)
        if getattr(c, "effect", None):
            c.effect(self, res, *cargs)
        if c.ensures:
            for fct in c.ensures(res, *cargs):
                fct = T.as_bool(fct)
                if fct is not sp.true:
                    self.facts.append(fct)
        return res

    def call_inline(self, name, args, kwargs, node):
        fn, genv = self.inline[name]
        env = dict(zip(fn.params, args))
        for k, v in kwargs.items():
            if k not in fn.params and k not in fn.kwonly:
                raise SymExError(f"{name}: unexpected keyword {k}")
            env[k] = v
        saved = self.genv
        self._fnstack.append(fn)
        if genv is not None:
            self.genv = dict(genv)
        try:
            for p, d in fn.defaults.items():
                if p not in env:
                    env[p] = self.ev(d, {})
            missing = [p for p in fn.params if p not in env]
            if missing:
                raise SymExError(f"{name}: missing arguments {missing}")
            try:
                self.exec_block(fn.node.body, env)
                return None
            except _Return as r:
                return r.v
        finally:
            self._fnstack.pop()
            self.genv = saved

    def call_method(self, obj, mfn, args, kwargs, node):
        cname = f"{mfn.cls.name}.{mfn.node.name}"
        c = self.contracts.get(cname) or self.contracts.get("." + mfn.node.name)
        if c is not None:
            return self.call_contract(c, [obj] + list(args), kwargs, node)
        depth = sum(1 for f in self._fnstack if getattr(f, "key", None) == mfn.key)
        if depth > self.opts.get("max_recursion", 3):
            raise SymExError(f"recursion depth exceeded in {mfn.key}")
        allargs = [obj] + list(args)
        env = dict(zip(mfn.params, allargs))
        if mfn.vararg:
            env[mfn.vararg] = tuple(allargs[len(mfn.params):])
        elif len(allargs) > len(mfn.params):
            raise SymExError(f"{mfn.key}: too many positional arguments")
        if mfn.kwarg:
            env[mfn.kwarg] = {}
        for k, v in kwargs.items():
            if k not in mfn.params and k not in mfn.kwonly:
                if mfn.kwarg:
                    env[mfn.kwarg][k] = v
                    continue
                raise SymExError(f"{mfn.key}: unexpected keyword {k}")
            env[k] = v
        self._fnstack.append(mfn)
        self.called.add(mfn.key)
        try:
            for p, d in mfn.defaults.items():
                if p not in env:
                    env[p] = self.ev(d, {})
            missing = [p for p in mfn.params if p not in env]
            if missing:
                raise SymExError(f"{mfn.key}: missing arguments {missing}")
            try:
                self.exec_block(mfn.node.body, env)
                return None
            except _Return as r:
                return r.v
        finally:
            self._fnstack.pop()

    def call_bound(self, meth, base, args, kwargs, node):
        if T.is_num(base):
            if meth in ("conjugate", "conj"):
                return base.conj() if isinstance(base, Cx) else base
            if meth == "copy":
                return base
        if isinstance(base, dict):
            if meth == "items":
                return list(base.items())
            if meth == "keys":
                return list(base.keys())
            if meth == "values":
                return list(base.values())
            if meth == "get":
                return base.get(_hashable(args[0]), args[1] if len(args) > 1 else None)
            if meth == "copy":
                return dict(base)
            if meth == "update":
                base.update(args[0])
                return None
            if meth == "setdefault":
                return base.setdefault(_hashable(args[0]), args[1] if len(args) > 1 else None)
            if meth == "pop":
                k_ = _hashable(args[0])
                if k_ in base:
                    return base.pop(k_)
                if len(args) > 1:
                    return args[1]
                raise _Raise(Raised("KeyError", (str(k_),)))
        if isinstance(base, list):
            if meth == "append":
                base.append(args[0])
                return None
            if meth == "copy":
                return list(base)
            if meth == "extend":
                base.extend(args[0])
                return None
        if isinstance(base, str):
            if meth in ("lower", "upper", "strip", "startswith", "endswith", "replace", "split", "format", "join", "title", "rstrip", "lstrip", "capitalize", "isdigit"):
                return getattr(base, meth)(*args, **kwargs)
        if isinstance(base, SymArray) and meth == "copy":
            return base
        raise SymExError(f"method .{meth} on {type(base).__name__} at line {node.lineno}")

    def ev_Lambda(self, node, env):
        """a closure with Python's semantics: default values are evaluated NOW, free variables are looked up in the defining scope WHEN THE LAMBDA IS
        CALLED (late binding: a lambda made in a loop sees the loop variable's final value unless it is bound through a default argument)"""
        a_ = node.args
        if a_.vararg or a_.kwarg or a_.kwonlyargs or a_.posonlyargs:
            raise SymExError("lambda with */** / keyword-only parameters outside subset")
        params = [x_.arg for x_ in a_.args]
        defaults = [self.ev(d_, env) for d_ in a_.defaults]
        first_default = len(params) - len(defaults)

        def closure(ex, call_node, *args, **kwargs):
            if len(args) > len(params):
                raise SymExError("too many arguments for lambda")
            local = {}
            for i_, pn_ in enumerate(params):
                if i_ < len(args):
                    local[pn_] = args[i_]
                elif pn_ in kwargs:
                    local[pn_] = kwargs[pn_]
                elif i_ >= first_default:
                    local[pn_] = defaults[i_ - first_default]
                else:
                    raise SymExError(f"lambda missing argument {pn_}")
            scope = dict(env)          # the defining scope as it is at call time
            scope.update(local)
            return ex.ev(node.body, scope)
        return closure

    def ev_ListComp(self, node, env):
        return list(self._comp(node, node.elt, env))

    def ev_GeneratorExp(self, node, env):
        return list(self._comp(node, node.elt, env))

    def ev_DictComp(self, node, env):
        out = {}
        for e2 in self._comp_envs(node.generators, dict(env)):
            out[_hashable(self.ev(node.key, e2))] = self.ev(node.value, e2)
        return out

    def _comp(self, node, elt, env):
        for e2 in self._comp_envs(node.generators, dict(env)):
            yield self.ev(elt, e2)

    def _comp_envs(self, gens, env):
        if not gens:
            yield env
            return
        g = gens[0]
        it = self.ev(g.iter, env)
        if isinstance(it, dict):
            it = list(it.keys())
        if not isinstance(it, (list, tuple, range)):
            raise SymExError("comprehension over non-concrete iterable")
        for x in it:
            e2 = dict(env)
            self.assign(g.target, T.lit(x) if isinstance(x, (int, float)) and not isinstance(x, bool) else x, e2)
            if all(self.truth(self.ev(c, e2), c) for c in g.ifs):
                yield from self._comp_envs(gens[1:], e2)


class SymRange:
    def __init__(self, start, stop, step=1):
        self.start, self.stop, self.step = start, stop, step


class Namespace:
    """module-like object (np, math, ...) resolved attribute-wise"""

    def __init__(self, name, table):
        self.name = name
        self.table = table

    def get(self, a):
        if a in self.table:
            return self.table[a]
        # a contract's own numpy namespace overrides what it needs; everything else falls back to the default scalar shims (so that a
        # harmless new np.sqrt / np.real in the source does not leave the subset)
        if self.name in ("np", "numpy") and a in _NP and _NP[a] is not None:
            return _NP[a]
        raise SymExError(f"{self.name}.{a} is not modelled")


def _load(t):
    import copy
    t2 = copy.deepcopy(t)
    for n in ast.walk(t2):
        if hasattr(n, "ctx"):
            n.ctx = ast.Load()
    return t2


def _and(a, b):
    if a is True:
        return b
    if b is True:
        return a
    if a is False or b is False:
        return False
    return sp.And(a, b)


def _num(v):
    if isinstance(v, bool):
        return sp.Integer(int(v))
    if isinstance(v, (int, float)):
        return T.lit(v)
    if isinstance(v, (sp.Expr, Cx)):
        return v
    raise SymExError(f"numeric operation on {type(v).__name__}: {str(v)[:60]}")


def _concrete_int(v):
    if isinstance(v, bool):
        return int(v)
    if isinstance(v, int):
        return v
    if isinstance(v, sp.Expr) and v.is_Integer:
        return int(v)
    if isinstance(v, sp.Expr) and v.is_Rational and v.q == 1:
        return int(v)
    raise SymExError(f"concrete integer required, got {v!r}")


def _ci(v):
    return None if v is None else _concrete_int(v)


def _hashable(v):
    if isinstance(v, sp.Expr) and v.is_Integer:
        return int(v)
    if isinstance(v, sp.Expr) and v.is_Rational:
        return float(v)
    if isinstance(v, list):
        return tuple(_hashable(x) for x in v)
    if isinstance(v, tuple):
        return tuple(_hashable(x) for x in v)
    return v


# ---------------------------------------------------------------------------------------------
# shims: numpy / math / builtins on terms
def _sh_sqrt(ex, node, x):
    if isinstance(x, Cx) and x.im != 0:
        raise SymExError("np.sqrt of complex")
    return ex.sqrt(x, node)


def _sh_cbrt(ex, node, x):
    return T.cbrt_(_real(x))


def _real(x):
    x = _num(x)
    if isinstance(x, Cx):
        if x.im == 0:
            return x.re
        raise SymExError("real argument expected")
    return x


def _sh_abs(ex, node, x):
    x = _num(x)
    if isinstance(x, Cx):
        if x.im == 0:
            x = x.re
        else:
            return T.sqrt_(x.abs2())
    if x.is_number:
        return abs(x)
    return x if ex.decide(sp.Ge(x, 0), node) else -x


def _sh_exp(ex, node, x):
    x = _num(x)
    if isinstance(x, Cx):
        if x.im == 0:
            return T.exp_(x.re)
        return Cx(T.exp_(x.re) * T.cos_(x.im), T.exp_(x.re) * T.sin_(x.im))
    if x == 0:
        return sp.Integer(1)
    return T.exp_(x)


def _sh_log(ex, node, x):
    x = _real(x)
    if x.is_number and x == 1:
        return sp.Integer(0)
    if not (x.is_number and x > 0):
        ex.oblige("defined", node, sp.Gt(x, 0), "definedness: log argument > 0")
    return T.log_(x)


def _sh_sin(ex, node, x):
    x = _real(x)
    return sp.Integer(0) if x == 0 else T.sin_(x)


def _sh_cos(ex, node, x):
    x = _real(x)
    return sp.Integer(1) if x == 0 else T.cos_(x)


def _sh_tan(ex, node, x):
    return T.tan_(_real(x))


def _sh_real(ex, node, x):
    if isinstance(x, NdArr):
        return NdArr([_sh_real(ex, node, v) for v in x], view=(x, "re"))
    if isinstance(x, (list, tuple)):
        return [_sh_real(ex, node, v) for v in x]
    x = _num(x)
    return x.re if isinstance(x, Cx) else x


def _sh_imag(ex, node, x):
    if isinstance(x, NdArr):
        return NdArr([_sh_imag(ex, node, v) for v in x], view=(x, "im"))
    if isinstance(x, (list, tuple)):
        return [_sh_imag(ex, node, v) for v in x]
    x = _num(x)
    return x.im if isinstance(x, Cx) else sp.Integer(0)


def _sh_conj(ex, node, x):
    x = _num(x)
    return x.conj() if isinstance(x, Cx) else x


def _sh_float(ex, node, x=0):
    if isinstance(x, str):
        return T.dec(x)
    return _real(x)


def _sh_int(ex, node, x=0):
    if isinstance(x, str):
        return sp.Integer(int(x))
    x = _real(x)
    if x.is_number:
        return sp.Integer(int(x))
    raise SymExError("int() of symbolic value")


def _sh_complex(ex, node, a=0, b=0):
    return Cx(_real(a), _real(b))


def _sh_len(ex, node, x):
    if isinstance(x, SymArray) and x.shape:
        return x.shape[0]
    if isinstance(x, (list, tuple, dict, str, set)):
        return sp.Integer(len(x))
    raise SymExError("len of symbolic value")


def _sh_range(ex, node, *a):
    try:
        return range(*[_concrete_int(x) for x in a])
    except SymExError:
        a = [sp.sympify(x) for x in a]
        if len(a) == 1:
            return SymRange(sp.Integer(0), a[0])
        if len(a) == 2:
            return SymRange(a[0], a[1])
        return SymRange(a[0], a[1], a[2])


def _sh_max(ex, node, *a):
    if len(a) == 1 and isinstance(a[0], (list, tuple)):
        a = a[0]
    r = _real(a[0])
    for x in a[1:]:
        x = _real(x)
        c = ex.compare(ast.Gt(), x, r, node)
        r = x if ex.truth(c, node) else r
    return r


def _sh_min(ex, node, *a):
    if len(a) == 1 and isinstance(a[0], (list, tuple)):
        a = a[0]
    r = _real(a[0])
    for x in a[1:]:
        x = _real(x)
        c = ex.compare(ast.Lt(), x, r, node)
        r = x if ex.truth(c, node) else r
    return r


def _sh_sign(ex, node, x):
    x = _real(x)
    if ex.decide(sp.Gt(x, 0), node):
        return sp.Integer(1)
    if ex.decide(sp.Lt(x, 0), node):
        return sp.Integer(-1)
    return sp.Integer(0)


def _sh_isinstance(ex, node, x, t):
    names = t if isinstance(t, tuple) else (t,)
    names = [n if isinstance(n, str) else getattr(n, "__name__", str(n)) for n in names]
    names = [n[1] if isinstance(n, tuple) and len(n) == 2 and n[0] == "fn" else n for n in names]
    if isinstance(x, Obj):
        return "WORLD_TYPES" in names or "object" in names
    if "ndarray" in names and len(names) == 1:
        return isinstance(x, SymArray)
    if isinstance(x, SymArray):
        return "ndarray" in names
    if isinstance(x, Cx):
        return "complex" in names
    if isinstance(x, sp.Expr):
        if x.is_Integer:
            return "int" in names or "float" in names and False
        return "float" in names
    for n in names:
        if n == "str" and isinstance(x, str):
            return True
        if n == "dict" and isinstance(x, dict):
            return True
        if n == "list" and isinstance(x, list):
            return True
        if n == "tuple" and isinstance(x, tuple):
            return True
        if n == "bool" and isinstance(x, bool):
            return True
    return False


def _sh_sum(ex, node, x, start=0):
    if isinstance(x, (list, tuple)) and any(isinstance(v, NdArr) for v in x):
        r = start                      # builtin sum: ((start + a0) + a1) + ... ; `+` on ndarrays is element-wise and returns a fresh array
        for v in x:
            r = ex.binop(ast.Add(), r, v, node)
        return r
    if isinstance(x, (list, tuple)):
        r = _num(start)
        for v in x:
            r = r + _num(v)
        return r
    raise SymExError("sum of symbolic container")


class TypeTag(str):
    pass


def _sh_type(ex, node, x):
    if isinstance(x, SymArray):
        return "ndarray"
    if isinstance(x, bool):
        return ("fn", "bool")
    if isinstance(x, Cx):
        return ("fn", "complex")
    if isinstance(x, sp.Expr):
        return ("fn", "int") if x.is_Integer else ("fn", "float")
    if isinstance(x, str):
        return ("fn", "str")
    if isinstance(x, tuple):
        return ("fn", "tuple")
    if isinstance(x, list):
        return ("fn", "list")
    if isinstance(x, dict):
        return ("fn", "dict")
    if x is None:
        return "NoneType"
    return type(x).__name__


def _sh_any(ex, node, x):
    for v in x:
        if ex.truth(v, node):
            return True
    return False


def _sh_all(ex, node, x):
    for v in x:
        if not ex.truth(v, node):
            return False
    return True


def _sh_isnan(ex, node, x):
    return False


def _sh_identity(ex, node, x, *a, **k):
    return x


def _sh_ones_like(ex, node, x, **k):
    return sp.Integer(1)


def _sh_zeros_like(ex, node, x, **k):
    return sp.Integer(0)


def _sh_print(ex, node, *a, **k):
    return None


_arrn = itertools.count()


def _sh_empty(ex, node, shape, dtype=None, **k):
    shp = tuple(shape) if isinstance(shape, (tuple, list)) else (shape,)
    cx = dtype is not None and "complex" in str(dtype)
    return SymArray(f"arr{next(_arrn)}", complex_=cx, shape=shp)


def _sh_power(ex, node, a, b):
    return ex.power(_num(a), _num(b), node)


def _sh_tuple(ex, node, x=()):
    return tuple(x)


def _sh_list(ex, node, x=()):
    return list(x)


def _sh_dict(ex, node, x=None, **k):
    d = dict(x) if x else {}
    d.update(k)
    return d


def _sh_zip(ex, node, *a):
    return list(zip(*a))


def _obj_iter(ex, node, x):
    """iteration over an object of a modelled class: its real __iter__ is executed (iter(<concrete sequence>) is the sequence)"""
    if isinstance(x, Obj) and x._cls is not None:
        c, n = x._cls.lookup("methods", "__iter__")
        if n is None:
            raise SymExError(f"object of class {x._cls.name} is not iterable (no __iter__ in the modelled classes)")
        return ex.call_method(x, MethodFn(c, n), [], {}, node)
    return x


def _sh_iter(ex, node, x):
    x = _obj_iter(ex, node, x)
    if not isinstance(x, (list, tuple, range, dict)):
        raise SymExError("iter() over a non-concrete iterable")
    return list(x)


def _sh_enumerate(ex, node, x, start=0):
    x = _obj_iter(ex, node, x)
    return [(sp.Integer(i), v) for i, v in enumerate(x, _concrete_int(start))]


def _sh_str(ex, node, x=""):
    return str(x)


def _sh_bool(ex, node, x=False):
    return ex.truth(x, node)


def _sh_reversed(ex, node, x):
    return list(reversed(x))


def _sh_sorted(ex, node, x, **k):
    return sorted(x)


def _elementwise(f):
    def g(ex, node, x, *a, **k):
        if isinstance(x, NdArr):
            return NdArr([f(ex, node, v, *a, **k) for v in x])
        return f(ex, node, x, *a, **k)
    g.__name__ = f.__name__
    return g


_sh_abs, _sh_sqrt, _sh_cbrt, _sh_exp, _sh_log, _sh_sin, _sh_cos, _sh_tan, _sh_sign, _sh_conj, _sh_float = [_elementwise(f_) for f_ in
    (_sh_abs, _sh_sqrt, _sh_cbrt, _sh_exp, _sh_log, _sh_sin, _sh_cos, _sh_tan, _sh_sign, _sh_conj, _sh_float)]


def _np_binary(f):
    """numpy's two-argument element-wise functions (np.maximum, np.minimum): arrays broadcast against scalars"""
    def g(ex, node, x, y):
        if isinstance(x, NdArr) or isinstance(y, NdArr):
            n_ = len(x) if isinstance(x, NdArr) else len(y)
            xs = list(x) if isinstance(x, NdArr) else [x] * n_
            ys = list(y) if isinstance(y, NdArr) else [y] * n_
            if len(xs) != len(ys):
                raise SymExError("operands could not be broadcast together")
            return NdArr([f(ex, node, a_, b_) for a_, b_ in zip(xs, ys)])
        return f(ex, node, x, y)
    return g


def _np_reduce(f):
    """np.max / np.min / np.amax / np.amin over a 1-D array (a scalar is its own maximum)"""
    def g(ex, node, x, axis=None):
        if isinstance(x, (NdArr, list, tuple)):
            if len(x) == 0:
                raise SymExError("reduction of an empty array")
            return f(ex, node, *list(x))
        return x
    return g


def _sh_np_any(ex, node, x):
    return _sh_any(ex, node, list(x) if isinstance(x, (list, tuple)) else [x])


def _sh_np_all(ex, node, x):
    return _sh_all(ex, node, list(x) if isinstance(x, (list, tuple)) else [x])


SHIMS = {
    "abs": _sh_abs, "float": _sh_float, "int": _sh_int, "complex": _sh_complex, "len": _sh_len, "range": _sh_range,
    "prange": _sh_range, "max": _sh_max, "min": _sh_min, "isinstance": _sh_isinstance, "sum": _sh_sum, "print": _sh_print,
    "tuple": _sh_tuple, "list": _sh_list, "dict": _sh_dict, "zip": _sh_zip, "enumerate": _sh_enumerate, "iter": _sh_iter, "str": _sh_str,
    "bool": _sh_bool, "reversed": _sh_reversed, "sorted": _sh_sorted, "type": _sh_type, "any": _sh_any, "all": _sh_all,
}

_NP = {
    "sqrt": _sh_sqrt, "cbrt": _sh_cbrt, "abs": _sh_abs, "absolute": _sh_abs, "fabs": _sh_abs, "exp": _sh_exp, "log": _sh_log,
    "sin": _sh_sin, "cos": _sh_cos, "tan": _sh_tan, "real": _sh_real, "imag": _sh_imag, "conj": _sh_conj,
    "conjugate": _sh_conj, "pi": T.PI, "sign": _sh_sign, "isnan": _sh_isnan, "power": _sh_power,
    "asarray": _sh_identity, "ascontiguousarray": _sh_identity, "copy": _sh_identity, "ones_like": _sh_ones_like,
    "zeros_like": _sh_zeros_like, "float64": _sh_float, "complex128": "complex128", "maximum": _np_binary(_sh_max), "minimum": _np_binary(_sh_min), "max": _np_reduce(_sh_max), "min": _np_reduce(_sh_min), "amax": _np_reduce(_sh_max), "amin": _np_reduce(_sh_min),
    "any": _sh_np_any, "all": _sh_np_all,
    "ndarray": "ndarray", "inf": sp.oo, "e": None, "empty": _sh_empty, "zeros": _sh_empty, "complex128_t": "complex128",
}
NP = Namespace("np", _NP)
MATH = Namespace("math", {"sqrt": _sh_sqrt, "exp": _sh_exp, "log": _sh_log, "sin": _sh_sin, "cos": _sh_cos, "pi": T.PI,
                          "fabs": _sh_abs, "isnan": _sh_isnan, "pow": _sh_power, "cbrt": _sh_cbrt})
def _noop(ex, node, *a, **k):
    return None


LOG = Namespace("log", {k: _noop for k in ("debug", "info", "warning", "error", "critical", "exception")})
BUILTIN_VALUES = {"log": LOG, "True": True, "False": False, "None": None, "np": NP, "numpy": NP, "math": MATH,
                  "float": ("fn", "float"), "int": ("fn", "int"), "complex": ("fn", "complex"), "str": ("fn", "str"),
                  "dict": ("fn", "dict"), "list": ("fn", "list"), "tuple": ("fn", "tuple"), "bool": ("fn", "bool")}
for _k in SHIMS:
    BUILTIN_VALUES.setdefault(_k, ("fn", _k))
