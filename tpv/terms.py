"""Term language of the symbolic executor.

Reals / formal field elements are sympy expressions over exact rationals; complex values are
(re, im) pairs (class Cx) with the field operations expanded; booleans are sympy Boolean terms.
Transcendental functions are *uninterpreted* (sqrt_, exp_, ...) so that sympy never rewrites them;
their meaning enters only through the axiom schemas in AXIOMS (DESIGN section 6, item 4).
"""
from __future__ import annotations
import sympy as sp
from fractions import Fraction

# ---------------------------------------------------------------------------------------------
# uninterpreted functions
def _uf(name, nargs=1):
    return sp.Function(name, real=True)

sqrt_ = _uf("sqrt_")
cbrt_ = _uf("cbrt_")
exp_ = _uf("exp_")
log_ = _uf("log_")
sin_ = _uf("sin_")
cos_ = _uf("cos_")
tan_ = _uf("tan_")
abs_ = _uf("abs_")
sign_ = _uf("sign_")
pow_ = _uf("pow_")          # pow_(x, a): x**a for symbolic / non-integer a
tgamma_ = _uf("tgamma_")
atan2_ = _uf("atan2_")
floor_ = _uf("floor_")
PI = sp.Symbol("pi_", real=True)

UF = dict(sqrt_=sqrt_, cbrt_=cbrt_, exp_=exp_, log_=log_, sin_=sin_, cos_=cos_, tan_=tan_, abs_=abs_,
          sign_=sign_, pow_=pow_, tgamma_=tgamma_, atan2_=atan2_, floor_=floor_)


def R(name):
    return sp.Symbol(name, real=True)


def lit(v):
    """python literal -> exact term"""
    if isinstance(v, (bool, str)) or v is None:
        return v
    if isinstance(v, int):
        return sp.Integer(v)
    if isinstance(v, float):
        if v != v or v in (float("inf"), float("-inf")):
            return sp.Float(v)
        return sp.Rational(Fraction(repr(v)))
    if isinstance(v, complex):
        return Cx(lit(v.real), lit(v.imag))
    if isinstance(v, Fraction):
        return sp.Rational(v.numerator, v.denominator)
    return v


def dec(text):
    """decimal literal text -> exact rational (the decimal it spells)"""
    t = text.replace("_", "")
    return sp.Rational(Fraction(t))


# ---------------------------------------------------------------------------------------------
class Cx:
    """complex value as a pair of real terms"""
    __slots__ = ("re", "im")

    def __init__(self, re, im=0):
        self.re = sp.sympify(re)
        self.im = sp.sympify(im)

    def __repr__(self):
        return f"Cx({self.re}, {self.im})"

    @staticmethod
    def of(v):
        if isinstance(v, Cx):
            return v
        return Cx(v, 0)

    def conj(self):
        return Cx(self.re, -self.im)

    def abs2(self):
        return self.re * self.re + self.im * self.im

    def __neg__(self):
        return Cx(-self.re, -self.im)

    def __add__(self, o):
        o = Cx.of(o)
        return Cx(self.re + o.re, self.im + o.im)
    __radd__ = __add__

    def __sub__(self, o):
        o = Cx.of(o)
        return Cx(self.re - o.re, self.im - o.im)

    def __rsub__(self, o):
        return Cx.of(o) - self

    def __mul__(self, o):
        o = Cx.of(o)
        if o.im == 0:
            return Cx(self.re * o.re, self.im * o.re)
        if self.im == 0:
            return Cx(self.re * o.re, self.re * o.im)
        return Cx(self.re * o.re - self.im * o.im, self.re * o.im + self.im * o.re)
    __rmul__ = __mul__

    def __truediv__(self, o):
        o = Cx.of(o)
        if o.im == 0:
            return Cx(self.re / o.re, self.im / o.re)
        d = o.abs2()
        return Cx((self.re * o.re + self.im * o.im) / d, (self.im * o.re - self.re * o.im) / d)

    def __rtruediv__(self, o):
        return Cx.of(o) / self

    def ipow(self, n: int):
        if n < 0:
            return Cx(1, 0) / self.ipow(-n)
        r = Cx(1, 0)
        b = self
        while n:
            if n & 1:
                r = r * b
            b = b * b
            n >>= 1
        return r

    def subs(self, m):
        return Cx(self.re.subs(m), self.im.subs(m))


def is_num(v):
    return isinstance(v, (sp.Expr, Cx))


def is_bool(v):
    if isinstance(v, bool) or v is sp.true or v is sp.false:
        return True
    return isinstance(v, sp.logic.boolalg.Boolean) and not isinstance(v, sp.Expr)


def as_bool(v):
    if isinstance(v, bool):
        return sp.true if v else sp.false
    return v


def free_atoms(e):
    """symbols and uninterpreted applications occurring in a term / boolean"""
    out = set()
    for a in sp.preorder_traversal(e):
        if isinstance(a, sp.Symbol):
            out.add(a)
        elif isinstance(a, sp.core.function.AppliedUndef):
            out.add(a)
    return out


# ---------------------------------------------------------------------------------------------
# axiom schemas, instantiated per occurring application (DESIGN 6.4).  Each returns sympy Booleans.
def _ax_sqrt(t):
    (x,) = t.args
    return [sp.Implies(sp.Ge(x, 0), sp.And(sp.Eq(t * t, x), sp.Ge(t, 0))),
            sp.Implies(sp.Gt(x, 0), sp.Gt(t, 0))]


def _ax_cbrt(t):
    (x,) = t.args
    return [sp.Eq(t * t * t, x), sp.Implies(sp.Gt(x, 0), sp.Gt(t, 0))]


def _ax_exp(t):
    (x,) = t.args
    return [sp.Gt(t, 0), sp.Implies(sp.Eq(x, 0), sp.Eq(t, 1)), sp.Implies(sp.Ge(x, 0), sp.Ge(t, 1)),
            sp.Implies(sp.Le(x, 0), sp.Le(t, 1))]


def _ax_abs(t):
    (x,) = t.args
    return [sp.Ge(t, 0), sp.Or(sp.Eq(t, x), sp.Eq(t, -x)), sp.Ge(t, x), sp.Ge(t, -x)]


def _ax_sign(t):
    (x,) = t.args
    return [sp.Implies(sp.Gt(x, 0), sp.Eq(t, 1)), sp.Implies(sp.Lt(x, 0), sp.Eq(t, -1)),
            sp.Implies(sp.Eq(x, 0), sp.Eq(t, 0))]


def _ax_pow(t):
    x, a = t.args
    return [sp.Implies(sp.Gt(x, 0), sp.Gt(t, 0)), sp.Implies(sp.Eq(a, 0), sp.Eq(t, 1))]


def _ax_tgamma(t):
    (x,) = t.args
    return [sp.Implies(sp.Gt(x, 0), sp.Gt(t, 0))]


def _ax_sin(t):
    (x,) = t.args
    return [sp.Le(t, 1), sp.Ge(t, -1), sp.Eq(t * t + cos_(x) * cos_(x), 1), sp.Implies(sp.Eq(x, 0), sp.Eq(t, 0))]


def _ax_cos(t):
    (x,) = t.args
    return [sp.Le(t, 1), sp.Ge(t, -1), sp.Implies(sp.Eq(x, 0), sp.Eq(t, 1))]


AXIOMS = {"sqrt_": _ax_sqrt, "cbrt_": _ax_cbrt, "exp_": _ax_exp, "abs_": _ax_abs, "sign_": _ax_sign,
          "pow_": _ax_pow, "tgamma_": _ax_tgamma, "sin_": _ax_sin, "cos_": _ax_cos}

# pairwise schemas (monotonicity / functional equations), instantiated for every pair of applications
def _pair_exp(t1, t2):
    x, y = t1.args[0], t2.args[0]
    return [sp.Implies(sp.Le(x, y), sp.Le(t1, t2)), sp.Implies(sp.Lt(x, y), sp.Lt(t1, t2))]


def _pair_sqrt(t1, t2):
    x, y = t1.args[0], t2.args[0]
    return [sp.Implies(sp.And(sp.Ge(x, 0), sp.Le(x, y)), sp.Le(t1, t2))]


def _pair_pow(t1, t2):
    (x, a), (y, b) = t1.args, t2.args
    out = []
    if a == b:   # monotone in the base for a >= 0, antitone for a <= 0
        out.append(sp.Implies(sp.And(sp.Gt(x, 0), sp.Le(x, y), sp.Ge(a, 0)), sp.Le(t1, t2)))
        out.append(sp.Implies(sp.And(sp.Gt(x, 0), sp.Le(x, y), sp.Le(a, 0)), sp.Ge(t1, t2)))
    if x == y:   # monotone in the exponent for base >= 1, antitone for 0<base<=1
        out.append(sp.Implies(sp.And(sp.Ge(x, 1), sp.Le(a, b)), sp.Le(t1, t2)))
        out.append(sp.Implies(sp.And(sp.Gt(x, 0), sp.Le(x, 1), sp.Le(a, b)), sp.Ge(t1, t2)))
    return out


PAIR_AXIOMS = {"exp_": _pair_exp, "sqrt_": _pair_sqrt, "pow_": _pair_pow}

PI_FACTS = [sp.Gt(PI, sp.Rational(314159, 100000)), sp.Lt(PI, sp.Rational(314160, 100000))]


def axioms_for(formulas, pairwise=True, rounds=2):
    """instantiate the schemas for every uninterpreted application in `formulas` (closing under
    the applications the axioms themselves mention, `rounds` times). Returns (facts, names_used)."""
    seen = set()
    facts = []
    used = set()
    todo = list(formulas)
    for _ in range(rounds + 1):
        apps = set()
        for f in todo:
            if isinstance(f, (sp.Basic,)):
                for a in sp.preorder_traversal(f):
                    if isinstance(a, sp.core.function.AppliedUndef) and a not in seen:
                        apps.add(a)
        if not apps:
            break
        new = []
        for a in sorted(apps, key=str):
            seen.add(a)
            nm = a.func.__name__
            if nm in AXIOMS:
                used.add(nm)
                new += [x for x in AXIOMS[nm](a) if x is not sp.true]
        todo = new
        facts += new
    if pairwise:
        by = {}
        for a in seen:
            by.setdefault(a.func.__name__, []).append(a)
        for nm, lst in by.items():
            if nm in PAIR_AXIOMS and len(lst) > 1:
                lst = sorted(lst, key=str)
                for i in range(len(lst)):
                    for j in range(len(lst)):
                        if i != j:
                            facts += [x for x in PAIR_AXIOMS[nm](lst[i], lst[j]) if x is not sp.true]
                            used.add(nm + "(pair)")
    if any(PI in getattr(f, "free_symbols", ()) for f in formulas):
        facts += PI_FACTS
        used.add("pi_")
    return facts, used
