"""What a contract module hands to the runner."""
from __future__ import annotations
import fnmatch


class Bundle:
    def __init__(self, pid, level="proof"):
        self.pid = pid
        self.level = level
        self.obligations = []
        self.functions = {}       # key -> info dict
        self.assumptions = []
        self.trusted_base = []
        self.bounded = []         # bounded stand-ins: dict(name, bound, evaluations, result) -- never counted as proved
        self.notes = []
        self.replayers = []       # (oid glob, callable(ob, res) -> dict)
        self.stats = {"paths": 0, "pruned": 0}
        self.subset_exits = []    # functions that left the subset (undecided)
        self.tool_faults = []
        self.samples = []
        self.canaries = []        # results of canary runs (thorough)
        self.explanation = ""
        self.xitems = []          # executor cross-check items (tpv.xcheck)
        self.xcheck = {}
        self.const_values = {}    # Symbol -> float: true value of module constants kept symbolic in the proofs (for the cross-check)

    def add(self, ob):
        self.obligations.append(ob)
        return ob

    def extend(self, obs):
        for o in obs:
            self.add(o)

    def add_fn(self, fn):
        self.functions[fn.key] = fn.info()

    def assume(self, text):
        if text not in self.assumptions:
            self.assumptions.append(text)

    def trust(self, text):
        if text not in self.trusted_base:
            self.trusted_base.append(text)

    def replayer(self, pattern, fn):
        self.replayers.append((pattern, fn))

    def find_replayer(self, oid):
        for pat, fn in self.replayers:
            if fnmatch.fnmatch(oid, pat):
                return fn
        return None

    def absorb_exec(self, ex):
        """collect obligations / stats from a symex.Exec after run()"""
        for ob in ex.obligations.values():
            self.add(ob)
        self.stats["paths"] += len(ex.paths)
        self.stats["pruned"] += ex.pruned
