"""CLI:  python3-vt -m tpv.run_check <Cxx> --tier quick|thorough      (cwd = /verif)
         python3-vt -m tpv.run_check --replay <path>
Exit codes: 0 all obligations discharged (known findings printed), 1 violation (refuted obligation not
listed as a known finding), 2 undecided, 3 tool fault.  2 and 3 never print a VIOLATION line."""
from __future__ import annotations
import sys, os, json, time, argparse, importlib, re, traceback, fnmatch, hashlib

HERE = os.path.dirname(os.path.dirname(os.path.abspath(__file__)))
if HERE not in sys.path:
    sys.path.insert(0, HERE)
os.chdir(HERE)

from tpv import VERIF, REPO
from tpv.oblig import discharge_all
from tpv.bundle import Bundle
from tpv import extract

COMMON_ASSUMPTIONS = [
    "IEEE double arithmetic is treated as exact real/complex arithmetic; decimal literals denote the exact decimal they spell",
    "numba @njit and Cython compilation are assumed to preserve the Python semantics of the extracted function bodies",
    "back ends trusted: z3 5.1.0, cvc5 1.0.3, exact Q[x] normal form (sympy sparse polynomial rings)",
]


def load_known():
    p = os.path.join(VERIF, "known_findings.json")
    if not os.path.exists(p):
        return []
    return json.load(open(p))["findings"]


def load_baseline(pid):
    p = os.path.join(VERIF, "baseline", "obligations.json")
    if not os.path.exists(p):
        return None
    return json.load(open(p)).get(pid)


def oid_match(oid, pat):
    """exact match, or glob with literal brackets (obligation ids contain [..] tags)"""
    if oid == pat:
        return True
    esc = pat.replace("[", "\0").replace("]", "\1").replace("\0", "[[]").replace("\1", "[]]")
    return fnmatch.fnmatchcase(oid, esc)


def sanitize(s):
    return re.sub(r"[^A-Za-z0-9_.#-]+", "_", s)[:150]


def git_head(path):
    try:
        import subprocess
        return subprocess.run(["git", "-C", path, "rev-parse", "--short", "HEAD"], capture_output=True, text=True).stdout.strip()
    except Exception:
        return "?"


def jsonable(o):
    if isinstance(o, dict):
        return {str(k): jsonable(v) for k, v in o.items()}
    if isinstance(o, (list, tuple, set)):
        return [jsonable(v) for v in o]
    if isinstance(o, (str, int, float, bool)) or o is None:
        return o
    return str(o)


def run_property(pid, tier, seed):
    t0 = time.time()
    extract.clear_cache()
    mod = importlib.import_module(f"contracts.{pid}")
    fault = None
    try:
        b: Bundle = mod.build(tier=tier, seed=seed)
    except extract.ExtractError as ex:
        b = Bundle(pid)
        b.subset_exits.append(f"extraction: {ex}")
    # executor cross-check against the real code (tool-fault guard)
    if b.xitems and os.environ.get("TPV_NO_XCHECK") != "1":
        from tpv import xcheck
        try:
            n, mism, skipped = xcheck.run_items(b.xitems, seed, fixed=b.const_values)
        except Exception as ex:
            n, mism, skipped = 0, [f"cross-check crashed: {type(ex).__name__}: {ex}"], []
        b.xcheck = dict(points_checked=n, mismatches=mism[:20], skipped=skipped[:20], functions=len(b.xitems))
        for mmm in mism[:10]:
            b.tool_faults.append("executor cross-check: " + mmm)
    t_gen = time.time() - t0
    obs = b.obligations
    # unique ids
    seen = {}
    for o in obs:
        if o.oid in seen:
            seen[o.oid] += 1
            o.oid = f"{o.oid}~{seen[o.oid]}"
        else:
            seen[o.oid] = 0
    results = discharge_all(obs, tier) if obs else []
    # second pass: an obligation left undecided because a solver ran out of time (a busy machine) is retried with a 6x budget and few workers, so that
    # load does not flip a verdict; thunk / generator-decided obligations are not retried
    retry = [i for i, (o, r) in enumerate(zip(obs, results)) if r["verdict"] == "undecided" and o.thunk is None and o.decided is None and "timeout" in (r.get("reason") or "")]
    if retry:
        sub = []
        for i in retry:
            o = obs[i]
            o.timeout = 6 * (o.timeout or (10 if tier == "quick" else 60))
            sub.append(o)
        res2 = discharge_all(sub, tier, workers=4)
        for i, r2 in zip(retry, res2):
            r2["reason"] = "(second pass, 6x budget) " + (r2.get("reason") or "")
            results[i] = r2
    t_solve = time.time() - t0 - t_gen
    t_c0 = time.time()
    vac, cover_stats = cover_check(obs, results)
    cover_stats["seconds"] = round(time.time() - t_c0, 2)
    for v in vac:
        b.tool_faults.append(f"vacuous clause (hypotheses unsatisfiable on every path): {v}")
    known = [k for k in load_known() if k["property"] == pid]
    lines = []
    violations = []
    known_hits = []
    undecided = []
    by_backend = {}
    secs_backend = {}
    for o, r in zip(obs, results):
        by_backend[r["backend"]] = by_backend.get(r["backend"], 0) + (1 if r["verdict"] == "discharged" else 0)
        secs_backend[r["backend"]] = secs_backend.get(r["backend"], 0.0) + r.get("seconds", 0.0)
        if r["verdict"] == "discharged":
            continue
        if r["verdict"] == "undecided":
            undecided.append((o, r))
            continue
        # refuted
        hit = None
        for k in known:
            if k.get("status", "known") == "known" and oid_match(o.oid, k["obligation"]):
                hit = k
                break
        if hit:
            known_hits.append((o, r, hit))
        else:
            violations.append((o, r))
    # replay + report violations
    from . import SCRATCH_RUN as _SR
    rdir = os.path.join(VERIF, "replays", pid) if not _SR else os.path.join(os.environ.get("TPV_EVIDENCE_DIR", "/tmp/tpv_scratch_evidence"), "replays", pid)
    os.makedirs(rdir, exist_ok=True)
    def _replay_one(o_r):
        o, r = o_r
        fn = b.find_replayer(o.oid)
        if fn is None:
            return None
        try:
            return fn(o, r)
        except Exception as ex:
            return {"replayed": False, "error": f"{type(ex).__name__}: {ex}"}
    from concurrent.futures import ThreadPoolExecutor
    with ThreadPoolExecutor(max_workers=8) as tp:
        reps = list(tp.map(_replay_one, violations))
    for (o, r), rep in zip(violations, reps):
        rp = os.path.join(rdir, sanitize(o.oid) + ".json")
        doc = dict(property=pid, obligation=o.oid, function=o.fn, clause=o.clause, goal=str(o.goal)[:2000],
                   hypotheses=[str(h)[:300] for h in o.hyps][:40], verdict=r["verdict"], backend=r["backend"],
                   verifier_output=r.get("reason"), model=r.get("model"), meta=jsonable(o.meta), replay=jsonable(rep),
                   repo_head=git_head(REPO), tier=tier)
        json.dump(doc, open(rp, "w"), indent=1)
        confirmed = bool(rep and rep.get("replayed") and rep.get("confirmed"))
        lines.append(f"VIOLATION property={pid} replay={rp}" + ("" if confirmed else " no-failing-input-found"))
    for o, r, k in known_hits:
        lines.append(f"KNOWN-FINDING: property={pid} {k['what']} [obligation {o.oid}]")
    # known findings that no longer fire are simply not printed
    # baseline guard against vacuity
    base = load_baseline(pid)
    missing = []
    if base is not None:
        # per function under contract: it must still generate obligations (ids of single obligations are NOT compared: path suffixes
        # change under harmless edits); a function that lost all of them is reported as undecided, never as a violation
        have = {}
        for o in obs:
            have[o.fn] = have.get(o.fn, 0) + 1
        missing = [f"{fn} (baseline {n} obligations, now 0)" for fn, n in sorted(base.get("functions", {}).items()) if have.get(fn, 0) == 0]
    n_known = len(known_hits)
    n_ob = len(obs)
    n_dis = sum(1 for r in results if r["verdict"] == "discharged")
    status = 0
    if violations:
        status = 1
    elif b.tool_faults:
        status = 3
    elif undecided or b.subset_exits or missing or n_ob == 0:
        status = 2
    wall = time.time() - t0
    samples = b.samples[:]
    for o, r in list(zip(obs, results))[:: max(1, len(obs) // 6)][:6]:
        samples.append(dict(obligation=o.oid, clause=o.clause, goal=str(o.goal)[:300], verdict=r["verdict"], backend=r["backend"]))
    cov = dict(
        obligations=n_ob - n_known, discharged=n_dis,
        refuted_known_findings=n_known, refuted_new=len(violations), undecided=len(undecided),
        checker_cmd=f"python3-vt -m tpv.run_check {pid} --tier {tier}",
        trusted_base=b.trusted_base + ["z3 5.1.0", "cvc5 1.0.3", "sympy 1.14 sparse polynomial arithmetic (qqnf)", "tpv symbolic executor (self-written VC generator)"],
        discharged_by_backend=by_backend, seconds_by_backend={k: round(v, 3) for k, v in secs_backend.items()},
        generation_seconds=round(t_gen, 2), solving_wall_seconds=round(t_solve, 2),
        functions_under_contract=list(b.functions.values()),
        paths_explored=b.stats["paths"], paths_pruned=b.stats["pruned"],
        bounded_stand_ins=b.bounded, canaries=b.canaries, subset_exits=b.subset_exits, tool_faults=b.tool_faults,
        baseline_missing=missing, samples=samples, notes=b.notes, cover_check=cover_stats, executor_cross_check=b.xcheck,
        undecided_obligations=[dict(obligation=o.oid, reason=(r.get("reason") or "")[:300]) for o, r in undecided][:50],
        known_findings_hit=[dict(obligation=o.oid, what=k["what"]) for o, r, k in known_hits],
        explanation=b.explanation or "contract obligations generated from the current /repo source and discharged per obligation",
        repo_head=git_head(REPO), exit_status=status,
    )
    ev = dict(property_id=pid, tier=tier, seed=seed, level=b.level, coverage=jsonable(cov),
              assumptions=COMMON_ASSUMPTIONS + b.assumptions, wall_s=round(wall, 2), violations=len(violations))
    from . import SCRATCH_RUN
    evdir = os.path.join(VERIF, "evidence") if not SCRATCH_RUN else os.environ.get("TPV_EVIDENCE_DIR", "/tmp/tpv_scratch_evidence")
    os.makedirs(evdir, exist_ok=True)
    json.dump(ev, open(os.path.join(evdir, f"{pid}.json"), "w"), indent=1)
    if os.environ.get("TPV_VERBOSE"):
        for o, r in zip(obs, results):
            print(f"  {r['verdict']:10s} {r['backend']:10s} {r.get('seconds', 0):6.2f}s  {o.oid}   [{o.clause[:70]}]")
    for ln in lines:
        print(ln)
    if os.environ.get("TPV_VERBOSE") or os.environ.get("TPV_TIMING"):
        print(f"  timing: generation {t_gen:.1f}s solving {t_solve:.1f}s cover {cover_stats.get('seconds')}s total {wall:.1f}s")
    print(f"[{pid}] tier={tier} obligations={n_ob} discharged={n_dis} known-findings={n_known} violations={len(violations)} "
          f"undecided={len(undecided)} subset-exits={len(b.subset_exits)} faults={len(b.tool_faults)} wall={wall:.1f}s exit={status}")
    if status == 2:
        for o, r in undecided[:10]:
            print(f"  UNDECIDED {o.oid}: {(r.get('reason') or '')[:200]}")
        for s in b.subset_exits[:10]:
            print(f"  SUBSET-EXIT {s}")
        for m in missing[:10]:
            print(f"  MISSING-BASELINE-OBLIGATION {m}")
    if status == 3:
        for s in b.tool_faults[:10]:
            print(f"  TOOL-FAULT {s}")
    return status, obs, results


def _cover_one(i):
    import sympy as sp
    from tpv import backends as B
    o = _COVER[i]
    try:
        r = B.z3_check(list(o.hyps) + [sp.Gt(x, 0) for x in o.positive] + [sp.Eq(l ** d, rhs) for l, d, rhs in o.rels], sp.false, timeout_s=3)
    except Exception:
        return i, "unknown"
    return i, {"discharged": "unsat", "refuted": "sat"}.get(r["verdict"], "unknown")


_COVER = []


def cover_check(obs, results):
    """vacuity guard: every contract clause (obligations grouped by id without the @path suffix) must have at least
    one instance whose hypotheses are satisfiable (z3 sat; unknown counts as satisfiable)."""
    global _COVER
    import multiprocessing as mp
    groups = {}
    for i, (o, r) in enumerate(zip(obs, results)):
        if o.decided is not None or r["verdict"] != "discharged" or r["backend"] == "syntactic" and not o.hyps:
            continue
        g = re.sub(r"@paths?[0-9x]+", "", o.oid)
        groups.setdefault(g, []).append(i)
    _COVER = obs
    vac = []
    checked = 0
    todo = {g: list(ix) for g, ix in groups.items()}
    covered = set()
    ctx = mp.get_context("fork")
    from .oblig import _die_with_parent
    with ctx.Pool(int(os.environ.get("TPV_WORKERS", "16")), initializer=_die_with_parent) as pool:
        rounds = 0
        while todo and rounds < 400:
            rounds += 1
            batch = [(g, ix.pop(0)) for g, ix in todo.items()]
            res = pool.map(_cover_one, [i for _, i in batch])
            checked += len(batch)
            for (g, i), (_, st) in zip(batch, res):
                if st != "unsat":
                    covered.add(g)
            todo = {g: ix for g, ix in todo.items() if g not in covered and ix}
            for g in list(groups):
                if g not in covered and g not in todo:
                    if g not in vac:
                        vac.append(g)
    return vac, dict(clauses=len(groups), cover_queries=checked)


def write_baseline(pid, obs, results):
    p = os.path.join(VERIF, "baseline", "obligations.json")
    os.makedirs(os.path.dirname(p), exist_ok=True)
    data = json.load(open(p)) if os.path.exists(p) else {}
    fns = {}
    for o in obs:
        fns[o.fn] = fns.get(o.fn, 0) + 1
    data[pid] = dict(functions=fns, count=len(obs), not_discharged={o.oid: r["verdict"] for o, r in zip(obs, results) if r["verdict"] != "discharged"})
    json.dump(data, open(p, "w"), indent=1, sort_keys=True)


def replay(path):
    doc = json.load(open(path))
    pid = doc["property"]
    mod = importlib.import_module(f"contracts.{pid}")
    print(json.dumps({k: doc[k] for k in ("property", "obligation", "clause", "model", "verifier_output")}, indent=1))
    if hasattr(mod, "replay"):
        out = mod.replay(doc)
        print(json.dumps(jsonable(out), indent=1))
        return 1 if out.get("confirmed") else 0
    print("no native replayer for this obligation; stored replay:", json.dumps(doc.get("replay"), indent=1))
    return 0


def main():
    ap = argparse.ArgumentParser()
    ap.add_argument("pid", nargs="?")
    ap.add_argument("--tier", default=os.environ.get("VERIF_TIER", "quick"))
    ap.add_argument("--replay")
    ap.add_argument("--write-baseline", action="store_true")
    a = ap.parse_args()
    if a.replay:
        sys.exit(replay(a.replay))
    seed = int(os.environ.get("VERIF_SEED", "0") or 0)
    try:
        status, obs, results = run_property(a.pid, a.tier, seed)
    except Exception:
        traceback.print_exc()
        print(f"[{a.pid}] tool fault (exception in the checker), exit=3")
        sys.exit(3)
    if a.write_baseline:
        write_baseline(a.pid, obs, results)
    sys.exit(status)


if __name__ == "__main__":
    main()
