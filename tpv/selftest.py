"""setup-time self test of the engine: a true identity must be discharged, a false one refuted."""
import sys, sympy as sp
from tpv.oblig import Obligation, discharge
from tpv.terms import R, sqrt_
x, y = R("x"), R("y")
ok = discharge(Obligation("t1", "selftest", "true identity", goal=sp.Eq((x + y) ** 2, x * x + 2 * x * y + y * y)))
bad = discharge(Obligation("t2", "selftest", "false identity", goal=sp.Eq((x + y) ** 2, x * x + y * y)))
sq = discharge(Obligation("t3", "selftest", "sqrt axiom", goal=sp.Eq(sqrt_(x) ** 4, x * x), hyps=[sp.Ge(x, 0)]))
ine = discharge(Obligation("t4", "selftest", "inequality", goal=sp.Ge(x * x + y * y, 2 * x * y)))
res = (ok["verdict"], bad["verdict"], sq["verdict"], ine["verdict"])
print("selftest", res)
sys.exit(0 if res == ("discharged", "refuted", "discharged", "discharged") else 3)
