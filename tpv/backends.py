"""Back ends that discharge obligations.

 qqnf    exact normal form in Q[atoms]/(relations): decides polynomial / rational identities
 poscert syntactic certificate "all coefficients >= 0 in positive variables" for inequalities
 z3      z3 (QF_NRA / LIA + instantiated axioms) on  hyps /\\ not goal
 cvc5    /usr/bin/cvc5 on the SMT-LIB text z3 produced (second opinion on unknown)
Verdicts: 'discharged' | 'refuted' (with model) | 'undecided'.
"""
from __future__ import annotations
import time, subprocess, tempfile, os, random
from fractions import Fraction
import sympy as sp
from sympy.polys.rings import ring as _ring
from sympy.polys.domains import QQ
from sympy.polys.orderings import lex
from . import terms as T


# ---------------------------------------------------------------------------------------------
# exact normal form
class NFError(Exception):
    pass


def _collect_atoms(exprs):
    atoms = set()
    for e in exprs:
        for a in sp.preorder_traversal(e):
            if isinstance(a, sp.Symbol) or isinstance(a, sp.core.function.AppliedUndef):
                atoms.add(a)
            elif isinstance(a, sp.Pow) and not (a.exp.is_Integer):
                raise NFError(f"non-integer power {a}")
    return atoms


def _strip_content(n, d):
    """divide numerator and denominator by their common monomial factor and make the denominator's content 1-ish
    (cheap partial cancellation: keeps the fractions from blowing up when denominators are monomials)"""
    if n == 0 or d == 0:
        return n, d
    tn, td = list(n.terms()), list(d.terms())
    k = len(tn[0][0])
    g = [min(min(m[i] for m, _ in tn), min(m[i] for m, _ in td)) for i in range(k)]
    if not any(g):
        return n, d
    ring = n.ring
    gm = tuple(g)
    n2 = ring.from_dict({tuple(a - b for a, b in zip(m, gm)): c for m, c in tn})
    d2 = ring.from_dict({tuple(a - b for a, b in zip(m, gm)): c for m, c in td})
    return n2, d2


def _to_frac(e, Rg, amap, memo):
    """sympy expr -> (num, den) ring elements, with common monomial factors cancelled (no polynomial gcd:
    only the numerator matters for identities)"""
    k = e
    if k in memo:
        return memo[k]
    r = _to_frac0(e, Rg, amap, memo)
    r = _strip_content(*r)
    memo[k] = r
    return r


def _to_frac0(e, Rg, amap, memo):
    k = e
    if e in amap:
        r = (amap[e], Rg.one)
    elif e.is_Rational:
        r = (Rg(QQ(int(e.p), int(e.q))), Rg.one)
    elif isinstance(e, sp.Add):
        n, d = Rg.zero, Rg.one
        # group by denominators lazily
        for a in e.args:
            an, ad = _to_frac(a, Rg, amap, memo)
            if ad == d:
                n = n + an
            else:
                n, d = n * ad + an * d, d * ad
        r = (n, d)
    elif isinstance(e, sp.Mul):
        n, d = Rg.one, Rg.one
        for a in e.args:
            an, ad = _to_frac(a, Rg, amap, memo)
            n, d = n * an, d * ad
        r = (n, d)
    elif isinstance(e, sp.Pow):
        b, ex = e.args
        if not ex.is_Integer:
            raise NFError(f"non-integer power {e}")
        bn, bd = _to_frac(b, Rg, amap, memo)
        ex = int(ex)
        if ex >= 0:
            r = (bn ** ex, bd ** ex)
        else:
            r = (bd ** (-ex), bn ** (-ex))
    elif isinstance(e, sp.Float):
        raise NFError(f"inexact float {e}")
    else:
        raise NFError(f"unsupported term {type(e).__name__}: {str(e)[:80]}")
    return r


def _relations(atoms):
    """polynomial relations among atoms implied by the axiom schemas: sqrt_(x)^2 = x, cbrt_^3 = x,
    sin_^2+cos_^2 = 1.  Returned as (lead_atom, degree, expr) with  lead_atom**degree == expr."""
    rel = []
    for a in atoms:
        if isinstance(a, sp.core.function.AppliedUndef):
            nm = a.func.__name__
            if nm == "sqrt_":
                rel.append((a, 2, a.args[0]))
            elif nm == "cbrt_":
                rel.append((a, 3, a.args[0]))
            elif nm == "sin_":
                rel.append((a, 2, 1 - T.cos_(a.args[0]) ** 2))
    return rel


def qq_normal(expr, extra_rel=(), want_den=False):
    """numerator of expr in Q[atoms] reduced modulo the axiom relations and `extra_rel`
    (pairs (lead**deg, replacement)).  Returns (poly_as_sympy, atoms)  -- 0 means identity."""
    expr = sp.sympify(expr)
    # degree-1 relations are definitions  lead == rhs : apply them as rewriting rules (order independent, triangular chains allowed)
    lin = {r_[0]: sp.sympify(r_[2]) for r_ in extra_rel if r_[1] == 1}
    if lin:
        for _ in range(12):
            new = expr.xreplace(lin)
            if new == expr:
                break
            expr = new
        extra_rel = [r_ for r_ in extra_rel if r_[1] != 1]
    rel = []
    atoms = _collect_atoms([expr])
    # closure: relations may introduce new atoms (e.g. cos_ from sin_)
    for _ in range(3):
        extra_leads = {r[0] for r in extra_rel}
        auto = [r for r in _relations(atoms)
                if not (r[0].func.__name__ == "sin_" and T.cos_(r[0].args[0]) in extra_leads) and r[0] not in extra_leads]
        rel = auto + list(extra_rel)
        more = _collect_atoms([r[2] for r in rel] + [r[0] for r in rel])
        if more <= atoms:
            break
        atoms |= more
    # order atoms: relation leaders first (so that lex division eliminates them), innermost last
    leaders = [r[0] for r in rel]
    def depth(a):
        return len(str(a))
    leaders_sorted = sorted(set(leaders), key=lambda a: -depth(a))
    others = sorted(atoms - set(leaders), key=str)
    order = leaders_sorted + others
    if not order:
        order = [sp.Symbol("_dummy")]
    Rg, *gens = _ring([str(i) for i in range(len(order))], QQ, lex)
    amap = dict(zip(order, gens))
    memo = {}
    n, d = _to_frac(expr, Rg, amap, memo)
    G = []
    for a, deg, rhs in rel:
        rn, rd = _to_frac(sp.sympify(rhs), Rg, amap, memo)
        G.append(amap[a] ** deg * rd - rn)
    if G and n != 0:
        n = n.rem(G)
    if want_den:
        if G and d != 0:
            d = d.rem(G)
        return n, d, order, amap
    return n, order, amap


def poly_to_sympy(p, order):
    out = 0
    for mon, c in p.terms():
        t = sp.Rational(int(c.numerator), int(c.denominator))
        for a, e in zip(order, mon):
            if e:
                t = t * a ** e
        out += t
    return out


def nf_is_zero(expr, extra_rel=()):
    n, order, _ = qq_normal(expr, extra_rel)
    return n == 0


# ---------------------------------------------------------------------------------------------
def poscert(expr, positive, strict=False, extra_rel=(), unit=()):
    """certificate for expr >= 0 (> 0 if strict) given every atom in `positive` > 0 and every
    atom of expr is in `positive`: numerator and denominator have only non-negative coefficients
    (or both only non-positive).  Atoms in `unit` are additionally known to lie in (0, 1]: a monomial with a
    negative coefficient is bounded below by dropping its unit factors (k t u^j >= k t for k < 0)."""
    try:
        n, d, order, amap = qq_normal(expr, extra_rel, want_den=True)
    except NFError:
        return False
    pos = set(positive)
    for a in order:
        if a not in pos and (any(m[order.index(a)] for m, _ in n.terms()) or any(m[order.index(a)] for m, _ in d.terms())):
            return False
    if d == 0:
        return False
    unit_idx = [order.index(a) for a in unit if a in order]

    def lower_bound(p):
        if not unit_idx:
            return p
        acc = {}
        for mon, c in p.terms():
            if c < 0:
                mon = tuple(0 if i in unit_idx else e for i, e in enumerate(mon))
            acc[mon] = acc.get(mon, 0) + c
        return p.ring.from_dict({m: c for m, c in acc.items() if c != 0})

    def sgn(p):
        p = lower_bound(p)
        cs = [c for _, c in p.terms()]
        if not cs:
            return 0
        if all(c > 0 for c in cs):
            return 1
        if all(c < 0 for c in cs):
            return -1
        return None
    sn, sd = sgn(n), sgn(d)
    if sd in (None, 0) or sn is None:
        return False
    if sn == 0:
        return not strict
    return sn * sd > 0


# ---------------------------------------------------------------------------------------------
# z3
def to_z3(e, z3, env):
    """sympy -> z3.  env caches symbols / function decls."""
    if isinstance(e, bool):
        return z3.BoolVal(e)
    if e is sp.true:
        return z3.BoolVal(True)
    if e is sp.false:
        return z3.BoolVal(False)
    key = e
    c = env["memo"].get(key)
    if c is not None:
        return c
    r = _to_z3(e, z3, env)
    env["memo"][key] = r
    return r


def _to_z3(e, z3, env):
    rec = lambda x: to_z3(x, z3, env)
    if isinstance(e, sp.Symbol):
        if e.is_integer:
            return env["syms"].setdefault(e, z3.Int(e.name))
        if env.get("boolsyms") and e in env["boolsyms"]:
            return env["syms"].setdefault(e, z3.Bool(e.name))
        return env["syms"].setdefault(e, z3.Real(e.name))
    if e.is_Integer:
        return z3.RealVal(int(e)) if not env.get("intmode") else z3.IntVal(int(e))
    if e.is_Rational:
        return z3.Q(int(e.p), int(e.q))
    if isinstance(e, sp.Float):
        raise NFError(f"inexact float {e}")
    if isinstance(e, sp.Add):
        args = [rec(a) for a in e.args]
        r = args[0]
        for a in args[1:]:
            r = r + a
        return r
    if isinstance(e, sp.Mul):
        args = [rec(a) for a in e.args]
        r = args[0]
        for a in args[1:]:
            r = r * a
        return r
    if isinstance(e, sp.Pow):
        b, ex = e.args
        if ex.is_Integer:
            n = int(ex)
            zb = rec(b)
            if n >= 0:
                r = z3.RealVal(1) if n == 0 else zb
                for _ in range(n - 1):
                    r = r * zb
                return r
            r = zb
            for _ in range(-n - 1):
                r = r * zb
            return 1 / r
        raise NFError(f"non-integer power {e}")
    if isinstance(e, sp.core.function.AppliedUndef):
        nm = e.func.__name__
        n = len(e.args)
        key = (nm, n)
        if key not in env["funs"]:
            env["funs"][key] = z3.Function(nm, *([z3.RealSort()] * (n + 1)))
        zargs = []
        for a in e.args:
            za = rec(a)
            if z3.is_int(za):
                za = z3.ToReal(za)
            zargs.append(za)
        return env["funs"][key](*zargs)
    if isinstance(e, sp.Eq):
        return rec(e.lhs) == rec(e.rhs)
    if isinstance(e, sp.Ne):
        return rec(e.lhs) != rec(e.rhs)
    if isinstance(e, sp.Le):
        return rec(e.lhs) <= rec(e.rhs)
    if isinstance(e, sp.Lt):
        return rec(e.lhs) < rec(e.rhs)
    if isinstance(e, sp.Ge):
        return rec(e.lhs) >= rec(e.rhs)
    if isinstance(e, sp.Gt):
        return rec(e.lhs) > rec(e.rhs)
    if isinstance(e, sp.And):
        return z3.And(*[rec(a) for a in e.args])
    if isinstance(e, sp.Or):
        return z3.Or(*[rec(a) for a in e.args])
    if isinstance(e, sp.Not):
        return z3.Not(rec(e.args[0]))
    if isinstance(e, sp.Implies):
        return z3.Implies(rec(e.args[0]), rec(e.args[1]))
    if isinstance(e, sp.Equivalent):
        return rec(e.args[0]) == rec(e.args[1])
    if isinstance(e, sp.Piecewise):
        # last branch must be the default
        r = rec(e.args[-1][0])
        for val, cond in reversed(e.args[:-1]):
            r = z3.If(rec(cond), rec(val), r)
        return r
    if isinstance(e, sp.ITE):
        return z3.If(rec(e.args[0]), rec(e.args[1]), rec(e.args[2]))
    if isinstance(e, sp.Abs):
        a = rec(e.args[0])
        return z3.If(a >= 0, a, -a)
    if isinstance(e, (sp.Max, sp.Min)):
        args = [rec(a) for a in e.args]
        r = args[0]
        for a in args[1:]:
            r = z3.If(a > r, a, r) if isinstance(e, sp.Max) else z3.If(a < r, a, r)
        return r
    raise NFError(f"to_z3: unsupported {type(e).__name__}: {str(e)[:80]}")


def _model_value(z3, m, zv):
    v = m.eval(zv, model_completion=True)
    try:
        if z3.is_rational_value(v) or z3.is_int_value(v):
            return Fraction(v.numerator_as_long(), v.denominator_as_long()) if z3.is_rational_value(v) else Fraction(v.as_long())
        if z3.is_algebraic_value(v):
            a = v.approx(30)
            return Fraction(a.numerator_as_long(), a.denominator_as_long())
        if z3.is_true(v):
            return True
        if z3.is_false(v):
            return False
    except Exception:
        pass
    return str(v)


def z3_check(hyps, goal, timeout_s=10, want_smt2=False, tactic=None):
    """prove hyps => goal.  returns dict(verdict, model, seconds, reason, smt2)"""
    import z3
    t0 = time.time()
    env = {"memo": {}, "syms": {}, "funs": {}}
    hyps = [h for h in hyps if h is not sp.true and h is not True]
    goal = T.as_bool(goal)
    forms = list(hyps) + [goal]
    ax, used = T.axioms_for(forms)
    try:
        zh = [to_z3(h, z3, env) for h in hyps + ax]
        zg = to_z3(goal, z3, env)
    except NFError as ex:
        return dict(verdict="undecided", reason=f"encoding: {ex}", seconds=time.time() - t0, model=None, axioms=sorted(used))
    s = z3.Solver() if tactic is None else z3.Tactic(tactic).solver()
    s.set("timeout", int(timeout_s * 1000))
    for h in zh:
        s.add(h)
    s.add(z3.Not(zg))
    smt2 = s.to_smt2() if want_smt2 else None
    r = s.check()
    dt = time.time() - t0
    out = dict(seconds=dt, axioms=sorted(used), smt2=smt2, model=None, reason=str(r))
    if r == z3.unsat:
        out["verdict"] = "discharged"
    elif r == z3.sat:
        m = s.model()
        out["verdict"] = "refuted"
        out["model"] = {str(k): _model_value(z3, m, v) for k, v in env["syms"].items()}
        fm = {}
        for (nm, n), f in env["funs"].items():
            try:
                fm[nm] = str(m[f])
            except Exception:
                pass
        out["fun_model"] = fm
    else:
        out["verdict"] = "undecided"
        out["reason"] = "z3: " + s.reason_unknown()
    return out


def cvc5_check(smt2_text, timeout_s=10):
    """run /usr/bin/cvc5 on SMT-LIB text (as produced by z3).  unsat -> discharged."""
    t0 = time.time()
    txt = smt2_text
    if "(set-logic" not in txt:
        txt = "(set-logic ALL)\n" + txt
    txt = txt.replace("(set-info :status unknown)", "")
    with tempfile.NamedTemporaryFile("w", suffix=".smt2", delete=False, dir=os.environ.get("TPV_SCRATCH", None)) as f:
        f.write(txt)
        path = f.name
    try:
        p = subprocess.run(["/usr/bin/cvc5", "--lang=smt2", f"--tlimit={int(timeout_s * 1000)}", "--nl-ext-tplanes", path],
                           capture_output=True, text=True, timeout=timeout_s + 5)
        out = (p.stdout or "").strip().split("\n")[0] if p.stdout else ""
    except subprocess.TimeoutExpired:
        out = "timeout"
    finally:
        os.unlink(path)
    v = {"unsat": "discharged", "sat": "refuted"}.get(out, "undecided")
    return dict(verdict=v, reason="cvc5: " + out, seconds=time.time() - t0, model=None)


# ---------------------------------------------------------------------------------------------
def eval_exact(e, point):
    """evaluate a sympy term at an exact rational point (dict atom->Rational)."""
    return sp.sympify(e).subs(point)


def find_separating_point(diff_expr, hyps, tries=200, seed=0, ranges=None):
    """search a rational point that satisfies hyps and makes diff_expr != 0 (uninterpreted atoms excluded)."""
    rnd = random.Random(seed)
    syms = sorted(sp.sympify(diff_expr).free_symbols | set().union(*[getattr(h, "free_symbols", set()) for h in hyps]) if hyps else sp.sympify(diff_expr).free_symbols, key=str)
    for _ in range(tries):
        pt = {}
        for s in syms:
            lo, hi = (ranges or {}).get(s, (Fraction(1, 10), Fraction(10)))
            k = rnd.randint(0, 1000)
            pt[s] = sp.Rational(lo + (hi - lo) * k / 1000)
        try:
            if all(bool(h.subs(pt)) for h in hyps):
                v = sp.sympify(diff_expr).subs(pt)
                if v.is_number and v != 0 and v.is_finite:
                    return pt, v
        except Exception:
            continue
    return None, None


# ---------------------------------------------------------------------------------------------
def refute_by_point(diffs, hyps, tries=60, seed=0):
    """search an exact rational point where some `diff` != 0 and all hyps hold.  Symbols get random rationals;
    uninterpreted applications WITHOUT axiom schemas get arbitrary rationals keyed by their argument values
    (functional consistency); abs_/sign_ get their true values.  Any other interpreted symbol (sqrt_, exp_, ...) -> give up."""
    rnd = random.Random(seed)
    exprs = [sp.sympify(d) for d in diffs]
    allx = exprs + [h for h in hyps if isinstance(h, sp.Basic)]
    syms = set()
    apps = set()
    for e in allx:
        for a in sp.preorder_traversal(e):
            if isinstance(a, sp.Symbol):
                syms.add(a)
            elif isinstance(a, sp.core.function.AppliedUndef):
                apps.add(a)
    for a in apps:
        if a.func.__name__ in T.AXIOMS and a.func.__name__ not in ("abs_", "sign_"):
            return None
    syms = sorted(syms, key=str)
    for _ in range(tries):
        pt = {s_: sp.Rational(rnd.randint(1, 40), rnd.randint(1, 9)) * rnd.choice([1, 1, 1, -1]) for s_ in syms}
        table = {}
        def val(e):
            if isinstance(e, sp.Symbol):
                return pt[e]
            if e.is_Rational:
                return e
            if isinstance(e, sp.core.function.AppliedUndef):
                args = tuple(val(a) for a in e.args)
                nm = e.func.__name__
                if nm == "abs_":
                    return abs(args[0])
                if nm == "sign_":
                    return sp.sign(args[0])
                key = (nm, args)
                if key not in table:
                    table[key] = sp.Rational(rnd.randint(1, 30), rnd.randint(1, 7))
                return table[key]
            if isinstance(e, sp.Add):
                return sum((val(a) for a in e.args), sp.Integer(0))
            if isinstance(e, sp.Mul):
                r = sp.Integer(1)
                for a in e.args:
                    r *= val(a)
                return r
            if isinstance(e, sp.Pow):
                b, ex = val(e.base), e.exp
                if not ex.is_Integer:
                    raise NFError("power")
                if b == 0 and ex < 0:
                    raise ZeroDivisionError
                return b ** ex
            raise NFError(type(e).__name__)
        def bval(c):
            if c is sp.true or c is True:
                return True
            if c is sp.false or c is False:
                return False
            if isinstance(c, sp.And):
                return all(bval(a) for a in c.args)
            if isinstance(c, sp.Or):
                return any(bval(a) for a in c.args)
            if isinstance(c, sp.Not):
                return not bval(c.args[0])
            l, r = val(c.lhs), val(c.rhs)
            return bool({sp.Eq: l == r, sp.Ne: l != r, sp.Lt: l < r, sp.Le: l <= r, sp.Gt: l > r, sp.Ge: l >= r}[type(c)] if type(c) in (sp.Eq, sp.Ne, sp.Lt, sp.Le, sp.Gt, sp.Ge) else False)
        try:
            if not all(bval(h) for h in hyps):
                continue
            for i, d in enumerate(exprs):
                v = val(d)
                if v != 0:
                    model = {str(k): str(v_) for k, v_ in pt.items()}
                    model["_uninterpreted_values"] = {f"{k[0]}{tuple(str(x) for x in k[1])}": str(v_) for k, v_ in list(table.items())[:20]}
                    return dict(model=model, value=str(v), index=i)
        except (ZeroDivisionError, NFError):
            continue
    return None


def refute_numeric(goal, hyps, tries=200, seed=0, margin=1e-25):
    """counter-model search with the TRUE elementary functions in 40-digit arithmetic (sqrt, exp, log, pow, sin, cos, gamma ...): a point where all
    hypotheses hold with margin and the goal fails with margin.  Used only after the exact back ends could not decide; the witness is numerical
    (40 digits, margin 1e-25 relative), so the verdict says so and the native replay has the last word."""
    import random
    import mpmath as mp
    from .xcheck import numeval
    mp.mp.dps = 40
    rnd = random.Random(seed)
    goal = T.as_bool(goal)
    hy = [T.as_bool(h) for h in hyps]
    syms = set()
    for e in [goal] + hy:
        if isinstance(e, sp.Basic):
            syms |= e.free_symbols
    syms.discard(T.PI)
    syms = sorted(syms, key=str)

    def holds(c, pt, want):
        """is c == want at pt, with margin?  None when too close to call"""
        if c is sp.true:
            return want is True
        if c is sp.false:
            return want is False
        if isinstance(c, sp.And):
            rs = [holds(a, pt, True) for a in c.args]
            if want:
                return None if any(r is None for r in rs) else all(rs)
            rs2 = [holds(a, pt, False) for a in c.args]
            return True if any(r is True for r in rs2) else (None if any(r is None for r in rs2) else False)
        if isinstance(c, sp.Or):
            rs = [holds(a, pt, True) for a in c.args]
            if want:
                return True if any(r is True for r in rs) else (None if any(r is None for r in rs) else False)
            rs2 = [holds(a, pt, False) for a in c.args]
            return None if any(r is None for r in rs2) else all(rs2)
        if isinstance(c, sp.Not):
            return holds(c.args[0], pt, not want)
        if not isinstance(c, (sp.Eq, sp.Ne, sp.Lt, sp.Le, sp.Gt, sp.Ge)):
            return None
        l_, r_ = numeval(c.lhs, pt), numeval(c.rhs, pt)
        d = l_ - r_
        scale = max(abs(l_), abs(r_), mp.mpf(1))
        if abs(d) <= margin * scale:
            if isinstance(c, sp.Eq):
                return None          # numerically equal: cannot certify either way
            return None
        truth = {sp.Eq: False, sp.Ne: True, sp.Lt: d < 0, sp.Le: d < 0, sp.Gt: d > 0, sp.Ge: d > 0}[type(c)]
        return truth == want
    # simple bounds  sym (>=|>|<=|<) const  from the hypotheses steer the sampler (log-uniform inside the box)
    lo, hi = {}, {}
    for h in hy:
        if isinstance(h, (sp.Ge, sp.Gt, sp.Le, sp.Lt)):
            a_, b_ = h.lhs, h.rhs
            if isinstance(a_, sp.Symbol) and b_.is_number:
                (lo if isinstance(h, (sp.Ge, sp.Gt)) else hi).setdefault(a_, []).append(mp.mpf(sp.N(b_, 40)))
            elif isinstance(b_, sp.Symbol) and a_.is_number:
                (hi if isinstance(h, (sp.Ge, sp.Gt)) else lo).setdefault(b_, []).append(mp.mpf(sp.N(a_, 40)))
    for _ in range(tries):
        pt = {}
        for s_ in syms:
            if s_ in lo or s_ in hi:
                l0 = max(lo[s_]) if s_ in lo else None
                h0 = min(hi[s_]) if s_ in hi else None
                if l0 is not None and h0 is not None and l0 > 0:
                    v = mp.exp(mp.log(l0) + (mp.log(h0) - mp.log(l0)) * mp.mpf(rnd.random()))
                elif l0 is not None and h0 is not None:
                    v = l0 + (h0 - l0) * mp.mpf(rnd.uniform(0.02, 0.98))
                elif l0 is not None:
                    v = (l0 if l0 > 0 else mp.mpf(0)) + mp.mpf(rnd.randint(1, 400)) / mp.mpf(rnd.randint(1, 90)) * (max(l0, mp.mpf(1)) if l0 > 0 else 1)
                else:
                    v = h0 - mp.mpf(rnd.randint(1, 400)) / mp.mpf(rnd.randint(1, 90))
                pt[s_] = v
                continue
            v = mp.mpf(rnd.randint(1, 400)) / mp.mpf(rnd.randint(1, 90))
            if rnd.random() < 0.25:
                v = v * mp.mpf(10) ** rnd.randint(-3, 3)
            if not s_.is_positive and rnd.random() < 0.3:
                v = -v
            if s_.is_integer:
                v = mp.mpf(rnd.randint(0, 6))
            pt[s_] = v
        try:
            if not all(holds(h, pt, True) is True for h in hy):
                continue
            if holds(goal, pt, False) is True:
                return dict(model={str(k): mp.nstr(v, 20) for k, v in pt.items()})
        except Exception:
            continue
    return None


def refute_by_point_rels(diffs, hyps, rels, tries=400, seed=0):
    """exact rational counter-model for an identity claimed modulo relations (lead**k == rhs): degree-1 relations are substituted, for higher degree
    the point is re-sampled until rhs is an exact k-th power of a rational (values are drawn from a pool that contains Pythagorean ratios, so that
    s^2 = 1 - c^2 is hit quickly).  Only polynomial / rational expressions without interpreted functions."""
    rnd = random.Random(seed)
    exprs = [sp.sympify(d) for d in diffs]
    lin = {lead: rhs for lead, k, rhs in rels if k == 1}
    high = [(lead, k, rhs) for lead, k, rhs in rels if k != 1]
    for _ in range(4):
        exprs = [e.xreplace(lin) for e in exprs]
        high = [(lead, k, sp.sympify(rhs).xreplace(lin)) for lead, k, rhs in high]
    hy = [h.xreplace(lin) if isinstance(h, sp.Basic) else h for h in hyps]
    if any(isinstance(a, sp.core.function.AppliedUndef) for e in exprs for a in sp.preorder_traversal(e)):
        return None
    # hypotheses over variables that neither the goal nor the relations mention (loop indices of the generic iteration, sizes ...) constrain nothing
    # here: they are dropped (they come from a feasible path, so they are satisfiable on their own variables) - every one kept must still hold at the point
    rel_syms = set()
    for e in exprs + [sp.sympify(r_) for _, _, r_ in high] + [lead for lead, _, _ in high]:
        rel_syms |= getattr(e, "free_symbols", set())
    changed = True
    while changed:
        changed = False
        for h in hy:
            fs = getattr(h, "free_symbols", set())
            if fs & rel_syms and not fs <= rel_syms:
                rel_syms |= fs
                changed = True
    hy = [h for h in hy if not isinstance(h, sp.Basic) or (h.free_symbols & rel_syms) or not h.free_symbols]
    syms = set()
    for e in exprs + [sp.sympify(r_) for _, _, r_ in high] + [h for h in hy if isinstance(h, sp.Basic)]:
        syms |= e.free_symbols
    leads = {lead for lead, _, _ in high}
    syms = sorted(syms - leads, key=str)
    pool = [sp.Rational(3, 5), sp.Rational(4, 5), sp.Rational(5, 13), sp.Rational(12, 13), sp.Rational(8, 17), sp.Rational(15, 17), sp.Rational(7, 25), sp.Rational(24, 25)]
    lo, hi = {}, {}
    for h in hy:
        if isinstance(h, (sp.Ge, sp.Gt, sp.Le, sp.Lt)):
            a_, b_ = h.lhs, h.rhs
            if isinstance(a_, sp.Symbol) and b_.is_number:
                (lo if isinstance(h, (sp.Ge, sp.Gt)) else hi).setdefault(a_, []).append(sp.nsimplify(b_, rational=True))
            elif isinstance(b_, sp.Symbol) and a_.is_number:
                (hi if isinstance(h, (sp.Ge, sp.Gt)) else lo).setdefault(b_, []).append(sp.nsimplify(a_, rational=True))
    for _ in range(tries):
        pt = {}
        for s_ in syms:
            if s_ in lo or s_ in hi:
                l0 = max(lo[s_]) if s_ in lo else None
                h0 = min(hi[s_]) if s_ in hi else None
                t_ = sp.Rational(rnd.randint(1, 19), 20)
                if l0 is not None and h0 is not None:
                    pt[s_] = l0 + (h0 - l0) * t_
                elif l0 is not None:
                    pt[s_] = l0 + sp.Rational(rnd.randint(1, 40), rnd.randint(1, 9))
                else:
                    pt[s_] = h0 - sp.Rational(rnd.randint(1, 40), rnd.randint(1, 9)) if rnd.random() < 0.5 else h0 * t_ if h0 > 0 else h0 - t_
                continue
            pt[s_] = rnd.choice(pool) if rnd.random() < 0.5 else sp.Rational(rnd.randint(1, 40), rnd.randint(1, 9)) * (1 if (s_.is_positive or rnd.random() < 0.7) else -1)
            if s_.is_integer:
                pt[s_] = sp.Integer(rnd.randint(2, 6))
        ok = True
        for lead, k, rhs in high:
            try:
                v = sp.nsimplify(sp.sympify(rhs).xreplace(pt))
            except Exception:
                ok = False
                break
            if not v.is_Rational or v < 0:
                ok = False
                break
            rt = sp.root(v, k)
            if not rt.is_Rational:
                ok = False
                break
            pt[lead] = rt
        if not ok:
            continue
        try:
            good = True
            for h in hy:
                if isinstance(h, sp.Basic):
                    hv = h.xreplace(pt)
                    if hv is sp.false or hv is False:
                        good = False
                        break
                    if hv is not sp.true and hv is not True:
                        hv2 = sp.simplify(hv)
                        if hv2 is not sp.true:
                            good = False
                            break
            if not good:
                continue
            for i, d in enumerate(exprs):
                v = sp.nsimplify(d.xreplace(pt))
                if v.is_number and v != 0 and v.is_finite:
                    return dict(model={str(k_): str(v_) for k_, v_ in pt.items()}, value=str(v), index=i)
        except (ZeroDivisionError, Exception):
            continue
    return None
