"""Obligations and their discharge (one obligation per worker, 16 workers)."""
from __future__ import annotations
import os, time, traceback, multiprocessing as mp
from dataclasses import dataclass, field
import sympy as sp
from . import backends as B
from . import terms as T


@dataclass
class Obligation:
    oid: str                 # stable id, unique within the property
    fn: str                  # function under contract, "relative/path::qualname"
    clause: str              # which contract clause this instance comes from (human readable)
    goal: object = None      # sympy Boolean to prove under hyps
    hyps: list = field(default_factory=list)
    rels: list = field(default_factory=list)      # extra polynomial relations (lead, degree, rhs)
    positive: list = field(default_factory=list)  # atoms known > 0 (for the coefficient certificate)
    unit: list = field(default_factory=list)      # atoms known to lie in (0, 1]
    theory: str = "nra"
    decided: dict | None = None   # verdict fixed by the generator (ground exact arithmetic, structural)
    meta: dict = field(default_factory=dict)      # line, path condition text, replay hints
    timeout: float | None = None
    backends: tuple = ("qqnf", "poscert", "z3", "cvc5")
    thunk: tuple | None = None    # (callable, args): decided by running the callable in the worker (returns a result dict)


_OBS: list[Obligation] = []
_TIER = "quick"


def _split_and(g):
    if isinstance(g, sp.And):
        out = []
        for a in g.args:
            out += _split_and(a)
        return out
    return [g]


def discharge(ob: Obligation, tier="quick"):
    """returns dict(verdict, backend, seconds, reason, model)"""
    t0 = time.time()
    if ob.thunk is not None:
        d = dict(ob.thunk[0](*ob.thunk[1]))
        d.setdefault("seconds", time.time() - t0)
        d.setdefault("model", None)
        d.setdefault("reason", "")
        d.setdefault("backend", "thunk")
        return d
    if ob.decided is not None:
        d = dict(ob.decided)
        d.setdefault("backend", "ground-exact")
        d.setdefault("seconds", 0.0)
        d.setdefault("model", None)
        d.setdefault("reason", "")
        return d
    goal = T.as_bool(ob.goal)
    if goal is sp.true:
        return dict(verdict="discharged", backend="syntactic", seconds=0.0, reason="goal simplified to true", model=None)
    timeout = ob.timeout or (10 if tier == "quick" else 60)
    tried = []
    conj = _split_and(goal)
    # hypotheses of the form  atom**k == rhs  (callee postconditions such as h^2 == x^2 + y^2) are used as rewriting relations
    rels_all = list(ob.rels)
    leads = {r[0] for r in rels_all}
    for h in ob.hyps:
        if isinstance(h, sp.Eq):
            for l_, r_ in ((h.lhs, h.rhs), (h.rhs, h.lhs)):
                base, k = (l_.base, l_.exp) if isinstance(l_, sp.Pow) else (l_, sp.Integer(1))
                if isinstance(base, (sp.Symbol, sp.core.function.AppliedUndef)) and k.is_Integer and k > 0 and base not in leads and not sp.sympify(r_).has(base) \
                        and ("!" in str(base)):
                    rels_all.append((base, int(k), r_))
                    leads.add(base)
                    break
    # 1. exact normal form for (conjunctions of) equalities
    if "qqnf" in ob.backends and all(isinstance(c, sp.Eq) for c in conj):
        try:
            ok = True
            for c in conj:
                if not B.nf_is_zero(c.lhs - c.rhs, rels_all):
                    ok = False
                    break
            if ok:
                return dict(verdict="discharged", backend="qqnf", seconds=time.time() - t0,
                            reason="numerator reduces to 0 in Q[atoms]/(relations)", model=None)
            tried.append("qqnf:nonzero")
        except B.NFError as ex:
            tried.append(f"qqnf:{ex}")
        except Exception as ex:  # pragma: no cover
            tried.append(f"qqnf-error:{type(ex).__name__}:{ex}")
    # 2. positive-coefficient certificate
    if "poscert" in ob.backends and ob.positive and all(isinstance(c, (sp.Ge, sp.Gt, sp.Le, sp.Lt, sp.Ne)) for c in conj):
        try:
            ok = True
            for c in conj:
                if isinstance(c, sp.Ne):
                    e = c.lhs - c.rhs
                    if not (B.poscert(e, ob.positive, strict=True, extra_rel=ob.rels, unit=ob.unit)):
                        ok = False
                        break
                    continue
                if isinstance(c, (sp.Ge, sp.Gt)):
                    e = c.lhs - c.rhs
                else:
                    e = c.rhs - c.lhs
                if not B.poscert(e, ob.positive, strict=isinstance(c, (sp.Gt, sp.Lt)), extra_rel=ob.rels, unit=ob.unit):
                    ok = False
                    break
            if ok:
                return dict(verdict="discharged", backend="poscert", seconds=time.time() - t0,
                            reason="all coefficients of numerator and denominator share one sign over positive atoms", model=None)
            tried.append("poscert:no")
        except Exception as ex:
            tried.append(f"poscert-error:{ex}")
    # 3. z3
    hyps = list(ob.hyps)
    for lead, deg, rhs in ob.rels:
        hyps.append(sp.Eq(lead ** deg, rhs))
    for a in ob.positive:
        hyps.append(sp.Gt(a, 0))
    for a in ob.unit:
        hyps.append(sp.Le(a, 1))
    res = None
    if "z3" in ob.backends:
        try:
            res = B.z3_check(hyps, goal, timeout_s=timeout, want_smt2=("cvc5" in ob.backends))
        except Exception as ex:
            res = dict(verdict="undecided", reason=f"z3-error:{type(ex).__name__}:{ex}", seconds=0, model=None, smt2=None)
        tried.append(f"z3:{res['reason']}")
        if res["verdict"] in ("discharged", "refuted"):
            return dict(verdict=res["verdict"], backend="z3", seconds=time.time() - t0, reason="; ".join(tried),
                        model=res.get("model"), fun_model=res.get("fun_model"), axioms=res.get("axioms"))
    # 4. cvc5 on z3's unknown
    if "cvc5" in ob.backends and res is not None and res.get("smt2"):
        try:
            r2 = B.cvc5_check(res["smt2"], timeout_s=timeout)
            tried.append(r2["reason"])
            if r2["verdict"] == "discharged":
                return dict(verdict="discharged", backend="cvc5", seconds=time.time() - t0, reason="; ".join(tried), model=None)
        except Exception as ex:
            tried.append(f"cvc5-error:{ex}")
    # 5a. exact counter-model for equalities whose normal form is non-zero (free functions, abs/sign)
    if all(isinstance(c, sp.Eq) for c in conj) and any(t.startswith("qqnf:nonzero") for t in tried):
        try:
            r5 = B.refute_by_point([c.lhs - c.rhs for c in conj], list(ob.hyps) + [sp.Gt(x_, 0) for x_ in ob.positive])
            if r5 is not None:
                return dict(verdict="refuted", backend="qqnf+point", seconds=time.time() - t0,
                            reason="; ".join(tried) + f"; conjunct #{r5['index']}: lhs-rhs = {r5['value']} at an exact rational point", model=r5["model"])
        except Exception as ex:
            tried.append(f"point-error:{type(ex).__name__}:{ex}")
    # 5b. identities claimed modulo relations: exact rational point that satisfies the relations
    if all(isinstance(c, sp.Eq) for c in conj) and any(t.startswith("qqnf:nonzero") for t in tried) and rels_all:
        try:
            r5 = B.refute_by_point_rels([c.lhs - c.rhs for c in conj], list(ob.hyps) + [sp.Gt(x_, 0) for x_ in ob.positive], rels_all)
            if r5 is not None:
                return dict(verdict="refuted", backend="qqnf+point", seconds=time.time() - t0,
                            reason="; ".join(tried) + f"; conjunct #{r5['index']}: lhs-rhs = {r5['value']} at an exact rational point satisfying the relations", model=r5["model"])
        except Exception as ex:
            tried.append(f"point-rels-error:{type(ex).__name__}:{ex}")
    # 5. separating rational point for pure polynomial equalities
    if all(isinstance(c, sp.Eq) for c in conj):
        try:
            for c in conj:
                d = c.lhs - c.rhs
                if not any(isinstance(a, sp.core.function.AppliedUndef) for a in sp.preorder_traversal(d)) and not ob.rels:
                    n, order, _ = B.qq_normal(d)
                    if n != 0:
                        pt, v = B.find_separating_point(d, [h for h in hyps if not any(isinstance(a, sp.core.function.AppliedUndef) for a in sp.preorder_traversal(h))])
                        if pt is not None:
                            return dict(verdict="refuted", backend="qqnf+point", seconds=time.time() - t0,
                                        reason="; ".join(tried) + f"; lhs-rhs = {v} at rational point",
                                        model={str(k): v_ for k, v_ in pt.items()})
        except Exception as ex:
            tried.append(f"point-error:{ex}")
    # 6. last resort: numerical counter-model with the true elementary functions (40 digits, with margin) - for goals over sqrt/exp/pow/sin/cos/gamma
    #    that the exact back ends cannot refute; the verdict records that the witness is numerical
    if any(t.startswith("qqnf:nonzero") or t.startswith("z3:") for t in tried):
        try:
            r6 = B.refute_numeric(goal, list(hyps))
            if r6 is not None:
                return dict(verdict="refuted", backend="mp-point", seconds=time.time() - t0,
                            reason="; ".join(tried) + "; hypotheses hold and the goal fails at a point evaluated with the true elementary functions in 40-digit arithmetic (margin 1e-25)", model=r6["model"])
        except Exception as ex:
            tried.append(f"mp-point-error:{type(ex).__name__}:{ex}")
    return dict(verdict="undecided", backend="-", seconds=time.time() - t0, reason="; ".join(tried), model=None)


def _work(i):
    ob = _OBS[i]
    try:
        r = discharge(ob, _TIER)
    except Exception as ex:  # tool fault in a worker is reported as undecided, never as a violation
        r = dict(verdict="undecided", backend="-", seconds=0.0, reason="worker exception: " + "".join(traceback.format_exception_only(type(ex), ex)).strip(), model=None)
    r["oid"] = ob.oid
    # make model JSON-able
    if r.get("model"):
        r["model"] = {k: (str(v) if not isinstance(v, (bool, int, float, str)) else v) for k, v in r["model"].items()}
    return i, r


def _die_with_parent():
    """pool workers must not outlive a killed parent (a `timeout` on the check would otherwise leave them spinning)"""
    try:
        import ctypes, signal
        ctypes.CDLL("libc.so.6").prctl(1, signal.SIGKILL)
    except Exception:
        pass


def discharge_all(obs, tier="quick", workers=None):
    global _OBS, _TIER
    _OBS = obs
    _TIER = tier
    workers = workers or int(os.environ.get("TPV_WORKERS", "16"))
    results = [None] * len(obs)
    heavy = [i for i, o in enumerate(obs) if o.decided is None or o.thunk is not None]
    light = [i for i, o in enumerate(obs) if o.decided is not None and o.thunk is None]
    for i in light:
        results[i] = _work(i)[1]
    if heavy:
        if workers <= 1 or len(heavy) == 1:
            for i in heavy:
                results[i] = _work(i)[1]
        else:
            ctx = mp.get_context("fork")
            with ctx.Pool(min(workers, len(heavy)), initializer=_die_with_parent) as pool:
                for i, r in pool.imap_unordered(_work, heavy, chunksize=1):
                    results[i] = r
    return results
