"""tpv — contract-based verification machinery for TidalPy (see /verif/DESIGN.md).

Pipeline: extract (real source, re-read every run) -> symbolic execution = VC generation
-> obligations -> back ends (exact normal form, z3, cvc5, Lean) -> verdicts -> evidence.
"""
import os as _os
# The registered commands always verify /repo.  TPV_REPO is a development aid only: it points the extractor (and the native replays) at a scratch copy
# so that seeded changes can be evaluated without touching /repo; evidence of such runs goes to a scratch directory, never to /verif/evidence.
REPO = _os.environ.get("TPV_REPO", "/repo")
SCRATCH_RUN = REPO != "/repo"
VERIF = __import__("os").path.dirname(__import__("os").path.dirname(__import__("os").path.abspath(__file__)))
