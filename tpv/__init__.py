"""tpv — contract-based verification machinery for TidalPy (see /verif/DESIGN.md).

Pipeline: extract (real source, re-read every run) -> symbolic execution = VC generation
-> obligations -> back ends (exact normal form, z3, cvc5, Lean) -> verdicts -> evidence.
"""
REPO = "/repo"
VERIF = __import__("os").path.dirname(__import__("os").path.dirname(__import__("os").path.abspath(__file__)))
