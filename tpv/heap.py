"""Heap / string abstractions for the object-subset properties (C16, C18, C13).

AbsDict  abstract dictionary object with ownership ("origins"): reads give children owned by the same origins (plus the origins of
         anything stored into it), `in` is an opaque boolean, every write / delete is logged with the origins it may reach.
         Frame obligations are then: no logged write reaches an input origin.
Opaque strings  unknown strings are symbols of an uninterpreted sort; f-strings with symbolic parts are uninterpreted applications that are
         injective in their integer arguments and differ from their string arguments when a literal part is non-empty (length argument);
         `lit in s` and `s.split(lit)[0]` are uninterpreted.
Divergence  `while` loops: if the loop head is reached again with an identical store and no new decision, the path diverges (reported as a
         refuted termination obligation with the path condition as witness)."""
from __future__ import annotations
import ast, itertools
import sympy as sp
from . import terms as T
from .symex import Exec, SymExError, _Raise, _Break, _Continue, Raised, _hashable, Obj

_cnt = itertools.count()


class Diverges(Exception):
    def __init__(self, line, store):
        self.line, self.store = line, store


class AbsDict:
    def __init__(self, origins, label="", log=None, maybe_scalar=False):
        self.origins = set(origins)
        self.stored = set()
        self.label = label
        self.log = log if log is not None else []
        self.maybe_scalar = maybe_scalar
        self.known = {}            # concrete string key -> value written during this execution
        self.id = next(_cnt)

    def reach(self):
        return set(self.origins) | set(self.stored)

    def child(self, key):
        return AbsDict(self.reach(), f"{self.label}[{key}]", self.log, maybe_scalar=True)

    def get(self, key):
        k = key if isinstance(key, str) else str(key)
        if k in self.known:
            return self.known[k]
        return self.child(k)

    def set(self, key, val, node=None):
        self.log.append(dict(kind="setitem", target=self.label, origins=sorted(self.origins), line=getattr(node, "lineno", None), key=str(key)))
        if isinstance(val, AbsDict):
            self.stored |= val.reach()
        self.known[key if isinstance(key, str) else str(key)] = val

    def delete(self, key, node=None):
        self.log.append(dict(kind="delitem", target=self.label, origins=sorted(self.origins), line=getattr(node, "lineno", None), key=str(key)))
        self.known.pop(key if isinstance(key, str) else str(key), None)

    def __repr__(self):
        return f"AbsDict({self.label}, {sorted(self.reach())})"


def S(name):
    """opaque string symbol"""
    return sp.Symbol("str:" + name, real=True)


CONTAINS = sp.Function("CONTAINS", real=True)      # CONTAINS(lit_id, s) == 1 iff literal occurs in s
SPLIT0 = sp.Function("SPLIT0", real=True)          # s.split(lit)[0]
_lit_ids = {}


def lit_id(s):
    return sp.Integer(_lit_ids.setdefault(s, len(_lit_ids) + 1))


def fmt_axioms(formulas):
    """axiom instances for the FMT_* applications occurring in `formulas`"""
    apps = set()
    for f in formulas:
        if isinstance(f, sp.Basic):
            for a in sp.preorder_traversal(f):
                if isinstance(a, sp.core.function.AppliedUndef) and a.func.__name__.startswith("FMT_"):
                    apps.add(a)
    facts = []
    lits = set()
    for f in formulas:
        if isinstance(f, sp.Basic):
            lits |= {x for x in f.free_symbols if x.name.startswith("strlit:")}
    lits = sorted(lits, key=str)
    for i in range(len(lits)):
        for j in range(i + 1, len(lits)):
            facts.append(sp.Ne(lits[i], lits[j]))
    apps = sorted(apps, key=str)
    for a in apps:
        meta = FMT_META.get(a.func.__name__)
        if meta and meta["nonempty_literal"]:
            for arg, kind in zip(a.args, meta["kinds"]):
                if kind == "str":
                    facts.append(sp.Ne(a, arg))        # appending / prepending a non-empty literal changes the string
    for i in range(len(apps)):
        for j in range(i + 1, len(apps)):
            a, c = apps[i], apps[j]
            if a.func != c.func and a.args == c.args:
                ma, mc = FMT_META.get(a.func.__name__), FMT_META.get(c.func.__name__)
                if ma and mc:
                    sa, sc = ma["shape"].split("|"), mc["shape"].split("|")
                    # same placeholder structure, literal segments of equal length, at least one different: the strings differ
                    if len(sa) == len(sc) and all((x == "{}") == (y == "{}") and len(x) == len(y) for x, y in zip(sa, sc)) and sa != sc:
                        facts.append(sp.Ne(a, c))
            if a.func == c.func:
                meta = FMT_META.get(a.func.__name__)
                same_str = all(x == y for x, y, k in zip(a.args, c.args, meta["kinds"]) if k == "str")
                if same_str:
                    ints = [sp.Eq(x, y) for x, y, k in zip(a.args, c.args, meta["kinds"]) if k == "int"]
                    if ints:
                        facts.append(sp.Equivalent(sp.Eq(a, c), sp.And(*ints)))
    return facts


FMT_META = {}


class HeapExec(Exec):
    """Exec with abstract dictionaries, opaque strings and divergence detection"""

    def __init__(self, *a, **k):
        super().__init__(*a, **k)
        self.heap_log = []
        self.diverged = []

    # ---- strings
    def is_sstr(self, v):
        return isinstance(v, sp.Basic) and not isinstance(v, sp.logic.boolalg.BooleanAtom) and (
            (isinstance(v, sp.Symbol) and v.name.startswith("str:")) or
            (isinstance(v, sp.core.function.AppliedUndef) and (v.func.__name__.startswith("FMT_") or v.func.__name__.startswith("STR_") or v.func.__name__ == "SPLIT0")))

    def ev_JoinedStr(self, node, env):
        parts, kinds, args, lits = [], [], [], []
        for v in node.values:
            if isinstance(v, ast.Constant):
                lits.append(str(v.value))
                parts.append(("lit", str(v.value)))
            else:
                val = self.ev(v.value, env)
                if self.is_sstr(val):
                    parts.append(("arg", len(args)))
                    args.append(val)
                    kinds.append("str")
                elif isinstance(val, sp.Expr) and not val.is_number:
                    parts.append(("arg", len(args)))
                    args.append(val)
                    kinds.append("int")
                else:
                    s_ = str(val)
                    lits.append(s_)
                    parts.append(("lit", s_))
        if not args:
            return "".join(p[1] for p in parts)
        shape = "|".join(p[1] if p[0] == "lit" else "{}" for p in parts)
        name = "FMT_" + str(abs(hash(shape)) % 10 ** 10)
        FMT_META[name] = dict(shape=shape, kinds=kinds, nonempty_literal=any(len(x) > 0 for x in lits))
        return sp.Function(name, real=True)(*args)

    def binop(self, op, a, b, node):
        if isinstance(op, (ast.Add, ast.Mod, ast.Mult)) and (self.is_sstr(a) or self.is_sstr(b)) and (isinstance(a, str) or isinstance(b, str) or (self.is_sstr(a) and self.is_sstr(b))):
            lift = lambda v: v if isinstance(v, sp.Basic) else sp.Symbol("strlit:" + str(v), real=True)
            return sp.Function("FMT_concat", real=True)(lift(a), lift(b))
        return super().binop(op, a, b, node)

    def compare(self, op, a, b, node):
        if isinstance(op, (ast.Eq, ast.NotEq)) and (isinstance(a, TypeOf) or isinstance(b, TypeOf)):
            t, other = (a, b) if isinstance(a, TypeOf) else (b, a)
            want = other[1] if isinstance(other, tuple) and other and other[0] == "fn" else str(other)
            if isinstance(t.obj, AbsDict):
                if want != "dict":
                    r = False
                elif not t.obj.maybe_scalar:
                    r = True
                else:
                    r = sp.Eq(sp.Symbol(f"isdict!{t.obj.id}", real=True), 1)
            else:
                from .symex import _sh_type
                r = _sh_type(self, node, t.obj) == other
            if isinstance(op, ast.Eq):
                return r
            return (not r) if isinstance(r, bool) else sp.Not(r)
        if isinstance(op, (ast.In, ast.NotIn)):
            if isinstance(b, AbsDict):
                r = sp.Symbol(f"haskey!{next(_cnt)}", real=True)
                c = sp.Eq(r, 1)
                return c if isinstance(op, ast.In) else sp.Not(c)
            if self.is_sstr(b) and isinstance(a, str):
                c = sp.Eq(CONTAINS(lit_id(a), b), 1)
                return c if isinstance(op, ast.In) else sp.Not(c)
        if isinstance(op, (ast.Eq, ast.NotEq)) and (self.is_sstr(a) or self.is_sstr(b)):
            if isinstance(a, str) or isinstance(b, str):
                lit = a if isinstance(a, str) else b
                other = b if isinstance(a, str) else a
                c = sp.Eq(other, sp.Symbol("strlit:" + lit, real=True))
            else:
                c = sp.Eq(a, b)
            if c is sp.true:
                return isinstance(op, ast.Eq)
            return c if isinstance(op, ast.Eq) else sp.Not(c)
        return super().compare(op, a, b, node)

    def call_bound(self, meth, base, args, kwargs, node):
        if self.is_sstr(base):
            if meth == "split" and len(args) == 1 and isinstance(args[0], str):
                return SplitResult(SPLIT0(lit_id(args[0]), base))
            if meth in ("lower", "strip", "title"):
                return sp.Function("STR_" + meth, real=True)(base)
            raise SymExError(f"string method .{meth} on an opaque string")
        if isinstance(base, AbsDict):
            if meth == "items":
                k = S(f"key{next(_cnt)}")
                return [(k, base.child(k))]       # one generic (key, value) pair
            if meth == "get":
                return base.get(args[0])
            if meth == "keys":
                return [S(f"key{next(_cnt)}")]
            if meth == "values":
                return [base.child(S(f"key{next(_cnt)}"))]
            if meth == "pop":                 # removes the key when present: a write to the object (logged with its origins)
                v = base.get(args[0])
                base.delete(args[0], node)
                return v
            if meth == "popitem" or meth == "clear":
                base.delete("*", node)
                return None if meth == "clear" else (S(f"key{next(_cnt)}"), base.child("*"))
            if meth == "setdefault":          # may insert: a write
                v = base.get(args[0])
                base.set(args[0], v if (args[0] if isinstance(args[0], str) else str(args[0])) in base.known else (args[1] if len(args) > 1 else None), node)
                return base.get(args[0])
            if meth == "update":
                base.set("*", args[0] if args else None, node)
                return None
            raise SymExError(f"method .{meth} on an abstract dictionary")
        return super().call_bound(meth, base, args, kwargs, node)

    def ev_Attribute(self, node, env):
        base = self.ev(node.value, env)
        if self.is_sstr(base) or isinstance(base, AbsDict):
            return ("bound", node.attr, base)
        return super().ev_Attribute(node, env)

    def ev_Subscript(self, node, env):
        base = self.ev(node.value, env)
        if isinstance(base, SplitResult):
            idx = self.ev_index(node.slice, env)
            if sp.sympify(idx) == 0:
                return base.first
            raise SymExError("only [0] of an opaque split is modelled")
        if isinstance(base, AbsDict):
            idx = self.ev_index(node.slice, env)
            return base.get(idx if isinstance(idx, str) else str(idx))
        return super().ev_Subscript(node, env)

    def assign(self, t, v, env):
        if isinstance(t, ast.Subscript):
            base = self.ev(t.value, env)
            if isinstance(base, AbsDict):
                idx = self.ev_index(t.slice, env)
                base.set(idx if isinstance(idx, str) else str(idx), v, t)
                return
        return super().assign(t, v, env)

    def st_Delete(self, st, env):
        for t in st.targets:
            if isinstance(t, ast.Subscript):
                base = self.ev(t.value, env)
                if isinstance(base, AbsDict):
                    idx = self.ev_index(t.slice, env)
                    base.delete(idx if isinstance(idx, str) else str(idx), t)
                    continue
            super().st_Delete(ast.Delete(targets=[t], lineno=st.lineno, col_offset=0), env)

    def feasible(self, cond):
        if not self.check_feasibility:
            return True
        from . import backends as B
        extra = fmt_axioms(self.pc + self.facts + [cond])
        try:
            r = B.z3_check(self.pc + self.facts + extra + [cond], sp.false, timeout_s=self.feas_timeout / 1000.0)
        except Exception:
            return True
        return r["verdict"] != "discharged"

    # ---- divergence
    def st_While(self, st, env):
        seen = []
        n = 0
        while True:
            snap = (tuple(sorted((k, str(v)) for k, v in env.items() if not callable(v) and not isinstance(v, (dict, list, AbsDict, Obj)))), frozenset(str(c) for c in self.pc))
            if snap in seen:
                raise _Raise(Raised("@diverges", (st.lineno,)))
            seen.append(snap)
            c = self.truth(self.ev(st.test, env), st.test)
            if not c:
                break
            n += 1
            if n > self.opts.get("while_unroll", 64):
                raise SymExError(f"while at line {st.lineno}: more than {self.opts.get('while_unroll', 64)} iterations without a loop contract")
            try:
                self.exec_block(st.body, env)
            except _Break:
                return
            except _Continue:
                continue
        self.exec_block(st.orelse, env)


class TypeOf:
    def __init__(self, obj):
        self.obj = obj


def type_shim(ex, node, x):
    return TypeOf(x)


class SplitResult:
    def __init__(self, first):
        self.first = first


def deepcopy_shim(log):
    def f(ex, node, x, *a, **k):
        if isinstance(x, AbsDict):
            return AbsDict({f"fresh#{next(_cnt)}"}, f"deepcopy({x.label})", x.log)
        import copy
        return copy.deepcopy(x)
    return f


# ---------------------------------------------------------------------------------------------
# ghost file system (C18): open / write / makedirs / savez are recorded as an ordered event list
class GhostFile:
    def __init__(self, fs, path, mode):
        self.fs, self.path, self.mode = fs, path, mode
        fs.event("open:" + mode, path)

    def write(self, text):
        self.fs.event("write", self.path)


class GhostFS:
    def __init__(self, initial=None):
        self.events = []
        # what a previous (interrupted) attempt left behind: {path suffix: "dir" | "complete" | "partial"}; a partial file exists but cannot be read back
        self.initial = dict(initial or {})

    def state_of(self, path):
        p_ = str(path)
        for kind, q_ in reversed(self.events):
            if q_ == p_ and (kind.startswith("open:w") or kind in ("savez", "makedirs")):
                return "dir" if kind == "makedirs" else "complete"
        for suffix, st_ in self.initial.items():
            if p_.endswith(suffix):
                return st_
        return None

    def event(self, kind, path):
        self.events.append((kind, str(path)))

    def shims(self):
        fs = self

        def _open(ex, node, path, mode="r"):
            return GhostFile(fs, path, mode)

        def _join(ex, node, *parts):
            return "/".join(str(p) for p in parts)

        def _isdir(ex, node, path):
            return fs.state_of(path) == "dir"

        def _isfile(ex, node, path):
            return fs.state_of(path) in ("complete", "partial")

        def _load(ex, node, path, *a, **k):
            st_ = fs.state_of(path)
            from .symex import _Raise, Raised
            if st_ == "partial":
                raise _Raise(Raised("BadZipFile", ("File is not a zip file (truncated by a kill during the write)",)))
            if st_ is None:
                raise _Raise(Raised("FileNotFoundError", (str(path),)))
            raise SymExError("np.load of a complete result file is not modelled")

        def _makedirs(ex, node, path, **k):
            fs.event("makedirs", path)

        def _savez(ex, node, path, *a, **k):
            fs.event("savez", path)

        def _time(ex, node):
            return sp.Symbol(f"time!{next(_cnt)}", real=True)
        from .symex import Namespace
        return dict(open=_open, os=Namespace("os", {"path": Namespace("os.path", {"join": _join, "isdir": _isdir, "isfile": _isfile, "exists": (lambda ex, node, path: fs.state_of(path) is not None)}), "makedirs": _makedirs}),
                    np=Namespace("np", {"savez": _savez, "load": _load}), time=Namespace("time", {"time": _time}))


def _with_support(cls):
    def st_With(self, st, env):
        for item in st.items:
            v = self.ev(item.context_expr, env)
            if item.optional_vars is not None:
                self.assign(item.optional_vars, v, env)
        self.exec_block(st.body, env)
    cls.st_With = st_With

    def call_bound_file(self, meth, base, args, kwargs, node):
        if isinstance(base, GhostFile) and meth == "write":
            return base.write(args[0] if args else "")
        return _orig_cb(self, meth, base, args, kwargs, node)
    _orig_cb = cls.call_bound
    cls.call_bound = call_bound_file

    def ev_Attribute_file(self, node, env):
        base = self.ev(node.value, env)
        if isinstance(base, GhostFile):
            return ("bound", node.attr, base)
        return _orig_attr(self, node, env)
    _orig_attr = cls.ev_Attribute
    cls.ev_Attribute = ev_Attribute_file


_with_support(HeapExec)
