"""Native replays: run the real TidalPy code under /venv/bin/python in a subprocess."""
from __future__ import annotations
import json, subprocess, os, sys, hashlib
from . import REPO, VERIF

VENV_PY = "/venv/bin/python"

_DRIVER = r'''
import json, sys, importlib, math, cmath
import numpy as np
def dec(v):
    if isinstance(v, dict):
        if "c" in v: return complex(v["c"][0], v["c"][1])
        if "a" in v: return np.array([dec(x) for x in v["a"]], dtype=v.get("dtype"))
        if "t" in v: return tuple(dec(x) for x in v["t"])
        return {k: dec(x) for k, x in v.items()}
    if isinstance(v, list): return [dec(x) for x in v]
    return v
def enc(v):
    if isinstance(v, (bool, type(None), str)): return v
    if isinstance(v, (int, np.integer)): return int(v)
    if isinstance(v, (float, np.floating)):
        f = float(v)
        return f if math.isfinite(f) else {"f": repr(f)}
    if isinstance(v, (complex, np.complexfloating)): return {"c": [enc(v.real), enc(v.imag)]}
    if isinstance(v, np.ndarray): return {"a": [enc(x) for x in v.tolist()]} if v.ndim else enc(v.item())
    if isinstance(v, (list, tuple)): return [enc(x) for x in v]
    if isinstance(v, dict): return {str(k): enc(x) for k, x in v.items()}
    return {"repr": repr(v)}
job = json.loads(sys.stdin.read())
out = {}
try:
    if job.get("code"):
        ns = {"np": np, "dec": dec, "enc": enc, "args": dec(job.get("args", {}))}
        exec(job["code"], ns)
        out["result"] = enc(ns.get("result"))
    else:
        mod = importlib.import_module(job["module"])
        f = mod
        for part in job["func"].split("."):
            f = getattr(f, part)
        if job.get("py_func") and hasattr(f, "py_func"):
            f = f.py_func
        r = f(*dec(job.get("args", [])), **dec(job.get("kwargs", {})))
        out["result"] = enc(r)
except BaseException as ex:
    out["exception"] = type(ex).__name__ + ": " + str(ex)[:300]
print("@@RESULT@@" + json.dumps(out))
'''


def run(job, timeout=300):
    """job: dict(module, func, args, kwargs) or dict(code, args). Returns dict(result|exception|crash)."""
    env = dict(os.environ)
    env["PYTHONPATH"] = REPO
    env.setdefault("NUMBA_CACHE_DIR", os.path.join(VERIF, ".numba_cache"))
    env["PYTHONWARNINGS"] = "ignore"
    # pure-Python mode of TidalPy (njit becomes the identity): no stale numba cache after a source change, no compile time;
    # "numba preserves the CPython semantics of these bodies" is a listed assumption of every check
    env["NUMBA_DISABLE_JIT"] = "1"
    try:
        p = subprocess.run([VENV_PY, "-c", _DRIVER], input=json.dumps(job), capture_output=True, text=True,
                           timeout=timeout, env=env, cwd=VERIF)
    except subprocess.TimeoutExpired:
        return {"crash": "timeout", "timeout_s": timeout}
    for line in (p.stdout or "").splitlines():
        if line.startswith("@@RESULT@@"):
            return json.loads(line[len("@@RESULT@@"):])
    return {"crash": f"exit status {p.returncode}", "stderr": (p.stderr or "")[-500:]}


def call(module, func, args=(), kwargs=None, py_func=False, timeout=300):
    return run(dict(module=module, func=func, args=list(args), kwargs=kwargs or {}, py_func=py_func), timeout)


def cx(z):
    z = complex(z)
    return {"c": [z.real, z.imag]}


def arr(xs, dtype=None):
    d = {"a": list(xs)}
    if dtype:
        d["dtype"] = dtype
    return d


def unc(v):
    """decode the driver's encoding into python numbers"""
    if isinstance(v, dict):
        if "c" in v:
            return complex(unc(v["c"][0]), unc(v["c"][1]))
        if "a" in v:
            return [unc(x) for x in v["a"]]
        if "f" in v:
            return float(v["f"])
        return {k: unc(x) for k, x in v.items()}
    if isinstance(v, list):
        return [unc(x) for x in v]
    return v
