"""Extraction of the real functions from /repo (re-read on every run).

.py  : ast.parse of the file; the FunctionDef is taken verbatim.  Dropped (and reported): decorators,
       annotations, docstrings.
.pyx : translated by tpv.pyx2py (line-oriented, refuses what it does not know) and then parsed.
"""
from __future__ import annotations
import ast, hashlib, os
from . import REPO

_cache = {}


class ExtractError(Exception):
    pass


class Source:
    def __init__(self, relpath):
        self.relpath = relpath
        self.path = os.path.join(REPO, relpath)
        if not os.path.exists(self.path):
            raise ExtractError(f"missing source file {relpath}")
        raw = open(self.path, encoding="utf-8").read()
        self.sha = hashlib.sha256(raw.encode()).hexdigest()
        self.dropped = []
        if relpath.endswith((".pyx", ".pxd")):
            from . import pyx2py
            self.text, self.dropped, self.sidetable = pyx2py.translate(raw, relpath)
            self.translated = True
        else:
            self.text = raw
            self.sidetable = {}
            self.translated = False
        try:
            self.tree = ast.parse(self.text)
        except SyntaxError as ex:
            raise ExtractError(f"{relpath}: cannot parse ({'translated ' if self.translated else ''}source) line {ex.lineno}: {ex.msg}")
        self.raw = raw

    def segment(self, node):
        return ast.get_source_segment(self.text, node)

    def find(self, qualname):
        parts = qualname.split(".")
        body = self.tree.body
        node = None
        for i, p in enumerate(parts):
            node = None
            for st in body:
                if isinstance(st, (ast.FunctionDef, ast.ClassDef)) and st.name == p:
                    node = st
                    break
                # functions defined under `if`/`try` at module level
                if isinstance(st, (ast.If, ast.Try)):
                    for sub in ast.walk(st):
                        if isinstance(sub, (ast.FunctionDef, ast.ClassDef)) and sub.name == p:
                            node = sub
                            break
                    if node:
                        break
            if node is None:
                raise ExtractError(f"{self.relpath}: no definition {qualname!r}")
            body = node.body
        return node

    def module_constants(self):
        """top-level `NAME = <literal expr>` assignments, as AST nodes"""
        out = {}
        for st in self.tree.body:
            if isinstance(st, ast.Assign) and len(st.targets) == 1 and isinstance(st.targets[0], ast.Name):
                out[st.targets[0].id] = st.value
            elif isinstance(st, ast.AnnAssign) and isinstance(st.target, ast.Name) and st.value is not None:
                out[st.target.id] = st.value
        return out


def source(relpath) -> Source:
    key = relpath
    if key not in _cache:
        _cache[key] = Source(relpath)
    return _cache[key]


def clear_cache():
    _cache.clear()


class Fn:
    """an extracted function: AST + provenance"""

    def __init__(self, relpath, qualname):
        self.src = source(relpath)
        self.relpath = relpath
        self.qualname = qualname
        self.node = self.src.find(qualname)
        if not isinstance(self.node, ast.FunctionDef):
            raise ExtractError(f"{relpath}::{qualname} is not a function")
        self.key = f"{relpath}::{qualname}"
        self.dropped = []
        if self.node.decorator_list:
            self.dropped.append("decorators: " + ", ".join(ast.unparse(d)[:40] for d in self.node.decorator_list))
        if ast.get_docstring(self.node):
            self.dropped.append("docstring")
        if any(a.annotation for a in self.node.args.args) or self.node.returns:
            self.dropped.append("annotations")
        self.params = [a.arg for a in self.node.args.posonlyargs + self.node.args.args]
        self.kwonly = [a.arg for a in self.node.args.kwonlyargs]
        nd = len(self.node.args.defaults)
        self.defaults = dict(zip(self.params[len(self.params) - nd:], self.node.args.defaults)) if nd else {}
        for a, d in zip(self.node.args.kwonlyargs, self.node.args.kw_defaults):
            if d is not None:
                self.defaults[a.arg] = d
        self.vararg = self.node.args.vararg.arg if self.node.args.vararg else None
        self.kwarg = self.node.args.kwarg.arg if self.node.args.kwarg else None
        seg = ast.get_source_segment(self.src.text, self.node) or ""
        self.sha = hashlib.sha256(seg.encode()).hexdigest()[:16]

    def info(self):
        return dict(function=self.key, line=self.node.lineno, source_sha=self.sha,
                    translated_from_pyx=self.src.translated, dropped=self.dropped)
