"""Executor cross-check (DESIGN 1.2): every symbolically executed function is also run natively (the real code
under /venv/bin/python) at points taken from each explored path; the symbolic term evaluated at the same
point (true sqrt/exp/... in 40-digit arithmetic) must agree.  A mismatch is a TOOL fault (exit 3)."""
from __future__ import annotations
import random
from fractions import Fraction
import sympy as sp
import mpmath as mp
from . import terms as T
from .terms import Cx

mp.mp.dps = 40

_UF = {"sqrt_": mp.sqrt, "cbrt_": lambda x: mp.cbrt(x) if x >= 0 else -mp.cbrt(-x), "exp_": mp.exp, "log_": mp.log, "sin_": mp.sin,
       "cos_": mp.cos, "tan_": mp.tan, "abs_": abs, "sign_": mp.sign, "pow_": lambda x, a: mp.power(x, a), "tgamma_": mp.gamma,
       "atan2_": mp.atan2, "floor_": mp.floor}


def numeval(e, pt):
    """numeric value (mpf) of a real term at pt: {Symbol: mpf}"""
    if isinstance(e, (int, float)):
        return mp.mpf(e)
    if isinstance(e, sp.Symbol):
        if e == T.PI:
            return mp.pi
        return pt[e]
    if e.is_Rational:
        return mp.mpf(int(e.p)) / mp.mpf(int(e.q))
    if isinstance(e, sp.Float):
        return mp.mpf(str(e))
    if isinstance(e, sp.Add):
        return mp.fsum(numeval(a, pt) for a in e.args)
    if isinstance(e, sp.Mul):
        r = mp.mpf(1)
        for a in e.args:
            r *= numeval(a, pt)
        return r
    if isinstance(e, sp.Pow):
        return mp.power(numeval(e.base, pt), numeval(e.exp, pt))
    if isinstance(e, sp.core.function.AppliedUndef):
        nm = e.func.__name__
        if nm in _UF:
            return _UF[nm](*[numeval(a, pt) for a in e.args])
        raise KeyError(nm)
    if e is sp.oo:
        return mp.inf
    raise KeyError(type(e).__name__)


def booleval(c, pt):
    c = T.as_bool(c)
    if c is sp.true:
        return True
    if c is sp.false:
        return False
    if isinstance(c, sp.And):
        return all(booleval(a, pt) for a in c.args)
    if isinstance(c, sp.Or):
        return any(booleval(a, pt) for a in c.args)
    if isinstance(c, sp.Not):
        return not booleval(c.args[0], pt)
    if isinstance(c, sp.Implies):
        return (not booleval(c.args[0], pt)) or booleval(c.args[1], pt)
    l, r = numeval(c.lhs, pt), numeval(c.rhs, pt)
    if isinstance(c, sp.Eq):
        return l == r
    if isinstance(c, sp.Ne):
        return l != r
    if isinstance(c, sp.Lt):
        return l < r
    if isinstance(c, sp.Le):
        return l <= r
    if isinstance(c, sp.Gt):
        return l > r
    if isinstance(c, sp.Ge):
        return l >= r
    raise KeyError(type(c).__name__)


def _symbols_of(v, acc):
    if isinstance(v, Cx):
        acc |= v.re.free_symbols | v.im.free_symbols
    elif isinstance(v, sp.Basic):
        acc |= v.free_symbols
    elif isinstance(v, (list, tuple)):
        for x in v:
            _symbols_of(x, acc)
    elif isinstance(v, dict):
        for x in v.values():
            _symbols_of(x, acc)


def _concretize(v, pt):
    """symbolic argument -> native job encoding + python value"""
    from . import native
    if isinstance(v, Cx):
        z = complex(float(numeval(v.re, pt)), float(numeval(v.im, pt)))
        return native.cx(z)
    if isinstance(v, sp.Basic) and not isinstance(v, sp.logic.boolalg.BooleanAtom):
        if v.is_Integer:
            return int(v)
        return float(numeval(v, pt))
    if isinstance(v, tuple):
        return {"t": [_concretize(x, pt) for x in v]}
    if isinstance(v, list):
        return [_concretize(x, pt) for x in v]
    if isinstance(v, (bool, int, float, str)) or v is None:
        return v
    raise KeyError(f"cannot concretize {type(v).__name__}")


def _value_num(v, pt):
    if isinstance(v, Cx):
        return complex(float(numeval(v.re, pt)), float(numeval(v.im, pt)))
    if isinstance(v, sp.Basic):
        return float(numeval(v, pt))
    if isinstance(v, (tuple, list)):
        return [_value_num(x, pt) for x in v]
    if v is None or isinstance(v, (bool, int, float, str)):
        return v
    raise KeyError(type(v).__name__)


def points_for(pre, paths, syms, seed, per_path=1, extra_random=2, fixed=None):
    """points (dict Symbol->mpf) : one z3 model per path + random points satisfying pre"""
    import z3
    from . import backends as B
    pts = []
    syms = sorted(syms, key=str)
    rnd = random.Random(seed)
    for p in paths:
        if p.outcome != "return":
            continue
        env = {"memo": {}, "syms": {}, "funs": {}}
        s = z3.Solver()
        s.set("timeout", 3000)
        try:
            hy = [h for h in list(pre) + list(p.pc) + list(p.facts)]
            for fs, fv in (fixed or {}).items():
                hy.append(sp.Eq(fs, sp.Rational(Fraction(repr(float(fv))))))
            ax, _ = T.axioms_for(hy)
            for h in hy + ax:
                s.add(B.to_z3(h, z3, env))
            # nudge away from trivial values
            for sy in syms:
                zs = B.to_z3(sy, z3, env)
            if s.check() != z3.sat:
                continue
            m = s.model()
            pt = {}
            for sy in syms:
                v = B._model_value(z3, m, B.to_z3(sy, z3, env))
                if not isinstance(v, Fraction):
                    v = Fraction(1)
                pt[sy] = mp.mpf(v.numerator) / mp.mpf(v.denominator)
            pts.append(pt)
        except Exception:
            continue
    tries = 0
    want = len(pts) + extra_random
    while len(pts) < want and tries < 400:
        tries += 1
        pt = {sy: mp.mpf(rnd.choice([rnd.uniform(0.05, 3.0), rnd.uniform(1.0, 50.0), rnd.uniform(-2.0, 2.0)])) for sy in syms}
        for fs, fv in (fixed or {}).items():
            pt[fs] = mp.mpf(repr(float(fv)))
        try:
            if all(booleval(h, pt) for h in pre):
                pts.append(pt)
        except Exception:
            continue
    return pts


class XItem:
    def __init__(self, key, module, func, params, args, pre, paths, ctor=None, pyx=None):
        self.key, self.module, self.func, self.params, self.args, self.pre, self.paths = key, module, func, params, args, pre, paths
        self.ctor = ctor      # (class name, ctor args as symbolic values): call instance(*args) instead of module.func
        self.pyx = pyx        # relpath of the .pyx the compiled module was built from (skipped when the source hash differs from the baseline)


def binary_in_sync(relpath):
    """the compiled extension reflects the source only while the .pyx is byte-identical to the pinned one"""
    import hashlib, os
    from . import REPO, VERIF
    base = {}
    try:
        for ln in open(os.path.join(VERIF, "baseline", "pyx.sha256")):
            h, f = ln.split()
            base[f] = h
    except OSError:
        return False
    try:
        cur = hashlib.sha256(open(os.path.join(REPO, relpath), "rb").read()).hexdigest()
    except OSError:
        return False
    return base.get(relpath) == cur


def run_items(items, seed=0, rtol=1e-8, fixed=None):
    """returns (n_points_checked, mismatches:list[str], skipped:list[str])"""
    from . import native
    jobs = []
    meta = []
    skipped = []
    for it in items:
        if it.pyx and not binary_in_sync(it.pyx):
            skipped.append(f"{it.key}: binary_stale=true ({it.pyx} differs from the pinned source; compiled module not consulted)")
            continue
        syms = set()
        _symbols_of(list(it.args.values()), syms)
        if it.ctor:
            _symbols_of(list(it.ctor[1]), syms)
        for h in it.pre:
            syms |= getattr(h, "free_symbols", set())
        syms.discard(T.PI)
        try:
            syms |= set(fixed or {})
            pts = points_for(it.pre, it.paths, syms, seed, fixed=fixed)
        except Exception as ex:
            skipped.append(f"{it.key}: no points ({ex})")
            continue
        for pt in pts:
            # which path holds at this point (true functions)?
            chosen = None
            for p in it.paths:
                try:
                    if all(booleval(c, pt) for c in p.pc):
                        chosen = p
                        break
                except Exception:
                    continue
            if chosen is None:
                continue
            try:
                if chosen.outcome == "return":
                    expect = _value_num(chosen.value, pt)
                else:
                    expect = {"raises": chosen.value.typ}
                args = [_concretize(it.args[p], pt) for p in it.params if p in it.args]
                if len(args) != len([p for p in it.params if p in it.args]):
                    raise KeyError("args")
                kwargs = {}
                # parameters are passed positionally up to the first missing one, the rest by keyword
                pos, kw = [], {}
                gap = False
                for p in it.params:
                    if p in it.args and not gap:
                        pos.append(_concretize(it.args[p], pt))
                    elif p in it.args:
                        kw[p] = _concretize(it.args[p], pt)
                    else:
                        gap = True
            except Exception as ex:
                skipped.append(f"{it.key}: cannot evaluate at point ({type(ex).__name__} {ex})")
                continue
            job = dict(module=it.module, func=it.func, args=pos, kwargs=kw)
            if it.ctor:
                try:
                    job["ctor"] = [it.ctor[0], [_concretize(v, pt) for v in it.ctor[1]]]
                except Exception as ex:
                    skipped.append(f"{it.key}: cannot concretize constructor arguments ({ex})")
                    continue
            jobs.append(job)
            meta.append((it.key, expect, {str(k): float(v) for k, v in pt.items()}))
    if not jobs:
        return 0, [], skipped
    out = native.run(dict(code=_BATCH, args={"jobs": jobs}), timeout=900)
    if "result" not in out:
        return 0, [f"native batch failed: {out}"], skipped
    res = native.unc(out["result"])
    mism = []
    n = 0
    for (key, expect, pt), r in zip(meta, res):
        n += 1
        if isinstance(expect, dict) and "raises" in expect:
            if "exception" not in r:
                mism.append(f"{key}: executor predicts raise {expect['raises']} at {pt}, native returned {r.get('result')}")
            continue
        if "exception" in r:
            # an exception where the executor predicted a value: only a mismatch if definedness would not explain it
            if "ZeroDivision" in r["exception"] or "OverflowError" in r["exception"]:
                continue      # outside the real-arithmetic model (division by zero is a definedness obligation; overflow is floating point)
            mism.append(f"{key}: native raised {r['exception']} at {pt}, executor predicts {expect}")
            continue
        got = r["result"]
        if not _close(got, expect, rtol):
            mism.append(f"{key}: native {got} vs executor {expect} at {pt}")
    return n, mism, skipped


def _close(a, b, rtol):
    if isinstance(b, (list, tuple)):
        if not isinstance(a, (list, tuple)) or len(a) != len(b):
            return False
        return all(_close(x, y, rtol) for x, y in zip(a, b))
    if b is None or isinstance(b, (str, bool)):
        return a == b or (isinstance(a, dict) and b is None)
    try:
        a, b = complex(a), complex(b)
    except Exception:
        return False
    import cmath
    if not (cmath.isfinite(a) and cmath.isfinite(b)):
        return True   # floating-point overflow / NaN is outside the real-arithmetic model: not comparable, not a mismatch
    return abs(a - b) <= rtol * max(abs(a), abs(b), 1e-300) or abs(a - b) < 1e-300


_BATCH = r'''
import importlib
out = []
for job in args["jobs"]:
    try:
        mod = importlib.import_module(job["module"])
        if job.get("ctor"):
            cls = getattr(mod, job["ctor"][0])
            f = cls(tuple(job["ctor"][1])) if job["ctor"][1] else cls()
        else:
            f = mod
            for part in job["func"].split("."):
                f = getattr(f, part)
        r = f(*job["args"], **job["kwargs"])
        out.append({"result": enc(r)})
    except BaseException as ex:
        out.append({"exception": type(ex).__name__ + ": " + str(ex)[:200]})
result = out
'''
