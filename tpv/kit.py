"""Helpers for writing contract modules."""
from __future__ import annotations
import sympy as sp
from . import terms as T
from .terms import Cx, R
from .extract import Fn, ExtractError
from .symex import Exec, SymExError, Contract, SymArray, Obj, Raised, fresh, Namespace
from .oblig import Obligation
from .bundle import Bundle


def positives(*names):
    syms = [R(n) for n in names]
    return syms, [sp.Gt(s, 0) for s in syms]


def run_fn(b: Bundle, relpath, qualname, args, pre=(), **kw):
    """extract + symbolically execute; definedness obligations are absorbed into the bundle.
    returns (fn, exec, paths) or (fn, None, None) when the function leaves the subset."""
    fn = Fn(relpath, qualname)
    b.add_fn(fn)
    ex = Exec(fn, pre=list(pre), **{k: v for k, v in kw.items() if k != "xcheck"})
    try:
        paths = ex.run(dict(args))
    except SymExError as e:
        b.subset_exits.append(f"{fn.key}: {e}")
        return fn, None, None
    b.absorb_exec(ex)
    if relpath.endswith(".py") and kw.get("xcheck", True) is not False and not kw.get("contracts"):
        from .xcheck import XItem
        b.xitems.append(XItem(fn.key, relpath[:-3].replace("/", "."), qualname, fn.params, dict(args), list(pre), paths))
    return fn, ex, paths


def _eqs(a, b):
    """list of real equalities expressing a == b (complex -> 2)"""
    if isinstance(a, Cx) or isinstance(b, Cx):
        a, b = Cx.of(a), Cx.of(b)
        return [sp.Eq(a.re, b.re), sp.Eq(a.im, b.im)]
    return [sp.Eq(sp.sympify(a), sp.sympify(b))]


def ensure_eq(b: Bundle, fn, clause_id, paths, spec, pre=(), rels=(), clause=None, when=None, value=lambda p: p.value, **okw):
    """postcondition  result == spec  on every returning path (optionally only paths where `when(path)`)."""
    n = 0
    for i, p in enumerate(paths):
        if p.outcome != "return":
            continue
        if when is not None and not when(p):
            continue
        v = value(p)
        s = spec(p) if callable(spec) else spec
        goal = sp.And(*_eqs(v, s))
        b.add(Obligation(oid=f"{fn.key}::ensures:{clause_id}" + (f"@path{i}" if len(paths) > 1 else ""), fn=fn.key,
                         clause=clause or f"ensures result == spec ({clause_id})", goal=goal,
                         hyps=list(pre) + p.hyps, rels=list(rels),
                         meta=dict(path_condition=[str(c)[:200] for c in p.pc], result=str(v)[:300], spec=str(s)[:300]), **okw))
        n += 1
    return n


def ensure(b: Bundle, fn, clause_id, paths, goal_of, pre=(), clause=None, when=None, **okw):
    """postcondition given as goal_of(path) -> Bool on every returning path"""
    for i, p in enumerate(paths):
        if p.outcome != "return":
            continue
        if when is not None and not when(p):
            continue
        g = goal_of(p)
        b.add(Obligation(oid=f"{fn.key}::ensures:{clause_id}" + (f"@path{i}" if len(paths) > 1 else ""), fn=fn.key,
                         clause=clause or clause_id, goal=g, hyps=list(pre) + p.hyps,
                         meta=dict(path_condition=[str(c)[:200] for c in p.pc], result=str(p.value)[:300]), **okw))


def no_raise(b: Bundle, fn, paths, pre=(), clause="no exception under the precondition"):
    """every raising path must be infeasible"""
    for i, p in enumerate(paths):
        if p.outcome == "raise":
            b.add(Obligation(oid=f"{fn.key}::noraise@path{i}", fn=fn.key, clause=clause, goal=sp.false,
                             hyps=list(pre) + p.hyps, meta=dict(raised=repr(p.value), path_condition=[str(c)[:200] for c in p.pc])))


def lemma(b: Bundle, oid, clause, goal, hyps=(), fn="lemma", **okw):
    return b.add(Obligation(oid=f"lemma::{oid}", fn=fn, clause=clause, goal=goal, hyps=list(hyps), **okw))


def ground(b: Bundle, oid, fn, clause, ok, detail="", refuted_model=None, **meta):
    """obligation decided by exact ground arithmetic in the generator"""
    return b.add(Obligation(oid=oid, fn=fn, clause=clause, goal=None,
                            decided=dict(verdict="discharged" if ok else "refuted", backend="ground-exact", reason=detail,
                                         model=refuted_model), meta=meta))


def frac_model(model):
    """z3 model (strings 'p/q') -> floats"""
    from fractions import Fraction
    out = {}
    for k, v in (model or {}).items():
        try:
            out[k] = float(Fraction(str(v)))
        except Exception:
            out[k] = v
    return out


def make_replayer(module, func, params, spec_py, defaults=None, rtol=1e-9, py_func=False, kwargs_of=None):
    """generic native replay: evaluate the real function at the verifier's counter-model and compare
    with the property's formula evaluated in floating point.
    params: list of (name, kind) with kind 'r' (real symbol name) or 'c' (symbols name_re/name_im) or ('const', value)."""
    from . import native

    def rp(ob, res):
        m = frac_model(res.get("model"))
        dflt = defaults or {}
        args, pyargs = [], []
        for name, kind in params:
            if isinstance(kind, tuple):
                args.append(kind[1]); pyargs.append(kind[1]); continue
            if kind == "r":
                v = m.get(name, dflt.get(name, 1.0))
                v = float(v) if not isinstance(v, str) else 1.0
                args.append(v); pyargs.append(v)
            else:
                re = m.get(name + "_re", dflt.get(name + "_re", 1.0)); im = m.get(name + "_im", dflt.get(name + "_im", 0.0))
                z = complex(float(re), float(im))
                args.append(native.cx(z)); pyargs.append(z)
        out = native.call(module, func, args, py_func=py_func)
        rec = dict(replayed=True, module=module, func=func, inputs=[str(a) for a in pyargs], native=out)
        try:
            exp = spec_py(*pyargs)
            rec["expected"] = str(exp)
        except ZeroDivisionError:
            rec["expected"] = "undefined"
            exp = None
        if "exception" in out or "crash" in out:
            rec["confirmed"] = True
            rec["why"] = "real code raised / crashed where the contract requires a value"
            return rec
        got = native.unc(out["result"])
        rec["got"] = str(got)
        try:
            if exp is None:
                rec["confirmed"] = True
            else:
                bad = got != got or abs(got - exp) > rtol * max(1e-300, abs(exp))
                rec["confirmed"] = bool(bad)
        except Exception as ex:
            rec["confirmed"] = False
            rec["error"] = str(ex)
        return rec
    return rp


_ELEMENTWISE_CODE = r'''
import importlib, itertools
import numpy as np
cfg = args
f = getattr(importlib.import_module(cfg["module"]), cfg["func"])
base, arrays = cfg["base"], cfg["arrays"]
n = len(next(iter(arrays.values())))
def flat(v):
    return list(v) if isinstance(v, tuple) else [v]
got = flat(f(**dict(base, **{k: np.asarray(v, dtype=float) for k, v in arrays.items()})))
worst, where = 0.0, None
for k in range(n):
    ref = flat(f(**dict(base, **{kk: float(v[k]) for kk, v in arrays.items()})))
    for o, (g_, r_) in enumerate(zip(got, ref)):
        g_ = np.asarray(g_)
        gk = complex(g_.ravel()[k]) if g_.size == n else complex(g_.ravel()[0])
        r_ = complex(np.asarray(r_).ravel()[0])
        d = abs(gk - r_) / max(abs(r_), 1e-300) if (gk == gk and r_ == r_) else (0.0 if (gk != gk and r_ != r_) else float("inf"))
        if d > worst:
            worst, where = d, [k, o, [gk.real, gk.imag], [r_.real, r_.imag]]
result = {"worst_relative_difference": worst, "where_element_output_array_scalar": where}
'''


def make_elementwise_replayer(module, func, base, arrays, rtol=1e-10):
    """native replay for array_is_elementwise obligations: the real function on arrays vs element by element on scalars.
    base: keyword arguments kept scalar; arrays: {parameter: list of values} (same length, edge values included)."""
    from . import native

    def rp(ob, res):
        out = native.run(dict(code=_ELEMENTWISE_CODE, args=dict(module=module, func=func, base=base, arrays=arrays)), timeout=900)
        rec = dict(replayed=True, module=module, func=func, base=base, arrays=arrays, native=out)
        try:
            rec["confirmed"] = bool(out["result"]["worst_relative_difference"] > rtol)
        except Exception:
            rec["confirmed"] = "exception" in out or "crash" in out
        return rec
    return rp


# ---------------------------------------------------------------------------------------------
import ast as _ast
import copy as _copy


class FragmentFn:
    """a contiguous list of statements of a real function, executed with a supplied environment.
    What is dropped is everything of the enclosing function outside the selected statements (reported)."""

    def __init__(self, parent: Fn, stmts, label):
        self.src = parent.src
        self.relpath = parent.relpath
        self.qualname = parent.qualname + "#" + label
        self.key = f"{parent.relpath}::{parent.qualname}#{label}"
        node = _ast.FunctionDef(name=parent.node.name, args=_ast.arguments(posonlyargs=[], args=[], kwonlyargs=[], kw_defaults=[], defaults=[]),
                                body=list(stmts), decorator_list=[], lineno=stmts[0].lineno, col_offset=0)
        self.node = node
        self.params = []
        self.kwonly = []
        self.defaults = {}
        self.dropped = [f"fragment: lines {stmts[0].lineno}-{stmts[-1].end_lineno} of {parent.qualname}; the rest of the function is not executed"]
        import hashlib
        seg = "\n".join(_ast.unparse(s) for s in stmts)
        self.sha = hashlib.sha256(seg.encode()).hexdigest()[:16]
        self._line = stmts[0].lineno

    def info(self):
        return dict(function=self.key, line=self._line, source_sha=self.sha, translated_from_pyx=self.src.translated, dropped=self.dropped)


def find_stmts(fn_node, pred, first_only=True):
    """statements (anywhere in the function, in source order) satisfying pred"""
    out = []
    for n in _ast.walk(fn_node):
        if isinstance(n, _ast.stmt) and n is not fn_node and pred(n):
            out.append(n)
    out.sort(key=lambda s: (s.lineno, s.col_offset))
    return out


def assigns_to(name):
    def pred(s):
        if isinstance(s, _ast.Assign):
            for t in s.targets:
                for x in _ast.walk(t):
                    if isinstance(x, _ast.Name) and x.id == name:
                        return True
        return False
    return pred


def calls(name):
    def pred(s):
        if isinstance(s, (_ast.Assign, _ast.Expr, _ast.AugAssign)):
            for x in _ast.walk(s):
                if isinstance(x, _ast.Call) and _ast.unparse(x.func).split(".")[-1] == name:
                    return True
        return False
    return pred


def run_fragment(b: Bundle, parent: Fn, stmts, label, env, pre=(), **kw):
    fr = FragmentFn(parent, stmts, label)
    b.functions[fr.key] = fr.info()
    ex = Exec(fr, pre=list(pre), **kw)
    try:
        paths = ex.run(dict(env))
    except SymExError as e:
        b.subset_exits.append(f"{fr.key}: {e}")
        return fr, None, None
    b.absorb_exec(ex)
    return fr, ex, paths


def relate_runs(b: Bundle, fn, clause_id, clause, paths1, paths2, goal_of, pre=(), max_pairs=4000, **okw):
    """relational postcondition over two executions of the same function (monotonicity, additivity ...):
    for every pair of returning paths, pre /\\ pc1 /\\ pc2 => goal_of(p1, p2)."""
    k = 0
    for i, p1 in enumerate(paths1):
        if p1.outcome != "return":
            continue
        for j, p2 in enumerate(paths2):
            if p2.outcome != "return":
                continue
            g = goal_of(p1, p2)
            if g is None:
                continue
            k += 1
            if k > max_pairs:
                b.subset_exits.append(f"{fn.key}: more than {max_pairs} path pairs for {clause_id}")
                return
            b.add(Obligation(oid=f"{fn.key}::ensures:{clause_id}@paths{i}x{j}", fn=fn.key, clause=clause, goal=g,
                             hyps=list(pre) + p1.hyps + p2.hyps,
                             meta=dict(pc1=[str(c)[:160] for c in p1.pc], pc2=[str(c)[:160] for c in p2.pc]), **okw))


def rename(expr_or_list, mapping):
    if isinstance(expr_or_list, (list, tuple)):
        return [rename(e, mapping) for e in expr_or_list]
    return expr_or_list.subs(mapping, simultaneous=True)



def _subs_val(v, mapping):
    if isinstance(v, Cx):
        return Cx(sp.sympify(v.re).subs(mapping, simultaneous=True), sp.sympify(v.im).subs(mapping, simultaneous=True))
    if isinstance(v, (list, tuple)):
        return type(v)(_subs_val(x, mapping) for x in v)
    if isinstance(v, (bool, int, float)) or v is None:
        return v
    try:
        return sp.sympify(v).subs(mapping, simultaneous=True)
    except Exception:
        return v


def elementwise(b: Bundle, relpath, qualname, args, array_params, pre=(), n=2, clause_id="array_is_elementwise", rels=(), max_obligations=600, **kw):
    """the statement's "array inputs give, element by element, the value of the scalar call" as a relational postcondition:
    the real function is executed once on scalars and once on n-element arrays (numpy object semantics: NdArr) of independent symbols for the
    `array_params`; for every array path P, element k and scalar path S:   pre[k] /\ pc(P) /\ pc(S)[x := x_k]  ==>  P.value[k] == S.value[x := x_k].
    Results may be one value or a tuple of values; an output that does not depend on an array argument may stay scalar."""
    from .symex import NdArr
    kw = dict(kw, xcheck=False)
    fn, ex, spaths = run_fn(b, relpath, qualname, args, pre, **kw)
    if not spaths:
        return fn
    syms = {prm: args[prm] for prm in array_params}
    elems = {prm: [sp.Symbol(f"{syms[prm].name}__el{k}", **{a_: True for a_ in ("real", "positive") if getattr(syms[prm], "is_" + a_, None)}) for k in range(n)] for prm in array_params}
    maps = [{syms[prm]: elems[prm][k] for prm in array_params} for k in range(n)]
    arr_args = dict(args)
    for prm in array_params:
        arr_args[prm] = NdArr(list(elems[prm]))
    pre_arr = []
    for m in maps:
        pre_arr += [h.subs(m, simultaneous=True) for h in pre]
    fn2, ex2, apaths = run_fn(b, relpath, qualname, arr_args, pre_arr, **kw)
    if not apaths:
        return fn
    count = 0

    def parts(v):
        return list(v) if isinstance(v, tuple) else [v]
    for i, P in enumerate(apaths):
        if P.outcome != "return":
            b.add(Obligation(oid=f"{fn.key}::ensures:{clause_id}:noraise@path{i}", fn=fn.key, clause="array arguments raise only where the scalar call raises (no scalar path raises under the precondition)",
                             goal=sp.false if all(S.outcome == "return" for S in spaths) else sp.true, hyps=list(pre_arr) + P.hyps, meta=dict(raised=repr(P.value)[:200])))
            continue
        for k in range(n):
            mine = set(maps[k].values())
            other = set().union(*[set(m.values()) for j_, m in enumerate(maps) if j_ != k])
            hyP = [h for h in (pre_arr + P.hyps) if not (getattr(h, "free_symbols", set()) & other)]
            for j, S in enumerate(spaths):
                if S.outcome != "return":
                    continue
                sv, pv = parts(_subs_val(S.value, maps[k])), parts(P.value)
                if len(sv) != len(pv):
                    ground(b, f"{fn.key}::ensures:{clause_id}:shape@path{i}", fn.key, "array call returns as many outputs as the scalar call", False, detail=f"{len(pv)} vs {len(sv)}")
                    continue
                eqs = []
                for o_, (a_, s_) in enumerate(zip(pv, sv)):
                    if isinstance(a_, (NdArr, list)):
                        if len(a_) != n:
                            eqs.append(sp.false)
                            continue
                        a_ = a_[k]
                    eqs += _eqs(a_, s_)
                count += 1
                if count > max_obligations:
                    b.subset_exits.append(f"{fn.key}: more than {max_obligations} obligations for {clause_id}")
                    return fn
                b.add(Obligation(oid=f"{fn.key}::ensures:{clause_id}[element{k}]@paths{i}x{j}", fn=fn.key,
                                 clause="ensures an array argument gives, element by element, the value the scalar call gives for that element",
                                 goal=sp.And(*eqs), hyps=hyP + [h.subs(maps[k], simultaneous=True) for h in S.hyps], rels=list(rels),
                                 meta=dict(array_path=[str(c)[:160] for c in P.pc], scalar_path=[str(c)[:160] for c in S.pc])))
    return fn


def elementwise_loop_rule(ex, st, env, rng):
    """loop rule for `for i in range(n)` with symbolic n and no loop-carried scalar state: the body is executed once for a
    generic index 0 <= i < n.  Frame obligations (writes only at the generic index) are checked by the caller on ex.effects."""
    import sympy as _sp
    i = _sp.Symbol(f"{st.target.id}_idx", integer=True) if isinstance(st.target, _ast.Name) else None
    if i is None:
        raise SymExError("loop target must be a simple name")
    ex.facts.append(_sp.Ge(i, rng.start))
    ex.facts.append(_sp.Lt(i, rng.stop))
    env[st.target.id] = i
    ex.loop_indices = getattr(ex, "loop_indices", []) + [i]
    ex.exec_block(st.body, env)


def loop_carried(loop):
    """names whose value at the start of an iteration of `loop` may come from an earlier iteration: assigned (or element-/attribute-assigned) somewhere
    in the body and possibly read before an unconditional assignment in the body.  Syntactic and conservative (arrays are weak updates)."""
    assigned, elem = set(), set()
    for st in loop.body:
        for n in _ast.walk(st):
            if isinstance(n, _ast.Name) and isinstance(n.ctx, _ast.Store):
                assigned.add(n.id)
            if isinstance(n, (_ast.Subscript, _ast.Attribute)) and isinstance(n.ctx, _ast.Store):
                b_ = n
                while isinstance(b_, (_ast.Subscript, _ast.Attribute)):
                    b_ = b_.value
                if isinstance(b_, _ast.Name):
                    elem.add(b_.id)
    defin = {x.id for x in _ast.walk(loop.target) if isinstance(x, _ast.Name)}
    read_first = set()

    def expr(e, d):
        for n in _ast.walk(e):
            if isinstance(n, _ast.Name) and isinstance(n.ctx, _ast.Load) and n.id not in d and (n.id in assigned or n.id in elem):
                read_first.add(n.id)

    def block(stmts, d):
        for st in stmts:
            if isinstance(st, _ast.Assign):
                expr(st.value, d)
                for t in st.targets:
                    if isinstance(t, _ast.Name):
                        d.add(t.id)
                    else:
                        expr(t, d)
            elif isinstance(st, _ast.AugAssign):
                expr(st.value, d)
                expr(_ast.Name(id=st.target.id, ctx=_ast.Load()) if isinstance(st.target, _ast.Name) else st.target, d)
            elif isinstance(st, _ast.If):
                expr(st.test, d)
                d1, d2 = set(d), set(d)
                block(st.body, d1)
                block(st.orelse, d2)
                d |= (d1 & d2)
            elif isinstance(st, _ast.For):
                expr(st.iter, d)
                block(st.body, set(d) | {x.id for x in _ast.walk(st.target) if isinstance(x, _ast.Name)})
            elif isinstance(st, _ast.While):
                expr(st.test, d)
                block(st.body, set(d))
            elif isinstance(st, _ast.Try):
                block(st.body, set(d))
                for h in st.handlers:
                    block(h.body, set(d))
                block(st.finalbody, d)
            elif isinstance(st, _ast.Delete):
                pass
            else:
                expr(st, d)
    block(loop.body, defin)
    return read_first


def structural(b: Bundle, oid, fn, clause, state, detail="", **meta):
    """obligation about the SHAPE of the source that a contract relies on.  state: "ok" (recognised and as required), "wrong" (recognised, and it
    demonstrably does something else: refuted), "unknown" (not recognised - a refactoring may be harmless: undecided, never a violation)."""
    if state == "ok":
        return ground(b, oid, fn, clause, True, detail=detail, **meta)
    if state == "wrong":
        return ground(b, oid, fn, clause, False, detail=detail, refuted_model=dict(found=str(detail)[:200]), **meta)
    return b.add(Obligation(oid=oid, fn=fn, clause=clause, goal=None, meta=meta,
                            decided=dict(verdict="undecided", backend="-", reason="source shape not recognised by the contract: " + str(detail)[:200], model=None)))
