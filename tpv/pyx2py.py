"""Mechanical Cython (.pyx) -> Python-subset translation (there is no Cython compiler in this sandbox).

Token-level, logical-line oriented; every rule is local and listed in DESIGN 1.2.  Anything the rules do
not cover raises TranslateError (the check then reports *undecided*, never a verdict).

What is dropped (reported per file in the evidence): C types of declarations / parameters / returns
(kept in a side table: function -> {name: ctype}), `noexcept`, `nogil`, `inline`, casts `<T>e`, cimports,
compiler-directive comments.  Rewritten: `&x` -> ADDR(x); `<T[:n]> p` -> VIEW(p, n); `sizeof(T)` ->
SIZEOF("T"); `cdef T[N] a` -> a = STACKARRAY((N,), "T"); `NULL` -> None; `prange` -> range.
"""
from __future__ import annotations
import io, tokenize, re, token as _tk

TYPE_WORDS = {"unsigned", "signed", "const", "double", "float", "int", "long", "short", "char", "size_t", "ssize_t",
              "Py_ssize_t", "bint", "complex", "void", "str", "tuple", "list", "dict", "object", "bool", "bytes", "inline",
              "cpp_bool", "int32_t", "int64_t", "uint8_t", "uint32_t", "uint64_t", "int8_t", "int16_t", "uint16_t", "intptr_t",
              "uintptr_t", "float64_t", "complex128_t", "public", "readonly", "api", "volatile", "struct", "enum"}
PREFIX_KEYWORDS = {"return", "in", "and", "or", "not", "if", "else", "elif", "is", "yield", "lambda", "assert", "raise", "print", "while", "for"}


class TranslateError(Exception):
    pass


def _logical_lines(src):
    """[(first_line_no, indent_str, [tokens])] ; comments dropped, NL inside brackets joined"""
    out = []
    cur = []
    try:
        toks = list(tokenize.generate_tokens(io.StringIO(src).readline))
    except (tokenize.TokenError, IndentationError) as ex:
        raise TranslateError(f"tokenize: {ex}")
    indent_stack = [""]
    for t in toks:
        if t.type == tokenize.COMMENT or t.type == tokenize.NL:
            continue
        if t.type == tokenize.INDENT:
            indent_stack.append(t.string)
            continue
        if t.type == tokenize.DEDENT:
            indent_stack.pop()
            continue
        if t.type == tokenize.NEWLINE:
            if cur:
                out.append((cur[0].start[0], indent_stack[-1], cur))
            cur = []
            continue
        if t.type == tokenize.ENDMARKER:
            break
        cur.append(t)
    if cur:
        out.append((cur[0].start[0], indent_stack[-1], cur))
    return out


def _untok(tokens):
    """tokens -> source text with single spaces where needed"""
    parts = []
    prev = None
    for t in tokens:
        s = t if isinstance(t, str) else t.string
        if prev is not None:
            a, b = prev, s
            need = False
            if (a[-1].isalnum() or a[-1] in "_\"'") and (b[0].isalnum() or b[0] in "_\"'"):
                need = True
            if a in (",",) or a in ("=", "==", "+", "-", "*", "/", "<", ">", "<=", ">=", "!=", "and", "or", "not", "in", "is", "if", "else", "+=", "-=", "*=", "/=", ":", "**", "//", "%", "|", "&", "^", "->", "return", "lambda") or \
               b in ("=", "==", "+", "-", "*", "/", "<", ">", "<=", ">=", "!=", "and", "or", "not", "in", "is", "if", "else", "+=", "-=", "*=", "/=", "**", "//", "%", "|", "&", "^", "->"):
                need = True
            if need:
                parts.append(" ")
        parts.append(s)
        prev = s
    return "".join(parts)


def _strs(tokens):
    return [t.string if not isinstance(t, str) else t for t in tokens]


def _split_top(tokens, sep=","):
    """split a token-string list at top-level separators"""
    out, cur, depth = [], [], 0
    for s in tokens:
        if s in "([{":
            depth += 1
        elif s in ")]}":
            depth -= 1
        if s == sep and depth == 0:
            out.append(cur)
            cur = []
        else:
            cur.append(s)
    out.append(cur)
    return out


def _is_name(s):
    return bool(re.match(r"^[A-Za-z_]\w*$", s)) and s not in ("and", "or", "not", "in", "is", "if", "else", "for", "None", "True", "False", "lambda")


def _prefix_position(prev):
    """is an operator at this point in prefix position?"""
    if prev is None:
        return True
    if prev in PREFIX_KEYWORDS:
        return True
    if _is_name(prev) or re.match(r"^[\d.]", prev) or prev in (")", "]", "}") or prev[0] in "\"'":
        return False
    return True


def _rewrite_expr(strs, ctx):
    """casts, address-of, sizeof, NULL inside an expression token list"""
    out = []
    i = 0
    n = len(strs)
    while i < n:
        s = strs[i]
        prev = out[-1] if out else None
        if s == "<" and _prefix_position(prev):
            # cast: scan to matching '>' ; content must look like a type
            j = i + 1
            depth = 0
            ok = False
            while j < n:
                if strs[j] == "[":
                    depth += 1
                elif strs[j] == "]":
                    depth -= 1
                elif strs[j] == ">" and depth == 0:
                    ok = True
                    break
                elif not (_is_name(strs[j]) or strs[j] in ("*", "**", "[", "]", ":", "::", ",", ".", "&") or re.match(r"^\d+$", strs[j]) or depth > 0):
                    break
                j += 1
            if not ok:
                raise TranslateError(f"'<' in prefix position is not a recognisable cast: {' '.join(strs[i:i+8])}")
            tcontent = strs[i + 1:j]
            ttext = "".join(tcontent)
            m = re.match(r"^(.*?)\[:(.+)\]$", ttext)
            # operand: a primary expression after the cast
            k, operand = _take_primary(strs, j + 1)
            operand = _rewrite_expr(operand, ctx)
            if m and "[" not in m.group(1):
                # <T[:n]> p  -> VIEW(p, n)
                inner = tcontent[tcontent.index("[") + 2:-1]
                out += ["VIEW", "("] + operand + [","] + _rewrite_expr(inner, ctx) + [")"]
            else:
                ctx["casts"].append(ttext)
                if len(operand) == 1 or (operand[0] == "(" and operand[-1] == ")"):
                    out += operand
                else:
                    out += ["("] + operand + [")"]
            i = k
            continue
        if s == "&" and _prefix_position(prev):
            k, operand = _take_primary(strs, i + 1)
            out += ["ADDR", "("] + _rewrite_expr(operand, ctx) + [")"]
            i = k
            continue
        if s == "sizeof" and i + 1 < n and strs[i + 1] == "(":
            j = i + 2
            depth = 1
            while j < n and depth:
                if strs[j] == "(":
                    depth += 1
                elif strs[j] == ")":
                    depth -= 1
                j += 1
            out += ["SIZEOF", "(", '"' + " ".join(strs[i + 2:j - 1]) + '"', ")"]
            i = j
            continue
        if s == "NULL":
            out.append("None")
            i += 1
            continue
        if s == "prange":
            out.append("range")
            i += 1
            continue
        out.append(s)
        i += 1
    return out


def _take_primary(strs, i):
    """take a primary expression (name / literal / parenthesised, with trailing .attr, [..], (..)) starting at i"""
    n = len(strs)
    if i >= n:
        raise TranslateError("operand expected")
    start = i
    if strs[i] in ("-", "+"):
        i += 1
    if strs[i] == "<":
        # nested cast: handled by recursion of _rewrite_expr on the operand
        depth = 0
        j = i + 1
        while j < n and not (strs[j] == ">" and depth == 0):
            if strs[j] == "[":
                depth += 1
            elif strs[j] == "]":
                depth -= 1
            j += 1
        k, _ = _take_primary(strs, j + 1)
        return k, strs[start:k]
    if strs[i] == "&":
        k, _ = _take_primary(strs, i + 1)
        return k, strs[start:k]
    if strs[i] in "([":
        close = {"(": ")", "[": "]"}[strs[i]]
        depth = 0
        while i < n:
            if strs[i] in "([{":
                depth += 1
            elif strs[i] in ")]}":
                depth -= 1
                if depth == 0:
                    i += 1
                    break
            i += 1
    else:
        i += 1
    while i < n:
        if strs[i] == "." and i + 1 < n:
            i += 2
        elif strs[i] in "([":
            depth = 0
            while i < n:
                if strs[i] in "([{":
                    depth += 1
                elif strs[i] in ")]}":
                    depth -= 1
                    if depth == 0:
                        i += 1
                        break
                i += 1
        else:
            break
    return i, strs[start:i]


def _strip_arg(arg, ctx, fname):
    """typed parameter -> (python parameter text, name, ctype)"""
    if not arg:
        return None
    if arg[0] in ("*", "**") and len(arg) == 2:
        return "".join(arg), arg[1], ""
    if arg == ["*"]:
        return "*", None, ""
    default = None
    depth = 0
    for k, s in enumerate(arg):
        if s in "([{":
            depth += 1
        elif s in ")]}":
            depth -= 1
        elif s == "=" and depth == 0:
            default = arg[k + 1:]
            arg = arg[:k]
            break
    # name = last NAME token outside brackets
    depth = 0
    name_idx = None
    for k, s in enumerate(arg):
        if s in "([{":
            depth += 1
        elif s in ")]}":
            depth -= 1
        elif depth == 0 and _is_name(s):
            name_idx = k
    if name_idx is None:
        raise TranslateError(f"{fname}: cannot find parameter name in {' '.join(arg)}")
    name = arg[name_idx]
    ctype = "".join(arg[:name_idx])
    if default is not None:
        if default == ["*"]:
            return None
        return f"{name}={_untok(_rewrite_expr(default, ctx))}", name, ctype
    return name, name, ctype


def translate(src, relpath="<pyx>"):
    ctx = {"casts": []}
    dropped = []
    sidetable = {"types": {}, "noexcept": [], "nogil": [], "stack_arrays": {}}
    out_lines = []
    lines = _logical_lines(src)
    cur_fn = ["<module>"]
    fn_indent = [""]
    skip_block_indent = None
    idx = 0
    while idx < len(lines):
        lineno, indent, toks = lines[idx]
        idx += 1
        strs = _strs(toks)
        if skip_block_indent is not None:
            if len(indent) > len(skip_block_indent):
                continue
            skip_block_indent = None
        while len(fn_indent) > 1 and len(indent) <= len(fn_indent[-1]):
            fn_indent.pop()
            cur_fn.pop()

        def emit(text):
            out_lines.append((lineno, indent + text))

        s0 = strs[0]
        # ---- imports
        if s0 == "cimport" or (s0 == "from" and "cimport" in strs):
            emit("pass")
            dropped.append((lineno, "cimport"))
            continue
        if s0 == "ctypedef":
            emit("pass")
            dropped.append((lineno, "ctypedef"))
            continue
        if s0 == "DEF":
            emit(_untok(_rewrite_expr(strs[1:], ctx)))
            continue
        if s0 == "cdef" and len(strs) > 1 and strs[1] == "extern":
            emit("pass")
            dropped.append((lineno, "cdef extern block"))
            skip_block_indent = indent
            continue
        if s0 == "cdef" and len(strs) > 1 and strs[1] in ("struct", "enum", "union") and strs[-1] == ":":
            emit("pass")
            dropped.append((lineno, "cdef " + strs[1]))
            skip_block_indent = indent
            continue
        if s0 == "with" and strs[1:] in (["nogil", ":"], ["gil", ":"]):
            emit("if True:")
            dropped.append((lineno, "with " + strs[1]))
            continue
        # ---- classes
        if s0 == "cdef" and len(strs) > 2 and strs[1] == "class":
            emit(_untok(strs[1:]))
            continue
        # ---- function headers
        is_hdr = strs[-1] == ":" and "(" in strs and ((s0 in ("cdef", "cpdef")) or s0 == "def" or (s0 == "async"))
        if is_hdr and s0 in ("cdef", "cpdef", "def"):
            p = strs.index("(")
            name = strs[p - 1]
            if not _is_name(name):
                raise TranslateError(f"{relpath}:{lineno}: function header without name")
            # matching ')'
            depth = 0
            q = p
            while q < len(strs):
                if strs[q] == "(":
                    depth += 1
                elif strs[q] == ")":
                    depth -= 1
                    if depth == 0:
                        break
                q += 1
            args = _split_top(strs[p + 1:q])
            params = []
            types = {}
            for a in args:
                r = _strip_arg(a, ctx, name)
                if r is None:
                    continue
                text, pname, ctype = r
                params.append(text)
                if pname:
                    types[pname] = ctype
            tail = strs[q + 1:-1]
            qual = name
            if "noexcept" in tail:
                sidetable["noexcept"].append(name)
            if "nogil" in tail:
                sidetable["nogil"].append(name)
            ret = "".join(strs[1:p - 1]) if s0 != "def" else ""
            types["<return>"] = ret
            emit(f"def {name}({', '.join(params)}):")
            cur_fn.append(name)
            fn_indent.append(indent)
            sidetable["types"].setdefault(".".join(cur_fn[1:]), {}).update(types)
            if s0 != "def" or any(t for t in types.values()):
                dropped.append((lineno, f"signature types of {name}"))
            continue
        # ---- cdef declarations
        if s0 in ("cdef", "cpdef") and strs[-1] != ":":
            rest = strs[1:]
            # consume the type: type words / dotted names, then [dims] and *s
            k = 0
            # a declaration is `TYPE... name [= expr] (, name [= expr])*`
            # find where the declarators start: scan segments split at top-level commas; first segment holds type + first declarator
            segs = _split_top(rest)
            first = segs[0]
            # split first segment at top-level '='
            def split_eq(seg):
                depth = 0
                for kk, s in enumerate(seg):
                    if s in "([{":
                        depth += 1
                    elif s in ")]}":
                        depth -= 1
                    elif s == "=" and depth == 0:
                        return seg[:kk], seg[kk + 1:]
                return seg, None
            lhs, rhs = split_eq(first)
            # the declared name is the last top-level NAME of lhs; everything before is the type
            depth = 0
            name_idx = None
            for kk, s in enumerate(lhs):
                if s in "([{":
                    depth += 1
                elif s in ")]}":
                    depth -= 1
                elif depth == 0 and _is_name(s):
                    name_idx = kk
            if name_idx is None or name_idx == 0:
                raise TranslateError(f"{relpath}:{lineno}: cannot parse declaration: {' '.join(strs)[:80]}")
            ctype_toks = lhs[:name_idx]
            ctype = "".join(ctype_toks)
            after = lhs[name_idx + 1:]          # C-style dims after the name
            decls = [(lhs[name_idx], after, rhs)]
            for seg in segs[1:]:
                l2, r2 = split_eq(seg)
                l2 = [s for s in l2 if s != "*"]
                if not l2 or not _is_name(l2[0]):
                    raise TranslateError(f"{relpath}:{lineno}: cannot parse declarator {' '.join(seg)}")
                decls.append((l2[0], l2[1:], r2))
            emitted = False
            for dname, after, rhs in decls:
                fnkey = ".".join(cur_fn[1:]) or "<module>"
                sidetable["types"].setdefault(fnkey, {})[dname] = ctype + "".join(after)
                dims = re.findall(r"\[([^\[\]:]+)\]", ctype + "".join(after))
                is_ptr = ctype.endswith("*")
                if rhs is not None:
                    emit(f"{dname} = {_untok(_rewrite_expr(rhs, ctx))}")
                    emitted = True
                elif dims and not is_ptr and "::" not in ctype and ":" not in ctype:
                    base = re.sub(r"\[.*$", "", ctype)
                    emit(f"{dname} = STACKARRAY(({', '.join(dims)},), \"{base}\")")
                    sidetable["stack_arrays"].setdefault(fnkey, {})[dname] = dims
                    emitted = True
            if not emitted:
                emit("pass")
            dropped.append((lineno, "C declaration types"))
            continue
        if s0 in ("cdef", "cpdef") and strs[-1] == ":" and len(strs) == 2:
            raise TranslateError(f"{relpath}:{lineno}: `cdef:` blocks are not supported")
        # ---- for ... from
        if s0 == "for" and "from" in strs:
            raise TranslateError(f"{relpath}:{lineno}: `for .. from` loops are not supported")
        # ---- ordinary statement
        emit(_untok(_rewrite_expr(strs, ctx)))
    # assemble, keeping original line numbers (pad with blank lines)
    text_lines = []
    cur = 1
    for lineno, text in out_lines:
        while cur < lineno:
            text_lines.append("")
            cur += 1
        text_lines.append(text)
        cur += 1 + text.count("\n")
    py = "\n".join(text_lines) + "\n"
    summary = {}
    for _, what in dropped:
        k = what.split(" of ")[0]
        summary[k] = summary.get(k, 0) + 1
    drop_report = [f"{k}: {v}" for k, v in sorted(summary.items())] + ([f"casts removed: {len(ctx['casts'])}"] if ctx["casts"] else [])
    return py, drop_report, sidetable


if __name__ == "__main__":
    import sys, ast
    for f in sys.argv[1:]:
        try:
            py, dropped, side = translate(open(f).read(), f)
            ast.parse(py)
            print("OK  ", f, dropped)
        except TranslateError as ex:
            print("REFUSED", f, ex)
        except SyntaxError as ex:
            print("PARSE-FAIL", f, ex.lineno, ex.msg)
            print("\n".join(py.split("\n")[max(0, ex.lineno - 3):ex.lineno + 1]))
