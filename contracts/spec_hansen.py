"""Spec function for C08: Hansen coefficients X^{n,m}_k(e) as exact rational power series in e
(beta-expansion with Bessel series; Fractions).  G_lpq(e) = X^{-(l+1), l-2p}_{l-2p+q}(e)."""
from fractions import Fraction as F
from math import comb, factorial
import sys, ast, re
# truncated power series in e as list of Fractions length N+1
def smul(a,b,N):
    r=[F(0)]*(N+1)
    for i,x in enumerate(a):
        if x==0: continue
        for j,y in enumerate(b):
            if i+j>N: break
            if y: r[i+j]+=x*y
    return r
def sadd(a,b): return [x+y for x,y in zip(a,b)]
def sscale(a,c): return [x*c for x in a]
def spow(a,p,N):
    r=[F(1)]+[F(0)]*N
    for _ in range(p): r=smul(r,a,N)
    return r
def sqrt1me2(N):
    # sqrt(1-e^2) series
    r=[F(0)]*(N+1)
    c=F(1); k=0
    while 2*k<=N:
        r[2*k]=c
        c = c*(F(1,2)-k)/(k+1)*(-1); k+=1
    return r
def sinv(a,N):
    # 1/a, a[0]!=0
    r=[F(0)]*(N+1); r[0]=1/a[0]
    for n in range(1,N+1):
        s=sum(a[k]*r[n-k] for k in range(1,n+1))
        r[n]=-s/a[0]
    return r
def beta_series(N):
    e=[F(0),F(1)]+[F(0)]*(N-1)
    den=sadd([F(1)]+[F(0)]*N, sqrt1me2(N))
    return smul(e,sinv(den,N),N)
def gen_binom(a,j):
    # binomial(a, j) for integer a (possibly negative)
    r=F(1)
    for i in range(j): r*=F(a-i,i+1)
    return r
def bessel_series(s,k,N):
    # J_s(k e) as series in e
    r=[F(0)]*(N+1)
    sgn=1
    if s<0: s=-s; sgn=(-1)**s
    m=0
    while 2*m+s<=N:
        r[2*m+s]=F((-1)**m, factorial(m)*factorial(m+s))*(F(k,2)**(2*m+s))*sgn
        m+=1
    return r
def hansen(n,m,k,N):
    beta=beta_series(N)
    bp=[[F(1)]+[F(0)]*N]
    for i in range(N): bp.append(smul(bp[-1],beta,N))
    A=n+1-m; B=n+1+m
    total=[F(0)]*(N+1)
    # (1-beta z)^A = sum_i C(A,i)(-beta)^i z^i ; (1-beta/z)^B = sum_j C(B,j)(-beta)^j z^-j
    # need i - j + s = k - m  -> s = k-m-i+j
    for i in range(N+1):
        ci=gen_binom(A,i)*(-1)**i
        if ci==0: continue
        for j in range(N+1-i):
            cj=gen_binom(B,j)*(-1)**j
            if cj==0: continue
            s=k-m-i+j
            if abs(s)+i+j>N: continue
            Js=bessel_series(s,k,N)
            term=smul(bp[i+j],Js,N)
            total=sadd(total,sscale(term,ci*cj))
    # multiply by (1+beta^2)^-(n+1)
    ob=sadd([F(1)]+[F(0)]*N, bp[2] if N>=2 else [F(0)]*(N+1))
    p=-(n+1)
    if p>=0: fac=spow(ob,p,N)
    else: fac=spow(sinv(ob,N),-p,N)
    return smul(total,fac,N)


def G2_series(l, p, q, N):
    """series of G_lpq(e)^2 through e^N (list of N+1 Fractions)"""
    g = hansen(-(l + 1), l - 2 * p, l - 2 * p + q, N)
    return smul(g, g, N)


def G_closed_k0(l, p, N):
    """independent derivation for the k = 0 coefficient (q = 2p - l), Kaula (1966) eq. 3.66:
    G_lp(2p-l)(e) = (1-e^2)^-(l-1/2) * sum_d C(l-1, 2d+l-2p') C(2d+l-2p', d) (e/2)^(2d+l-2p'),  p' = min(p, l-p)."""
    pp = p if p <= l / 2 else l - p
    poly = [F(0)] * (N + 1)
    d = 0
    while True:
        k = 2 * d + l - 2 * pp
        if k > l - 1 or k > N:
            break
        poly[k] += F(comb(l - 1, k) * comb(k, d), 2 ** k)
        d += 1
    # (1-e^2)^-(l-1/2) = ((1-e^2)^-1/2)^(2l-1)
    inv_sqrt = sinv(sqrt1me2(N), N)
    fac = spow(inv_sqrt, 2 * l - 1, N)
    return smul(poly, fac, N)
