"""C02 — radial solutions satisfy the surface and internal boundary conditions.

The real cf_radial_solver and its repository callees are executed symbolically as one function on concrete layer stacks (contracts/solver_model.py):
CyRK by the contract "first output row = initial vector, other rows opaque", zgesv by "info = 0 => A c = b", starting vectors opaque.  On the
returned solution (dimensional, after the real re-dimensionalisation) and on the per-layer collapsed vectors (constants x stored solutions, recorded
at the real cf_collapse_layer_solution call) the statement's clauses are obligations, for every requested solution type separately:
  surface[stack;type]      solid surface: y2, y4, y6 at the outermost slice equal the requested triple
                            (tidal (0,0,(2l+1)/R), loading (-(2l+1) rho_bulk/3, 0, (2l+1)/R), free (0,0,0));
                            dynamic liquid surface: y2, y6;  static liquid surface: y7 = S6 + (4 pi G/g) S2 on the collapsed layer vector.
                            Needs the zgesv facts: proved by a linear certificate  goal == lambda * fact  checked in exact arithmetic.
  interface[stack;i;type]  between the last slice of layer i and the first slice of layer i+1: y1, y2, y5, y6 continuous where both sides
                            define them; y4 = 0 on the solid side of a solid/liquid interface; through static liquid
                            y7 = y6 + (4 pi G/g_i) y2 and y7 continuous between static liquids (g_i = mean interface gravity used by the code); the normal
                            stress on the other side of a static liquid equals its hydrostatic value rho_liquid (g_i y1 - y5);
                            stated on the OUTPUT arrays where the quantity is exposed and on the collapsed layer vectors otherwise.
  defined[stack;type]      every exposed quantity is free of the NaN sentinel and of unset storage where the layer kind defines it.
Identities are exact (rational functions of the opaque symbols).
"""
import itertools
import sympy as sp
from tpv.kit import *
from tpv import terms as T
from tpv import backends as B
from tpv.terms import Cx
from tpv.symex import SymExError
from contracts import solver_model as SM

KEY = SM.FSOL + "::cf_radial_solver"
NANC = SM.NANC
SINGLES = list(SM.LAYER_KINDS)
PAIRS = [[a, c] for a in SINGLES for c in SINGLES]
TRIPLES = [["S", "L", "S"], ["Ls", "S", "L"], ["S", "Ls", "S"], ["Ss", "Li", "Ssi"], ["L", "Ls", "S"], ["S", "S", "Ls"], ["S", "Ls", "Ls"], ["Ls", "Ls", "S"], ["S", "Ls", "L"],
           ["L", "Ls", "L"], ["Si", "Lsi", "Si"], ["S", "L", "Ls"]]
DEEP = [["S", "L", "S", "Ls", "S"], ["Ls", "L", "S", "L", "Ss"], ["S", "Ls", "L", "Ls", "S"], ["S", "S", "L", "S"], ["L", "S", "Ls", "S"]]
TYPES = ("tidal", "loading", "free")


def bc_spec(name, l, Rp, rho_b):
    if name == "tidal":
        return (sp.Integer(0), sp.Integer(0), (2 * l + 1) / Rp)
    if name == "loading":
        return (-(2 * l + 1) * rho_b / 3, sp.Integer(0), (2 * l + 1) / Rp)
    return (sp.Integer(0), sp.Integer(0), sp.Integer(0))


def has_nan(e):
    e = Cx.of(e)
    return e.re.has(NANC) or e.im.has(NANC)


def layout(kind):
    """which physical quantities a layer vector holds, in storage order"""
    t, st, _ = kind
    if t == 0:
        return ("y1", "y2", "y3", "y4", "y5", "y6")
    return ("y5", "y7") if st else ("y1", "y2", "y5", "y6")


def collapsed(rec, where):
    """collapsed layer vector (constants x stored solutions) at the bottom (0) / top (1) slice of the layer"""
    lay = layout((rec["type"], rec["static"], rec["incomp"]))
    out = {}
    for yi, q in enumerate(lay):
        tot = Cx(0)
        for j in range(rec["num_sols"]):
            tot = tot + Cx.of(rec["consts"][j]) * Cx.of(rec["rows"][j][where][yi])
        out[q] = tot
    return out


def linear_certificate(D, facts, cvars):
    """is D == lam * F for one of the facts F (both affine in cvars), with lam free of cvars?  exact."""
    D = sp.together(sp.sympify(D))
    if D == 0:
        return "0 = 0"
    nD, dD = sp.fraction(D)
    try:
        pD = sp.Poly(sp.expand(nD), *cvars)
    except sp.PolynomialError:
        return None
    for F in facts:
        F = sp.together(sp.sympify(F))
        nF, dF = sp.fraction(F)
        try:
            pF = sp.Poly(sp.expand(nF), *cvars)
        except sp.PolynomialError:
            continue
        if pF.is_zero:
            continue
        mon = pF.monoms()[0]
        cF = pF.coeff_monomial(mon)
        cD = pD.coeff_monomial(mon)
        if cD == 0:
            continue
        lam = sp.together(cD * dF / (cF * dD))
        if any(lam.has(c) for c in cvars):
            continue
        try:
            if B.nf_is_zero(D - lam * F, []):
                return f"goal == ({str(lam)[:80]}) * zgesv-fact"
        except B.NFError:
            if sp.cancel(D - lam * F) == 0:
                return f"goal == ({str(lam)[:80]}) * zgesv-fact"
    return None


def point_refute(D, facts, cvars, seed=0):
    """exact rational point: choose the opaque symbols, solve the zgesv facts for c, evaluate the goal"""
    import random
    rnd = random.Random(seed)
    syms = set()
    for e in [D] + list(facts):
        syms |= sp.sympify(e).free_symbols
    others = sorted(syms - set(cvars), key=str)
    primes = [2, 3, 5, 7, 11, 13, 17, 19, 23, 29, 31, 37, 41, 43, 47, 53, 59, 61, 67, 71, 73, 79, 83, 89, 97, 101, 103, 107, 109, 113]
    zeros = 0
    for attempt in range(5):
        val = {}
        for s in others:          # generic values: ratios of distinct primes (never 0 or 1), sign free unless the symbol is positive
            p_, q_ = rnd.sample(primes, 2)
            val[s] = sp.Rational(p_, q_) * (1 if (s.is_positive or rnd.random() < 0.5) else -1)
        if T.PI in val:
            val[T.PI] = sp.Rational(355, 113)
        try:
            eqs = [sp.sympify(f).subs(val) for f in facts]
            sol = sp.solve(eqs, list(cvars), dict=True)
            if len(sol) != 1 or len(sol[0]) != len(cvars):
                continue
            v = sp.sympify(D).subs(val).subs(sol[0])
            v = sp.nsimplify(v) if v.is_number else v
            if v.is_number and v != 0:
                m = {str(k): str(x) for k, x in list(val.items())[:40]}
                m.update({str(k): str(x) for k, x in sol[0].items()})
                return dict(value=str(v), model=m)
            if v.is_number and v == 0:
                zeros += 1
        except Exception:
            continue
    if zeros >= 3:
        return dict(value="0", model=None)
    return None


def decide_with_facts(b, oid, clause, D_list, facts, cvars, meta):
    """D_list: real expressions that must vanish given the zgesv facts"""
    certs = []
    D_list = [D for D in D_list if D != 0]
    for D in D_list:
        c = linear_certificate(D, facts, cvars)
        if c is None:
            r = point_refute(D, facts, cvars)
            if r and r["model"]:
                ground(b, oid, KEY, clause, False, detail=f"goal - 0 = {r['value']} at an exact rational point satisfying the zgesv facts", refuted_model=r["model"], **meta)
                return
            b.add(Obligation(oid=oid, fn=KEY, clause=clause, goal=None, decided=dict(verdict="undecided", backend="-", reason="no linear certificate and no separating point", model=None), meta=meta))
            return
        certs.append(c)
    ground(b, oid, KEY, clause, True, detail="; ".join(certs)[:300], **meta)


_I = sp.I


def complexify(d):
    """Cx(re, im) -> one expression over complex atoms: every pair (X_re, X_im) and every CyRK pair (SOL_.._2k, SOL_.._2k+1) becomes a single
    complex symbol.  Sound because the expression is rebuilt exactly (Z = re + i im substituted, nothing dropped); returns None when a lone half
    survives (then the real form is used)."""
    d = Cx.of(d)
    e = d.re + _I * d.im
    sub, halves = {}, set()
    for sy in e.free_symbols:
        n = sy.name
        if n.endswith("_re"):
            Z = sp.Symbol("Z_" + n[:-3])
            sub[sy] = (Z, "re")
        elif n.endswith("_im"):
            Z = sp.Symbol("Z_" + n[:-3])
            sub[sy] = (Z, "im")
        elif n.startswith("SOL_"):
            head, q = n.rsplit("_", 1)
            q = int(q)
            Z = sp.Symbol(f"Z_{head}_{q // 2}")
            sub[sy] = (Z, "re" if q % 2 == 0 else "im")
    # re = (Z + Zc)/2, im = (Z - Zc)/(2i): the identity must hold with Zc an independent atom, and Zc must cancel for an analytic expression
    m = {}
    for sy, (Z, part) in sub.items():
        Zc = sp.Symbol(Z.name + "_conj")
        m[sy] = (Z + Zc) / 2 if part == "re" else (Z - Zc) / (2 * _I)
    return e.xreplace(m)


def identity(b, oid, clause, diffs, meta):
    """complex expressions that must vanish identically (no facts needed).  Normalised over complex atoms Z, conj(Z) treated as independent
    indeterminates: vanishing there implies vanishing for every real assignment (the converse also holds, so nothing is lost)."""
    t0 = __import__("time").time()
    bad = None
    for k, d in enumerate(diffs):
        dd = Cx.of(d)
        e = dd.re if dd.im == 0 else complexify(d)
        try:
            # refutation first: non-zero at one exact rational point => not an identity (cheap; avoids an expression swell on a broken tree)
            z = None
            if e != 0 and not any(isinstance(a_, sp.core.function.AppliedUndef) for a_ in sp.preorder_traversal(e)):
                import random
                val = {}
                for sy_ in e.free_symbols:
                    rnd_ = random.Random(hash(sy_.name) & 0xffffff)
                    _pr = [2, 3, 5, 7, 11, 13, 17, 19, 23, 29, 31, 37, 41, 43, 47, 53, 59, 61, 67, 71, 73, 79, 83, 89, 97]
                    val[sy_] = sp.Rational(*rnd_.sample(_pr, 2)) + (sp.I * sp.Rational(*rnd_.sample(_pr, 2)) if not sy_.is_real else 0)
                for sy_ in list(val):
                    if sy_.name.endswith("_conj") and sp.Symbol(sy_.name[:-5]) in val:
                        val[sy_] = sp.conjugate(val[sp.Symbol(sy_.name[:-5])])
                v_ = e.xreplace(val)
                v_ = sp.nsimplify(sp.expand(v_)) if v_.is_number else v_
                if v_.is_number and v_ != 0 and v_.is_finite:
                    z = sp.Symbol("nonzero_at_point") * 0 + v_
            if z is None:
                z = sp.cancel(sp.together(e))
        except Exception as ex_:
            z = None
            bad = (k, f"normal form failed: {type(ex_).__name__}")
            break
        if z != 0:
            bad = (k, z)
            break
    secs = __import__("time").time() - t0
    if bad is None:
        b.add(Obligation(oid=oid, fn=KEY, clause=clause, goal=None, meta=meta,
                         decided=dict(verdict="discharged", backend="qqnf-complex", seconds=secs, reason=f"{len(diffs)} complex rational identities cancel to 0 over the atoms Z, conj Z", model=None)))
        return
    k, z = bad
    if not isinstance(z, str) and z.is_number:
        b.add(Obligation(oid=oid, fn=KEY, clause=clause, goal=None, meta=dict(meta, failed_clause=(meta.get("clauses") or [None] * (k + 1))[k]),
                         decided=dict(verdict="refuted", backend="exact-point", seconds=secs, reason=f"clause #{k} ({(meta.get('clauses') or [None] * (k + 1))[k]}): residual = {str(z)[:60]} at an exact rational point",
                                      model=dict(clause=k, residual=str(z)[:80]))))
        return
    if isinstance(z, str):
        b.add(Obligation(oid=oid, fn=KEY, clause=clause, goal=None, meta=meta, decided=dict(verdict="undecided", backend="-", seconds=secs, reason=z, model=None)))
        return
    # exact counter-model: a rational point where the residual is non-zero
    import random
    rnd = random.Random(0)
    syms = sorted(z.free_symbols, key=str)
    for _ in range(6):
        val = {sy_: sp.Rational(rnd.randint(1, 9), rnd.randint(1, 7)) + (_I * sp.Rational(rnd.randint(1, 9), rnd.randint(1, 7)) if sy_.name.startswith("Z_") else 0) for sy_ in syms}
        for sy_ in syms:                      # conj atoms take the conjugate value: a genuine real assignment
            if sy_.name.endswith("_conj"):
                base = sp.Symbol(sy_.name[:-5])
                val[sy_] = sp.conjugate(val.get(base, sp.Rational(rnd.randint(1, 9), rnd.randint(1, 7))))
        try:
            v = sp.simplify(z.xreplace(val))
        except Exception:
            continue
        if v.is_number and v != 0:
            b.add(Obligation(oid=oid, fn=KEY, clause=clause, goal=None, meta=dict(meta, failed_clause=(meta.get("clauses") or [None] * (k + 1))[k]),
                             decided=dict(verdict="refuted", backend="qqnf-complex+point", seconds=secs, reason=f"clause #{k} residual = {v} at an exact point",
                                          model={str(a): str(x) for a, x in val.items()})))
            return
    b.add(Obligation(oid=oid, fn=KEY, clause=clause, goal=None, meta=meta, decided=dict(verdict="undecided", backend="-", seconds=secs, reason=f"clause #{k}: non-zero normal form but no separating point found", model=None)))


def one_stack(b, stack, nondim, solve_for, analytic=None):
    analytic = (len(stack) > 1) if analytic is None else analytic
    default_request = solve_for is None          # solve_for=None: the documented default is the tidal solution
    tag = "-".join(stack) + (";nondim=1" if nondim else ";nondim=0") + ";solve_for=" + ("None" if default_request else "+".join(solve_for))
    try:
        ex, paths, cfg = SM.run_solver(b, stack, solve_for=None if default_request else tuple(solve_for), nondim=nondim, analytic=analytic)
        if default_request:
            solve_for = ("tidal",)
    except SymExError as e:
        b.subset_exits.append(f"{KEY} [{tag}]: {e}")
        return
    b.stats["paths"] += len(paths)
    if len(paths) == 1 and paths[0].outcome == "raise" and getattr(paths[0].value, "typ", "") == "NotImplementedError":
        msg = f"[{'-'.join(stack)}] rejected by the real starting-condition driver (NotImplementedError): no solution, no C02 obligation"
        if msg not in b.notes:
            b.notes.append(msg)
        return
    if len(paths) != 1 or paths[0].outcome != "return":
        b.subset_exits.append(f"{KEY} [{tag}]: expected one returning path, got {[p.outcome for p in paths]}")
        return
    st = paths[0].state
    if st.mem.sig:
        b.notes.append(f"[{tag}] no successful solution exists for this stack on the current source (memory-safety event in the solve: {sorted(set(s for s, _ in st.mem.sig))[:2]}; see C06) - no C02 obligation generated")
        return
    so = st.solution_obj
    if so.success is not True:
        b.subset_exits.append(f"{KEY} [{tag}]: solve not successful in the model ({so.message})")
        return
    l, Rp, rho_b = cfg["l"], cfg["Rp"], cfg["rho_b"]
    nl, ns, total, kinds = cfg["nl"], cfg["ns"], cfg["total"], cfg["kinds"]
    nty = len(solve_for)
    nout = 6 * nty
    out = so.full_solution_ptr.data
    Y = lambda sl, ty, q: Cx.of(out[sl * nout + ty * 6 + q])
    meta = dict(stack=list(stack), nondim=nondim, solve_for=list(solve_for), default_request=default_request)
    # scale factors between the solver's internal (possibly non-dimensional) layer vectors and the output: read off the real conversion
    for ty, name in enumerate(solve_for):
        spec = bc_spec(name.lower(), l, Rp, rho_b)
        zrec = st.zgesv_calls[ty] if ty < len(st.zgesv_calls) else None
        facts, cvars = [], []
        if zrec and zrec.get("c"):
            for fr, fi in zrec["facts"]:
                facts += [fr, fi]
            for c in zrec["c"]:
                cvars += [v_ for v_ in (c.re, c.im) if isinstance(v_, sp.Symbol)]
            facts = [f_ for f_ in facts if f_ != 0]
        top_kind = kinds[-1]
        top = total - 1
        crecs = [r for r in st.collapse_calls if r["ytype"] == ty]
        by_start = {r["start"]: r for r in crecs}
        # ---- surface
        if top_kind[0] == 0:
            D = []
            for q, target in ((1, spec[0]), (3, spec[1]), (5, spec[2])):
                d = Y(top, ty, q) - Cx.of(target)
                D += [d.re, d.im]
            decide_with_facts(b, f"{KEY}::surface[{tag}]:{name}#{ty}", f"solid surface: y2, y4, y6 at the outermost slice equal the requested {name} triple", D, facts, cvars, meta)
        elif not top_kind[1]:
            D = []
            for q, target in ((1, spec[0]), (5, spec[2])):
                d = Y(top, ty, q) - Cx.of(target)
                D += [d.re, d.im]
            decide_with_facts(b, f"{KEY}::surface[{tag}]:{name}#{ty}", f"dynamic liquid surface: y2, y6 at the outermost slice equal the requested {name} values", D, facts, cvars, meta)
        else:
            rec = by_start[(nl - 1) * ns]
            cv = collapsed(rec, 1)
            # internal units: the code's own bc_pointer triple (recorded at the surface call) and its surface gravity / G
            srec = [s_ for s_ in st.surface_calls if s_["ytype"] == ty][0]
            bc = srec["bc"][3 * ty:3 * ty + 3]
            target = Cx.of(bc[2] + bc[0] * 4 * T.PI * srec["G"] / srec["gravity"])
            d = cv["y7"] - target
            # the recorded triple itself must be the requested one (non-dimensionalised consistently): checked against the spec through the output scale of y6
            decide_with_facts(b, f"{KEY}::surface[{tag}]:{name}#{ty}", "static liquid surface: collapsed y7 = S6 + (4 pi G/g) S2", [d.re, d.im], facts, cvars, meta)
            # requested triple, in the solver's units: tidal/loading/free as coded must correspond to the dimensional spec
            if not nondim:
                ident = [Cx.of(bc[0]) - Cx.of(spec[0]), Cx.of(bc[1]) - Cx.of(spec[1]), Cx.of(bc[2]) - Cx.of(spec[2])]
                identity(b, f"{KEY}::surface_triple[{tag}]:{name}#{ty}", f"the boundary triple used for {name} is the requested one", ident, meta)
        # ---- defined
        bad = []
        for li, kind in enumerate(kinds):
            lay = layout(kind)
            exposed = {"y1": 0, "y2": 1, "y3": 2, "y4": 3, "y5": 4, "y6": 5}
            for q in lay:
                if q not in exposed:
                    continue
                for sl in (li * ns, (li + 1) * ns - 1):
                    if has_nan(Y(sl, ty, exposed[q])):
                        bad.append((li, q, sl))
        ground(b, f"{KEY}::defined[{tag}]:{name}#{ty}", KEY, "every quantity the layer kind defines is set (no NaN sentinel / unset storage) at the layer's first and last slice", not bad,
               detail=f"{sum(len(layout(k)) for k in kinds)} quantities x 2 slices" if not bad else f"unset: {bad[:4]}", refuted_model=dict(unset=str(bad[:4])) if bad else None, **meta)
        # ---- interfaces
        for i in range(nl - 1):
            lo, up = kinds[i], kinds[i + 1]
            s_lo, s_up = (i + 1) * ns - 1, (i + 1) * ns
            lay_lo, lay_up = layout(lo), layout(up)
            diffs, what = [], []
            idx = {"y1": 0, "y2": 1, "y4": 3, "y5": 4, "y6": 5}
            for q in ("y1", "y2", "y5", "y6"):
                if q in lay_lo and q in lay_up:
                    diffs.append(Y(s_lo, ty, idx[q]) - Y(s_up, ty, idx[q]))
                    what.append(q + " continuous")
            if lo[0] == 0 and up[0] != 0:
                diffs.append(Y(s_lo, ty, 3))
                what.append("y4 = 0 below")
            if lo[0] != 0 and up[0] == 0:
                diffs.append(Y(s_up, ty, 3))
                what.append("y4 = 0 above")
            rec_lo, rec_up = by_start[i * ns], by_start[(i + 1) * ns]
            c_lo, c_up = collapsed(rec_lo, 1), collapsed(rec_up, 0)
            gi = (rec_lo["gravity"][1] + rec_up["gravity"][0]) / 2
            Gc = st.solver_builds[0]["G"]
            if "y7" in c_up and "y6" in c_lo:
                diffs.append(c_up["y7"] - (c_lo["y6"] + 4 * T.PI * Gc / gi * c_lo["y2"]))
                what.append("y7 = y6 + (4 pi G/g) y2 (liquid above)")
            if "y7" in c_lo and "y6" in c_up:
                diffs.append(c_lo["y7"] - (c_up["y6"] + 4 * T.PI * Gc / gi * c_up["y2"]))
                what.append("y7 = y6 + (4 pi G/g) y2 (liquid below)")
            # hydrostatic normal stress of a static liquid, seen from the neighbouring solid / dynamic-liquid side (the liquid's own density at the interface)
            if "y7" in c_up and "y2" in c_lo:
                diffs.append(c_lo["y2"] - rec_up["density"][0] * (gi * c_lo["y1"] - c_lo["y5"]))
                what.append("y2 = rho_liquid (g y1 - y5) below a static liquid")
            if "y7" in c_lo and "y2" in c_up:
                diffs.append(c_up["y2"] - rec_lo["density"][1] * (gi * c_up["y1"] - c_up["y5"]))
                what.append("y2 = rho_liquid (g y1 - y5) above a static liquid")
            if "y7" in c_lo and "y7" in c_up:
                diffs.append(c_lo["y7"] - c_up["y7"])
                what.append("y7 continuous")
            # the collapsed layer vectors are what the output is made of: exposed quantities agree up to the re-dimensionalisation (checked in C03)
            identity(b, f"{KEY}::interface[{tag}]:{i}|{i + 1}:{name}#{ty}", f"interface {stack[i]}|{stack[i + 1]}: " + ", ".join(what), diffs, dict(meta, interface=i, clauses=what))


UP_CARRIED = {"last_layer_upper_gravity", "last_layer_upper_density", "layer_below_num_sols", "uppermost_y_per_solution_ptr", "error",
              # weak (element-wise) updates of scratch arrays that are completely rewritten in every iteration, an inner loop variable read after its loop,
              # and the conditionally assigned integrator step
              "atols_ptr", "rtols_ptr", "initial_y_ptr", "initial_y_only_real_ptr", "slice_i", "max_step_to_use"}
DOWN_CARRIED = {"layer_above_constant_vector_ptr", "layer_above_is_incomp", "layer_above_is_static", "layer_above_lower_density", "layer_above_lower_gravity", "layer_above_type",
                "uppermost_y_per_solution_ptr", "error"}


def layer_loops(b):
    """induction over the number of layers: the interface obligations are proved for every adjacent pair of layer kinds with the lower layer's solutions and the
    upper layer's constants OPAQUE, i.e. for a generic induction step; that the step is the whole story needs the layer loops to carry nothing else
    from one layer to the next.  Checked syntactically on the real loops: the loop-carried names are within the expected set."""
    import ast
    fn = Fn(SM.FSOL, "cf_radial_solver")
    loops = [n for n in ast.walk(fn.node) if isinstance(n, ast.For) and ast.unparse(n.iter) == "range(num_layers)"]
    up = [n for n in loops if "cf_solve_upper_y_at_interface" in ast.unparse(n)]
    down = [n for n in loops if "cf_top_to_bottom_interface_bc" in ast.unparse(n)]
    if len(up) != 1 or len(down) != 1:
        b.subset_exits.append(f"{KEY}: layer loops not found ({len(up)}, {len(down)})")
        return
    for lbl, lp, allowed in (("upward", up[0], UP_CARRIED), ("downward", down[0], DOWN_CARRIED)):
        got = loop_carried(lp)
        extra = sorted(got - allowed)
        if not extra:
            ground(b, f"{KEY}::loop_carried_state[{lbl}]", KEY, f"the {lbl} layer loop carries from one layer to the next only the expected state ({', '.join(sorted(allowed))})", True,
                   detail=f"carried: {sorted(got)}")
        else:
            # a new loop-carried name does not break the property by itself: it means the induction frame can no longer be established -> undecided, not a violation
            b.add(Obligation(oid=f"{KEY}::loop_carried_state[{lbl}]", fn=KEY, clause=f"the {lbl} layer loop carries from one layer to the next only the expected state", goal=None,
                             decided=dict(verdict="undecided", backend="-", reason=f"unexpected loop-carried name(s) {extra}: the generalisation from the enumerated stacks to any layer count is not established", model=None)))


def stacks_for(tier):
    out = []
    triples = TRIPLES if tier == "quick" else [[a_, b_, c_] for a_ in SINGLES for b_ in SINGLES for c_ in SINGLES]      # thorough: every triple of layer kinds
    # the driver rejects a static-incompressible solid as the innermost layer: its pairs are exercised one layer up
    lifted = [["S", "Ssi", k] for k in SINGLES] if tier == "quick" else []
    for st in [[k] for k in SINGLES] + PAIRS + triples + lifted + DEEP:
        out.append((st, True, TYPES))
    for st in [[k] for k in SINGLES] + (PAIRS if tier == "thorough" else PAIRS[::3]) + TRIPLES[:4] + DEEP[:1]:
        out.append((st, False, TYPES))
    for st in (PAIRS[::7] if tier == "quick" else PAIRS):
        for name in TYPES:
            out.append((st, True, (name,)))
    out.append((["S", "L", "S"], True, ("free", "Loading", "TIDAL", "tidal", "free")))
    for st in (["S"], ["Ls"], ["S", "Ls"], ["L", "S"]):
        out.append((st, True, None))
        out.append((st, False, None))
    seen, uniq = set(), []
    for st, nd, sf in out:
        key_ = (tuple(st), nd, tuple(sf) if sf is not None else None)
        if key_ not in seen:
            seen.add(key_)
            uniq.append((st, nd, sf))
    return uniq


def build(tier="quick", seed=0):
    b = Bundle("C02")
    sc = stacks_for(tier)
    for stack, nd, sf in sc:
        one_stack(b, stack, nd, sf)
    layer_loops(b)
    from contracts import tv_radial
    tv_radial.interfaces(b, seed)
    b.samples.append(dict(stacks=len(sc), example=dict(stack=sc[100][0], nondim=sc[100][1], solve_for=list(sc[100][2] or ["<None>"]))))
    b.explanation = ("whole-function symbolic execution of the real cf_radial_solver and callees per layer stack; surface clauses proved from the zgesv contract by an exact linear "
                     "certificate, interface clauses as exact rational identities in the opaque layer solutions")
    b.assume("layer stacks enumerated: all 1- and 2-layer stacks over the 8 layer kinds (every adjacent pair of kinds), 12 three-layer and 5 four/five-layer stacks, 4 slices per layer. "
             "Generalisation to any layer count is an induction whose STEP is machine-checked (every adjacent pair, lower solutions and upper constants opaque) and whose frame - the layer "
             "loops carry nothing but the expected state - is checked syntactically (::loop_carried_state); the induction itself is an argument, not an obligation")
    b.assume("CyRK contract: the first output row of each layer integration equals the initial vector passed in, other rows arbitrary (opaque symbols); ZGESV contract: info = 0 => A c = b")
    b.assume("static-liquid quantities y7 are not exposed in the result array: their clauses are stated on the collapsed layer vectors (constants x stored solutions) recorded at the real collapse call")
    b.assume("stacks whose outermost layer is a dynamic liquid have no successful solution on the pinned source (C06 finding) and generate no obligation while that holds")
    b.assume("doubles treated as reals")
    b.trust("tpv.pyx2py translation of solver.pyx, boundaries.pyx, interfaces.pyx, reversed.pyx, collapse.pyx, nondimensional.pyx")
    return b
