"""C12 — homogeneous-body Love number: closed forms of TidalPy/tides/love1d.py.

Top-level postconditions are written from the property statement:
   m_l = (2 l^2 + 4 l + 3) mu / (l rho g R),   k_l = 3/(2(l-1)) / (1 + m_l/(J mu)).
l is a symbolic real >= 2 (the identities are rational in l, so this covers every integer degree).
"""
import sympy as sp
from tpv.kit import *

F = "TidalPy/tides/love1d.py"


def build(tier="quick", seed=0):
    b = Bundle("C12")
    mu, g, Rr, rho, l, m = [R(n) for n in ("shear_modulus", "gravity", "radius", "density", "order_l", "eff_rigidity")]
    J = Cx(R("complex_compliance_re"), R("complex_compliance_im"))
    pos = [sp.Gt(x, 0) for x in (mu, g, Rr, rho)]
    pre_l = [sp.Ge(l, 2)]
    # ANY complex compliance (the shipped fixed-Q law has Re J < 0): only the singularities of the formula itself are excluded,
    # J != 0 and 1 + m/(J mu) != 0  <=>  |J mu + m|^2 > 0
    pre_m = [sp.Gt(m, 0)]
    pre_J = [sp.Gt(J.abs2(), 0), sp.Gt((J * mu + Cx(m)).abs2(), 0)]

    spec_m = lambda ll: (2 * ll ** 2 + 4 * ll + 3) * mu / (ll * rho * g * Rr)
    spec_k = lambda ll, mm: Cx(sp.Rational(3) / (2 * (ll - 1))) / (Cx(1) + Cx(mm) / (J * mu))

    # effective_rigidity_general
    pre = pos + pre_l
    fn, ex, paths = run_fn(b, F, "effective_rigidity_general", dict(shear_modulus=mu, gravity=g, radius=Rr, density=rho, order_l=l), pre)
    if paths:
        ensure_eq(b, fn, "m_l", paths, spec_m(l), pre, clause="ensures result == (2l^2+4l+3) mu/(l rho g R)")
        no_raise(b, fn, paths, pre)
    b.replayer(F + "::effective_rigidity_general::*", make_replayer(
        "TidalPy.tides.love1d", "effective_rigidity_general",
        [("shear_modulus", "r"), ("gravity", "r"), ("radius", "r"), ("density", "r"), ("order_l", "r")],
        lambda mu_, g_, R_, rho_, l_: (2 * l_ ** 2 + 4 * l_ + 3) * mu_ / (l_ * rho_ * g_ * R_),
        defaults=dict(order_l=2.0)))

    # effective_rigidity (degree 2) coincides with the general helper's contract at l = 2
    fn, ex, paths = run_fn(b, F, "effective_rigidity", dict(shear_modulus=mu, gravity=g, radius=Rr, density=rho), pos)
    if paths:
        ensure_eq(b, fn, "m_2", paths, spec_m(sp.Integer(2)), pos, clause="ensures result == m_l at l=2 (= 19 mu/(2 rho g R))")
        no_raise(b, fn, paths, pos)
    b.replayer(F + "::effective_rigidity::*", make_replayer(
        "TidalPy.tides.love1d", "effective_rigidity", [("shear_modulus", "r"), ("gravity", "r"), ("radius", "r"), ("density", "r")],
        lambda mu_, g_, R_, rho_: 9.5 * mu_ / (rho_ * g_ * R_)))

    # complex_love_general
    pre = [sp.Gt(mu, 0)] + pre_l + pre_J + pre_m
    fn, ex, paths = run_fn(b, F, "complex_love_general", dict(complex_compliance=J, shear_modulus=mu, eff_rigidity_general=m, order_l=l), pre)
    if paths:
        ensure_eq(b, fn, "k_l", paths, spec_k(l, m), pre, clause="ensures result == 3/(2(l-1))/(1+m_l/(J mu))")
        no_raise(b, fn, paths, pre)
    b.replayer(F + "::complex_love_general::*", make_replayer(
        "TidalPy.tides.love1d", "complex_love_general",
        [("complex_compliance", "c"), ("shear_modulus", "r"), ("eff_rigidity", "r"), ("order_l", "r")],
        lambda J_, mu_, m_, l_: 3 / (2 * (l_ - 1)) / (1 + m_ / (J_ * mu_)), defaults=dict(order_l=2.0)))

    pre2 = [sp.Gt(mu, 0)] + pre_J + pre_m
    fn, ex, paths = run_fn(b, F, "complex_love", dict(complex_compliance=J, shear_modulus=mu, eff_rigidity=m), pre2)
    if paths:
        ensure_eq(b, fn, "k_2", paths, spec_k(sp.Integer(2), m), pre2, clause="ensures result == k_l at l=2")
        no_raise(b, fn, paths, pre2)
    b.replayer(F + "::complex_love::*", make_replayer(
        "TidalPy.tides.love1d", "complex_love", [("complex_compliance", "c"), ("shear_modulus", "r"), ("eff_rigidity", "r")],
        lambda J_, mu_, m_: 1.5 / (1 + m_ / (J_ * mu_))))

    # static helpers: the elastic limit J mu = 1
    fn, ex, paths = run_fn(b, F, "static_love_general", dict(eff_rigidity_general=m, order_l=l), pre_m + pre_l)
    if paths:
        ensure_eq(b, fn, "k_static", paths, sp.Rational(3) / (2 * (l - 1)) / (1 + m), pre_m + pre_l,
                  clause="ensures result == 3/(2(l-1))/(1+m_l)")
        no_raise(b, fn, paths, pre_m + pre_l)
    fn, ex, paths = run_fn(b, F, "static_love", dict(eff_rigidity=m), pre_m)
    if paths:
        ensure_eq(b, fn, "k_static_2", paths, sp.Rational(3, 2) / (1 + m), pre_m, clause="ensures result == 3/2/(1+m_2)")
        no_raise(b, fn, paths, pre_m)

    # composition lemma over the two contracts (the statement's formula end-to-end)
    m_comp = spec_m(l)
    k_comp = spec_k(l, m_comp)
    k_stmt = Cx(sp.Rational(3) / (2 * (l - 1))) / (Cx(1) + Cx((2 * l ** 2 + 4 * l + 3) * mu / (l * rho * g * Rr)) / (J * mu))
    lemma(b, "composition", "k_l(contract of complex_love_general o contract of effective_rigidity_general) == statement formula",
          sp.And(sp.Eq(k_comp.re, k_stmt.re), sp.Eq(k_comp.im, k_stmt.im)), pos + pre_l + [sp.Gt(J.abs2(), 0), sp.Gt((J * mu + Cx(spec_m(l))).abs2(), 0)])
    call_site(b)
    # the object-oriented wrappers (static methods of TidesBase) return the helpers' values: callees executed inline from the real love1d source
    FTB = "TidalPy/tides/methods/base.py"
    inl = {"effective_rigidity_general": (Fn(F, "effective_rigidity_general"), {}), "complex_love_general": (Fn(F, "complex_love_general"), {})}
    pre = pos + pre_l
    try:
        fn, ex, paths = run_fn(b, FTB, "TidesBase.calculate_effective_rigidity", dict(shear_modulus=mu, gravity=g, radius=Rr, bulk_density=rho, tidal_order_l=l), pre, inline=inl, xcheck=False)
        if paths:
            ensure_eq(b, fn, "m_l", paths, spec_m(l), pre, clause="ensures the wrapper returns (2l^2+4l+3) mu/(l rho g R) for the degree it is given")
            no_raise(b, fn, paths, pre)
        pre = [sp.Gt(mu, 0)] + pre_l + pre_J + pre_m
        fn, ex, paths = run_fn(b, FTB, "TidesBase.calculate_complex_love_number", dict(shear_modulus=mu, complex_compliance=J, effective_rigidity=m, tidal_order_l=l), pre, inline=inl, xcheck=False)
        if paths:
            ensure_eq(b, fn, "k_l", paths, spec_k(l, m), pre, clause="ensures the wrapper returns 3/(2(l-1))/(1+m_l/(J mu)) for the degree and rigidity it is given")
            no_raise(b, fn, paths, pre)
    except ExtractError as e:
        b.subset_exits.append(str(e))
    # the dual-body caller hands each body its own bulk properties (the rho g R of the formula) - contract shared with C11
    try:
        from contracts import C11
        bb2 = Bundle("C12")
        C11.dual_call_site(bb2)
        for ob_ in bb2.obligations:
            if "own_bulk_properties" in ob_.oid or "two_worlds" in ob_.oid:
                b.add(ob_)
        b.functions.update(bb2.functions)
        b.subset_exits += bb2.subset_exits
    except Exception as e:
        b.subset_exits.append(f"quick_dual_body_tidal_dissipation (imported from C11): {type(e).__name__}: {e}")
    # the layered tides model feeds the formula with each layer's own (scale, R, rho, surface g) - contract shared with C13
    try:
        from contracts import C13
        bb3 = Bundle("C12")
        C13.layered_getters(bb3)
        for ob_ in bb3.obligations:
            b.add(ob_)
        b.functions.update(bb3.functions)
        b.subset_exits += bb3.subset_exits
        b.replayers += [r_ for r_ in bb3.replayers]
    except Exception as e:
        b.subset_exits.append(f"LayeredTides.reinit getters (imported from C13): {type(e).__name__}: {e}")
    b.assume("agreement with the layered radial solver is the Kelvin lemma of C01 instantiated at complex mu = 1/J; not re-proved here")
    b.assume("symbolic degree l is a real >= 2; integer-ness of order_l is not used")
    return b


def call_site(b):
    """collapse_modes (the mode summation that produces the Love numbers used for dissipation): for every degree l the two helpers must be
    called with THAT degree and the body's own gravity / radius / density / rigidity, and the stored per-degree Love number is the mean of
    k_l(J_sig) over the frequency signatures of that degree."""
    from contracts import C10
    from tpv.symex import Contract
    bb = Bundle("C12")
    maxl, N = 3, 2
    fn, paths, ecc, inc, spin = C10.run_terms(bb, maxl, N, True, False)
    b.subset_exits += bb.subset_exits
    if not paths:
        return
    uniq, terms = paths[0].value
    Mf = sp.Function("M_EFF", real=True)
    Kre, Kim = sp.Function("K_re", real=True), sp.Function("K_im", real=True)
    eff = Contract("effective_rigidity_general", None, None, params=["shear_modulus", "gravity", "radius", "density", "order_l"],
                   result=lambda mu_, g_, r_, d_, order_l=sp.Integer(2): Mf(order_l, mu_, g_, r_, d_))

    def love_res(Jc, mu_, m_, order_l=sp.Integer(2)):
        Jc = Cx.of(Jc)
        return Cx(Kre(order_l, Jc.re, Jc.im, mu_, m_), Kim(order_l, Jc.re, Jc.im, mu_, m_))
    love = Contract("complex_love_general", None, None, params=["complex_compliance", "shear_modulus", "eff_rigidity_general", "order_l"], result=love_res)
    comp = {sig: Cx(C10.Jre(w), C10.Jim(w)) for sig, w in uniq.items()}
    fc, ex, cpaths = run_fn(b, C10.FM, "collapse_modes", dict(gravity=C10.grav, radius=C10.Rr, density=C10.dens, shear_modulus=C10.mu, tidal_scale=sp.Integer(1),
                                                             tidal_host_mass=C10.Mh, tidal_susceptibility=C10.chi, complex_compliance_by_frequency=comp,
                                                             tidal_terms_by_frequency=terms, max_order_l=sp.Integer(maxl), cpl_ctl_method=False),
                            C10.PRE, globals_env=dict(np=C10.NPX), contracts=dict(effective_rigidity_general=eff, complex_love_general=love), xcheck=False,
                            opts=dict(check_feasibility=False, havoc_div_in_try=True, definedness=False))
    if not cpaths:
        return
    ret = [p for p in cpaths if p.outcome == "return"]
    if len(ret) != 1:
        b.subset_exits.append(f"{fc.key}: {len(ret)} returning paths")
        return
    b.replayer(f"{fc.key}::ensures:love_number_uses_degree*", _replay_callsite)
    love_by_l = ret[0].value[4]
    for ll in range(2, maxl + 1):
        sigs = [sig for sig, byl in terms.items() if ll in byl]
        m_l = Mf(sp.Integer(ll), C10.mu, C10.grav, C10.Rr, C10.dens)
        spec = Cx(0)
        for sig in sigs:
            Jc = comp[sig]
            spec = spec + Cx(Kre(sp.Integer(ll), Jc.re, Jc.im, C10.mu, m_l), Kim(sp.Integer(ll), Jc.re, Jc.im, C10.mu, m_l))
        spec = spec / Cx(len(sigs))
        got = love_by_l.get(ll) if isinstance(love_by_l, dict) else None
        if got is None:
            ground(b, f"{fc.key}::ensures:love_number_uses_degree[{ll}]", fc.key, f"love_number_by_orderl has an entry for l = {ll}", False)
            continue
        got = Cx.of(got)
        b.add(Obligation(oid=f"{fc.key}::ensures:love_number_uses_degree[{ll}]", fn=fc.key,
                         clause=f"ensures love_number_by_orderl[{ll}] == mean over signatures of complex_love_general(J_sig, mu, effective_rigidity_general(mu, g, R, rho, order_l={ll}), order_l={ll})",
                         goal=sp.And(sp.Eq(got.re, spec.re), sp.Eq(got.im, spec.im)), hyps=C10.PRE, backends=("qqnf",)))


_NATIVE_CALLSITE = r'''
import numpy as np
from TidalPy.tides.modes.mode_manipulation import find_mode_manipulators
from TidalPy.rheology.complex_compliance.compliance_models import maxwell
maxl, N = 3, 2
calc, collapse, efunc, ifunc = find_mode_manipulators(maxl, N, True)
n, Om, a, R, M, rho, g, mu, eta, Mh = 4.1e-5, 6.3e-5, 4.2e8, 1.8e6, 8.9e22, 3500.0, 1.8, 5e10, 1e17, 1.9e27
uniq, terms = calc(Om, n, a, R, efunc(0.1), ifunc(0.3))
comp = {sig: maxwell(w, 1.0 / mu, eta) for sig, w in uniq.items()}
out = collapse(g, R, rho, mu, 1.0, Mh, 1.0, comp, terms, max_order_l=maxl, cpl_ctl_method=False)
love = out[4]
res = {}
for l in range(2, maxl + 1):
    ks = []
    for sig, byl in terms.items():
        if l in byl:
            J = comp[sig]
            m_l = (2 * l * l + 4 * l + 3) * mu / (l * rho * g * R)
            ks.append(3 / (2 * (l - 1)) / (1 + m_l / (J * mu)))
    exp = sum(ks) / len(ks)
    got = complex(love[l])
    res[str(l)] = [abs(got - exp) / abs(exp)]
result = res
'''


def _replay_callsite(ob, res):
    from tpv import native
    out = native.run(dict(code=_NATIVE_CALLSITE), timeout=600)
    rec = dict(replayed=True, native=out, what="love_number_by_orderl[l] from the real calculate_terms -> collapse_modes pipeline vs the mean of the closed form over the unique frequencies (Maxwell, l_max = 3)")
    try:
        v = native.unc(out["result"])
        rec["confirmed"] = any(x[0] > 1e-9 for x in v.values())
    except Exception:
        rec["confirmed"] = "exception" in out or "crash" in out
    return rec
