"""C12 — homogeneous-body Love number: closed forms of TidalPy/tides/love1d.py.

Top-level postconditions are written from the property statement:
   m_l = (2 l^2 + 4 l + 3) mu / (l rho g R),   k_l = 3/(2(l-1)) / (1 + m_l/(J mu)).
l is a symbolic real >= 2 (the identities are rational in l, so this covers every integer degree).
"""
import sympy as sp
from tpv.kit import *

F = "TidalPy/tides/love1d.py"


def build(tier="quick", seed=0):
    b = Bundle("C12")
    mu, g, Rr, rho, l, m = [R(n) for n in ("shear_modulus", "gravity", "radius", "density", "order_l", "eff_rigidity")]
    J = Cx(R("complex_compliance_re"), R("complex_compliance_im"))
    pos = [sp.Gt(x, 0) for x in (mu, g, Rr, rho)]
    pre_l = [sp.Ge(l, 2)]
    # passive compliance: J = 1/G with Re G >= 0, Im G >= 0, G != 0  =>  Re J >= 0, Im J <= 0, J != 0
    pre_J = [sp.Ge(J.re, 0), sp.Le(J.im, 0), sp.Gt(J.abs2(), 0)]
    pre_m = [sp.Gt(m, 0)]

    spec_m = lambda ll: (2 * ll ** 2 + 4 * ll + 3) * mu / (ll * rho * g * Rr)
    spec_k = lambda ll, mm: Cx(sp.Rational(3) / (2 * (ll - 1))) / (Cx(1) + Cx(mm) / (J * mu))

    # effective_rigidity_general
    pre = pos + pre_l
    fn, ex, paths = run_fn(b, F, "effective_rigidity_general", dict(shear_modulus=mu, gravity=g, radius=Rr, density=rho, order_l=l), pre)
    if paths:
        ensure_eq(b, fn, "m_l", paths, spec_m(l), pre, clause="ensures result == (2l^2+4l+3) mu/(l rho g R)")
        no_raise(b, fn, paths, pre)
    b.replayer(F + "::effective_rigidity_general::*", make_replayer(
        "TidalPy.tides.love1d", "effective_rigidity_general",
        [("shear_modulus", "r"), ("gravity", "r"), ("radius", "r"), ("density", "r"), ("order_l", "r")],
        lambda mu_, g_, R_, rho_, l_: (2 * l_ ** 2 + 4 * l_ + 3) * mu_ / (l_ * rho_ * g_ * R_),
        defaults=dict(order_l=2.0)))

    # effective_rigidity (degree 2) coincides with the general helper's contract at l = 2
    fn, ex, paths = run_fn(b, F, "effective_rigidity", dict(shear_modulus=mu, gravity=g, radius=Rr, density=rho), pos)
    if paths:
        ensure_eq(b, fn, "m_2", paths, spec_m(sp.Integer(2)), pos, clause="ensures result == m_l at l=2 (= 19 mu/(2 rho g R))")
        no_raise(b, fn, paths, pos)
    b.replayer(F + "::effective_rigidity::*", make_replayer(
        "TidalPy.tides.love1d", "effective_rigidity", [("shear_modulus", "r"), ("gravity", "r"), ("radius", "r"), ("density", "r")],
        lambda mu_, g_, R_, rho_: 9.5 * mu_ / (rho_ * g_ * R_)))

    # complex_love_general
    pre = [sp.Gt(mu, 0)] + pre_l + pre_J + pre_m
    fn, ex, paths = run_fn(b, F, "complex_love_general", dict(complex_compliance=J, shear_modulus=mu, eff_rigidity_general=m, order_l=l), pre)
    if paths:
        ensure_eq(b, fn, "k_l", paths, spec_k(l, m), pre, clause="ensures result == 3/(2(l-1))/(1+m_l/(J mu))")
        no_raise(b, fn, paths, pre)
    b.replayer(F + "::complex_love_general::*", make_replayer(
        "TidalPy.tides.love1d", "complex_love_general",
        [("complex_compliance", "c"), ("shear_modulus", "r"), ("eff_rigidity", "r"), ("order_l", "r")],
        lambda J_, mu_, m_, l_: 3 / (2 * (l_ - 1)) / (1 + m_ / (J_ * mu_)), defaults=dict(order_l=2.0)))

    pre2 = [sp.Gt(mu, 0)] + pre_J + pre_m
    fn, ex, paths = run_fn(b, F, "complex_love", dict(complex_compliance=J, shear_modulus=mu, eff_rigidity=m), pre2)
    if paths:
        ensure_eq(b, fn, "k_2", paths, spec_k(sp.Integer(2), m), pre2, clause="ensures result == k_l at l=2")
        no_raise(b, fn, paths, pre2)
    b.replayer(F + "::complex_love::*", make_replayer(
        "TidalPy.tides.love1d", "complex_love", [("complex_compliance", "c"), ("shear_modulus", "r"), ("eff_rigidity", "r")],
        lambda J_, mu_, m_: 1.5 / (1 + m_ / (J_ * mu_))))

    # static helpers: the elastic limit J mu = 1
    fn, ex, paths = run_fn(b, F, "static_love_general", dict(eff_rigidity_general=m, order_l=l), pre_m + pre_l)
    if paths:
        ensure_eq(b, fn, "k_static", paths, sp.Rational(3) / (2 * (l - 1)) / (1 + m), pre_m + pre_l,
                  clause="ensures result == 3/(2(l-1))/(1+m_l)")
        no_raise(b, fn, paths, pre_m + pre_l)
    fn, ex, paths = run_fn(b, F, "static_love", dict(eff_rigidity=m), pre_m)
    if paths:
        ensure_eq(b, fn, "k_static_2", paths, sp.Rational(3, 2) / (1 + m), pre_m, clause="ensures result == 3/2/(1+m_2)")
        no_raise(b, fn, paths, pre_m)

    # composition lemma over the two contracts (the statement's formula end-to-end)
    m_comp = spec_m(l)
    k_comp = spec_k(l, m_comp)
    k_stmt = Cx(sp.Rational(3) / (2 * (l - 1))) / (Cx(1) + Cx((2 * l ** 2 + 4 * l + 3) * mu / (l * rho * g * Rr)) / (J * mu))
    lemma(b, "composition", "k_l(contract of complex_love_general o contract of effective_rigidity_general) == statement formula",
          sp.And(sp.Eq(k_comp.re, k_stmt.re), sp.Eq(k_comp.im, k_stmt.im)), pos + pre_l + pre_J)
    b.assume("agreement with the layered radial solver is the Kelvin lemma of C01 instantiated at complex mu = 1/J; not re-proved here")
    b.assume("symbolic degree l is a real >= 2; integer-ness of order_l is not used")
    return b
