"""Contracts shared between properties (each is *verified* by the property named in its comment and only
*used* by the others)."""
import sympy as sp
from tpv.kit import *
from tpv import terms as T

G = R("G")            # Newton's constant, kept symbolic (> 0); the literal in TidalPy/constants.py is not used by any identity
FLOAT_EPS = sp.Rational(1, 2 ** 52)


# verified in C17 (contracts/C17.py) against TidalPy/utilities/conversions/conversions.py
def orbital_motion2semi_a_contract():
    def requires(n, host_mass, target_mass=sp.Integer(0)):
        return [("host_mass > 0", sp.Gt(host_mass, 0)), ("target_mass >= 0", sp.Ge(target_mass, 0)), ("orbital_motion != 0", sp.Ne(n, 0))]

    def ensures(res, n, host_mass, target_mass=sp.Integer(0)):
        return [sp.Eq(res ** 3 * n ** 2, G * (host_mass + target_mass)), sp.Gt(res, 0)]
    return Contract("orbital_motion2semi_a", requires, ensures, params=["orbital_motion", "host_mass", "target_mass"],
                    result=lambda *a: fresh("semi_a"))
