"""Whole-function symbolic execution of the real radial solver (translated solver.pyx) on small concrete layer stacks.

Everything inside the repository is executed from its real source: `radial_solver` (argument validation, layer bookkeeping), `cf_radial_solver`
(non-dimensionalisation, bc_pointer block, slice counting, interface driver, surface condition, top-to-bottom propagation, collapse,
re-dimensionalisation, Love numbers, try/finally), `cf_non_dimensionalize_physicals`, `cf_redimensionalize_*`, `cf_solve_upper_y_at_interface`,
`cf_top_to_bottom_interface_bc`, `cf_apply_surface_bc`, `cf_collapse_layer_solution`, `find_love_cf`, `cf_find_num_solutions`.
External code is taken by contract:
   CyRK   : cf_build_solver returns a solver whose _solve() yields, at the layer's radial nodes, first row = the initial vector it was given and
            opaque symbols elsewhere (SOL_<layer>_<solution>_<slice>_<component>); success can be forced to False (fault injection);
   LAPACK : zgesv(n, A, b) with info = 0 replaces b by fresh c with  sum_j A[i + n j] c_j == b_i  (column-major, exactly as the code fills A);
            info != 0 can be injected;
   memory : allocate_mem / PyMem_Free on a ghost heap (out-of-bounds, use after free, double free, leaks); stack arrays are bounds checked;
   starting vectors: cf_find_starting_conditions writes opaque START symbols (its own contract is C04's subject).
The layer stack, the slices per layer and the fault to inject are concrete; every numeric input (radii scale, densities, gravities, moduli,
frequency, degree, G) is symbolic.
"""
from __future__ import annotations
import ast
import sympy as sp
from tpv.kit import *
from tpv import terms as T
from tpv.terms import Cx
from tpv.symex import Exec, SymExError, Namespace, Pointer, _concrete_int, _sh_sqrt

FSOL = "TidalPy/RadialSolver/solver.pyx"
FND = "TidalPy/utilities/dimensions/nondimensional.pyx"
FIF = "TidalPy/RadialSolver/interfaces/interfaces.pyx"
FRV = "TidalPy/RadialSolver/interfaces/reversed.pyx"
FBC = "TidalPy/RadialSolver/boundaries/boundaries.pyx"
FCL = "TidalPy/RadialSolver/collapse/collapse.pyx"
FLV = "TidalPy/RadialSolver/love.pyx"
FSN = "TidalPy/RadialSolver/solutions.pyx"
FDRV = "TidalPy/RadialSolver/starting/driver.pyx"
INLINED = ((FDRV, ("cf_find_starting_conditions",)), (FND, ("cf_non_dimensionalize_physicals", "cf_redimensionalize_physicals", "cf_redimensionalize_radial_functions")),
           (FIF, ("cf_solve_upper_y_at_interface",)), (FRV, ("cf_top_to_bottom_interface_bc",)), (FBC, ("cf_apply_surface_bc",)),
           (FCL, ("cf_collapse_layer_solution",)), (FLV, ("find_love_cf",)), (FSN, ("cf_find_num_solutions",)))
NANC = sp.Symbol("NAN_", real=True)          # NaN sentinel (an ordinary symbol: a read of an unset entry shows up in the result)
Gsym = R("G")
LAYER_KINDS = {"S": (0, False, False), "Si": (0, False, True), "Ss": (0, True, False), "Ssi": (0, True, True),
               "L": (1, False, False), "Li": (1, False, True), "Ls": (1, True, False), "Lsi": (1, True, True)}


def ci(v):
    return _concrete_int(sp.sympify(v))


class Mem:
    """ghost memory: stack arrays and heap blocks with bounds checking and a free-list"""

    def __init__(self):
        self.blocks, self.events, self.oob, self.sig = [], [], [], []

    def live(self):
        return [b for b in self.blocks if b.kind == "heap" and not b.freed]


class Block:
    def __init__(self, mem, kind, n, name, fill=None, shape=None):
        self.mem, self.kind, self.n, self.name, self.freed = mem, kind, n, name, False
        self.data = [fill] * n
        self.shape = shape or (n,)
        mem.blocks.append(self)

    def _chk(self, i, what):
        i = ci(i)
        if self.freed:
            self.mem.oob.append(f"{what} of freed block {self.name}[{i}]")
            self.mem.sig.append((f"{what}-after-free:{self.name}", i))
            return None
        if not (0 <= i < self.n):
            self.mem.oob.append(f"{what} out of bounds: {self.name}[{i}] (size {self.n})")
            self.mem.sig.append((f"{what}-oob:{self.name}", i))
            return None
        return i

    def flat(self, idx):
        f = 0
        for o, n_ in zip(idx, self.shape):
            f = f * n_ + ci(o)
        return f

    def get(self, i):
        if isinstance(i, tuple):
            i = self.flat(i)
        k = self._chk(i, "read")
        return NANC if k is None else self.data[k]

    def set(self, i, v):
        if isinstance(i, tuple):
            i = self.flat(i)
        k = self._chk(i, "write")
        if k is not None:
            self.data[k] = v


class Row:
    """a[i] of a 2-D stack array"""

    def __init__(self, block, i):
        self.block, self.i = block, ci(i)

    def get(self, j):
        return self.block.get(self.i * self.block.shape[1] + ci(j))

    def set(self, j, v):
        self.block.set(self.i * self.block.shape[1] + ci(j), v)


class Bytes:
    def __init__(self, count, typ):
        self.count, self.typ = count, typ

    def __rmul__(self, o):
        return Bytes(sp.sympify(o) * self.count, self.typ)
    __mul__ = __rmul__


class SolverStub:
    def __init__(self, layer_i, layer_slices, num_ys_dbl, y0_ptr):
        self.layer_i, self.layer_slices, self.nyd, self.y0 = layer_i, layer_slices, num_ys_dbl, y0_ptr
        self.k, self.success, self.message, self.solution_y_ptr = 0, True, "ok", None


class SolutionObj:
    """model of RadialSolverSolution's storage (its real __init__ / properties are checked separately in C06)"""

    def __init__(self, mem, total_slices, solve_for_, num_ytypes):
        n = ci(total_slices) * 6 * ci(num_ytypes)
        self.full_solution_ptr = Block(mem, "result", n, "solution.full_solution", fill=NANC)
        self.complex_love_ptr = Block(mem, "result", 3 * ci(num_ytypes), "solution.complex_love", fill=NANC)
        self.success, self.message, self.solve_for, self.num_ytypes, self.num_slices = False, "RadialSolverSolution has not had its status set.", solve_for_, ci(num_ytypes), ci(total_slices)


class SolverExec(Exec):
    """Exec with pointer-aware subscripts on ghost memory and the external objects' attributes"""
    state = None

    def ev_Subscript(self, node, env):
        base = self.ev(node.value, env)
        if isinstance(base, Block):
            idx = self.ev_index(node.slice, env)
            if len(base.shape) == 2 and not isinstance(idx, tuple):
                return Row(base, idx)
            return base.get(idx)
        if isinstance(base, Row):
            return base.get(self.ev_index(node.slice, env))
        return super().ev_Subscript(node, env)

    def assign(self, t, v, env):
        if isinstance(t, ast.Subscript):
            base = self.ev(t.value, env)
            if isinstance(base, (Block, Row)):
                base.set(self.ev_index(t.slice, env), v)
                return
        if isinstance(t, ast.Attribute):
            base = self.ev(t.value, env)
            if isinstance(base, (SolutionObj, SolverStub)):
                setattr(base, t.attr, v)
                return
        return super().assign(t, v, env)

    def address_of(self, target, env):
        if isinstance(target, ast.Subscript):
            base = self.ev(target.value, env)
            idx = self.ev_index(target.slice, env)
            if isinstance(base, Row):
                return Pointer(base.block, sp.Integer(base.i * base.block.shape[1]) + sp.sympify(idx))
            if isinstance(base, Block):
                return Pointer(base, sp.sympify(idx))
        return super().address_of(target, env)

    def binop(self, op, a, b, node):
        if isinstance(a, Bytes) or isinstance(b, Bytes):
            if isinstance(op, ast.Mult):
                return a * b if isinstance(a, Bytes) else b * a
            raise SymExError("arithmetic on sizeof()")
        return super().binop(op, a, b, node)

    def ev_Attribute(self, node, env):
        base = self.ev(node.value, env)
        if isinstance(base, Block) and node.attr == "size":
            return sp.Integer(base.n)
        if isinstance(base, SolverStub):
            return self.state.solver_attr(base, node.attr)
        if isinstance(base, SolutionObj):
            return getattr(base, node.attr)
        return super().ev_Attribute(node, env)


class State:
    """all mutable state of one execution (rebuilt for every explored path)"""

    def __init__(self, cfg):
        self.cfg = cfg
        c = cfg
        self.mem = mem = Mem()
        total, nl = c["total"], c["nl"]
        Rp = c["Rp"]
        a_ = c.get("input_scale") or sp.Integer(1)
        self.inputs0 = dict(radius=[f * Rp * a_ for f in c["frac"]], density=[sp.Symbol(f"rho_{k}", positive=True) for k in range(total)],
                            gravity=[sp.Symbol(f"g_{k}", positive=True) * a_ for k in range(total)], bulk=[sp.Symbol(f"K_{k}", positive=True) * a_ ** 2 for k in range(total)],
                            shear=[(sp.Symbol(f"mu_{k}") * a_ ** 2 if c.get("analytic") else Cx(sp.Symbol(f"mu_{k}_re", positive=True) * a_ ** 2, sp.Symbol(f"mu_{k}_im", real=True) * a_ ** 2)) for k in range(total)])
        self.arrays = {}
        for nm in ("radius", "density", "gravity", "bulk", "shear"):
            blk = Block(mem, "input", total, nm + "_array")
            blk.data = list(self.inputs0[nm])
            self.arrays[nm] = blk
        kinds = c["kinds"]
        self.types_blk = Block(mem, "input", nl, "layer_types")
        self.types_blk.data = [sp.Integer(k[0]) for k in kinds]
        self.static_blk = Block(mem, "input", nl, "is_static")
        self.static_blk.data = [k[1] for k in kinds]
        self.incomp_blk = Block(mem, "input", nl, "is_incomp")
        self.incomp_blk.data = [k[2] for k in kinds]
        self.upper_blk = Block(mem, "input", nl, "upper_radius")
        self.upper_blk.data = [u * a_ for u in c["upper"]]
        self.start_calls, self.solver_builds, self.zgesv_calls, self.collapse_calls, self.surface_calls, self.solves = [], [], [], [], [], []
        self.solution_obj = None
        self.ex = None

    # ---- contracts for external code
    def allocate_mem(self, ex, node, nbytes, name=""):
        if not isinstance(nbytes, Bytes):
            raise SymExError("allocate_mem without sizeof")
        blk = Block(self.mem, "heap", ci(nbytes.count), str(name).split(" (")[0])
        self.mem.events.append(("alloc", blk.name))
        return blk

    def pymem_free(self, ex, node, ptr):
        mem = self.mem
        if isinstance(ptr, Pointer):
            ptr = ptr.base
        if not isinstance(ptr, Block) or ptr.kind != "heap":
            mem.oob.append(f"free of a non-heap pointer {ptr!r}")
            mem.sig.append((f"invalid-free:{getattr(ptr, 'name', type(ptr).__name__)}", 0))
            return
        if ptr.freed:
            mem.oob.append(f"double free of {ptr.name}")
            mem.sig.append((f"double-free:{ptr.name}", 0))
        ptr.freed = True
        mem.events.append(("free", ptr.name))

    def stackarray(self, ex, node, shape, typ=""):
        shp = tuple(ci(x) for x in shape)
        n = 1
        for x in shp:
            n *= x
        site = getattr(ex._fnstack[-1], "qualname", "?") if ex._fnstack else "?"
        return Block(self.mem, "stack", n, f"{typ}{list(shp)}@{site}", fill=NANC, shape=shp)

    def build_solver(self, ex, node, layer_type, is_static, is_incomp, layer_slices, num_ys_dbl, r_ptr, d_ptr, g_ptr, k_ptr, s_ptr, freq_, deg_, G_, span, y0_ptr, *rest):
        li = len(self.solver_builds)
        st = SolverStub(li, ci(layer_slices), ci(num_ys_dbl), y0_ptr)
        self.solver_builds.append(dict(layer=li, type=layer_type, static=is_static, incomp=is_incomp, G=G_, frequency=freq_, degree=deg_, span=span,
                                       radius0=r_ptr.get(0), num_ys_dbl=num_ys_dbl, rest=rest, nslices=ci(layer_slices),
                                       radius=[r_ptr.get(i) for i in range(ci(layer_slices))], density=[d_ptr.get(i) for i in range(ci(layer_slices))],
                                       gravity=[g_ptr.get(i) for i in range(ci(layer_slices))], bulk=[k_ptr.get(i) for i in range(ci(layer_slices))],
                                       shear=[s_ptr.get(i) for i in range(ci(layer_slices))]))
        return st

    def solver_attr(self, st, name):
        c = self.cfg
        if name == "_solve":
            def _solve(ex, node, reset=True):
                fl = c["fail_layer"]
                st.success = not (fl is not None and st.layer_i == fl[0] and st.k == fl[1])
                st.message = "injected integration failure" if not st.success else "ok"
                blk = Block(self.mem, "cyrk", st.layer_slices * st.nyd, f"cyrk_solution[layer{st.layer_i}][sol{st.k}]")
                y0 = [st.y0.get(q) for q in range(st.nyd)]
                rec = dict(layer=st.layer_i, sol=st.k, y0=y0, s=sp.Integer(1))
                self.solves.append(rec)
                rel = c.get("relative_to")       # relational contract: rows of this run = s * D^-1 * rows of the base run (s from the initial vectors)
                Dv = None
                if rel is not None:
                    base = [x for x in rel["solves"] if x["layer"] == st.layer_i and x["sol"] == st.k]
                    Dv = rel["D"](st.layer_i)
                    if base:
                        for q in range(0, st.nyd, 2):
                            nrm = rel.get("norm") or (lambda e_: e_)
                            bq = nrm(sp.sympify(base[0]["y0"][q]))
                            if bq != 0 and q // 2 < len(Dv):
                                rec["s"] = sp.cancel(sp.together(nrm(sp.sympify(y0[q]) * Dv[q // 2]) / bq))
                                break
                for s_ in range(st.layer_slices):
                    for q in range(st.nyd):
                        if s_ == 0:
                            blk.data[q] = y0[q]          # CyRK contract: the first output row is the initial vector
                        elif rel is not None:
                            blk.data[s_ * st.nyd + q] = (rec["s"] * sp.Symbol(f"SOL_{st.layer_i}_{st.k}_{s_}_{q // 2}") / Dv[q // 2]) if (q % 2 == 0 and q // 2 < len(Dv)) else sp.Integer(0)
                        elif c["sol_contract"] is not None:
                            blk.data[s_ * st.nyd + q] = c["sol_contract"](st.layer_i, st.k, s_, q)
                        elif c.get("analytic"):
                            # one complex atom per component, carried in the "real" slot (the imaginary slot is 0 and is recombined by cf_build_dblcmplx)
                            blk.data[s_ * st.nyd + q] = sp.Symbol(f"SOL_{st.layer_i}_{st.k}_{s_}_{q // 2}") if q % 2 == 0 else sp.Integer(0)
                        else:
                            blk.data[s_ * st.nyd + q] = sp.Symbol(f"SOL_{st.layer_i}_{st.k}_{s_}_{q}", real=True)
                st.solution_y_ptr = blk
                st.k += 1
            return _solve
        if name == "change_y0_pointer":
            def chg(ex, node, ptr, auto_reset_state=False):
                st.y0 = ptr
            return chg
        return getattr(st, name)

    def zgesv(self, ex, node, n_ptr, nrhs_ptr, a_ptr, lda_ptr, ipiv_ptr, b_ptr, ldb_ptr, info_ptr):
        n = ci(n_ptr.get(0))
        A = [[Cx.of(a_ptr.get(i + n * j)) for j in range(n)] for i in range(n)]
        bvec = [Cx.of(b_ptr.get(i)) for i in range(n)]
        k0 = len(self.zgesv_calls) + 1
        rec = dict(n=n, A=A, b=bvec, c=None, call=k0)
        self.zgesv_calls.append(rec)
        info_ptr.set(0, sp.Integer(self.cfg["zgesv_info"]))
        if self.cfg["zgesv_info"] != 0:
            return
        rel = self.cfg.get("relative_to")
        if rel is not None:
            # constants of this run = constants of the base run divided by the per-solution normalisation of the surface layer's solutions
            top = self.cfg["nl"] - 1
            sc_ = {x["sol"]: x["s"] for x in self.solves if x["layer"] == top}
            cvec = [Cx(sp.Symbol(f"c{k0}_{j}") / sc_.get(j, 1), 0) for j in range(n)]
        elif self.cfg.get("analytic"):
            cvec = [Cx(sp.Symbol(f"c{k0}_{j}"), 0) for j in range(n)]
        else:
            cvec = [Cx(sp.Symbol(f"c{k0}_{j}_re", real=True), sp.Symbol(f"c{k0}_{j}_im", real=True)) for j in range(n)]
        rec["c"] = cvec
        rec["facts"] = []
        for i in range(n):
            tot = Cx(0)
            for j in range(n):
                tot = tot + A[i][j] * cvec[j]
            rec["facts"].append((tot.re - bvec[i].re, tot.im - bvec[i].im))
            ex.facts.append(sp.Eq(tot.re, bvec[i].re))
            ex.facts.append(sp.Eq(tot.im, bvec[i].im))
            b_ptr.set(i, cvec[i])

    def start_stub(self, nsol, ny):
        """contract of one starting-vector function (C04's subject): writes nsol opaque vectors of ny components with the stride it is given"""
        def stub(ex, node, *a):
            num_ys, y_ptr = a[-2], a[-1]
            stride = ci(num_ys)
            sc = self.cfg["start_contract"]
            for j in range(nsol):
                for i in range(ny):
                    v = sc(j, i) if sc else (sp.Symbol(f"START_{j}_{i}") if self.cfg.get("analytic") else Cx(sp.Symbol(f"START_{j}_{i}_re", real=True), sp.Symbol(f"START_{j}_{i}_im", real=True)))
                    y_ptr.set(j * stride + i, v)
        return stub

    def find_start(self, ex, node, layer_type, is_static, is_incomp, use_kamata_, frequency_, radius_, density_, bulk_, shear_, degree_l, G_, num_ys, y_ptr, run_checks=True):
        self.start_calls.append(dict(type=layer_type, static=is_static, incomp=is_incomp, kamata=use_kamata_, frequency=frequency_, radius=radius_, density=density_,
                                     bulk=bulk_, shear=shear_, G=G_, num_ys=num_ys, degree=degree_l))
        if self.cfg.get("real_driver", True) and not self.cfg.get("start_raises"):
            # the REAL dispatch of starting/driver.pyx decides which start function runs - and which combinations raise
            return ex.call_inline("cf_find_starting_conditions", [layer_type, is_static, is_incomp, use_kamata_, frequency_, radius_, density_, bulk_, shear_, degree_l, G_, num_ys, y_ptr, run_checks], {}, node)
        if self.cfg.get("start_raises"):
            from tpv.symex import _Raise, Raised
            raise _Raise(Raised("NotImplementedError", ("injected: starting conditions not implemented for this combination",)))
        lt = ci(layer_type)
        nsol = 3 if lt == 0 else (1 if is_static else 2)
        sc = self.cfg["start_contract"]
        for j in range(nsol):
            for i in range(2 * nsol):
                v = sc(j, i) if sc else (sp.Symbol(f"START_{j}_{i}") if self.cfg.get("analytic") else Cx(sp.Symbol(f"START_{j}_{i}_re", real=True), sp.Symbol(f"START_{j}_{i}_im", real=True)))
                y_ptr.set(j * 6 + i, v)

    def make_solution(self, ex, node, total_slices, solve_for_, num_ytypes):
        self.solution_obj = SolutionObj(self.mem, total_slices, solve_for_, num_ytypes)
        return self.solution_obj

    @staticmethod
    def _snap(ptr, n):
        return [ptr.get(i) for i in range(n)]

    def obs_collapse(self, ex, node, *a):
        (solution_ptr, constant_vector_ptr, storage, r_ptr, d_ptr, g_ptr, freq_, start_index, nslices, num_sols, max_num_y, num_ys, num_out, ytype_i, ltype, lstatic, lincomp) = a
        nsol, nys, nsl = ci(num_sols), ci(num_ys), ci(nslices)
        self.collapse_calls.append(dict(ytype=ci(ytype_i), start=ci(start_index), nslices=nsl, num_sols=nsol, num_ys=nys, type=ci(ltype), static=bool(lstatic), incomp=bool(lincomp),
                                        consts=self._snap(constant_vector_ptr, nsol),
                                        rows=[[[storage.get(j).get(s_ * nys + y) for y in range(nys)] for s_ in (0, nsl - 1)] for j in range(nsol)],
                                        gravity=(g_ptr.get(0), g_ptr.get(nsl - 1)), density=(d_ptr.get(0), d_ptr.get(nsl - 1)), radius=(r_ptr.get(0), r_ptr.get(nsl - 1)), frequency=freq_))
        return ex.call_inline("cf_collapse_layer_solution", list(a), {}, node)

    def obs_surface(self, ex, node, *a):
        self.surface_calls.append(dict(ytype=ci(a[8]), bc=[a[2].get(i) for i in range(15)], type=a[9], static=a[10], incomp=a[11], gravity=a[4], G=a[5]))
        return ex.call_inline("cf_apply_surface_bc", list(a), {}, node)

    def genv(self):
        return dict(allocate_mem=self.allocate_mem, PyMem_Free=self.pymem_free, STACKARRAY=self.stackarray, SIZEOF=lambda ex, node, t: Bytes(sp.Integer(1), t), NAN=NANC, pi=T.PI,
                    G=Gsym, sqrt=_sh_sqrt, isnan=lambda ex, node, x: False, cf_build_solver=self.build_solver, cf_find_starting_conditions=self.find_start, zgesv=self.zgesv,
                    RadialSolverSolution=self.make_solution, cf_build_dblcmplx=lambda ex, node, a, b_: Cx(a, b_), cmplx_NAN=Cx(NANC, NANC), cmplx_zero=Cx(0, 0),
                    MAX_NUM_Y=sp.Integer(6), MAX_NUM_Y_REAL=sp.Integer(12), cf_collapse_layer_solution=self.obs_collapse, cf_apply_surface_bc=self.obs_surface,
                    cf_kamata_solid_dynamic_compressible=self.start_stub(3, 6), cf_kamata_solid_static_compressible=self.start_stub(3, 6), cf_kamata_solid_dynamic_incompressible=self.start_stub(3, 6),
                    cf_kamata_liquid_dynamic_compressible=self.start_stub(2, 4), cf_kamata_liquid_dynamic_incompressible=self.start_stub(2, 4), cf_takeuchi_solid_dynamic_compressible=self.start_stub(3, 6),
                    cf_takeuchi_solid_static_compressible=self.start_stub(3, 6), cf_takeuchi_liquid_dynamic_compressible=self.start_stub(2, 4), cf_saito_liquid_static_inccompressible=self.start_stub(1, 2),
                    log=Namespace("log", dict(error=lambda ex_, node, *a, **k: None, warning=lambda ex_, node, *a, **k: None)), fabs=lambda ex_, node, x: sp.Abs(x))

    def args(self):
        c = self.cfg
        P0 = lambda blk: Pointer(blk, sp.Integer(0))
        kinds = c["kinds"]
        nl = c["nl"]
        if c["entry"] == "wrapper":
            mm = c["mismatch"] or {}
            names = tuple(c["layer_type_names"]) if c["layer_type_names"] is not None else tuple("solid" if k[0] == 0 else "liquid" for k in kinds)
            return dict(radius_array=self.arrays["radius"], density_array=self.arrays["density"], gravity_array=self.arrays["gravity"], bulk_modulus_array=self.arrays["bulk"],
                        complex_shear_modulus_array=self.arrays["shear"], frequency=c["freq"], planet_bulk_density=c["rho_b"], layer_types=names,
                        is_static_by_layer=tuple(k[1] for k in kinds)[:mm.get("static", nl)], is_incompressible_by_layer=tuple(k[2] for k in kinds)[:mm.get("incomp", nl)],
                        upper_radius_by_layer=tuple(u * (c.get("input_scale") or 1) for u in c["upper"])[:mm.get("upper", nl)], degree_l=c["l"], solve_for=c["solve_for"], use_kamata=c["use_kamata"],
                        integration_method=c["integration_method"], nondimensionalize=c["nondim"], verbose=False, warnings=False, raise_on_fail=c["raise_on_fail"])
        return dict(total_slices=sp.Integer(c["total"]), radius_array_ptr=P0(self.arrays["radius"]), density_array_ptr=P0(self.arrays["density"]),
                    gravity_array_ptr=P0(self.arrays["gravity"]), bulk_modulus_array_ptr=P0(self.arrays["bulk"]), complex_shear_modulus_array_ptr=P0(self.arrays["shear"]),
                    frequency=c["freq"], planet_bulk_density=c["rho_b"], num_layers=sp.Integer(nl), layer_types_ptr=P0(self.types_blk), is_static_by_layer_ptr=P0(self.static_blk),
                    is_incompressible_by_layer_ptr=P0(self.incomp_blk), upper_radius_by_layer_ptr=P0(self.upper_blk), degree_l=c["l"], solve_for=c["solve_for"],
                    use_kamata=c["use_kamata"], nondimensionalize=c["nondim"], raise_on_fail=c["raise_on_fail"], verbose=False)


def run_solver(b, stack, solve_for=("tidal",), nondim=True, slices_per_layer=4, fail_layer=None, zgesv_info=0, raise_on_fail=False, use_kamata=True,
               degree=None, extra_pre=(), start_contract=None, sol_contract=None, upper_radius_bad=False, entry="cf", total_override=None,
               layer_type_names=None, integration_method="RK45", mismatch=None, start_raises=False, analytic=False, input_scale=None, relative_to=None, real_driver=True):
    """analytic=True: complex quantities (moduli, starting vectors, integrated solutions, zgesv constants) are single complex atoms instead of (re, im)
    pairs; sound for the repository code executed here because it is complex-analytic in them (its only .real/.imag sites split a value and
    recombine it unchanged - those sites are covered by the pair mode).
    stack: list of layer kind names (bottom to top).  Returns (exec, paths, cfg); every path carries .state (a State)."""
    nl = len(stack)
    ns = slices_per_layer
    total = nl * ns if total_override is None else total_override
    Rp = sp.Symbol("R_planet", positive=True)
    frac = [sp.Rational(k + 1, total) for k in range(total)]          # radii are concrete fractions of R_planet
    upper = [frac[min((i + 1) * ns, total) - 1] * Rp for i in range(nl)] if total else [Rp] * nl
    if upper_radius_bad:
        upper[0] = frac[1] * Rp           # first layer gets only 2 slices -> "at least three layer slices" error path
    cfg = dict(stack=list(stack), nl=nl, ns=ns, total=total, Rp=Rp, rho_b=sp.Symbol("rho_bulk", positive=True), freq=sp.Symbol("frequency", positive=True),
               l=degree if degree is not None else R("l"), frac=frac, upper=upper, kinds=[LAYER_KINDS[k] for k in stack], solve_for=solve_for, nondim=nondim,
               fail_layer=fail_layer, zgesv_info=zgesv_info, raise_on_fail=raise_on_fail, use_kamata=use_kamata, start_contract=start_contract, sol_contract=sol_contract,
               entry=entry, analytic=analytic, input_scale=input_scale, relative_to=relative_to, real_driver=real_driver, start_raises=start_raises, layer_type_names=layer_type_names, integration_method=integration_method, mismatch=mismatch)
    inline = {}
    for rel, names in INLINED:
        for nm in names:
            f = Fn(rel, nm)
            b.add_fn(f)
            inline[nm] = (f, None)
    fn = Fn(FSOL, "cf_radial_solver")
    b.add_fn(fn)
    if entry == "wrapper":
        inline["cf_radial_solver"] = (fn, None)
        fn = Fn(FSOL, "radial_solver")
        b.add_fn(fn)
    pre = [sp.Gt(Gsym, 0), sp.Ge(cfg["l"], 2)] + list(extra_pre)
    holder = {}

    def fresh_args():
        st = State(cfg)
        holder["st"] = st
        ex.state = st
        ex.genv = st.genv()
        st.ex = ex
        return st.args()

    ex = SolverExec(fn, pre=pre, globals_env={}, inline=inline,
                    opts=dict(definedness=False, check_feasibility=True, while_unroll=64, auto_inline_same_module=False, fresh_args=fresh_args, on_path_end=lambda: holder["st"]))
    paths = ex.run({})
    return ex, paths, cfg
