"""C10 — mode-summed heating and torques are consistent and physically signed.

The real calculate_terms and collapse_modes are executed symbolically with the key sets of the real eccentricity /
inclination tables (read structurally from the table sources) and opaque table values E_lpq, F_lmp; sign / abs of a
tidal mode are uninterpreted with  abs(x) = sign(x) x,  sign(0) = 0;  -Im k_l is an uninterpreted function of
(l, complex compliance), the compliance an uninterpreted function of the frequency value.
Postconditions from the statement: heating == M_host (n dU/dM - Omega dU/dOmega); totals equal the ungrouped
per-mode sum; zero state; 21/2 limit; non-negativity.
"""
import ast, re, itertools
import multiprocessing as mp
import sympy as sp
from tpv.kit import *
from tpv import terms as T
from tpv.extract import source
from tpv.symex import Namespace, SymExError, Exec

FM = "TidalPy/tides/modes/mode_manipulation.py"
FD = "TidalPy/tides/dissipation.py"
n, Om, a, Rr = R("orbital_frequency"), R("spin_frequency"), R("semi_major_axis"), R("radius")
Mh, chi, ts = R("tidal_host_mass"), R("tidal_susceptibility"), R("tidal_scale")
grav, dens, mu = R("gravity"), R("density"), R("shear_modulus")
Jre, Jim = sp.Function("Jre", real=True), sp.Function("Jim", real=True)
Lre, Lim = sp.Function("Lre", real=True), sp.Function("Lim", real=True)
PRE = [sp.Gt(n, 0), sp.Gt(a, 0), sp.Gt(Rr, 0), sp.Gt(Mh, 0), sp.Gt(grav, 0), sp.Gt(dens, 0), sp.Gt(mu, 0)]


# ---------------------------------------------------------------- structural key sets of the real tables
def ecc_keys(l, N):
    """{p: [q...]} of eccentricity_funcs_trunc{N} in orderl{l}.py, aliases included (read from the AST)"""
    src = source(f"TidalPy/tides/eccentricity_funcs/orderl{l}.py")
    fn = src.find(f"eccentricity_funcs_trunc{N}")
    keys = {}
    for st in fn.body:
        if isinstance(st, ast.Assign):
            t = st.targets[0]
            if isinstance(t, ast.Name) and isinstance(st.value, ast.Dict) and st.value.keys and isinstance(st.value.values[0], ast.Dict):
                for k, v in zip(st.value.keys, st.value.values):
                    p = ast.literal_eval(k)
                    keys.setdefault(p, [])
                    for k2 in v.keys:
                        keys[p].append(ast.literal_eval(k2))
            elif isinstance(t, ast.Subscript) and isinstance(t.value, ast.Subscript):
                p = ast.literal_eval(t.value.slice)
                q = ast.literal_eval(t.slice)
                keys.setdefault(p, []).append(q)
    return keys


def inc_keys(l, on):
    src = source(f"TidalPy/tides/inclination_funcs/orderl{l}.py")
    fn = src.find("calc_inclination" if on else "calc_inclination_off")
    for st in fn.body:
        if isinstance(st, ast.Assign) and isinstance(st.value, ast.Dict):
            return [ast.literal_eval(k) for k in st.value.keys]
    raise ExtractError(f"no table literal in inclination orderl{l}")


def E_(l, p, q):
    return R(f"E_{l}_{p}_{q}".replace("-", "m"))


def F_(l, m, p):
    return R(f"F_{l}_{m}_{p}")


# ---------------------------------------------------------------- shims
def canon_abs(x):
    x = sp.expand(x)
    if x == 0:
        return sp.Integer(0)
    if x.could_extract_minus_sign():
        x = -x
    return T.abs_(x)


def canon_sign(x):
    x = sp.expand(x)
    if x == 0:
        return sp.Integer(0)
    if x.could_extract_minus_sign():
        return -T.sign_(-x)
    return T.sign_(x)


def _np_sign(ex, node, x):
    return canon_sign(sp.sympify(x))


def _np_abs(ex, node, x):
    from tpv.terms import Cx
    if isinstance(x, Cx):
        return T.sqrt_(x.abs2())
    x = sp.sympify(x)
    if isinstance(x, sp.core.function.AppliedUndef) and x.func.__name__ == "sign_":
        return R("one_if_nonzero_" + str(abs(hash(str(x))) % 10 ** 8))   # |sign(x)|: only used when multiply_modes_by_sign is False
    return canon_abs(x)


def _np_real(ex, node, x):
    from tpv.terms import Cx
    return x.re if isinstance(x, Cx) else x


def _np_imag(ex, node, x):
    from tpv.terms import Cx
    return x.im if isinstance(x, Cx) else sp.Integer(0)


ISZ = sp.Function("iszero_", real=True)


def _np_copysign(ex, node, x, y):
    """np.copysign(x, y) over the reals: |x| * s(y) with s(y) = sign(y) for y != 0 and s(0) = +1 (a real zero is +0.0): sign_(y) + iszero_(y).
    iszero_ is 0 for a generic (non-zero) frequency and 1 where the mode's frequency vanishes (see the zero-state obligation)."""
    y = sp.expand(sp.sympify(y))
    return _np_abs(ex, node, x) * (canon_sign(y) + (ISZ(y) if y != 0 else sp.Integer(1)))


def strip_iszero(v):
    """generic (non-zero) frequencies: iszero_ = 0.  Loses nothing in the identities: where a frequency is exactly zero the stripped term carries that frequency as a factor."""
    if isinstance(v, (tuple, list)):
        return type(v)(strip_iszero(x) for x in v)
    if isinstance(v, dict):
        return {k_: strip_iszero(x) for k_, x in v.items()}
    try:
        v = sp.sympify(v)
    except Exception:
        return v
    return v.replace(lambda t_: isinstance(t_, sp.core.function.AppliedUndef) and t_.func.__name__ == "iszero_", lambda t_: sp.Integer(0)) if hasattr(v, "replace") else v


NPX = Namespace("np", {"sign": _np_sign, "abs": _np_abs, "real": _np_real, "imag": _np_imag, "copysign": _np_copysign})


def abs_rels(*exprs):
    """abs_(x) = sign_(x) * x  as rewriting relations for every abs_ atom"""
    rels = []
    seen = set()
    for e in exprs:
        for t in sp.preorder_traversal(e):
            if isinstance(t, sp.core.function.AppliedUndef) and t.func.__name__ == "abs_" and t not in seen:
                seen.add(t)
                rels.append((t, 1, T.sign_(t.args[0]) * t.args[0]))
    return rels


# ---------------------------------------------------------------- symbolic runs
def univ_inline():
    return {"get_universal_coeffs": (Fn("TidalPy/tides/universal_coeffs.py", "get_universal_coeffs"), {"TidalPyValueException": "TidalPyValueException"})}


def run_terms(b, maxl, N, on, same_object, evals=None, fvals=None):
    ecc = {l: {p: {q: (evals or E_)(l, p, q) for q in qs} for p, qs in ecc_keys(l, N).items()} for l in range(2, maxl + 1)}
    inc = {l: {mp_: (fvals or F_)(l, *mp_) for mp_ in inc_keys(l, on)} for l in range(2, maxl + 1)}
    spin = n if same_object else Om
    fn, ex, paths = run_fn(b, FM, "calculate_terms", dict(spin_frequency=spin, orbital_frequency=n, semi_major_axis=a, radius=Rr,
                                                          eccentricity_results_byorderl=ecc, obliquity_results_byorderl=inc, multiply_modes_by_sign=True),
                           PRE, globals_env=dict(np=NPX), inline=univ_inline(), xcheck=False, opts=dict(check_feasibility=False))
    return fn, paths, ecc, inc, spin


def love_contracts():
    def eff_res(mu_, g_, r_, d_, order_l=sp.Integer(2)):
        return R(f"m_eff_{order_l}")

    def love_res(J, mu_, m_, order_l=sp.Integer(2)):
        from tpv.terms import Cx
        J = Cx.of(J)
        return Cx(Lre(order_l, J.re, J.im), Lim(order_l, J.re, J.im))
    return dict(effective_rigidity_general=Contract("effective_rigidity_general", None, None, result=eff_res,
                                                     params=["shear_modulus", "gravity", "radius", "density", "order_l"]),
                complex_love_general=Contract("complex_love_general", None, None, result=love_res,
                                              params=["complex_compliance", "shear_modulus", "eff_rigidity_general", "order_l"]))


def run_collapse(b, maxl, uniq, terms, cpl):
    from tpv.terms import Cx
    comp = {sig: Cx(Jre(w), Jim(w)) for sig, w in uniq.items()}
    fn, ex, paths = run_fn(b, FM, "collapse_modes", dict(gravity=grav, radius=Rr, density=dens, shear_modulus=mu, tidal_scale=ts, tidal_host_mass=Mh,
                                                         tidal_susceptibility=chi, complex_compliance_by_frequency=comp, tidal_terms_by_frequency=terms,
                                                         max_order_l=sp.Integer(maxl), cpl_ctl_method=cpl),
                           PRE, globals_env=dict(np=NPX), contracts=love_contracts(), xcheck=False,
                           opts=dict(check_feasibility=False, havoc_div_in_try=True, definedness=False))
    return fn, paths


def neg_imk(l, w, cpl):
    if cpl:
        return -ts * Jim(w)
    return -ts * Lim(sp.Integer(l), Jre(w), Jim(w))


def spec_sums(maxl, ecc, inc, spin, cpl):
    """ungrouped per-mode sum written from the statement: heating ~ |w|, dU/dM ~ (l-2p+q) sgn w, dU/dw ~ (l-2p) sgn w, dU/dO ~ m sgn w,
    each times  (R/a)^(2l-4) * U_lm/1.5 * F_lmp E_lpq * (-Im k_l(|w|)) * susceptibility (the derivatives per host mass)."""
    from math import factorial
    H = dM = dw = dO = sp.Integer(0)
    for l in range(2, maxl + 1):
        for (m, p), Fv in inc[l].items():
            U = sp.Rational((2 if m else 1) * factorial(l - m), factorial(l + m))
            for q, Ev in ecc[l].get(p, {}).items():
                ncoef = l - 2 * p + q
                mode = ncoef * n - m * spin
                w = canon_abs(mode)
                sg = canon_sign(mode)
                if w == 0:
                    continue
                u = (Rr / a) ** (2 * l - 4) * U / sp.Rational(3, 2) * Fv * Ev
                k = neg_imk(l, w, cpl)
                H += u * w * k
                dM += u * ncoef * sg * k / Mh
                dw += u * (l - 2 * p) * sg * k / Mh
                dO += u * m * sg * k / Mh
    return chi * H, chi * dM, chi * dw, chi * dO


def one_config(cfg):
    """all obligations of one (maxl, N, obliquity on/off, same_object, cpl) configuration; run in a worker"""
    maxl, N, on, same, cpl = cfg
    b = Bundle("C10")
    tag = f"maxl{maxl}_N{N}_{'on' if on else 'off'}_{'sync' if same else 'nsr'}_{'cpl' if cpl else 'visco'}"
    fn, paths, ecc, inc, spin = run_terms(b, maxl, N, on, same)
    if not paths:
        return b
    if len(paths) != 1 or paths[0].outcome != "return":
        b.subset_exits.append(f"{fn.key} [{tag}]: expected one returning path, got {[(p.outcome, repr(p.value)[:80]) for p in paths]}")
        return b
    uniq, terms_raw = paths[0].value
    terms = strip_iszero(terms_raw)
    # per-signature facts of calculate_terms
    for sig, byl in terms.items():
        for l, (h, dM_, dw_, dO_) in byl.items():
            pass
    b.add(Obligation(oid=f"{fn.key}::ensures:per_mode_identity[{tag}]", fn=fn.key,
                     clause="ensures for every (signature, l): heating_term == n dUdM_term - Omega dUdO_term",
                     goal=sp.And(*[sp.Eq(h, n * dM_ - spin * dO_) for byl in terms.values() for (h, dM_, dw_, dO_) in byl.values()]),
                     hyps=PRE, rels=abs_rels(*[h for byl in terms.values() for (h, _, _, _) in byl.values()]), backends=("qqnf",), timeout=120))
    b.add(Obligation(oid=f"{fn.key}::ensures:frequency_of_signature[{tag}]", fn=fn.key, clause="ensures every stored unique frequency is |mode| >= 0 of the modes grouped under its signature",
                     goal=None, decided=_freq_sig_check(maxl, ecc, inc, spin, uniq)))
    fc, cpaths = run_collapse(b, maxl, uniq, terms_raw, cpl)
    if not cpaths:
        return b
    ret = [p for p in cpaths if p.outcome == "return"]
    if len(ret) != 1:
        b.subset_exits.append(f"{fc.key} [{tag}]: expected one returning path, got {len(ret)} of {len(cpaths)}")
        return b
    raw4 = ret[0].value[:4]
    heating, dUdM, dUdw, dUdO = strip_iszero(tuple(raw4))
    rels = abs_rels(heating, dUdM, dUdO)
    b.add(Obligation(oid=f"{fc.key}::ensures:heating_identity[{tag}]", fn=fc.key,
                     clause="ensures tidal_heating == host_mass * (n dUdM - Omega dUdO) for the returned values",
                     goal=sp.Eq(heating, Mh * (n * dUdM - spin * dUdO)), hyps=PRE, rels=rels, backends=("qqnf",), timeout=300))
    sH, sM, sw, sO = spec_sums(maxl, ecc, inc, spin, cpl)
    b.add(Obligation(oid=f"{fc.key}::ensures:grouping_invariance[{tag}]", fn=fc.key,
                     clause="ensures returned heating, dUdM, dUdw, dUdO equal the ungrouped per-mode sums (grouping by frequency changes nothing)",
                     goal=sp.And(sp.Eq(heating, sH), sp.Eq(dUdM, sM), sp.Eq(dUdw, sw), sp.Eq(dUdO, sO)), hyps=PRE, backends=("qqnf",), timeout=300))
    # non-negativity: every atom non-negative (E, F table values within the certified e-range, |w|, -Im k >= 0, susceptibility)
    sub = {}
    for t in sp.preorder_traversal(heating):
        if isinstance(t, sp.core.function.AppliedUndef) and t.func.__name__ in ("Lim", "Jim"):
            if (cpl and t.func.__name__ == "Jim") or (not cpl and t.func.__name__ == "Lim"):
                sub[t] = -R("negimk_" + str(len(sub)))
    hpos = heating.xreplace(sub)
    atoms = [x for x in T.free_atoms(hpos)]
    b.add(Obligation(oid=f"{fc.key}::ensures:heating_nonnegative[{tag}]", fn=fc.key,
                     clause="ensures tidal_heating >= 0 when -Im k >= 0 (passive), table values E_lpq, F_lmp >= 0, susceptibility, tidal_scale >= 0",
                     goal=sp.Ge(hpos, 0), hyps=[], positive=atoms, backends=("poscert",), timeout=300))
    # zero state: e = 0, I = 0 (E = delta_q0, F = 0 unless m = l-2p), Omega = n
    zero_sub = {}
    for l in ecc:
        for p, row in ecc[l].items():
            for q, sym in row.items():
                zero_sub[sym] = sp.Integer(1) if q == 0 else sp.Integer(0)
        for (m, p), sym in inc[l].items():
            if m != l - 2 * p:
                zero_sub[sym] = sp.Integer(0)
    if same:
        vals = [sp.sympify(v).xreplace(zero_sub) for v in raw4]
        b.add(Obligation(oid=f"{fc.key}::ensures:zero_state[{tag}]", fn=fc.key,
                         clause="ensures e = 0, I = 0, Omega = n (same object) ==> heating == dUdM == dUdw == dUdO == 0",
                         goal=sp.And(*[sp.Eq(v, 0) for v in vals]), hyps=PRE, backends=("qqnf",)))
    else:
        # Omega passed as a separate object but equal in value: every surviving mode is (l-2p) n - m Omega = 0
        def at_sync(v):
            v = v.xreplace(zero_sub)
            rep = {}
            for t in sp.preorder_traversal(v):
                if isinstance(t, sp.core.function.AppliedUndef) and t.func.__name__ in ("abs_", "sign_"):
                    if sp.expand(t.args[0].subs(Om, n)) == 0:
                        rep[t] = sp.Integer(0)
                if isinstance(t, sp.core.function.AppliedUndef) and t.func.__name__ == "iszero_":
                    rep[t] = sp.Integer(1) if sp.expand(t.args[0].subs(Om, n)) == 0 else sp.Integer(0)
            return v.xreplace(rep)
        vals = [at_sync(sp.sympify(v)) for v in raw4]
        b.add(Obligation(oid=f"{fc.key}::ensures:zero_state[{tag}]", fn=fc.key,
                         clause="ensures e = 0, I = 0, Omega == n in value (distinct objects; sign(0) = |0| = 0) ==> all four outputs == 0",
                         goal=sp.And(*[sp.Eq(v, 0) for v in vals]), hyps=PRE, backends=("qqnf",)))
    return b


def _freq_sig_check(maxl, ecc, inc, spin, uniq):
    """each signature's stored frequency equals |mode| of every mode that maps to it (recomputed from the statement's rule:
    same |n_coeff n - m Omega|), and every non-vanishing mode has its signature present"""
    bad = []
    for l in range(2, maxl + 1):
        for (m, p) in inc[l]:
            for q in ecc[l].get(p, {}):
                ncoef = l - 2 * p + q
                w = canon_abs(ncoef * n - m * spin)
                if w == 0:
                    continue
                if not any(sp.expand(w - v) == 0 for v in uniq.values()):
                    bad.append((l, m, p, q))
    return dict(verdict="discharged" if not bad else "refuted", backend="ground-exact", reason=f"modes without a matching stored frequency: {bad[:5]}",
                model=None)


QUICK = [(2, 2, True, False, False), (2, 2, False, True, False), (2, 6, True, True, False), (3, 4, True, False, False), (3, 2, False, False, True),
         (4, 2, True, False, False), (7, 2, False, False, False), (2, 20, True, False, False), (5, 4, False, True, True)]


def all_configs():
    from tpv.extract import source
    out = []
    for maxl in range(2, 8):
        for N in range(2, 21, 2):
            for on in (True, False):
                for same in (False, True):
                    out.append((maxl, N, on, same, (maxl + N // 2) % 2 == 0))
    # symbolic cost grows like l_max^3 N^2 when the obliquity is on: the corner beyond l_max^3 N^2 = 22000 ((7, N >= 10), (6, N >= 12), (5, N >= 14), (4, 20))
    # is run with the obliquity off only (cheap); every l_max and every truncation level still occurs with the obliquity on
    return [c for c in out if (not c[2]) or c[0] ** 3 * c[1] ** 2 <= 22000]


def _one_config_clean(cfg):
    try:
        return one_config(cfg)
    finally:
        from sympy.core.cache import clear_cache
        clear_cache()
        import gc
        gc.collect()


def build(tier="quick", seed=0):
    b = Bundle("C10")
    cfgs = QUICK if tier == "quick" else all_configs()
    ctx = mp.get_context("fork")
    from tpv.oblig import _die_with_parent
    # the heaviest configurations first (cost grows with l_max^3 N^2 when the obliquity is on), sympy's caches cleared after each configuration (they reach GBs)
    cfgs = sorted(cfgs, key=lambda c: -(c[0] ** 3 * c[1] ** 2 * (10 if c[2] else 1)))
    with ctx.Pool(min(16, len(cfgs)), initializer=_die_with_parent) as pool:
        res = pool.map(_one_config_clean, cfgs, chunksize=1)
    for sub in res:
        b.extend(sub.obligations)
        b.functions.update(sub.functions)
        b.subset_exits += sub.subset_exits
        b.stats["paths"] += sub.stats["paths"]
    b.replayer("*::alias#*", replay_alias)
    b.replayer("*[maxl*", lambda ob, res: replay(dict(obligation=ob.oid)))
    susceptibility(b)
    limit_21_2(b)
    cpl_ctl(b)
    quick_tides_rheology_site(b)
    quick_tides_pipeline(b)
    compliance_helper(b)
    nonneg_ranges(b, tier)
    b.assume("sign / abs of a tidal mode are uninterpreted with abs(x) = sign(x) x, sign(0) = abs(0) = 0, abs(-x) = abs(x)")
    b.assume("-Im k_l enters as an uninterpreted function of (l, complex compliance); the compliance as an uninterpreted function of the frequency value (what compliance_dict_helper computes per unique frequency)")
    b.assume("table values E_lpq, F_lmp are opaque symbols over the real tables' key sets (their values are C08 / C09); quick tier runs a covering subset of (l_max, truncation, obliquity, sync, CPL) configurations; thorough runs all of them with the obliquity off and, with the obliquity on, all with l_max^3 N^2 <= 22000 (every l_max and every truncation level occurs)")
    b.assume("effective_q bookkeeping (division inside try/except) is havocked: it does not feed any output named in the property")
    return b


def susceptibility(b):
    G_ = R("G")
    hm, tr, sa = R("host_mass"), R("target_radius"), R("semi_major_axis")
    pre = [sp.Gt(sa, 0)]
    fn, ex, paths = run_fn(b, FD, "calc_tidal_susceptibility", dict(host_mass=hm, target_radius=tr, semi_major_axis=sa), pre, globals_env=dict(G=G_))
    b.const_values[G_] = 6.6743e-11
    if paths:
        ensure_eq(b, fn, "formula", paths, sp.Rational(3, 2) * G_ * hm ** 2 * tr ** 5 / sa ** 6, pre, clause="ensures result == (3/2) G M_host^2 R^5 / a^6")


def limit_21_2(b):
    """l = 2, truncation e^2, zero obliquity (off table), synchronous (same object): heating == (21/2)(-Im k2) G M^2 R^5 n e^2 / a^6.
    Uses the REAL table values (e^2 eccentricity table and I = 0 inclination table executed symbolically)."""
    e = R("eccentricity")
    fe, ex, pe = run_fn(b, "TidalPy/tides/eccentricity_funcs/orderl2.py", "eccentricity_funcs_trunc2", dict(eccentricity=e), [sp.Ge(e, 0), sp.Lt(e, 1)], xcheck=False)
    fi, ex, pi_ = run_fn(b, "TidalPy/tides/inclination_funcs/orderl2.py", "calc_inclination_off", dict(inclination=sp.Integer(0)), [],
                         globals_env=dict(np=Namespace("np", {"ones_like": (lambda ex_, node, x, **k: sp.Integer(1))})), xcheck=False)
    if not pe or not pi_:
        return
    et, it = pe[0].value, pi_[0].value
    bb = Bundle("C10")
    fn, paths, ecc, inc, spin = run_terms(bb, 2, 2, False, True, evals=lambda l, p, q: et[p][q], fvals=lambda l, m, p: it[(m, p)])
    b.subset_exits += bb.subset_exits
    if not paths:
        return
    uniq, terms = paths[0].value
    # synchronous: every mode is c*n with concrete c and n > 0, so |mode| = |c| n
    def concrete_abs(v):
        rep = {}
        for t in sp.preorder_traversal(v):
            if isinstance(t, sp.core.function.AppliedUndef) and t.func.__name__ in ("abs_", "sign_"):
                c = sp.expand(t.args[0] / n)
                if c.is_number:
                    rep[t] = (abs(c) * n) if t.func.__name__ == "abs_" else sp.sign(c)
        return v.xreplace(rep)
    uniq = {k: concrete_abs(v) for k, v in uniq.items()}
    terms = {k: {l: tuple(concrete_abs(x) for x in tup) for l, tup in byl.items()} for k, byl in terms.items()}
    fc, cpaths = run_collapse(b, 2, uniq, terms, False)
    if not cpaths:
        return
    ret = [p for p in cpaths if p.outcome == "return"]
    heating = ret[0].value[0]
    G_ = R("G")
    k2 = -ts * Lim(sp.Integer(2), Jre(n), Jim(n))
    goal = sp.Eq(heating.subs(chi, sp.Rational(3, 2) * G_ * Mh ** 2 * Rr ** 5 / a ** 6), sp.Rational(21, 2) * k2 * G_ * Mh ** 2 * Rr ** 5 * n * e ** 2 / a ** 6)
    b.add(Obligation(oid=f"{fc.key}::ensures:classical_21_2_limit", fn=fc.key,
                     clause="ensures (l=2, e^2 truncation, I=0, synchronous) heating == (21/2)(-Im k2) G M^2 R^5 n e^2/a^6 with the real table values",
                     goal=goal, hyps=PRE, backends=("qqnf", "z3")))


def cpl_ctl(b):
    """CPL / CTL helper functions: -Im k = k2/Q  resp.  k2 * w * dt  (>= 0) for every frequency signature"""
    from tpv.terms import Cx
    FG = "TidalPy/tides/methods/global_approx.py"
    k2, Q, dt = R("fixed_k2"), R("fixed_q"), R("fixed_dt")
    w1, w2 = R("w_1"), R("w_2")
    freqs = {(1, -2): w1, (2, 0): w2}
    pre = [sp.Gt(k2, 0), sp.Gt(Q, 0), sp.Gt(dt, 0), sp.Ge(w1, 0), sp.Ge(w2, 0)]
    fn, ex, paths = run_fn(b, FG, "cpl_neg_imk_helper_func", dict(tidal_frequencies=dict(freqs), fixed_k2=k2, fixed_q=Q), pre, xcheck=False)
    if paths:
        ensure(b, fn, "cpl_value", paths, lambda p: sp.And(*[sp.And(sp.Eq(p.value[s_].re, k2), sp.Eq(-p.value[s_].im, k2 / Q)) for s_ in freqs]) if isinstance(p.value, dict) and set(p.value) == set(freqs) else sp.false,
               pre, clause="ensures for every signature: Re k == k2 and -Im k == k2/Q (>= 0), exactly the input signatures")
    lin = Fn("TidalPy/tides/ctl_funcs/ctl_funcs.py", "linear_dt")
    b.add_fn(lin)
    fn, ex, paths = run_fn(b, FG, "ctl_neg_imk_helper_func", dict(tidal_frequencies=dict(freqs), fixed_k2=k2, ctl_method=("fn", "linear_dt"), ctl_inputs=(dt,)), pre,
                           inline={"linear_dt": (lin, None)}, xcheck=False)
    if paths:
        ensure(b, fn, "ctl_value", paths, lambda p: sp.And(*[sp.And(sp.Eq(p.value[s_].re, k2), sp.Eq(-p.value[s_].im, k2 * w_ * dt)) for s_, w_ in freqs.items()]) if isinstance(p.value, dict) and set(p.value) == set(freqs) else sp.false,
               pre, clause="ensures for every signature: Re k == k2 and -Im k == k2 * frequency * dt (>= 0)")


def nonneg_ranges(b, tier):
    """per table: largest e_N such that every truncated E_lpq(e) >= 0 on [0, e_N] (exact real-root isolation); reported, and the
    non-negativity clause is claimed for e <= e_N only"""
    from contracts.C08 import _series_of, E as EC
    rows = []
    combos = [(2, 2), (2, 6), (2, 10), (2, 20), (3, 4), (4, 2), (5, 4), (7, 2)] if tier == "quick" else [(l, N) for l in range(2, 8) for N in range(2, 21, 2)]
    x = sp.Symbol("x")
    for l, N in combos:
        F = f"TidalPy/tides/eccentricity_funcs/orderl{l}.py"
        fn, ex, paths = run_fn(b, F, f"eccentricity_funcs_trunc{N}", dict(eccentricity=EC), [sp.Ge(EC, 0), sp.Lt(EC, 1)], xcheck=False)
        if not paths:
            continue
        eN = sp.Integer(1)
        which = None
        for p, row in paths[0].value.items():
            for q, expr in row.items():
                num, den = sp.fraction(sp.together(expr))
                poly = sp.Poly(sp.expand(num), EC, domain="QQ")
                if poly.degree() <= 0:
                    continue
                # sign of the entry just right of 0 and its smallest positive root of odd multiplicity
                sq, = [poly.sqf_part()]
                for iv, mult in sq.intervals():
                    lo, hi = iv
                    if hi <= 0:
                        continue
                    root_lo = sq.refine_root(lo, hi, eps=sp.Rational(1, 10 ** 6))[0] if lo != hi else lo
                    if root_lo <= 0:
                        continue
                    # multiplicity in the original polynomial
                    mlt = 0
                    tmp = poly
                    fac = None
                    for fct, mm in poly.factor_list()[1]:
                        if fct.count_roots(lo, hi) > 0:
                            mlt = mm
                    if mlt % 2 == 1 and root_lo < eN and root_lo < 1:
                        eN = root_lo
                        which = (p, q)
                    break
        rows.append(dict(l=l, N=N, e_N=float(eN), limiting_mode=which))
        ground(b, f"{F}::eccentricity_funcs_trunc{N}::nonneg_range", fn.key, f"every table entry of (l={l}, e^{N}) is >= 0 on [0, e_N]; e_N = {float(eN):.4f}", eN > 0,
               detail=f"first sign change at e = {float(eN):.6f} in mode {which}")
    b.notes.append({"non_negativity_validity_ranges": rows})


_REPLAY_CODE = r'''
import numpy as np, math
from TidalPy.toolbox.quick_tides import quick_tidal_dissipation
from TidalPy.tides.modes.mode_manipulation import find_mode_manipulators
from TidalPy.tides.universal_coeffs import get_universal_coeffs
from TidalPy.tides.love1d import complex_love_general, effective_rigidity_general
from TidalPy.rheology.complex_compliance.compliance_models import maxwell
from TidalPy.tides.dissipation import calc_tidal_susceptibility
from TidalPy.utilities.conversions import orbital_motion2semi_a
cfg = args
maxl, N, on, same, cpl = cfg["maxl"], cfg["N"], cfg["on"], cfg["same"], cfg["cpl"]
host_mass, R, M, rho = 1.9e27, 1.8e6, 8.9e22, 3500.0
g = 6.6743e-11 * M / R**2
moi = 0.4 * M * R**2
visc, mu = 1e17, 5e10
nfreq = 4.1e-5
Om = None if same else cfg.get("spin_ratio", 1.7) * nfreq
e, I = cfg.get("e", 0.2), (cfg.get("I", 0.35) if on else 0.0)
kw = dict(rheology="cpl", fixed_k2=0.3, fixed_q=50.) if cpl else dict(rheology="maxwell")
res = quick_tidal_dissipation(host_mass, R, M, g, rho, moi, viscosity=visc, shear_modulus=mu, eccentricity=e, obliquity=(I if on else None),
                              orbital_frequency=nfreq, spin_frequency=Om, max_tidal_order_l=maxl, eccentricity_truncation_lvl=N, use_obliquity=on, **kw)
spin = nfreq if Om is None else Om
H, dM, dw, dO = (float(res[k]) for k in ("tidal_heating", "dUdM", "dUdw", "dUdO"))
out = {"heating": H, "dUdM": dM, "dUdw": dw, "dUdO": dO, "identity_rhs": host_mass * (nfreq * dM - spin * dO)}
# ungrouped per-mode sum from the real tables
_, _, efunc, ifunc = find_mode_manipulators(maxl, N, on)
E = efunc(e); F = ifunc(I)
a = orbital_motion2semi_a(nfreq, host_mass, M)
chi = calc_tidal_susceptibility(host_mass, R, a)
sH = sM = sw = sO = 0.0
for l in range(2, maxl + 1):
    U = get_universal_coeffs(l)
    for (m, p), Fv in F[l].items():
        for q, Ev in E[l][p].items():
            nc = l - 2 * p + q
            mode = nc * nfreq - m * spin
            w = abs(mode)
            if w == 0.0:
                continue
            if cpl:
                k = 0.3 * (1.0 - 1.0j / 50.)
            else:
                J = maxwell(w, 1.0 / mu, visc)
                k = complex_love_general(J, mu, effective_rigidity_general(mu, g, R, rho, l), l)
            negimk = -k.imag
            u = (R / a) ** (2 * l - 4) * U[m] / 1.5 * float(Fv) * float(Ev)
            sg = math.copysign(1.0, mode)
            sH += u * w * negimk; sM += u * nc * sg * negimk / host_mass; sw += u * (l - 2 * p) * sg * negimk / host_mass; sO += u * m * sg * negimk / host_mass
out["ungrouped"] = {"heating": chi * sH, "dUdM": chi * sM, "dUdw": chi * sw, "dUdO": chi * sO}
result = out
'''


def replay(doc):
    """native replay of a C10 obligation: the configuration is read from the obligation tag"""
    from tpv import native
    m = re.search(r"\[maxl(\d+)_N(\d+)_(on|off)_(sync|nsr)_(cpl|visco)\]", doc["obligation"])
    if not m:
        return dict(replayed=False, reason="obligation carries no configuration tag")
    cfg = dict(maxl=int(m.group(1)), N=int(m.group(2)), on=m.group(3) == "on", same=m.group(4) == "sync", cpl=m.group(5) == "cpl")
    if "zero_state" in doc["obligation"]:
        cfg.update(e=0.0, I=0.0, spin_ratio=1.0)
        # the state of the statement through the public API: circular, zero obliquity, spin equal to n IN VALUE (distinct array objects, one element
        # of a spin sweep), for a frequency-independent (CPL) and a Maxwell response
        z = native.run(dict(code=_ZERO_STATE_CODE), timeout=900)
        try:
            if any(abs(x_) > 0 for x_ in z["result"]["values"]):
                return dict(replayed=True, native=z, confirmed=True, what="quick_tidal_dissipation with array inputs, e = 0, I = 0, spin == n in value: dU/dM, dU/dw, dU/dO, heating must all vanish")
        except Exception:
            pass
    r = native.run(dict(code=_REPLAY_CODE, args=cfg), timeout=600)
    rec = dict(replayed=True, config=cfg, native=r)
    if "result" not in r:
        rec["confirmed"] = True
        rec["why"] = "real code raised / crashed"
        return rec
    v = native.unc(r["result"])
    scale = max(abs(v["heating"]), abs(v["ungrouped"]["heating"]), 1e-300)
    bad_id = abs(v["heating"] - v["identity_rhs"]) > 1e-9 * scale
    bad_grp = any(abs(v[k] - v["ungrouped"][k]) > 1e-9 * max(abs(v[k]), abs(v["ungrouped"][k]), 1e-300) for k in ("heating", "dUdM", "dUdw", "dUdO"))
    bad_neg = v["heating"] < 0
    bad_zero = "zero_state" in doc["obligation"] and any(abs(v[k]) > 0 for k in ("heating", "dUdM", "dUdw", "dUdO"))
    rec.update(identity_violated=bad_id, grouping_violated=bad_grp, negative_heating=bad_neg, nonzero_at_zero_state=bad_zero)
    rec["confirmed"] = bool(bad_id or bad_grp or bad_neg or bad_zero)
    return rec


_ZERO_STATE_CODE = r'''
import numpy as np
from TidalPy.toolbox.quick_tides import quick_tidal_dissipation
M_HOST, RADIUS, MASS, GRAVITY, DENSITY = 1.9e27, 1.8e6, 8.9e22, 1.8, 3500.
MOI = 0.4 * MASS * RADIUS**2
N = 2. * np.pi / (1.77 * 86400.)
vals = []
for kw in (dict(rheology='cpl', fixed_k2=0.3, fixed_q=100.), dict(rheology='maxwell', viscosity=1e16, shear_modulus=5e10)):
    n_arr = N * np.ones(3); spin_arr = N * np.asarray([0.5, 1.0, 2.0])
    r = quick_tidal_dissipation(M_HOST, RADIUS, MASS, GRAVITY, DENSITY, MOI, eccentricity=np.zeros(3), obliquity=np.zeros(3), orbital_frequency=n_arr, spin_frequency=spin_arr,
                                max_tidal_order_l=2, eccentricity_truncation_lvl=2, use_obliquity=True, **kw)
    for k in ('tidal_heating', 'dUdM', 'dUdw', 'dUdO'):
        vals.append(float(np.asarray(r[k]).ravel()[1]))
result = dict(values=vals)
'''

_ALIAS_CODE = r'''
import numpy as np
from TidalPy.toolbox.quick_tides import quick_tidal_dissipation
M_HOST, RADIUS, MASS, GRAVITY, DENSITY = 1.9e27, 1.8e6, 8.9e22, 1.8, 3500.
MOI = 0.4 * MASS * RADIUS**2
N = 2. * np.pi / (1.77 * 86400.)
def run(n, spin):
    r = quick_tidal_dissipation(M_HOST, RADIUS, MASS, GRAVITY, DENSITY, MOI, viscosity=1e16, shear_modulus=5e10, rheology='maxwell', eccentricity=0.05, obliquity=0.1,
                                orbital_frequency=n, spin_frequency=spin, max_tidal_order_l=2, eccentricity_truncation_lvl=2, use_obliquity=True)
    return r['tidal_heating'], r['dUdM'], r['dUdO']
ratios = np.asarray([-1.5, 0.5, 1.5, 3.0])
arr = run(N * np.ones_like(ratios), N * ratios)
sca = [run(N, N * x) for x in ratios]
worst = 0.0
for k in range(3):
    for i in range(len(ratios)):
        a, s = float(np.asarray(arr[k])[i]), float(sca[i][k])
        worst = max(worst, abs(a - s) / max(abs(s), 1e-300))
result = dict(worst_relative_difference_array_vs_scalar=worst)
'''


def replay_alias(ob, res):
    """in-place update through an alias: the public function called with ndarray frequencies must agree element-wise with scalar calls"""
    from tpv import native
    r = native.run(dict(code=_ALIAS_CODE), timeout=900)
    rec = dict(replayed=True, native=r)
    if "result" not in r:
        rec["confirmed"] = False
        return rec
    w = native.unc(r["result"])["worst_relative_difference_array_vs_scalar"]
    rec["confirmed"] = bool(w > 1e-9)
    rec["detail"] = f"quick_tidal_dissipation with ndarray frequencies differs from the scalar calls by a relative {w:.3g}"
    return rec


def quick_tides_rheology_site(b):
    """call site in quick_tidal_dissipation: the CPL / CTL inputs handed to the helper functions satisfy the helpers' preconditions
    (fixed_q > 0; time lag dt > 0 - this is what makes -Im k = k2 w dt non-negative) and the default time lag is the documented 1/(Q n)."""
    import ast
    FQ = "TidalPy/toolbox/quick_tides.py"
    try:
        qt = Fn(FQ, "quick_tidal_dissipation")
    except ExtractError as e:
        b.subset_exits.append(str(e))
        return
    b.add_fn(qt)
    # the selection statement: the top-level `if` that hands out the CPL helper; plus the simple assignments before it that its tests read (e.g. a lower-cased name)
    body = list(qt.node.body)
    sel = [s for s in body if isinstance(s, ast.If) and "cpl_neg_imk_helper_func" in ast.unparse(s)]
    if len(sel) != 1:
        b.subset_exits.append(f"{qt.key}: rheology selection statement not found ({len(sel)} candidates)")
        return
    tests, node_ = [], sel[0]
    while isinstance(node_, ast.If):
        tests.append(node_.test)
        node_ = node_.orelse[0] if len(node_.orelse) == 1 else None
    need = {n_.id for t_ in tests for n_ in ast.walk(t_) if isinstance(n_, ast.Name)} - set(qt.params)
    sts = []
    for s_ in reversed(body[:body.index(sel[0])]):
        if isinstance(s_, ast.Assign) and len(s_.targets) == 1 and isinstance(s_.targets[0], ast.Name) and s_.targets[0].id in need:
            sts.insert(0, s_)
            need |= {n_.id for n_ in ast.walk(s_.value) if isinstance(n_, ast.Name)} - set(qt.params)
    sts.append(sel[0])
    k2, Q, n, spin, dtu = R("fixed_k2"), R("fixed_q"), R("orbital_frequency"), R("spin_frequency"), R("fixed_dt_user")
    pre = [sp.Gt(k2, 0), sp.Gt(Q, 0), sp.Gt(n, 0), sp.Ne(spin, 0), sp.Gt(dtu, 0)]
    genv = dict(cpl_neg_imk_helper_func=("fn", "cpl_neg_imk_helper_func"), ctl_neg_imk_helper_func=("fn", "ctl_neg_imk_helper_func"), linear_dt=("fn", "linear_dt"))
    for rh, user_dt in (("ctl", None), ("CTL", dtu), ("cpl", None), ("fixed_q", None)):
        env = dict(rheology=rh, fixed_k2=k2, fixed_q=Q, fixed_dt=user_dt, orbital_frequency=n, spin_frequency=spin, shear_modulus=R("mu"), viscosity=R("eta"))
        fr, ex, paths = run_fragment(b, qt, sts, f"rheology_inputs[{rh}{',dt' if user_dt is not None else ''}]", env, pre, globals_env=genv, contracts={}, opts=dict(auto_inline_same_module=False))
        if not paths:
            continue
        tag = f"{rh}{',dt' if user_dt is not None else ''}"
        for i, p in enumerate(paths):
            fi = p.env.get("fixed_inputs")
            ok_shape = p.outcome == "return" and p.env.get("use_cpl_ctl") is True and isinstance(fi, tuple)
            if rh.lower() == "ctl":
                ok_shape = ok_shape and len(fi) == 3 and isinstance(fi[2], tuple) and len(fi[2]) == 1 and fi[1] == ("fn", "linear_dt") and p.env.get("rheo_func") == ("fn", "ctl_neg_imk_helper_func")
                ground(b, f"{qt.key}::ctl_site_shape[{tag}]@path{i}", qt.key, "CTL: rheo_func is the CTL helper and fixed_inputs == (fixed_k2, linear_dt, (dt,))", ok_shape, detail=str(fi)[:200])
                if not ok_shape:
                    continue
                dt = fi[2][0]
                b.add(Obligation(oid=f"{qt.key}::ctl_site_pre[{tag}]@path{i}", fn=qt.key, clause="precondition of ctl_neg_imk_helper_func at its call site: time lag dt > 0 and k2 as given (for every spin rate, prograde or retrograde)",
                                 goal=sp.And(sp.Gt(dt, 0), sp.Eq(fi[0], k2)), hyps=list(pre) + p.hyps, meta=dict(dt=str(dt))))
                b.add(Obligation(oid=f"{qt.key}::ctl_site_default[{tag}]@path{i}", fn=qt.key, clause="the time lag is the user's fixed_dt, or by default 1/(fixed_q * orbital_frequency)",
                                 goal=sp.Eq(dt, user_dt if user_dt is not None else 1 / (Q * n)), hyps=list(pre) + p.hyps, meta=dict(dt=str(dt))))
            else:
                ok = ok_shape and len(fi) == 2 and p.env.get("rheo_func") == ("fn", "cpl_neg_imk_helper_func") and sp.simplify(fi[0] - k2) == 0 and sp.simplify(fi[1] - Q) == 0
                ground(b, f"{qt.key}::cpl_site[{tag}]@path{i}", qt.key, "CPL: rheo_func is the CPL helper and fixed_inputs == (fixed_k2, fixed_q)", ok, detail=str(fi)[:200])
    b.replayer(f"{qt.key}::ctl_site_*", replay_ctl_site)


def quick_tides_pipeline(b):
    """argument binding of quick_tidal_dissipation (modular: every callee by a recording stub with its precondition): the block from the rheology
    selection to the result dictionary is executed from the real source for a CPL, a CTL and a Maxwell call.  What the statement's heating /
    potential-derivative identity needs from this caller: the mode calculator gets (spin, n, a, R, G-table(e), F-table(I)) and SIGNED modes
    (multiply_modes_by_sign true: dU/dM, dU/dw, dU/dO carry sign(omega) while the heating uses |omega|); the collapse gets the planet's own
    (g, R, rho, mu, scale, M_host), the susceptibility of (M_host, R, a), the compliances of the calculator's unique frequencies and the calculator's
    terms, with the same l_max and CPL flag; the dictionary stores the collapse's outputs under their names and torque = M_host dU/dO."""
    import ast
    FQ = "TidalPy/toolbox/quick_tides.py"
    try:
        qt = Fn(FQ, "quick_tidal_dissipation")
    except ExtractError as e:
        b.subset_exits.append(str(e))
        return
    b.add_fn(qt)
    body = list(qt.node.body)
    first = [i for i, s_ in enumerate(body) if isinstance(s_, ast.Assign) and any(isinstance(t_, ast.Name) and t_.id == "use_cpl_ctl" for t_ in s_.targets)]
    last = [i for i, s_ in enumerate(body) if isinstance(s_, ast.If) and "calculate_orbit_spin_derivatives" in ast.unparse(s_.test)]
    if len(first) < 1 or len(last) != 1 or first[0] >= last[0]:
        b.subset_exits.append(f"{qt.key}: anchors of the calculation block not found ({first}, {last})")
        return
    sts = body[first[0]:last[0]]
    names = ("host_mass", "target_radius", "target_mass", "target_gravity", "target_density", "target_moi", "tidal_scale", "spin_frequency", "orbital_frequency",
             "semi_major_axis", "eccentricity", "obliquity", "fixed_k2", "fixed_q", "viscosity", "shear_modulus")
    V = {k_: R("qt_" + k_) for k_ in names}
    pre = [sp.Gt(V[k_], 0) for k_ in names if k_ not in ("spin_frequency", "obliquity")] + [sp.Lt(V["eccentricity"], 1)]
    for rh in ("cpl", "ctl", "maxwell"):
        rec = {}

        def stub(name, result):
            def f(ex, node, *a, **k):
                rec.setdefault(name, []).append((a, k))
                return result(*a, **k) if callable(result) else result
            return f
        CALC, COLL, ECCF, INCF = (stub("calc", (("UNIQ",), ("TERMS",))), stub("collapse", tuple(R(f"qt_out{i}") for i in range(7))),
                                  stub("ecc", ("ECC",)), stub("inc", ("INC",)))
        genv = dict(cpl_neg_imk_helper_func=stub("rheo", ("COMPL",)), ctl_neg_imk_helper_func=stub("rheo", ("COMPL",)), linear_dt=("fn", "linear_dt"),
                    known_compliance_models={"maxwell": ("fn", "maxwell")}, compliance_dict_helper=stub("helper", ("COMPL",)),
                    find_mode_manipulators=stub("find", (CALC, COLL, ECCF, INCF)), calc_tidal_susceptibility=stub("chi", R("qt_chi")),
                    MissingArgumentError="MissingArgumentError")
        env = dict(V, rheology=rh, fixed_dt=None, precalculated_mode_results=None, max_tidal_order_l=sp.Integer(3), eccentricity_truncation_lvl=sp.Integer(6),
                   use_obliquity=True, complex_compliance_inputs=None, use_array=False)
        fr, ex, paths = run_fragment(b, qt, sts, f"pipeline[{rh}]", env, pre, globals_env=genv, contracts={}, opts=dict(auto_inline_same_module=False))
        if not paths:
            continue
        rets = [p for p in paths if p.outcome == "return"]
        key = f"{qt.key}::pipeline[{rh}]"
        if len(paths) != 1 or len(rets) != 1:
            b.subset_exits.append(f"{key}: {len(paths)} paths ({[p.outcome for p in paths]}) over one recording store")
            continue
        p = rets[0]

        def same(x, y):
            try:
                return x is y or x == y or sp.simplify(sp.sympify(x) - sp.sympify(y)) == 0
            except Exception:
                return False

        def one(name):
            c_ = rec.get(name, [])
            return c_[0] if len(c_) == 1 else None
        # find_mode_manipulators
        c_ = one("find")
        ok = c_ is not None and same(dict(zip(("max_order_l", "eccentricity_truncation_lvl", "use_obliquity"), c_[0]), **c_[1]).get("max_order_l"), 3) and \
            same(dict(zip(("max_order_l", "eccentricity_truncation_lvl", "use_obliquity"), c_[0]), **c_[1]).get("eccentricity_truncation_lvl"), 6) and \
            dict(zip(("max_order_l", "eccentricity_truncation_lvl", "use_obliquity"), c_[0]), **c_[1]).get("use_obliquity") is True
        ground(b, f"{key}::mode_functions", qt.key, "find_mode_manipulators is asked for the caller's l_max, truncation level and obliquity switch", ok, detail=str(c_)[:200])
        c_ = one("chi")
        ground(b, f"{key}::susceptibility", qt.key, "tidal susceptibility is that of (host mass, target radius, semi-major axis)",
               c_ is not None and len(c_[0]) == 3 and all(same(x_, V[k_]) for x_, k_ in zip(c_[0], ("host_mass", "target_radius", "semi_major_axis"))), detail=str(c_)[:200])
        e_, i_ = one("ecc"), one("inc")
        ground(b, f"{key}::tables", qt.key, "eccentricity functions are evaluated at the eccentricity and inclination functions at the obliquity",
               e_ is not None and i_ is not None and len(e_[0]) == 1 and len(i_[0]) == 1 and same(e_[0][0], V["eccentricity"]) and same(i_[0][0], V["obliquity"]), detail=f"{e_} {i_}"[:200])
        c_ = one("calc")
        okc = c_ is not None
        if okc:
            bound = dict(zip(("spin_frequency", "orbital_frequency", "semi_major_axis", "radius", "eccentricity_results_byorderl", "obliquity_results_byorderl", "multiply_modes_by_sign"), c_[0]), **c_[1])
            okc = all(same(bound.get(a_), V[k_]) for a_, k_ in (("spin_frequency", "spin_frequency"), ("orbital_frequency", "orbital_frequency"), ("semi_major_axis", "semi_major_axis"), ("radius", "target_radius"))) \
                and bound.get("eccentricity_results_byorderl") == ("ECC",) and bound.get("obliquity_results_byorderl") == ("INC",)
            sign = bound.get("multiply_modes_by_sign", True)
            ground(b, f"{key}::signed_modes", qt.key, "precondition of the heating / derivative identity at the mode calculator's call site: multiply_modes_by_sign is true (for every rheology, CPL / CTL included)",
                   sign is True or sign == sp.true, detail=f"multiply_modes_by_sign = {sign!r}", refuted_model=None if (sign is True or sign == sp.true) else dict(rheology=rh, multiply_modes_by_sign=str(sign)))
        ground(b, f"{key}::calculator_arguments", qt.key, "the mode calculator gets (spin, n, a, R, G-table(e), F-table(I))", okc, detail=str(c_)[:300])
        # compliances at the calculator's unique frequencies
        c_ = one("rheo") if rh in ("cpl", "ctl") else one("helper")
        okr = c_ is not None and len(c_[0]) >= 1 and c_[0][0] == ("UNIQ",)
        if okr and rh == "maxwell":
            okr = len(c_[0]) == 4 and c_[0][1] == ("fn", "maxwell") and isinstance(c_[0][2], tuple) and len(c_[0][2]) == 2 and same(c_[0][2][0], 1 / V["shear_modulus"]) and same(c_[0][2][1], V["viscosity"])
        ground(b, f"{key}::compliances", qt.key, "compliances (or the CPL / CTL -Im k) are computed at the calculator's unique frequencies" + (" from (1/mu, eta) with the selected model" if rh == "maxwell" else ""), okr, detail=str(c_)[:300])
        c_ = one("collapse")
        okk = c_ is not None
        if okk:
            pn = ("gravity", "radius", "density", "shear_modulus", "tidal_scale", "tidal_host_mass", "tidal_susceptibility", "complex_compliance_by_frequency", "tidal_terms_by_frequency", "max_order_l", "cpl_ctl_method")
            bound = dict(zip(pn, c_[0]), **c_[1])
            okk = all(same(bound.get(a_), V[k_]) for a_, k_ in (("gravity", "target_gravity"), ("radius", "target_radius"), ("density", "target_density"), ("tidal_scale", "tidal_scale"), ("tidal_host_mass", "host_mass"))) \
                and same(bound.get("tidal_susceptibility"), R("qt_chi")) and bound.get("complex_compliance_by_frequency") == ("COMPL",) and bound.get("tidal_terms_by_frequency") == ("TERMS",) \
                and same(bound.get("max_order_l"), 3) and (bound.get("cpl_ctl_method") is (rh != "maxwell")) \
                and (same(bound.get("shear_modulus"), V["shear_modulus"]) if rh == "maxwell" else same(bound.get("shear_modulus"), 1))
        ground(b, f"{key}::collapse_arguments", qt.key, "the collapse gets the planet's (g, R, rho, mu, scale, M_host), that susceptibility, those compliances and the calculator's terms, the same l_max and the CPL flag", okk, detail=str(c_)[:400])
        d = p.env.get("dissipation_results")
        outs = [R(f"qt_out{i}") for i in range(7)]
        okd = isinstance(d, dict) and all(k_ in d for k_ in ("tidal_heating", "dUdM", "dUdw", "dUdO", "tidal_torque")) and same(d["tidal_heating"], outs[0]) and same(d["dUdM"], outs[1]) \
            and same(d["dUdw"], outs[2]) and same(d["dUdO"], outs[3]) and same(d["tidal_torque"], V["host_mass"] * outs[3])
        ground(b, f"{key}::results", qt.key, "the result dictionary stores the collapse's heating, dU/dM, dU/dw, dU/dO under those names and torque = M_host dU/dO", okd, detail=str(d)[:300] if not okd else "")
    b.replayer(f"{qt.key}::pipeline*", replay_pipeline)


_PIPE_CODE = r'''
import numpy as np
from TidalPy.toolbox.quick_tides import quick_tidal_dissipation
M_HOST, RADIUS, MASS, GRAVITY, DENSITY = 1.9e27, 1.8e6, 8.9e22, 1.8, 3500.
MOI = 0.4 * MASS * RADIUS**2
N = 2. * np.pi / (1.77 * 86400.)
out = {}
for rh, kw in (("cpl", dict(fixed_k2=0.3, fixed_q=100.)), ("ctl", dict(fixed_k2=0.3, fixed_q=100.)), ("maxwell", dict(viscosity=1e16, shear_modulus=5e10))):
    worst = 0.0
    for ratio, e in ((2.5, 0.0), (1.0, 0.05), (-1.5, 0.1), (0.5, 0.2)):
        r = quick_tidal_dissipation(M_HOST, RADIUS, MASS, GRAVITY, DENSITY, MOI, rheology=rh, eccentricity=e, obliquity=0.2, orbital_frequency=N, spin_frequency=N * ratio,
                                    max_tidal_order_l=2, eccentricity_truncation_lvl=4, use_obliquity=True, **kw)
        h = float(r['tidal_heating']); rhs = M_HOST * (N * float(r['dUdM']) - N * ratio * float(r['dUdO']))
        worst = max(worst, abs(h - rhs) / max(abs(h), 1e-300))
    out[rh] = worst
result = out
'''


def replay_pipeline(ob, res):
    from tpv import native
    r = native.run(dict(code=_PIPE_CODE), timeout=900)
    rec = dict(replayed=True, native=r, what="heating vs M_host (n dU/dM - Omega dU/dOmega) through quick_tidal_dissipation for cpl / ctl / maxwell at four spin states")
    try:
        rec["confirmed"] = bool(max(r["result"].values()) > 1e-8)
    except Exception:
        rec["confirmed"] = "exception" in r
    return rec


def compliance_helper(b):
    """compliance_dict_helper (what produces the per-frequency compliances the collapse reads): for every frequency signature, and only for those, the
    compliance function evaluated at THAT frequency with (*live_inputs, *inputs) in this order; the njit typing dummy entry is gone from the result."""
    FCC = "TidalPy/rheology/complex_compliance/complex_compliance.py"
    try:
        fn = Fn(FCC, "compliance_dict_helper")
    except ExtractError as e:
        b.subset_exits.append(str(e))
        return
    b.add_fn(fn)
    from tpv.symex import Exec, SymExError
    from tpv.terms import Cx
    freqs = {(2, -2): R("w_a"), (1, 0): R("w_b"), (3, -2): R("w_c")}
    live, inp = (R("compliance_0"), R("viscosity_0")), (R("alpha_0"), R("zeta_0"))
    rec = []

    def model(ex, node, *a_, **k_):
        rec.append(tuple(a_))
        return Cx(R(f"J_re_{len(rec)}"), R(f"J_im_{len(rec)}"))
    ex = Exec(fn, globals_env={}, contracts={}, opts=dict(definedness=False))
    try:
        paths = ex.run(dict(tidal_frequencies=dict(freqs), compliance_func=model, live_inputs=live, inputs=inp))
    except SymExError as e:
        b.subset_exits.append(f"{fn.key}: {e}")
        return
    if len(paths) != 1 or paths[0].outcome != "return" or not isinstance(paths[0].value, dict):
        b.subset_exits.append(f"{fn.key}: {[p_.outcome for p_ in paths]}")
        return
    out = paths[0].value
    ok_keys = list(out.keys()) == list(freqs.keys())
    ground(b, f"{fn.key}::ensures:keys", fn.key, "ensures the result has exactly the frequency signatures of the input, in their order (no dummy entry left)", ok_keys, detail=str(list(out.keys())))
    ok_calls = len(rec) == len(freqs) and all(c_ == (w_,) + live + inp for c_, w_ in zip(rec, freqs.values()))
    ground(b, f"{fn.key}::ensures:calls", fn.key, "ensures the compliance function is evaluated once per signature at that signature's frequency with (*live_inputs, *inputs)", ok_calls, detail=str(rec)[:300])
    ok_vals = ok_keys and ok_calls and all(out[k_] is not None and str(out[k_]) == str(Cx(R(f"J_re_{i_ + 1}"), R(f"J_im_{i_ + 1}"))) for i_, k_ in enumerate(freqs))
    ground(b, f"{fn.key}::ensures:values", fn.key, "ensures each signature maps to the value computed at its own frequency", ok_vals, detail=str({k_: str(v_) for k_, v_ in out.items()})[:300])


_CTL_CODE = r'''
import numpy as np
from TidalPy.toolbox.quick_tides import quick_tidal_dissipation
M_HOST, RADIUS, MASS, GRAVITY, DENSITY = 1.9e27, 1.8e6, 8.9e22, 1.8, 3500.
MOI = 0.4 * MASS * RADIUS**2
N = 2. * np.pi / (1.77 * 86400.)
out = {}
for ratio in (-2.0, -1.0, 0.5, 2.0):
    r = quick_tidal_dissipation(M_HOST, RADIUS, MASS, GRAVITY, DENSITY, MOI, rheology='ctl', eccentricity=0.05, obliquity=0.1, orbital_frequency=N, spin_frequency=N * ratio,
                                max_tidal_order_l=2, eccentricity_truncation_lvl=2, use_obliquity=True, fixed_k2=0.3, fixed_q=100.)
    r2 = quick_tidal_dissipation(M_HOST, RADIUS, MASS, GRAVITY, DENSITY, MOI, rheology='ctl', eccentricity=0.05, obliquity=0.1, orbital_frequency=N, spin_frequency=N * ratio,
                                 max_tidal_order_l=2, eccentricity_truncation_lvl=2, use_obliquity=True, fixed_k2=0.3, fixed_q=100., fixed_dt=1.0 / (100. * N))
    out[str(ratio)] = [float(r['tidal_heating']), float(r2['tidal_heating'])]
result = out
'''


def replay_ctl_site(ob, res):
    from tpv import native
    r = native.run(dict(code=_CTL_CODE), timeout=900)
    rec = dict(replayed=True, native=r)
    if "result" not in r:
        rec["confirmed"] = True
        rec["detail"] = "the real quick_tidal_dissipation raised / crashed for a CTL world"
        return rec
    v = native.unc(r["result"])
    neg = {k: x for k, x in v.items() if x[0] < 0}
    dif = {k: x for k, x in v.items() if abs(x[0] - x[1]) > 1e-9 * max(abs(x[1]), 1e-300)}
    rec["confirmed"] = bool(neg or dif)
    rec["detail"] = f"CTL heating by spin/n with default dt vs dt = 1/(Q n): negative {neg}; differs from the documented default {dif}"
    return rec
