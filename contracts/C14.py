"""C14 — tidal potentials are harmonic, self-consistent and agree with each other.

All eight shipped implementations are executed symbolically.  sin / cos of integer combinations of the base angles
(colatitude, longitude, obliquity/2, n t, Omega t) are expanded by the angle-addition rules into polynomials over the
atoms (s_x, c_x), s_x^2 + c_x^2 = 1; d/dtheta and d/dphi are the derivations s -> c, c -> -s on those atoms.  The
frequency mask `freq > MIN_SPIN_ORBITAL_DIFF` is an opaque 0/1 factor per mode.  Clauses (per implementation, per mode,
static flag on and off) are exact identities in Q(atoms)/(relations).
"""
import ast, re
import multiprocessing as mp
import sympy as sp
from tpv.kit import *
from tpv import terms as T
from tpv.symex import Namespace, SymExError, Exec
from contracts.C10 import canon_abs

PKG = "TidalPy/tides/potential/"
IMPL = {
    "simple": ("synchronous_low_e.py", False, False),                        # (file, has rotation_frequency, obliquity kind)
    "nsr": ("nsr_med_eccen_no_obliquity.py", True, False),
    "nsr_modes": ("nsr_modes_med_eccen_no_obliquity.py", True, False),
    "obliquity_nsr": ("nsr_med_eccen_med_obliquity.py", True, "series"),
    "obliquity_nsr_modes": ("nsr_modes_med_eccen_med_obliquity.py", True, "series"),
    "gen_obliquity_nsr": ("nsr_med_eccen_gen_obliquity.py", True, "trig"),
    "gen_obliquity_nsr_modes": ("nsr_modes_med_eccen_gen_obliquity.py", True, "trig"),
    "gen_obliquity_low_e_nsr_modes": ("nsr_modes_low_eccen_gen_obliquity.py", True, "trig"),
}
TH, PH, PSI, NT, OT = [R(x) for x in ("colatitude", "longitude", "obliquity_half", "n_t", "o_t")]
n, o, t, e, Gs, Mh, rad, sma, OBL = [R(x) for x in ("orbital_frequency", "rotation_frequency", "time", "eccentricity", "G", "host_mass", "radius", "semi_major_axis", "obliquity")]
ATOM = {a: (R("s_" + a.name), R("c_" + a.name)) for a in (TH, PH, PSI, NT, OT)}
sTH, cTH = ATOM[TH]
sPH, cPH = ATOM[PH]
sPS, cPS = ATOM[PSI]
RELS = [(s_, 2, 1 - c_ ** 2) for s_, c_ in ATOM.values()]
NAMES6 = ("U", "U_theta", "U_phi", "U_theta_theta", "U_phi_phi", "U_theta_phi")


def mult_angle(k, s_, c_):
    sn, cs = sp.Integer(0), sp.Integer(1)
    for _ in range(abs(k)):
        sn, cs = sp.expand(sn * c_ + cs * s_), sp.expand(cs * c_ - sn * s_)
    return (sn if k >= 0 else -sn), cs


def decompose(x):
    """x = sum k_i * base_i with integer k_i ; base angles: colatitude, longitude, obliquity_half, n*t, Omega*t"""
    x = sp.expand(sp.sympify(x))
    x = x.subs({n * t: NT, o * t: OT}) if x.has(t) else x
    P = sp.Poly(x, TH, PH, PSI, NT, OT) if x != 0 else None
    if P is None:
        return {}
    out = {}
    for mon, cf in P.terms():
        if sum(mon) != 1 or not sp.Rational(cf).is_Integer:
            raise SymExError(f"trig argument {x} is not an integer combination of the base angles")
        out[(TH, PH, PSI, NT, OT)[mon.index(1)]] = int(cf)
    return out


def trig(x):
    d = decompose(x)
    sn, cs = sp.Integer(0), sp.Integer(1)
    for ang, k in d.items():
        s1, c1 = mult_angle(k, *ATOM[ang])
        sn, cs = sp.expand(sn * c1 + cs * s1), sp.expand(cs * c1 - sn * s1)
    return sn, cs


SWITCH_FREQ = {}


class SwitchCounter:
    def __init__(self, tag):
        self.k = 0
        self.tag = tag
        self.freq = {}

    def fresh(self, freq):
        self.k += 1
        s_ = R(f"switch_{self.tag}_{self.k}")
        self.freq[s_] = freq
        return s_


def make_np(sw):
    def _sin(ex, node, x):
        return trig(x)[0]

    def _cos(ex, node, x):
        return trig(x)[1]

    def _sqrt(ex, node, x):
        x = sp.expand(sp.sympify(x))
        if sp.expand(x - (1 - cTH ** 2)) == 0:
            return sTH          # colatitude in (0, pi): sin(theta) > 0
        return ex.sqrt(x, node)

    def _abs(ex, node, x):
        x = sp.sympify(x)
        if x == n:
            return n            # precondition: orbital frequency > 0
        return canon_abs(x)

    def _ones_like(ex, node, x, **k):
        return sp.Integer(1)

    def _zeros_like(ex, node, x, **k):
        return sp.Integer(0)
    return Namespace("np", {"sin": _sin, "cos": _cos, "sqrt": _sqrt, "abs": _abs, "ones_like": _ones_like, "zeros_like": _zeros_like, "float64": "float64"})


class MinDiff(sp.Symbol):
    """marker for MIN_SPIN_ORBITAL_DIFF: comparing a frequency with it yields an opaque 0/1 switch"""


def run_impl(b, name, use_static):
    fname, has_rot, obl = IMPL[name]
    F = PKG + fname
    fn = Fn(F, "tidal_potential")
    args = dict(radius=rad, longitude=PH, colatitude=TH, time=t, orbital_frequency=n, eccentricity=e, host_mass=Mh, semi_major_axis=sma)
    if has_rot:
        args["rotation_frequency"] = o
    if obl == "series":
        args["obliquity"] = OBL
    elif obl == "trig":
        args["obliquity"] = 2 * PSI
    if "use_static" in fn.params:
        args["use_static"] = use_static
    elif use_static:
        return fn, None
    sw = SwitchCounter(f"{name}_{int(bool(use_static))}")
    MIN = sp.Symbol("MIN_SPIN_ORBITAL_DIFF", real=True)

    class X(Exec):
        def compare(self, op, a_, b_, node):
            if b_ is MIN or a_ is MIN:
                return sw.fresh(a_ if b_ is MIN else b_)
            return super().compare(op, a_, b_, node)
    b.add_fn(fn)
    ex = X(fn, pre=[sp.Gt(sTH, 0), sp.Gt(sma, 0), sp.Gt(n, 0), sp.Eq(sTH ** 2 + cTH ** 2, 1)], globals_env=dict(np=make_np(sw), G=Gs, MIN_SPIN_ORBITAL_DIFF=MIN, bool_="bool"), opts=dict(check_feasibility=False))
    try:
        paths = ex.run(args)
    except SymExError as ex_:
        b.subset_exits.append(f"{fn.key} (use_static={use_static}): {ex_}")
        return fn, None
    b.absorb_exec(ex)
    ret = [p for p in paths if p.outcome == "return"]
    if len(ret) != 1:
        b.subset_exits.append(f"{fn.key}: {len(ret)} returning paths")
        return fn, None
    return fn, tuple(ret[0].value) + (dict(sw.freq),)


def D(expr, ang):
    s_, c_ = ATOM[ang]
    return sp.diff(expr, s_) * c_ - sp.diff(expr, c_) * s_


def clause_obligations(b, fn, name, use_static, result):
    freqs, modes, pots = result[:3]
    tag = f"{name}:static={int(bool(use_static))}"
    for mname, tup in pots.items():
        if not isinstance(tup, tuple) or len(tup) != 6:
            ground(b, f"{fn.key}::shape[{tag}][{mname}]", fn.key, "each mode returns a 6-tuple", False)
            continue
        U, Ut, Up, Utt, Upp, Utp = [sp.sympify(x) for x in tup]
        mk = lambda cid, clause, goal: b.add(Obligation(oid=f"{fn.key}::ensures:{cid}[{tag}][{mname}]", fn=fn.key, clause=clause, goal=goal,
                                                       hyps=[sp.Gt(sTH, 0), sp.Gt(sma, 0)], rels=RELS, backends=("qqnf",), meta=dict(impl=name, mode=mname, use_static=bool(use_static), clause=cid)))
        mk("dtheta", "returned U_theta == d/dtheta of the returned potential", sp.Eq(Ut, D(U, TH), evaluate=False))
        mk("dphi", "returned U_phi == d/dphi of the returned potential", sp.Eq(Up, D(U, PH), evaluate=False))
        mk("dtheta2", "returned U_theta_theta == d2/dtheta2 of the returned potential", sp.Eq(Utt, D(D(U, TH), TH), evaluate=False))
        mk("dphi2", "returned U_phi_phi == d2/dphi2 of the returned potential", sp.Eq(Upp, D(D(U, PH), PH), evaluate=False))
        mk("dthetadphi", "returned U_theta_phi == d2/dtheta dphi of the returned potential", sp.Eq(Utp, D(D(U, TH), PH), evaluate=False))
        mk("laplace", "degree-2 surface Laplace identity: sin^2 U_tt + sin cos U_t + U_pp + 6 sin^2 U == 0 (computed from U itself)",
           sp.Eq(sTH ** 2 * D(D(U, TH), TH) + sTH * cTH * D(U, TH) + D(D(U, PH), PH) + 6 * sTH ** 2 * U, 0, evaluate=False))
        fr, md = freqs.get(mname), modes.get(mname)
        ok = fr is not None and md is not None and sp.expand(sp.sympify(fr) - (n if sp.sympify(md) == n else canon_abs(md))) == 0
        ground(b, f"{fn.key}::ensures:frequency[{tag}][{mname}]", fn.key, "reported frequency == |mode|", ok, detail=f"freq {fr}, mode {md}", impl=name, mode=mname, use_static=bool(use_static), cl="frequency")
    ground(b, f"{fn.key}::ensures:keys[{tag}]", fn.key, "the three returned dictionaries have the same mode names", set(freqs) == set(modes) == set(pots))


def total(result, switch_one=True):
    """sum over modes of the six outputs"""
    out = [sp.Integer(0)] * 6
    for tup in result[2].values():
        out = [a_ + sp.sympify(b_) for a_, b_ in zip(out, tup)]
    return out


def switches_on(x, off=()):
    return x.xreplace({s_: (sp.Integer(0) if s_ in off else sp.Integer(1)) for s_ in x.free_symbols if s_.name.startswith("switch_")})


def zero_freq_switches(result, sub):
    """switches of the modes whose frequency vanishes under the substitution `sub` (the mask freq > MIN is then off)"""
    off = set()
    for s_, fr in result[3].items():
        arg = fr.args[0] if isinstance(fr, sp.core.function.AppliedUndef) else fr
        if sp.expand(sp.sympify(arg).subs(sub)) == 0:
            off.add(s_)
    return off


def one_impl(arg):
    name, use_static = arg
    b = Bundle("C14")
    fn, res = run_impl(b, name, use_static)
    if res is not None:
        clause_obligations(b, fn, name, use_static, res)
    return name, use_static, b, res


def build(tier="quick", seed=0):
    b = Bundle("C14")
    b.const_values[Gs] = 6.6743e-11
    jobs = [(nm, st) for nm in IMPL for st in (False, True)]
    ctx = mp.get_context("fork")
    from tpv.oblig import _die_with_parent
    with ctx.Pool(16, initializer=_die_with_parent) as pool:
        results = pool.map(one_impl, jobs, chunksize=1)
    res = {}
    for name, st, sub, r in results:
        b.extend(sub.obligations)
        b.functions.update(sub.functions)
        b.subset_exits += sub.subset_exits
        res[(name, st)] = r
    hy = [sp.Gt(sTH, 0), sp.Gt(sma, 0)]
    # modal variants sum to their non-modal counterpart (all masks on: every listed frequency is non-zero)
    for modal, plain in (("nsr_modes", "nsr"), ("obliquity_nsr_modes", "obliquity_nsr"), ("gen_obliquity_nsr_modes", "gen_obliquity_nsr")):
        for st in (False, True):
            rm, rp = res.get((modal, st)), res.get((plain, st))
            if rm is None or rp is None:
                continue
            tm, tp = [switches_on(x) for x in total(rm)], [switches_on(x) for x in total(rp)]
            fkey = PKG + IMPL[modal][0] + "::tidal_potential"
            for k in range(6):
                b.add(Obligation(oid=f"{fkey}::ensures:modal_sum[{modal}:static={int(st)}][{NAMES6[k]}]", fn=fkey,
                                 clause=f"sum over modes of {NAMES6[k]} == non-modal {plain} {NAMES6[k]}", goal=sp.Eq(tm[k], tp[k], evaluate=False), hyps=hy, rels=RELS, backends=("qqnf",),
                                 meta=dict(impl=modal, other=plain, use_static=st, clause="modal_sum", component=k)))
    # mask structure (what makes the reductions hold AT spin-orbit resonances too, where a mode's frequency is exactly zero): with use_static the
    # zero-frequency modes keep their (static) contribution in every variant - no mode is masked; without it, a modal variant and its non-modal
    # counterpart mask exactly the same frequencies
    def masked(r):
        return sorted(str(canon_abs(sp.expand(sp.sympify(f_)))) for f_ in r[-1].values())
    for (name, st), r in sorted(res.items(), key=lambda kv: (kv[0][0], kv[0][1])):
        if r is None or not st:
            continue
        fkey = PKG + IMPL[name][0] + "::tidal_potential"
        ground(b, f"{fkey}::ensures:mask_structure[{name}:static=1]", fkey, "ensures (use_static=True) no mode is switched off by the frequency mask: a mode whose frequency is exactly zero keeps its static contribution",
               len(r[-1]) == 0, detail=f"masked frequencies: {masked(r)[:6]}", impl=name, use_static=True, cl="mask_structure",
               refuted_model=None if len(r[-1]) == 0 else dict(masked=str(masked(r)[:4]), hint="rotation_frequency == orbital_frequency (or 2 Omega == 3 n) with use_static=True"))
    for modal, plain in (("nsr_modes", "nsr"), ("obliquity_nsr_modes", "obliquity_nsr"), ("gen_obliquity_nsr_modes", "gen_obliquity_nsr")):
        rm, rp = res.get((modal, False)), res.get((plain, False))
        if rm is None or rp is None:
            continue
        fkey = PKG + IMPL[modal][0] + "::tidal_potential"
        ground(b, f"{fkey}::ensures:mask_structure[{modal}~{plain}:static=0]", fkey, "ensures (use_static=False) the modal variant and its non-modal counterpart mask the same frequencies (their sums agree at resonances as well)",
               masked(rm) == masked(rp), detail=f"{len(rm[-1])} vs {len(rp[-1])} masks", impl=modal, other=plain, use_static=False, cl="mask_structure")
    limits(b, res, hy)
    b.replayer("*::ensures:mask_structure*", _replay_masks)
    b.replayer("*::ensures:medium_vs_general_obliquity*order2*", _replay_order2)
    b.replayer("*", lambda ob, r: replay(dict(obligation=ob.oid, meta=ob.meta)))
    b.assume("sin / cos of integer combinations of (colatitude, longitude, obliquity/2, n t, Omega t) are expanded by angle addition; s^2 + c^2 = 1 per base angle; colatitude in (0, pi) so sqrt(1 - cos^2) = sin")
    b.assume("the mask freq > MIN_SPIN_ORBITAL_DIFF is an opaque 0/1 factor per mode; modal sums and limits are taken with all masks on (distinct non-zero frequencies)")
    b.assume("'to second order' limits are read as: agreement of the formal series through first order (error O(I^2), resp. O(e^2)); see DESIGN §5 C14 reading note")
    return b


def taylor01(x, kind):
    """(order-0, order-1) Taylor coefficients of x in the obliquity I ('series': polynomial in OBL; 'trig': in s = sin(I/2) = I/2 + O(I^3),
    c = cos(I/2) = 1 + O(I^2)) or in the eccentricity ('e'), obtained by evaluation / differentiation at 0 (no expansion needed)"""
    x = sp.sympify(x)
    if kind == "series":
        z = {OBL: 0}
        return x.xreplace(z), sp.diff(x, OBL).xreplace(z)
    if kind == "trig":
        z = {sPS: 0, cPS: 1}
        return x.xreplace(z), sp.diff(x, sPS).xreplace(z) / 2
    if kind == "e":
        z = {e: 0}
        return x.xreplace(z), sp.diff(x, e).xreplace(z)
    raise ValueError(kind)


def taylor2(x, kind):
    """order-2 Taylor coefficient of x in the obliquity I.  'series': polynomial in OBL.  'trig': x(s, c) on s = sin(I/2), c = cos(I/2):
    d2x/dI2 = x_ss s'^2 + 2 x_sc s'c' + x_cc c'^2 + x_s s'' + x_c c''  with s' = 1/2, c' = 0, s'' = 0, c'' = -1/4 at I = 0."""
    x = sp.sympify(x)
    if kind == "series":
        return sp.diff(x, OBL, 2).xreplace({OBL: 0}) / 2
    z = {sPS: 0, cPS: 1}
    return (sp.diff(x, sPS, 2).xreplace(z) / 4 - sp.diff(x, cPS).xreplace(z) / 4) / 2


def limits(b, res, hy):
    def add(cid, fkey, clause, pairs, meta):
        for k, (l_, r_) in enumerate(pairs):
            b.add(Obligation(oid=f"{fkey}::ensures:{cid}[{NAMES6[k]}]", fn=fkey, clause=clause + f" ({NAMES6[k]})", goal=sp.Eq(l_, r_, evaluate=False), hyps=hy, rels=RELS, backends=("qqnf",),
                             meta=dict(meta, component=k)))

    def add01(cid, fkey, clause, xs, ys, kx, ky, meta):
        p0, p1 = [], []
        for x, y in zip(xs, ys):
            x0, x1 = taylor01(switches_on(x), kx)
            y0, y1 = taylor01(switches_on(y), ky)
            p0.append((x0, y0))
            p1.append((x1, y1))
        add(cid + ":order0", fkey, clause + " — order 0", p0, meta)
        add(cid + ":order1", fkey, clause + " — order 1", p1, meta)
    for st in (False, True):
        base = res.get(("nsr", st))
        # exactly at zero obliquity
        for name, kind in (("obliquity_nsr", "series"), ("gen_obliquity_nsr", "trig")):
            r_ = res.get((name, st))
            if r_ is None or base is None:
                continue
            sub = {OBL: 0} if kind == "series" else {sPS: 0, cPS: 1}
            pairs = [(switches_on(x).xreplace(sub), switches_on(y)) for x, y in zip(total(r_), total(base))]
            add(f"zero_obliquity_limit[{name}:static={int(st)}]", PKG + IMPL[name][0] + "::tidal_potential",
                f"{name} at I = 0 == no-obliquity variant exactly", pairs, dict(impl=name, other="nsr", use_static=st, clause="zero_obliquity"))
        # medium vs general obliquity: formal series in I through I^1
        rmed, rgen = res.get(("obliquity_nsr", st)), res.get(("gen_obliquity_nsr", st))
        if rmed is not None and rgen is not None:
            fkey = PKG + IMPL["obliquity_nsr"][0] + "::tidal_potential"
            meta = dict(impl="obliquity_nsr", other="gen_obliquity_nsr", use_static=st, clause="med_vs_gen")
            p0, p1 = [], []
            for x, y in zip(total(rmed), total(rgen)):
                x0, x1 = taylor01(switches_on(x), "series")
                y0, y1 = taylor01(switches_on(y), "trig")
                p0.append((x0, y0))
                # the I^1 coefficient is compared through e^2, the order the medium variant carries in its own I^1 modes
                d1 = x1 - y1
                z = {e: 0}
                p1.append((sp.Integer(0), d1.xreplace(z)))
                p1.append((sp.Integer(0), sp.diff(d1, e).xreplace(z)))
                p1.append((sp.Integer(0), sp.diff(d1, e, 2).xreplace(z)))
            add(f"medium_vs_general_obliquity[static={int(st)}]:order0", fkey, "medium- == general-obliquity variant at order I^0", p0, meta)
            # second order in the obliquity (the statement's "to second order in obliquity"): the I^2 coefficients agree at the eccentricity orders the medium
            # variant carries with its own I^2 terms (total degree <= 3: e^0 and e^1)
            for k, (x, y) in enumerate(zip(total(rmed), total(rgen))):
                d2 = taylor2(switches_on(x), "series") - taylor2(switches_on(y), "trig")
                for eo in (0, 1):
                    g_ = (d2 if eo == 0 else sp.diff(d2, e)).xreplace({e: 0})
                    b.add(Obligation(oid=f"{fkey}::ensures:medium_vs_general_obliquity[static={int(st)}]:order2[{NAMES6[k]}][e^{eo}]", fn=fkey,
                                     clause=f"I^2 coefficient of (medium - general obliquity) vanishes at order e^{eo} ({NAMES6[k]})", goal=sp.Eq(sp.Integer(0), g_, evaluate=False),
                                     hyps=hy, rels=RELS, backends=("qqnf",), meta=dict(meta, component=k, order="I^2")))
            for k, (l_, r_) in enumerate(p1):
                b.add(Obligation(oid=f"{fkey}::ensures:medium_vs_general_obliquity[static={int(st)}]:order1[{NAMES6[k // 3]}][e^{k % 3}]", fn=fkey,
                                 clause=f"I^1 coefficient of (medium - general obliquity) vanishes at order e^{k % 3} ({NAMES6[k // 3]})", goal=sp.Eq(l_, r_, evaluate=False),
                                 hyps=hy, rels=RELS, backends=("qqnf",), meta=dict(meta, component=k // 3)))
        # low-e vs medium-e general obliquity (modal): through e^1, mode by mode (each mode carries the same optional static term on both sides)
        rl, rm = res.get(("gen_obliquity_low_e_nsr_modes", st)), res.get(("gen_obliquity_nsr_modes", st))
        if rl is not None and rm is not None:
            fkey = PKG + IMPL["gen_obliquity_low_e_nsr_modes"][0] + "::tidal_potential"
            meta = dict(impl="gen_obliquity_low_e_nsr_modes", other="gen_obliquity_nsr_modes", use_static=st, clause="low_vs_med_e")
            for mname in sorted(set(rl[2]) | set(rm[2])):
                if mname in rl[2] and mname in rm[2]:
                    add01(f"low_vs_medium_eccentricity[static={int(st)}][{mname}]", fkey, f"mode {mname}: low-eccentricity == medium-eccentricity general-obliquity variant through e^1",
                          list(rl[2][mname]), list(rm[2][mname]), "e", "e", dict(meta, mode=mname))
                elif mname in rm[2] and not st:
                    add01(f"low_vs_medium_eccentricity[static=0][{mname}]", fkey, f"mode {mname} (absent from the low-eccentricity variant) vanishes through e^1",
                          [sp.Integer(0)] * 6, list(rm[2][mname]), "e", "e", dict(meta, mode=mname))
                elif mname in rl[2]:
                    ground(b, f"{fkey}::ensures:low_vs_medium_eccentricity[static={int(st)}][{mname}]:present", fkey, f"mode {mname} of the low-e variant exists in the medium-e variant", False)
    # synchronous simple vs nsr at Omega = n through e^1 (non-static: the simple variant carries no static term)
    rs, rn = res.get(("simple", False)), res.get(("nsr", False))
    if rs is not None and rn is not None:
        sO, cO = ATOM[OT]
        sN, cN = ATOM[NT]
        off = zero_freq_switches(rn, {o: n})
        add01("synchronous_limit", PKG + IMPL["simple"][0] + "::tidal_potential", "synchronous low-e variant == nsr variant at Omega = n through e^1 (zero-frequency modes masked)",
              total(rs), [switches_on(y, off).xreplace({sO: sN, cO: cN}) for y in total(rn)], "e", "e", dict(impl="simple", other="nsr", use_static=False, clause="sync_limit"))


# ---------------------------------------------------------------------------------------------
_REPLAY = r'''
import numpy as np, importlib
cfg = args
def call(impl, th, ph, tt, st):
    mod = importlib.import_module("TidalPy.tides.potential." + cfg["files"][impl][:-3])
    f = mod.tidal_potential
    kw = dict(radius=cfg["R"], longitude=ph, colatitude=th, time=tt, orbital_frequency=cfg["n"], eccentricity=cfg["e"], host_mass=cfg["M"], semi_major_axis=cfg["sma"])
    import inspect
    pars = inspect.signature(getattr(f, "py_func", f)).parameters
    if "rotation_frequency" in pars: kw["rotation_frequency"] = cfg["o"]
    if "obliquity" in pars: kw["obliquity"] = cfg["I"]
    if "use_static" in pars: kw["use_static"] = st
    return f(**{k: (np.float64(v) if isinstance(v, float) else v) for k, v in kw.items()})
th, ph, tt = cfg["theta"], cfg["phi"], cfg["time"]
impl, st = cfg["impl"], cfg["use_static"]
fr, md, pots = call(impl, th, ph, tt, st)
h = 1e-5
out = {"modes": {}}
def six(p): return [float(x) for x in p]
for name in pots:
    U = six(pots[name])
    Utp, Utm = six(call(impl, th + h, ph, tt, st)[2][name]), six(call(impl, th - h, ph, tt, st)[2][name])
    Upp, Upm = six(call(impl, th, ph + h, tt, st)[2][name]), six(call(impl, th, ph - h, tt, st)[2][name])
    fd = {"dtheta": (Utp[0] - Utm[0]) / (2 * h), "dphi": (Upp[0] - Upm[0]) / (2 * h), "dtheta2": (Utp[1] - Utm[1]) / (2 * h),
          "dphi2": (Upp[2] - Upm[2]) / (2 * h), "dthetadphi": (Upp[1] - Upm[1]) / (2 * h)}
    s, c = np.sin(th), np.cos(th)
    lap = s * s * (Utp[0] - 2 * U[0] + Utm[0]) / h**2 + s * c * fd["dtheta"] + (Upp[0] - 2 * U[0] + Upm[0]) / h**2 + 6 * s * s * U[0]
    out["modes"][name] = {"returned": U, "finite_difference": fd, "laplace_residual": float(lap), "freq": float(fr[name]), "mode": float(md[name])}
out["total"] = [float(sum(float(p[k]) for p in pots.values())) for k in range(6)]
if cfg.get("other"):
    _, _, p2 = call(cfg["other"], th, ph, tt, st)
    out["other_total"] = [float(sum(float(p[k]) for p in p2.values())) for k in range(6)]
result = out
'''


def replay(doc):
    from tpv import native
    meta = doc.get("meta") or {}
    impl = meta.get("impl")
    if not impl:
        return dict(replayed=False, reason="no implementation recorded for this obligation")
    clause = meta.get("clause") or meta.get("cl")
    cfg = dict(files={k: v[0] for k, v in IMPL.items()}, impl=impl, other=meta.get("other"), use_static=bool(meta.get("use_static")),
               R=1.5e6, n=4.0e-5, o=(4.0e-5 if clause == "sync_limit" else 7.3e-5), e=(0.01 if clause in ("sync_limit", "low_vs_med_e") else 0.15),
               I=(0.0 if clause == "zero_obliquity" else (0.01 if clause == "med_vs_gen" else 0.35)), M=1.9e27, sma=4.2e8, theta=1.1, phi=0.7, time=12345.0)
    r = native.run(dict(code=_REPLAY, args=cfg), timeout=600)
    rec = dict(replayed=True, config=cfg, clause=clause)
    if "result" not in r:
        rec.update(native=r, confirmed=True, why="real code raised / crashed")
        return rec
    v = native.unc(r["result"])
    scale = max(abs(x) for x in v["total"]) or 1.0
    bad = False
    if clause in ("dtheta", "dphi", "dtheta2", "dphi2", "dthetadphi", "laplace", "frequency"):
        m = v["modes"].get(meta.get("mode"))
        rec["mode_values"] = m
        if m:
            idx = {"dtheta": 1, "dphi": 2, "dtheta2": 3, "dphi2": 4, "dthetadphi": 5}
            msc = max(abs(x) for x in m["returned"]) or 1.0
            if clause in idx:
                bad = abs(m["returned"][idx[clause]] - m["finite_difference"][clause]) > 1e-4 * msc
            elif clause == "laplace":
                bad = abs(m["laplace_residual"]) > 1e-3 * msc
            else:
                bad = abs(m["freq"] - abs(m["mode"])) > 1e-12 * abs(m["mode"])
    elif "other_total" in v:
        k = meta.get("component", 0)
        tol = {"modal_sum": 1e-9, "zero_obliquity": 1e-9, "med_vs_gen": 5 * cfg["I"] ** 2, "low_vs_med_e": 5 * cfg["e"] ** 2, "sync_limit": 5 * cfg["e"] ** 2}.get(clause, 1e-9)
        osc = max(max(abs(x) for x in v["other_total"]), scale)
        rec["totals"] = dict(this=v["total"], other=v["other_total"])
        bad = abs(v["total"][k] - v["other_total"][k]) > tol * osc
    rec["confirmed"] = bool(bad)
    return rec


_MASK_CODE = r'''
import numpy as np, importlib
pairs = [("nsr_med_eccen_no_obliquity", "nsr_modes_med_eccen_no_obliquity", False), ("nsr_med_eccen_med_obliquity", "nsr_modes_med_eccen_med_obliquity", True), ("nsr_med_eccen_gen_obliquity", "nsr_modes_med_eccen_gen_obliquity", True)]
R_, lon, col, tm = 1.8e6, np.asarray([0.3, 1.1, 2.9]), np.asarray([0.4, 1.2, 2.2]), np.asarray([1.0e4, 5.3e4, 9.9e4])
n = 2 * np.pi / (1.77 * 86400.); e, M, a = 0.07, 1.9e27, 4.2e8
bad = []
ref0 = None
for plain, modal, has_obl in pairs:
    fp = importlib.import_module("TidalPy.tides.potential." + plain).tidal_potential
    fm = importlib.import_module("TidalPy.tides.potential." + modal).tidal_potential
    for ratio in (1.0, 1.5):
        for st in (True, False):
            kw = dict(use_static=st)
            args = (R_, lon, col, tm, n, n * ratio, e) + ((0.0,) if has_obl else ()) + (M, a)
            try:
                p = fp(*args, **kw)
                if isinstance(p, tuple) and len(p) == 3 and isinstance(p[2], dict):      # the non-modal variants return one pseudo-mode in the same container
                    p = [sum(np.asarray(v[k]) for v in p[2].values()) for k in range(6)]
                fr, md, pots = fm(*args, **kw)
            except Exception as ex:
                bad.append([plain, ratio, st, "raised " + repr(ex)[:80]]); continue
            tot = [sum(np.asarray(v[k]) for v in pots.values()) for k in range(6)]
            for k in (2, 4, 5) if st else range(6):       # with the static term U, U_theta, U_theta_theta of the modal variants are a recorded finding
                d = float(np.max(np.abs(np.asarray(p[k]) - tot[k]))); sc = float(np.max(np.abs(np.asarray(p[0])))) + 1e-300
                if d > 1e-9 * sc: bad.append([plain, "sum of modes vs non-modal", ratio, st, k, d / sc])
            if not has_obl and st: ref0 = {**(ref0 or {}), ratio: p}
            if has_obl and st and ref0 and ratio in ref0:
                for k in range(6):
                    d = float(np.max(np.abs(np.asarray(p[k]) - np.asarray(ref0[ratio][k])))); sc = float(np.max(np.abs(np.asarray(ref0[ratio][0])))) + 1e-300
                    if d > 1e-9 * sc: bad.append([plain, "zero obliquity vs no-obliquity variant", ratio, st, k, d / sc])
result = bad[:8]
'''


def _replay_masks(ob, res):
    from tpv import native
    out = native.run(dict(code=_MASK_CODE), timeout=900)
    return dict(replayed=True, native=out, confirmed=bool(out.get("result")) or "exception" in out,
                what="at the 1:1 and 3:2 spin-orbit resonances, with and without the static term: sum of modes vs non-modal variant, and obliquity variants at zero obliquity vs the no-obliquity variant")


_ORDER2_CODE = r'''
import numpy as np
from TidalPy.tides.potential.nsr_med_eccen_gen_obliquity import tidal_potential as gen
from TidalPy.tides.potential.nsr_med_eccen_med_obliquity import tidal_potential as med
R_, lon, col, tm = 1.8e6, np.asarray([0.3]), np.asarray([1.0]), np.asarray([1.0e4])
n = 2 * np.pi / (1.77 * 86400.); M, a = 1.9e27, 4.2e8
out = []
for e in (0.0, 0.05):
    for I in (0.04, 0.02, 0.01):
        g = gen(R_, lon, col, tm, n, 1.7 * n, e, I, M, a, use_static=False)
        m = med(R_, lon, col, tm, n, 1.7 * n, e, I, M, a, use_static=False)
        tot = lambda r: [sum(np.asarray(v[k]) for v in r[2].values()) for k in range(6)]
        G, Mm = tot(g), tot(m)
        scale = float(np.max(np.abs(G[0]))) + 1e-300
        out.append([e, I, [float(np.max(np.abs(G[k] - Mm[k]))) / scale / I**2 for k in (0, 1, 3)]])
result = out
'''


def _replay_order2(ob, res):
    from tpv import native
    out = native.run(dict(code=_ORDER2_CODE), timeout=900)
    rec = dict(replayed=True, native=out, what="(general - medium obliquity variant) / (I^2 x scale) for U, U_theta, U_theta_theta at e = 0 and I = 0.04, 0.02, 0.01: stays O(1) iff the I^2 coefficients differ")
    try:
        rows = [r_ for r_ in out["result"] if r_[0] == 0.0 and r_[1] <= 0.02]
        rec["confirmed"] = bool(rows) and all(max(r_[2]) > 1e-2 for r_ in rows)
    except Exception:
        rec["confirmed"] = "exception" in out
    return rec
