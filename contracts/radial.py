"""Shared machinery for the radial-solver properties (C01-C06): extraction of the ODE operators of derivatives/odes.pyx by symbolic
execution of the real (translated) diffeq methods, and of the starting-condition vectors."""
import ast
import sympy as sp
from tpv.kit import *
from tpv import terms as T
from tpv.terms import Cx
from tpv.symex import ClassModel, MethodFn, Obj, Exec, SymExError, Contract, Namespace, Pointer

FODE = "TidalPy/RadialSolver/derivatives/odes.pyx"
FBASE = "TidalPy/RadialSolver/derivatives/base.pyx"
ODE_CLASSES = {
    ("solid", "dynamic", "compressible"): ("SolidDynamicCompressible", 6),
    ("solid", "dynamic", "incompressible"): ("SolidDynamicIncompressible", 6),
    ("solid", "static", "compressible"): ("SolidStaticCompressible", 6),
    ("solid", "static", "incompressible"): ("SolidStaticIncompressible", 6),
    ("liquid", "dynamic", "compressible"): ("LiquidDynamicCompressible", 4),
    ("liquid", "dynamic", "incompressible"): ("LiquidDynamicIncompressible", 4),
    ("liquid", "static", "compressible"): ("LiquidStaticCompressible", 2),
    ("liquid", "static", "incompressible"): ("LiquidStaticIncompressible", 2),
}
r, rho, g, Kb, w, l, Gc = [R(x) for x in ("r", "rho", "g", "K", "omega", "l", "G")]
MU = Cx(R("mu_re"), R("mu_im"))
PI4G = 4 * T.PI * Gc


def material_obj(cls, formal=False, mu=None, K=None):
    """self for diffeq: material fields are the current (interpolated) values; update_interp is a no-op contract"""
    return Obj(cls, t_now=r, density=rho, gravity=g, bulk_modulus=(K if K is not None else Kb), shear_modulus=(mu if mu is not None else MU), frequency_to_use=w,
               grav_coeff=PI4G, llp1=l * (l + 1), lp1=l + 1, lm1=l - 1, degree_l=l)


def extract_operator(b, key, formal_y=False, mu=None, K=None):
    """runs <Class>.diffeq symbolically.  Returns (A, ny, mfn): A[i][j] complex (Cx) entries with dy_i = sum_j A_ij y_j.
    Obligations added: complex linearity of the right-hand side in y (no constant term, d/d(Im y) = i d/d(Re y))."""
    cname, ny = ODE_CLASSES[key]
    base = ClassModel("RadialSolverBase", FBASE)
    cls = ClassModel(cname, FODE, bases=[base])
    c, node = cls.lookup("methods", "diffeq")
    mfn = MethodFn(c, node)
    b.functions[mfn.key] = mfn.info()
    yre = [R(f"y{i + 1}_re") for i in range(ny)]
    yim = [R(f"y{i + 1}_im") for i in range(ny)]
    yptr = []
    for i in range(ny):
        yptr += [yre[i], yim[i]]
    dy = [None] * (2 * ny)
    o = material_obj(cls, mu=mu, K=K)
    o.setattr("y_ptr", list(yptr))
    o.setattr("dy_ptr", dy)
    ex = Exec(mfn, pre=[sp.Gt(r, 0)], contracts={".update_interp": Contract(".update_interp", None, None, result=lambda *a, **k: None)},
              opts=dict(definedness=False, check_feasibility=False))
    paths = ex.run(dict(self=o))
    if len(paths) != 1 or paths[0].outcome != "return":
        raise SymExError(f"{mfn.key}: {len(paths)} paths")
    if any(v is None for v in dy):
        raise SymExError(f"{mfn.key}: dy_ptr not completely written: {[i for i, v in enumerate(dy) if v is None]}")
    D = [Cx(dy[2 * i], dy[2 * i + 1]) for i in range(ny)]
    A = [[Cx(sp.diff(D[i].re, yre[j]), sp.diff(D[i].im, yre[j])) for j in range(ny)] for i in range(ny)]
    # linearity obligations
    lin = []
    for i in range(ny):
        recon = Cx(0)
        for j in range(ny):
            recon = recon + A[i][j] * Cx(yre[j], yim[j])
        lin += [sp.Eq(D[i].re, recon.re), sp.Eq(D[i].im, recon.im)]
    b.add(Obligation(oid=f"{mfn.key}::ensures:complex_linear", fn=mfn.key, clause="ensures dy/dr == A(r) y with A independent of y (complex-linear right-hand side, no constant term)",
                     goal=sp.And(*lin), hyps=[sp.Gt(r, 0)], backends=("qqnf",)))
    return A, ny, mfn


def to_formal(A, mu_sym, extra=None):
    """A with the complex shear modulus replaced by one formal symbol (valid for identities that use no conjugation): the entries are
    rational functions of (mu_re + i mu_im); substitute mu_re -> mu_sym, mu_im -> 0"""
    sub = {MU.re: mu_sym, MU.im: 0}
    if extra:
        sub.update(extra)
    out = []
    for row in A:
        rr = []
        for e in row:
            re_, im_ = sp.sympify(e.re).subs(sub), sp.sympify(e.im).subs(sub)
            if sp.simplify(im_) != 0:
                raise SymExError("operator entry is not real-analytic in mu")
            rr.append(sp.together(re_))
        out.append(rr)
    return out
