"""C05 — local dissipation integrates to the global dissipation (energy theorem).

Lemma chain, every link an obligation on real code:
  kernels      the real sensitivity_to_shear / sensitivity_to_bulk (radial_solver/sensitivity.py) are executed symbolically on a 3-slice grid with
               a generic interior slice; their gradient stencil is proved exact on quadratics for arbitrary spacing (interior) and on linear
               data (both ends), so that on data with exact derivative d = dy1/dr the returned values are H_mu(y, d), H_K(y, d);
  local        for each compressible solid operator of derivatives/odes.pyx (extracted by symbolic execution of the real diffeq, complex mu and K):
               Im d/dr F = Im(mu) H_mu + Im(K) H_K  with  F = r^2 (conj(y1) y2 + l(l+1) conj(y3) y4) + r^2/(4 pi G) conj(y5) y6  and d = (A y)_1;
               for the dynamic-liquid operators Im dF/dr = 0 (real K);
  sos          H_mu = (1/3)|2 r y1' - Y|^2 + l(l+1) r^2 |y4|^2/|mu|^2 + l(l^2-1)(l+2)|y3|^2,  H_K = |r y1' + Y|^2,  Y = 2 y1 - l(l+1) y3
               (identities; hence H_mu, H_K >= 0 and Im k_l <= 0 for Im mu, Im K >= 0);
  continuity   Im F is continuous across every kind of interface given the C02 interface conditions;
  surface      with the tidal surface triple and the real find_love_cf:  -Im k = 4 pi G/((2l+1) R) Im F(R);
  heating      the real calc_radial_tidal_heating x 4 pi r^2 equals (3/2) G M^2 R^5/a^6 * 7 e^2 n * [4 pi G/((2l+1) R)] H_mu Im(mu)  per slice, and its clamp
               at zero is unreachable for H_mu >= 0, Im mu >= 0; so the shell sum reproduces (21/2)(-Im k2) G M^2 R^5 n e^2/a^6 when Im K = 0.
Discretisation error of the user's radial sum and the behaviour at the centre (F -> 0 for regular solutions) are assumptions.
"""
import itertools
import sympy as sp
from tpv.kit import *
from tpv import terms as T
from tpv import backends as B
from tpv.terms import Cx
from tpv.symex import SymArray, Exec, SymExError
from contracts import radial as RD
from contracts import solver_model as SM
from contracts.C02 import layout

FS = "TidalPy/radial_solver/sensitivity.py"
FH = "TidalPy/tides/multilayer/heating.py"
l, G = RD.l, RD.Gc
llp1 = l * (l + 1)
MUc = Cx(R("mu_re"), R("mu_im"))
Kc = Cx(R("K_re"), R("K_im"))
YS = [Cx(R(f"y{q + 1}_re"), R(f"y{q + 1}_im")) for q in range(6)]
Dg = Cx(R("d_re"), R("d_im"))            # exact dy1/dr


RG = sp.Symbol("r_generic", positive=True)


def nosq(e):
    """sqrt_(x)**2 -> x  (np.abs(z)**2 in the kernels; x = |z|^2 >= 0)"""
    e = sp.sympify(e)
    return e.replace(lambda t: isinstance(t, sp.Pow) and t.exp == 2 and getattr(t.base, "func", None) == T.sqrt_, lambda t: t.base.args[0]) \
            .replace(lambda t: isinstance(t, sp.Pow) and t.exp == -2 and getattr(t.base, "func", None) == T.sqrt_, lambda t: 1 / t.base.args[0])


def run_kernel(b, name, y1_of, N=3, generic=1):
    """executes the real kernel on an N-slice grid; y1_of(i) gives y1 at slice i; returns (fn, list of H_i, radii)"""
    rs = [sp.Symbol(f"r_{i}", positive=True) for i in range(N)]
    rs[generic] = RG          # positive symbol: `r == 0.` folds syntactically (no solver call whose verdict could flip under load)
    rad = SymArray("radius_array", shape=(N,))
    for i in range(N):
        rad.cells[(sp.Integer(i),)] = rs[i]
    ys = SymArray("radial_solutions", complex_=True, shape=(6, N))
    for q in range(6):
        for i in range(N):
            v = y1_of(i) if q == 0 else (YS[q] if i == generic else Cx(R(f"yo{q + 1}_{i}_re"), R(f"yo{q + 1}_{i}_im")))
            ys.cells[(sp.Integer(q), sp.Integer(i))] = v
    sh = SymArray("shear", complex_=True, shape=(N,))
    bk = SymArray("bulk", complex_=True, shape=(N,))
    sh.cells[(sp.Integer(generic),)] = MUc
    bk.cells[(sp.Integer(generic),)] = Kc
    pre = [sp.Ge(l, 2), sp.Gt(rs[0], 0)] + [sp.Gt(rs[i + 1], rs[i]) for i in range(N - 1)]
    fn, ex, paths = run_fn(b, FS, name, dict(radial_solutions=ys, radius_array=rad, shear_modulus_array=sh, bulk_modulus_array=bk, order_l=l), pre, xcheck=False,
                           opts=dict(definedness=False))
    if not paths:
        return fn, None, rs
    ret = [p for p in paths if p.outcome == "return"]
    if len(ret) != 1 or not isinstance(ret[0].value, SymArray):
        b.subset_exits.append(f"{fn.key}: {len(ret)} returning paths")
        return fn, None, rs
    out = {int(w[0][0]): nosq(w[1]).subs(RG, RD.r) for w in ret[0].value.writes}
    return fn, [out.get(i) for i in range(N)], rs


def kernels(b):
    """returns H_mu(y, d), H_K(y, d) at the generic slice and proves the stencil clauses"""
    H = {}
    for name, tag in (("sensitivity_to_shear", "mu"), ("sensitivity_to_bulk", "K")):
        r0, r2 = sp.Symbol("r_0", positive=True), sp.Symbol("r_2", positive=True)
        lin = lambda i: YS[0] + Dg * ({0: r0, 1: RG, 2: r2}[i] - RG)
        fn, Hs, rs = run_kernel(b, name, lin)
        if Hs is None or any(h is None for h in Hs):
            b.subset_exits.append(f"{FS}::{name}: not every slice written")
            continue
        H[tag] = Hs[1]
        if Hs[1].has(r0) or Hs[1].has(r2):
            # the stencil is exact on linear data: the neighbours' radii must cancel
            ok = B.nf_is_zero(sp.diff(sp.together(Hs[1]), r0), []) and B.nf_is_zero(sp.diff(sp.together(Hs[1]), r2), [])
        else:
            ok = True
        ground(b, f"{fn.key}::ensures:stencil_exact_on_linear[interior]", fn.key, "interior slice: on data y1(r) = y1 + d (r - r_i) the returned value does not depend on the neighbouring radii (three-point stencil returns d exactly)", ok)
        if ok:
            H[tag] = sp.together(Hs[1]).subs({r0: RD.r / 2, r2: 2 * RD.r}) if (Hs[1].has(r0) or Hs[1].has(r2)) else Hs[1]
        # quadratic data: y1 = y1 + d (r - r_i) + c (r - r_i)^2 : the interior value must still be the one with derivative d
        cq = Cx(R("c_re"), R("c_im"))
        quad = lambda i: YS[0] + Dg * ({0: r0, 1: RG, 2: r2}[i] - RG) + cq * ({0: r0, 1: RG, 2: r2}[i] - RG) ** 2
        fn, Hq, _ = run_kernel(b, name, quad)
        if Hq is not None and Hq[1] is not None:
            b.add(Obligation(oid=f"{fn.key}::ensures:stencil_exact_on_quadratics[interior]", fn=fn.key, clause="interior slice, arbitrary spacing: the three-point gradient is exact on quadratic y1 (second-order accurate)",
                             goal=sp.Eq(sp.together(Hq[1] - Hs[1]), 0, evaluate=False), hyps=[sp.Gt(r2, RD.r), sp.Gt(RD.r, r0), sp.Gt(r0, 0)], backends=("qqnf",)))
        # end points: exact on linear data (first-order consistent)
        for gen, lbl in ((0, "first"), (2, "last")):
            r1_, r2_ = sp.Symbol("r_1", positive=True), sp.Symbol("r_2", positive=True)
            rr = {0: {0: RG, 1: r1_, 2: r2_}, 2: {0: sp.Symbol("r_0", positive=True), 1: r1_, 2: RG}}[gen]
            lin_e = lambda i, rr=rr: YS[0] + Dg * (rr[i] - RG)
            fn, He, _ = run_kernel(b, name, lin_e, generic=gen)
            if He is None or He[gen] is None:
                continue
            b.add(Obligation(oid=f"{fn.key}::ensures:stencil_exact_on_linear[{lbl}]", fn=fn.key, clause=f"{lbl} slice: the one-sided gradient is exact on linear y1 (first-order consistent)",
                             goal=sp.Eq(sp.together(He[gen] - H[tag]), 0, evaluate=False), hyps=[], backends=("qqnf",)))
    return H


def flux(y, rr):
    c = lambda z: z.conj()
    return (c(y[0]) * y[1] + c(y[2]) * y[3] * llp1) * rr ** 2 + c(y[4]) * y[5] * (rr ** 2 / (4 * T.PI * G))


def local_identity(b, H):
    rr = RD.r
    for key in (("solid", "dynamic", "compressible"), ("solid", "static", "compressible")):
        try:
            A, ny, mfn = RD.extract_operator(b, key, mu=MUc, K=Kc)
        except (SymExError, ExtractError) as e:
            b.subset_exits.append(f"ODE operator {key}: {e}")
            continue
        dy = []
        for i in range(6):
            tot = Cx(0)
            for j in range(6):
                tot = tot + A[i][j] * YS[j]
            dy.append(tot)
        # d/dr of the sesquilinear flux: explicit r-dependence + conj(dy) y + conj(y) dy
        c = lambda z: z.conj()
        dF = (c(YS[0]) * YS[1] + c(YS[2]) * YS[3] * llp1) * (2 * rr) + c(YS[4]) * YS[5] * (2 * rr / (4 * T.PI * G)) \
            + (c(dy[0]) * YS[1] + c(YS[0]) * dy[1] + (c(dy[2]) * YS[3] + c(YS[2]) * dy[3]) * llp1) * rr ** 2 \
            + (c(dy[4]) * YS[5] + c(YS[4]) * dy[5]) * (rr ** 2 / (4 * T.PI * G))
        sub = {Dg.re: dy[0].re, Dg.im: dy[0].im}
        if "mu" not in H or "K" not in H:
            continue
        rhs = MUc.im * H["mu"].subs(sub, simultaneous=True) + Kc.im * H["K"].subs(sub, simultaneous=True)
        b.add(Obligation(oid=f"{mfn.key}::energy_identity", fn=mfn.key,
                         clause="Im d/dr F == Im(mu) H_mu + Im(K) H_K with H_mu, H_K the values returned by the real sensitivity kernels for exact dy1/dr = (A y)_1 (all y, complex mu and K, r, rho, g, l, G)",
                         goal=sp.Eq(sp.together(dF.im - rhs), 0, evaluate=False), hyps=[sp.Gt(rr, 0), sp.Ge(l, 2)], backends=("qqnf",), timeout=600))
    # incompressible solid layers: the kernels take a (large) bulk modulus; in the limit K -> infinity their value must still close the identity
    # with the code's incompressible operators (real K, so only the shear term remains)
    if "mu" in H:
        eps = sp.Symbol("eps_invK", positive=True)
        for key in (("solid", "dynamic", "incompressible"), ("solid", "static", "incompressible")):
            try:
                A, ny, mfn = RD.extract_operator(b, key, mu=MUc)
            except (SymExError, ExtractError) as e:
                b.subset_exits.append(f"ODE operator {key}: {e}")
                continue
            dy = []
            for i in range(6):
                tot = Cx(0)
                for j in range(6):
                    tot = tot + A[i][j] * YS[j]
                dy.append(tot)
            c = lambda z: z.conj()
            dF = (c(YS[0]) * YS[1] + c(YS[2]) * YS[3] * llp1) * (2 * rr) + c(YS[4]) * YS[5] * (2 * rr / (4 * T.PI * G)) \
                + (c(dy[0]) * YS[1] + c(YS[0]) * dy[1] + (c(dy[2]) * YS[3] + c(YS[2]) * dy[3]) * llp1) * rr ** 2 \
                + (c(dy[4]) * YS[5] + c(YS[4]) * dy[5]) * (rr ** 2 / (4 * T.PI * G))
            hm = H["mu"].subs({Dg.re: dy[0].re, Dg.im: dy[0].im}, simultaneous=True).subs({Kc.im: 0, Kc.re: 1 / eps}, simultaneous=True)
            num, den = sp.fraction(sp.cancel(sp.together(hm)))
            if den.subs(eps, 0) == 0:
                ground(b, f"{mfn.key}::energy_identity", mfn.key, "K -> infinity limit of H_mu exists", False, detail="the kernel diverges as K -> infinity")
                continue
            hlim = num.subs(eps, 0) / den.subs(eps, 0)
            b.add(Obligation(oid=f"{mfn.key}::energy_identity", fn=mfn.key,
                             clause="incompressible solid: Im d/dr F == Im(mu) lim_{K->inf} H_mu, with H_mu the real kernel's value for exact dy1/dr = (A y)_1 of the incompressible operator",
                             goal=sp.Eq(sp.together(dF.im - MUc.im * hlim), 0, evaluate=False), hyps=[sp.Gt(rr, 0), sp.Ge(l, 2)], backends=("qqnf",), timeout=600))
    for key in (("liquid", "dynamic", "compressible"), ("liquid", "dynamic", "incompressible")):
        try:
            A, ny, mfn = RD.extract_operator(b, key, K=Kc)
        except (SymExError, ExtractError) as e:
            b.subset_exits.append(f"ODE operator {key}: {e}")
            continue
        yl = [YS[0], YS[1], YS[4], YS[5]]
        dy = []
        for i in range(4):
            tot = Cx(0)
            for j in range(4):
                tot = tot + A[i][j] * yl[j]
            dy.append(tot)
        c = lambda z: z.conj()
        dF = c(yl[0]) * yl[1] * (2 * rr) + c(yl[2]) * yl[3] * (2 * rr / (4 * T.PI * G)) + (c(dy[0]) * yl[1] + c(yl[0]) * dy[1]) * rr ** 2 \
            + (c(dy[2]) * yl[3] + c(yl[2]) * dy[3]) * (rr ** 2 / (4 * T.PI * G))
        b.add(Obligation(oid=f"{mfn.key}::energy_identity", fn=mfn.key, clause="dynamic liquid with real bulk modulus: Im d/dr F == 0 (no dissipation in an inviscid layer)",
                         goal=sp.Eq(sp.together(dF.im.subs(Kc.im, 0)), 0, evaluate=False), hyps=[sp.Gt(rr, 0), sp.Ge(l, 2)], backends=("qqnf",), timeout=300))


def sos(b, H):
    rr = RD.r
    Y = YS[0] * 2 - YS[2] * llp1
    a2 = lambda z: z.re ** 2 + z.im ** 2
    if "mu" in H:
        spec = sp.Rational(1, 3) * a2(Dg * (2 * rr) - Y) + llp1 * rr ** 2 * a2(YS[3]) / a2(MUc) + l * (l ** 2 - 1) * (l + 2) * a2(YS[2])
        # the kernel's first term uses y2; with d the exact derivative of the COMPRESSIBLE operator, y2 = (K + 4/3 mu) d + (K - 2/3 mu) Y / r
        y2 = (Kc + MUc * sp.Rational(4, 3)) * Dg + (Kc - MUc * sp.Rational(2, 3)) * Y * (1 / rr)
        hm = H["mu"].subs({YS[1].re: y2.re, YS[1].im: y2.im}, simultaneous=True)
        b.add(Obligation(oid=f"{FS}::sensitivity_to_shear::ensures:sum_of_squares", fn=f"{FS}::sensitivity_to_shear",
                         clause="H_mu == (1/3)|2 r y1' - Y|^2 + l(l+1) r^2 |y4|^2/|mu|^2 + l(l^2-1)(l+2)|y3|^2 when y2 is the radial stress of the compressible law (hence H_mu >= 0 for l >= 2)",
                         goal=sp.Eq(sp.together(hm - spec), 0, evaluate=False), hyps=[sp.Gt(rr, 0)], backends=("qqnf",)))
    if "K" in H:
        spec = a2(Dg * rr + Y)
        y2 = (Kc + MUc * sp.Rational(4, 3)) * Dg + (Kc - MUc * sp.Rational(2, 3)) * Y * (1 / rr)
        hk = H["K"].subs({YS[1].re: y2.re, YS[1].im: y2.im}, simultaneous=True)
        b.add(Obligation(oid=f"{FS}::sensitivity_to_bulk::ensures:sum_of_squares", fn=f"{FS}::sensitivity_to_bulk", clause="H_K == |r y1' + Y|^2 when y2 is the radial stress of the compressible law (hence H_K >= 0)",
                         goal=sp.Eq(sp.together(hk - spec), 0, evaluate=False), hyps=[sp.Gt(rr, 0)], backends=("qqnf",)))
    b.add(Obligation(oid="lemma::nonnegative", fn="lemma", clause="the sum-of-squares forms have non-negative weights for l >= 2 (1/3, l(l+1), l(l^2-1)(l+2), 1): H_mu, H_K >= 0, hence "
                     "Im(mu) H_mu + Im(K) H_K >= 0 for dissipative or elastic layers and Im k_l <= 0",
                     goal=sp.And(sp.Ge(l * (l + 1), 0), sp.Ge(l * (l ** 2 - 1) * (l + 2), 0)), hyps=[sp.Ge(l, 2)]))


def continuity(b):
    """Im F continuous across every interface kind, given the C02 conditions"""
    rr = RD.r
    g_i, rho_l = sp.Symbol("g_i", positive=True), sp.Symbol("rho_liquid", positive=True)
    kinds2 = [(0, False), (1, False), (1, True)]

    def F_of(kind, y):
        c = lambda z: z.conj()
        if kind[0] == 0:
            return (c(y["y1"]) * y["y2"] + c(y["y3"]) * y["y4"] * llp1) * rr ** 2 + c(y["y5"]) * y["y6"] * (rr ** 2 / (4 * T.PI * G))
        if not kind[1]:
            return c(y["y1"]) * y["y2"] * rr ** 2 + c(y["y5"]) * y["y6"] * (rr ** 2 / (4 * T.PI * G))
        return c(y["y5"]) * y["y7"] * (rr ** 2 / (4 * T.PI * G))
    for lo, up in itertools.product(kinds2, kinds2):
        nlo, nup = layout((lo[0], lo[1], False)), layout((up[0], up[1], False))
        ylo = {n: Cx(R(f"lo_{n}_re"), R(f"lo_{n}_im")) for n in nlo}
        yup = {n: Cx(R(f"up_{n}_re"), R(f"up_{n}_im")) for n in nup}
        # C02 conditions define the upper side from the lower one where possible
        for q in ("y1", "y2", "y5", "y6"):
            if q in ylo and q in yup:
                yup[q] = ylo[q]
        if lo[0] == 0 and up[0] == 0:
            yup["y3"], yup["y4"] = ylo["y3"], ylo["y4"]
        if lo[0] == 0 and up[0] != 0:
            ylo["y4"] = Cx(0)
        if lo[0] != 0 and up[0] == 0:
            yup["y4"] = Cx(0)
        if "y7" in yup and "y6" in ylo:
            ylo["y2"] = (ylo["y1"] * g_i - ylo["y5"]) * rho_l
            yup["y7"] = ylo["y6"] + ylo["y2"] * (4 * T.PI * G / g_i)
            yup["y5"] = ylo["y5"]
        if "y7" in ylo and "y6" in yup:
            yup["y2"] = (yup["y1"] * g_i - yup["y5"]) * rho_l
            ylo["y7"] = yup["y6"] + yup["y2"] * (4 * T.PI * G / g_i)
            ylo["y5"] = yup["y5"]
        if "y7" in ylo and "y7" in yup:
            yup["y7"], yup["y5"] = ylo["y7"], ylo["y5"]
        d = F_of(lo, ylo).im - F_of(up, yup).im
        nm = lambda k_: "solid" if k_[0] == 0 else ("static-liquid" if k_[1] else "dynamic-liquid")
        b.add(Obligation(oid=f"lemma::flux_continuous[{nm(lo)}|{nm(up)}]", fn="lemma", clause="Im F is continuous across the interface given the C02 interface conditions (the energy flux is not lost at interfaces)",
                         goal=sp.Eq(sp.together(d), 0, evaluate=False), hyps=[], backends=("qqnf",)))


def surface(b):
    fn = Fn(SM.FLV, "find_love_cf")
    b.add_fn(fn)
    Rp, gs = sp.Symbol("R_planet", positive=True), sp.Symbol("g_surface", positive=True)
    y = list(YS)
    y[1], y[3], y[5] = Cx(0), Cx(0), Cx((2 * l + 1) / Rp)
    out = [None, None, None]
    ex = Exec(fn, globals_env=dict(cf_build_dblcmplx=lambda ex_, node, a_, b_: Cx(a_, b_)), opts=dict(definedness=False))
    ex.run(dict(complex_love_numbers_ptr=out, surface_solutions_ptr=y, surface_gravity=gs))
    k = Cx.of(out[0])
    F = flux(y, Rp)
    b.add(Obligation(oid=f"{fn.key}::ensures:imk_is_surface_flux", fn=fn.key, clause="with the tidal surface triple (y2, y4, y6) = (0, 0, (2l+1)/R): -Im k == 4 pi G/((2l+1) R) Im F(R), k from the real find_love_cf",
                     goal=sp.Eq(sp.together(-k.im - 4 * T.PI * G / ((2 * l + 1) * Rp) * F.im), 0, evaluate=False), hyps=[], backends=("qqnf",)))


def heating(b):
    e, n, a, M = R("eccentricity"), R("orbital_frequency"), R("semi_major_axis"), R("tidal_host_mass")
    Rp, rr, Hm = sp.Symbol("R_planet", positive=True), RD.r, R("H_mu")
    mu = MUc
    rad = SymArray("radius_array", shape=(2,))
    rad.cells[(sp.Integer(-1),)] = Rp
    from tpv.symex import Namespace
    pre = [sp.Gt(e, 0), sp.Gt(n, 0), sp.Gt(a, 0), sp.Gt(M, 0), sp.Gt(Rp, 0), sp.Gt(rr, 0), sp.Ge(Hm, 0), sp.Ge(mu.im, 0), sp.Gt(G, 0), sp.Ge(l, 2)]
    try:
        fn = Fn(FH, "calc_radial_tidal_heating")
    except ExtractError as ex_:
        b.subset_exits.append(str(ex_))
        return
    b.add_fn(fn)

    class RadiusLike:
        pass
    # element-wise execution: radius_array[-1] is the world radius, every other use of the arrays is at the generic slice
    class X(Exec):
        def ev_Subscript(self, node, env):
            import ast as _a
            if isinstance(node.value, _a.Name) and node.value.id == "radius_array":
                return Rp
            return super().ev_Subscript(node, env)

        def assign(self, t, v, env):
            import ast as _a
            if isinstance(t, _a.Subscript) and isinstance(t.value, _a.Name) and t.value.id == "radial_tidal_heating":
                mask = self.ev(t.slice, env)
                if self.truth(mask, t):
                    env["radial_tidal_heating"] = v
                return
            return super().assign(t, v, env)
    def np_abs(ex_, node, z):
        z = Cx.of(z)
        a_ = sp.Symbol("abs_of_generic_slice", positive=True)
        ex_.facts.append(sp.Eq(a_ ** 2, z.re ** 2 + z.im ** 2))
        return a_

    def np_max(ex_, node, arr):
        # maximum over the whole array: an upper bound of the generic slice's value, otherwise arbitrary
        m_ = sp.Symbol("max_over_array", positive=True)
        ex_.facts.append(sp.Ge(m_, sp.sympify(arr)))
        return m_
    ex = X(fn, pre=pre, globals_env=dict(G=G, np=Namespace("np", dict(imag=lambda ex_, node, z: Cx.of(z).im, real=lambda ex_, node, z: Cx.of(z).re, abs=np_abs, max=np_max, amax=np_max))),
           opts=dict(definedness=False))
    try:
        paths = ex.run(dict(eccentricity=e, orbital_frequency=n, semi_major_axis=a, tidal_host_mass=M, radius_array=rr, radial_sensitivity_to_shear=Hm, complex_shear_modulus=mu, order_l=l))
    except SymExError as ex_:
        b.subset_exits.append(f"{fn.key}: {ex_}")
        return
    b.absorb_exec(ex)
    spec = sp.Rational(3, 2) * G * M ** 2 * Rp ** 5 / a ** 6 * 7 * e ** 2 * n * (4 * T.PI * G / ((2 * l + 1) * Rp)) * Hm * mu.im
    for i, p in enumerate(paths):
        if p.outcome != "return":
            continue
        b.add(Obligation(oid=f"{fn.key}::ensures:shell_integrand@path{i}", fn=fn.key,
                         clause="heating(r) * 4 pi r^2 == (3/2) G M^2 R^5/a^6 * 7 e^2 n * [4 pi G/((2l+1) R)] * H_mu Im(mu)  (so the shell sum is (21/2)(-Im k2) G M^2 R^5 n e^2/a^6 by the energy theorem); "
                                "the clamp at zero does not fire for H_mu >= 0, Im mu >= 0",
                         goal=sp.Eq(sp.sympify(p.value) * 4 * T.PI * rr ** 2, spec), hyps=pre + p.hyps))


def build(tier="quick", seed=0):
    b = Bundle("C05")
    H = kernels(b)
    local_identity(b, H)
    sos(b, H)
    continuity(b)
    surface(b)
    heating(b)
    b.replayer("*", _replay_c05)
    b.explanation = "lemma chain over the real sensitivity kernels, the extracted ODE operators, the C02 interface conditions, find_love_cf and calc_radial_tidal_heating; exact normal forms"
    b.assume("discretisation error of the user's radial sum (rectangle / trapezoid over >= 200 slices) vanishes with refinement: not a per-call fact, not proved; the stencil clauses give its order")
    b.assume("F -> 0 at the centre for regular solutions (starting vectors ~ r^l); static-liquid interiors are excluded (y1..y4 undefined there), only their boundaries enter through the continuity lemma")
    b.assume("incompressible solid operators: the identity is proved with the K -> infinity limit of the kernel (the kernels themselves take a finite, large bulk modulus: the rate of that limit is not quantified); integrator accuracy by the CyRK contract")
    b.assume("C02 interface conditions are imported as hypotheses of the continuity lemma (proved in C02 on the real interface code)")
    b.assume("doubles as reals; numpy element-wise semantics for the array arguments of calc_radial_tidal_heating")
    b.trust("tpv.pyx2py translation of derivatives/odes.pyx and love.pyx")
    return b


_C05_NATIVE = r'''
import numpy as np
from TidalPy.radial_solver.sensitivity import sensitivity_to_shear, sensitivity_to_bulk
from TidalPy.tides.multilayer.heating import calc_radial_tidal_heating
fails = []
rng = np.random.default_rng(3)
l = 2
# graded (non-uniform) grid, y1 quadratic in r: the three-point gradient is exact, so the kernels must equal their closed forms with the exact derivative
r = np.cumsum(np.linspace(1.0e3, 9.0e3, 40)) + 1.0e5
a0, a1, a2 = (0.7 - 0.2j), (3.0e-6 + 1.0e-6j), (-2.0e-12 + 5.0e-13j)
y = (rng.normal(size=(6, r.size)) + 1j * rng.normal(size=(6, r.size)))
y[0] = a0 + a1 * r + a2 * r**2
d = a1 + 2 * a2 * r
for label, mu in (("stiff", np.full(r.size, 5.0e10 + 1.0e8j)), ("lossy", np.full(r.size, 2.0e9 + 6.0e9j))):
    K = np.full(r.size, 1.5e11 + 0j)
    Hm = sensitivity_to_shear(y, r, mu, K, l); Hk = sensitivity_to_bulk(y, r, mu, K, l)
    Y = 2 * y[0] - l * (l + 1) * y[2]
    lam = K - 2 * mu / 3
    t1 = np.abs(y[1] - lam / r * Y)**2 / np.abs(K + 4 * mu / 3)**2
    Hm_ref = 4 / 3 * r**2 * t1 - 4 / 3 * r * np.real(np.conj(d) * Y) + np.abs(Y)**2 / 3 + l * (l + 1) * r**2 * np.abs(y[3])**2 / np.abs(mu)**2 + l * (l**2 - 1) * (l + 2) * np.abs(y[2])**2
    Hk_ref = r**2 * t1 + 2 * r * np.real(np.conj(d) * Y) + np.abs(Y)**2
    s_ = slice(1, -1)
    if not np.allclose(Hm[s_], Hm_ref[s_], rtol=1e-8): fails.append(["sensitivity_to_shear", "%s, graded grid, quadratic y1: max rel. deviation %.3g" % (label, float(np.max(np.abs(Hm[s_] / Hm_ref[s_] - 1))))])
    if not np.allclose(Hk[s_], Hk_ref[s_], rtol=1e-8): fails.append(["sensitivity_to_bulk", "%s, graded grid, quadratic y1: max rel. deviation %.3g" % (label, float(np.max(np.abs(Hk[s_] / Hk_ref[s_] - 1))))])
# heating profile: shell integrand, also for a layer 1e4 times softer than the stiffest one
G = 6.6743e-11
rr = np.linspace(1.0e5, 1.8e6, 30); H = np.abs(rng.normal(size=rr.size)) + 0.1
mu = np.full(rr.size, 6.0e10 + 5.0e8j); mu[10:15] = 4.0e6 + 3.0e6j
e, n, a, M = 0.0041, 4.1e-5, 4.2e8, 1.9e27
h = calc_radial_tidal_heating(e, n, a, M, rr, H, mu, l)
want = 1.5 * G * M**2 * rr[-1]**5 / a**6 * 7 * e**2 * n * (4 * np.pi * G / ((2 * l + 1) * rr[-1])) * H * np.imag(mu)
if not np.allclose(h * 4 * np.pi * rr**2, want, rtol=1e-10): fails.append(["calc_radial_tidal_heating", "shell integrand differs (max rel. %.3g), e.g. in the soft layer" % float(np.max(np.abs(h * 4 * np.pi * rr**2 / want - 1)))])
result = dict(failures=fails[:6], n=len(fails))
'''


def _replay_c05(ob, res):
    from tpv import native
    out = native.run(dict(code=_C05_NATIVE), timeout=900)
    rec = dict(replayed=True, native=out)
    if "result" not in out:
        rec["confirmed"] = True
        rec["detail"] = "the real kernels raised on the sample inputs"
        return rec
    fam = "calc_radial_tidal_heating" if "heating.py" in ob.fn else None
    hits = [f for f in out["result"]["failures"] if (fam is None and f[0].startswith("sensitivity")) or f[0] == fam]
    rec["confirmed"] = bool(hits)
    rec["detail"] = hits[:3]
    return rec
