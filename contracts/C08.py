"""C08 — eccentricity tables equal squared Hansen coefficients through their stated order.

Oracle: exact rational series of G_lpq(e)^2 (contracts/spec_hansen.py).  Every table function of
eccentricity_funcs/orderl{l}.py is executed symbolically (dict-of-dict result, aliases included) and each entry is
expanded as a power series in e; per (l, N, p, q) with |q| <= N/2 + 2:
  present: coefficients e^0..e^N equal the spec within 1e-13 relative, exact zeros where the spec is zero, nothing beyond
           e^N (closed-form entries, recognised by a non-constant denominator, are compared through e^24 instead);
  absent : the spec series vanishes through e^N.
The multi-degree helpers and the lookup dictionary are checked structurally.  Complete: the tables are constants.
"""
import ast, re, os
from fractions import Fraction
import multiprocessing as mp
import sympy as sp
from tpv.kit import *
from tpv import terms as T
from tpv.extract import source
from contracts import spec_hansen as H

NMAX = 24
TOL = Fraction(1, 10 ** 13)
E = R("eccentricity")


def _series_of(expr, N):
    """power series (list of Fractions) of a rational function of E through E^N"""
    expr = sp.sympify(expr)
    num, den = sp.fraction(sp.together(expr))
    pn = sp.Poly(sp.expand(num), E, domain="QQ")
    pd = sp.Poly(sp.expand(den), E, domain="QQ")
    def coeffs(poly):
        out = [Fraction(0)] * (N + 1)
        for (k,), cf in poly.terms():
            if k <= N:
                out[k] = Fraction(int(cf.p), int(cf.q))
        return out, poly.degree()
    a, dega = coeffs(pn)
    bb, degb = coeffs(pd)
    closed = degb > 0
    if closed:
        ser = H.smul(a, H.sinv(bb, N), N)
        deg = None
    else:
        ser = [x / bb[0] for x in a]
        deg = dega
    return ser, closed, deg


def _one_degree(l):
    """all obligations for degree l (runs in a worker process); returns list of plain tuples"""
    from tpv.bundle import Bundle
    b = Bundle("C08")
    F = f"TidalPy/tides/eccentricity_funcs/orderl{l}.py"
    src = source(F)
    names = sorted([st.name for st in src.tree.body if isinstance(st, ast.FunctionDef) and re.fullmatch(r"eccentricity_funcs_trunc\d+", st.name)],
                   key=lambda s: int(s[len("eccentricity_funcs_trunc"):]))
    out = []
    cache = {}
    levels = []
    for name in names:
        N = int(name[len("eccentricity_funcs_trunc"):])
        levels.append(N)
        fn, ex, paths = run_fn(b, F, name, dict(eccentricity=E), [sp.Ge(E, 0), sp.Lt(E, 1)], xcheck=False)
        if not paths:
            continue
        if len(paths) != 1 or paths[0].outcome != "return" or not isinstance(paths[0].value, dict):
            b.subset_exits.append(f"{fn.key}: expected one path returning a dict")
            continue
        table = paths[0].value
        qmax = N // 2 + 2
        for p in range(l + 1):
            row = table.get(p, {})
            for q in range(-qmax, qmax + 1):
                if (p, q) not in cache:
                    cache[(p, q)] = H.G2_series(l, p, q, NMAX)
                spec = cache[(p, q)]
                oid = f"{F}::{name}::G2({p},{q})"
                if q in row:
                    try:
                        ser, closed, deg = _series_of(row[q], NMAX)
                    except Exception as ex_:
                        out.append((oid, fn.key, f"entry (p,q)=({p},{q}) is a rational function of e", False, f"cannot expand: {ex_}", dict(l=l, N=N, p=p, q=q)))
                        continue
                    upto = NMAX if closed else N
                    worst = Fraction(0)
                    bad = None
                    for d in range(upto + 1):
                        if spec[d] == 0:
                            if ser[d] != 0:
                                bad = f"coefficient of e^{d} is {float(ser[d])} where the exact series has 0"
                                break
                        else:
                            rel = abs((ser[d] - spec[d]) / spec[d])
                            worst = max(worst, rel)
                            if rel > TOL:
                                bad = f"coefficient of e^{d}: table {float(ser[d])!r} vs exact {float(spec[d])!r} (rel {float(rel):.2e})"
                                break
                    if bad is None and not closed and deg is not None and deg > N:
                        bad = f"polynomial has degree {deg} > truncation {N}"
                    out.append((oid, fn.key, f"G^2_{l}{p}({q}) through e^{upto}" + (" (closed form)" if closed else ""), bad is None,
                                bad or f"worst relative coefficient error {float(worst):.2e}", dict(l=l, N=N, p=p, q=q)))
                else:
                    nz = [d for d in range(N + 1) if spec[d] != 0]
                    out.append((oid + ":absent", fn.key, f"mode (p,q)=({p},{q}) omitted from the e^{N} table ==> no contribution through e^{N}", not nz,
                                f"exact series has first non-zero coefficient at e^{nz[0]}: {spec[nz[0]]}" if nz else "", dict(l=l, N=N, p=p, q=q)))
        # keys outside the spec-driven window
        extra = [(p, q) for p, row in table.items() for q in (row if isinstance(row, dict) else {}) if not (isinstance(p, int) and 0 <= p <= l and abs(q) <= qmax)]
        out.append((f"{F}::{name}::keys", fn.key, "no entries outside 0 <= p <= l, |q| <= N/2+2", not extra, str(extra[:5]), dict(l=l, N=N)))
    return l, out, list(b.functions.values()), b.subset_exits, [o for o in b.obligations], levels


def build(tier="quick", seed=0):
    b = Bundle("C08")
    spec_lemmas(b)
    ctx = mp.get_context("fork")
    from tpv.oblig import _die_with_parent
    with ctx.Pool(6, initializer=_die_with_parent) as pool:
        res = pool.map(_one_degree, range(2, 8))
    levels = {}
    for l, out, fns, exits, obs, lv in res:
        levels[l] = lv
        for f in fns:
            b.functions[f["function"]] = f
        b.subset_exits += exits
        b.extend(obs)
        for oid, fnkey, clause, ok, detail, meta in out:
            model = None if ok else {"eccentricity": "3/10"}
            ground(b, oid, fnkey, clause, ok, detail=detail, refuted_model=model, **meta)
    helpers(b, levels)
    for l in range(2, 8):
        b.replayer(f"TidalPy/tides/eccentricity_funcs/orderl{l}.py::*::G2*", _replayer(l))
    b.replayer("*mode_calc_helper*", _replay_helper)
    b.assume("hand-typed decimal coefficients are compared with the exact rationals with tolerance 1e-13 relative per coefficient")
    b.assume("modes with |q| > N/2 + 2 are outside the enumerated window (their squared Hansen coefficient starts at e^(2|q|) > e^N)")
    b.trust("spec function contracts/spec_hansen.py (exact rational Hansen series) after its self-consistency lemmas (closed form of the k = 0 coefficients, Kaula's printed low-order table)")
    return b


def spec_lemmas(b):
    ok = True
    det = ""
    for l in range(2, 8):
        for p in range(l + 1):
            q = 2 * p - l
            a = H.hansen(-(l + 1), l - 2 * p, 0, 16)
            c = H.G_closed_k0(l, p, 16)
            if a != c:
                ok = False
                det = f"l={l} p={p}"
    ground(b, "spec::hansen::k0_closed_form", "spec::hansen", "series of X^{-(l+1),l-2p}_0 equals Kaula's closed form (eq. 3.66) through e^16 for l = 2..7", ok, detail=det)
    Fr = Fraction
    printed = {(2, 0, 0): [1, 0, Fr(-5, 2), 0, Fr(13, 16)], (2, 0, 1): [0, Fr(7, 2), 0, Fr(-123, 16), 0], (2, 0, -1): [0, Fr(-1, 2), 0, Fr(1, 16), 0],
               (2, 0, 2): [0, 0, Fr(17, 2), 0, Fr(-115, 6)], (2, 1, 1): [0, Fr(3, 2), 0, Fr(27, 16), 0], (2, 1, 2): [0, 0, Fr(9, 4), 0, Fr(7, 4)]}
    ok = all(H.hansen(-(l + 1), l - 2 * p, l - 2 * p + q, 4) == [Fr(x) for x in v] for (l, p, q), v in printed.items())
    ground(b, "spec::hansen::printed_table", "spec::hansen", "agrees with Kaula's printed G_2pq table through e^4 (G_200, G_201, G_20-1, G_202, G_211, G_212)", ok)
    # symmetry G_lpq = G_l(l-p)(-q)
    ok = all(H.G2_series(l, p, q, 10) == H.G2_series(l, l - p, -q, 10) for l in (2, 3, 5) for p in range(l + 1) for q in (-2, -1, 0, 1, 3))
    ground(b, "spec::hansen::symmetry", "spec::hansen", "G_lpq == G_l(l-p)(-q) (sample of l = 2, 3, 5)", ok)


def helpers(b, levels):
    """eccentricity_truncation_{N}_maxl_{L} returns {l: orderl{l}.eccentricity_funcs_trunc{N}(eccentricity)} for l = 2..L; lookup dict"""
    for L in range(2, 8):
        F = f"TidalPy/tides/modes/mode_calc_helper/eccen_calc_orderl{L}.py"
        src = source(F)
        for N in levels.get(L, []):
            if any(N not in levels.get(l, []) for l in range(2, L + 1)):
                continue
            name = f"eccentricity_truncation_{N}_maxl_{L}"
            try:
                node = src.find(name)
            except ExtractError:
                ground(b, f"{F}::{name}", f"{F}::{name}", f"helper for truncation {N}, max l {L} exists", False, detail="missing")
                continue
            ret = [s for s in ast.walk(node) if isinstance(s, ast.Return)]
            assigns = {s.targets[0].id: s.value for s in node.body if isinstance(s, ast.Assign) and isinstance(s.targets[0], ast.Name)}
            val = ret[0].value if len(ret) == 1 else None
            if isinstance(val, ast.Name):
                val = assigns.get(val.id)
            got = None
            if isinstance(val, ast.Dict):
                got = {ast.literal_eval(k): ast.unparse(v) for k, v in zip(val.keys, val.values)}
            exp = {l: f"orderl{l}.eccentricity_funcs_trunc{N}(eccentricity)" for l in range(2, L + 1)}
            ground(b, f"{F}::{name}", f"{F}::{name}", f"returns exactly {{l: orderl<l>.eccentricity_funcs_trunc{N}(eccentricity)}} for l = 2..{L}", got == exp,
                   detail=str(got)[:300])
        # imports orderl2..orderlL from eccentricity_funcs
        imported = set()
        for st in src.tree.body:
            if isinstance(st, ast.ImportFrom) and st.module and st.module.endswith("eccentricity_funcs"):
                imported |= {a.name for a in st.names if a.asname in (None, a.name)}
        ground(b, f"{F}::imports", F, f"orderl2..orderl{L} are the eccentricity_funcs modules of the same name", all(f"orderl{l}" in imported for l in range(2, L + 1)), detail=str(sorted(imported)))
    F = "TidalPy/tides/modes/mode_calc_helper/__init__.py"
    node = source(F).module_constants().get("eccentricity_functions_lookup")
    got = {}
    if isinstance(node, ast.Dict):
        for k, v in zip(node.keys, node.values):
            if isinstance(v, ast.Dict):
                got[ast.literal_eval(k)] = {ast.literal_eval(k2): ast.unparse(v2) for k2, v2 in zip(v.keys, v.values)}
    for N in sorted(set(n for lv in levels.values() for n in lv)):
        for L in range(2, 8):
            if all(N in levels.get(l, []) for l in range(2, L + 1)):
                ok = got.get(N, {}).get(L) == f"eccen_calc_orderl{L}.eccentricity_truncation_{N}_maxl_{L}"
                ground(b, f"{F}::eccentricity_functions_lookup[{N}][{L}]", f"{F}::eccentricity_functions_lookup", f"lookup (truncation {N}, max l {L}) -> the helper of that name", ok,
                       detail=str(got.get(N, {}).get(L)))


def _replayer(l):
    def rp(ob, res):
        from tpv import native
        N, p, q = ob.meta["N"], ob.meta["p"], ob.meta["q"]
        e = 0.3
        out = native.run(dict(code=f"from TidalPy.tides.eccentricity_funcs.orderl{l} import eccentricity_funcs_trunc{N} as f\nr = f(np.array([{e}]))\nresult = float(r[{p}][{q}][0]) if {p} in r and {q} in r[{p}] else None"))
        spec = H.G2_series(l, p, q, NMAX)
        upto = N
        exp = float(sum(cf * Fraction(3, 10) ** d for d, cf in enumerate(spec[:upto + 1])))
        got = out.get("result")
        rec = dict(replayed=True, eccentricity=e, l=l, N=N, p=p, q=q, native=out, exact_truncated_series=exp)
        rec["confirmed"] = (got is None and exp != 0) or (got is not None and abs(got - exp) > 1e-9 * max(abs(exp), 1e-30) and ":absent" not in ob.oid) or (":absent" in ob.oid and exp != 0)
        return rec
    return rp


def _replay_helper(ob, res):
    """native: the multi-degree lookup helper must return exactly the per-degree tables (keys and values) for every l <= L"""
    import re
    from tpv import native
    m = re.search(r"eccentricity_truncation_(\d+)_maxl_(\d+)", ob.oid)
    if not m:
        return dict(replayed=False, reason="no (truncation, max l) in the obligation id")
    N, L = int(m.group(1)), int(m.group(2))
    code = r'''
import numpy as np
from TidalPy.tides.modes.mode_calc_helper import eccentricity_functions_lookup
from TidalPy.tides.eccentricity_funcs import eccentricity_truncations
N, L = args["N"], args["L"]
e = 0.31
got = eccentricity_functions_lookup[N][L](e)
bad = []
for l in range(2, L + 1):
    ref = eccentricity_truncations[N][l](e)
    g = got[l]
    for p in set(ref) | set(g):
        rq, gq = dict(ref.get(p, {})), dict(g.get(p, {})) if p in g else {}
        for q in set(rq) | set(gq):
            a, c = gq.get(q), rq.get(q)
            if a is None or c is None or abs(float(a) - float(c)) > 1e-13 * max(abs(float(c)), 1e-300):
                bad.append([l, int(p), int(q), None if a is None else float(a), None if c is None else float(c)])
result = dict(bad=bad[:6], n=len(bad))
'''
    out = native.run(dict(code=code, args=dict(N=N, L=L)), timeout=900)
    rec = dict(replayed=True, native=out, what=f"eccentricity_functions_lookup[{N}][{L}] against eccentricity_truncations[{N}][l] at e = 0.31")
    rec["confirmed"] = bool("result" not in out or out["result"]["n"])
    return rec
