"""C15 — 3-D tidal stress and strain are consistent with the radial functions.

calculate_strain_stress is executed for a GENERIC grid point (loop rule: four nested prange loops with symbolic
bounds, body executed once for symbolic indices; frame: every write goes to the generic index only and reads use only
that index).  Clauses from the statement: Hooke's law component-wise; radial tractions sigma_rr = y2 U,
sigma_rtheta = y4 U_theta, sigma_rphi = y4 U_phi / sin(theta) under the degree-l surface Laplace identity for the six
potential inputs; heating real, >= 0 and 0 for purely elastic material; displacements.
"""
import ast
import sympy as sp
from tpv.kit import *
from tpv import terms as T
from tpv.terms import Cx
from tpv.symex import Namespace, SymArray, SymRange, Exec, SymExError, _sh_real, _sh_imag, _sh_empty, _sh_abs, _sh_len

FS = "TidalPy/tides/multilayer/stress_strain.py"
FH = "TidalPy/tides/heating.py"
FDp = "TidalPy/tides/multilayer/displacements.py"
sT, cT = R("sin_theta"), R("cos_theta")
l = R("order_l")


def cxsym(name):
    return Cx(R(name + "_re"), R(name + "_im"))


class CArr(SymArray):
    """input array whose generic element is a fixed complex / real symbol (independent of the symbolic index: one generic point)"""

    def __init__(self, name, value, shape, expect_idx=None):
        super().__init__(name, shape=shape)
        self.value = value
        self.reads = []

    def get(self, idx):
        idx = idx if isinstance(idx, tuple) else (idx,)
        self.reads.append(idx)
        if callable(self.value):
            return self.value(idx)
        return self.value


def build(tier="quick", seed=0):
    b = Bundle("C15")
    strain_stress(b)
    heating(b)
    displacements(b)
    b.replayer("*", _replay_c15)
    b.assume("the generic-point loop rule: the four nested loops have no loop-carried state (checked: every array write is at the generic index and every read uses only the generic index of its own axes)")
    b.assume("colatitude in (0, pi), != pi/2 for the symbolic cot = cos/sin (floating-point tan(pi/2) is finite); sin, cos of the colatitude are atoms with s^2 + c^2 = 1")
    b.assume("the tractions clause uses the statement's hypothesis that the six potential inputs satisfy the degree-l surface Laplace identity")
    return b


def _strain_stress_path(b, fn, ex, path_, sfx, args, pre, y, U, Ut, Up, Utt, Upp, mu, lam, l):
    strains, stresses = path_.value
    idx = getattr(ex, "loop_indices", [])
    names = {str(i): i for i in idx}
    ri, ci, li, ti = names.get("ri_idx"), names.get("ci_idx"), names.get("li_idx"), names.get("ti_idx")
    ok_loops = None not in (ri, ci, li, ti)
    ground(b, f"{fn.key}::loops{sfx}", fn.key, "four nested loops over (radius, colatitude, longitude, time)", ok_loops, detail=str(idx))
    if not ok_loops:
        return None, None, None
    point = lambda k: (sp.Integer(k), ri, li, ci, ti)
    # frame: all writes at the generic point, exactly components 0..5 of both outputs
    for arr, nm in ((strains, "strains"), (stresses, "stresses")):
        widx = [w[0] for w in arr.writes]
        ok = sorted(widx, key=str) == sorted([point(k) for k in range(6)], key=str)
        ground(b, f"{fn.key}::frame:{nm}{sfx}", fn.key, f"frame: {nm} is written exactly at [0..5, ri, li, ci, ti] of the generic iteration (no other element)", ok, detail=str(widx)[:300])
    ok_reads = True
    det = []
    for an, arr in args.items():
        if isinstance(arr, CArr):
            for rd in arr.reads:
                want = {"pot": (li, ci, ti), "y": None, "lon": (li,), "col": (ci,), "time": (ti,), "rad": (ri,), "mu": (ri,), "K": (ri,)}[arr.name]
                if arr.name == "y":
                    good = len(rd) == 2 and rd[1] == ri
                else:
                    good = tuple(rd) == want
                if not good:
                    ok_reads = False
                    det.append((an, str(rd)))
    ground(b, f"{fn.key}::frame:reads{sfx}", fn.key, "frame: every input is read only at the generic index of its own axes (element-wise, no stencil)", ok_reads, detail=str(det)[:300])
    eps = [strains.get(point(k)) for k in range(6)]
    sig = [stresses.get(point(k)) for k in range(6)]
    hyps = list(pre) + path_.hyps
    tr = eps[0] + eps[1] + eps[2]
    for k in range(6):
        spec = Cx(2) * mu * eps[k] + (lam * tr if k < 3 else Cx(0))
        b.add(Obligation(oid=f"{fn.key}::ensures:hooke[{k}]{sfx}", fn=fn.key, clause=f"sigma_{k} == 2 mu eps_{k}" + (" + lambda tr(eps), lambda = K - 2 mu/3" if k < 3 else ""),
                         goal=sp.And(sp.Eq(sig[k].re, spec.re), sp.Eq(sig[k].im, spec.im)), hyps=hyps, backends=("qqnf", "z3")))
    # tractions, with the degree-l Laplace identity as hypothesis:  U_tt = -l(l+1) U - cot U_t - U_pp / sin^2
    ll = l * (l + 1)
    lap_re = (Utt.re, 1, (-ll * U.re - cT / sT * Ut.re - Upp.re / sT ** 2))
    lap_im = (Utt.im, 1, (-ll * U.im - cT / sT * Ut.im - Upp.im / sT ** 2))
    rels = [lap_re, lap_im, (sT, 2, 1 - cT ** 2)]
    for k, (spec, nm) in {0: (y[1] * U, "sigma_rr == y2 U"), 3: (y[3] * Ut, "sigma_rtheta == y4 dU/dtheta"), 4: (y[3] * Up / Cx(sT), "sigma_rphi == y4 dU/dphi / sin(theta)")}.items():
        b.add(Obligation(oid=f"{fn.key}::ensures:traction[{k}]{sfx}", fn=fn.key, clause=nm + " (degree-l Laplace identity assumed for the potential)",
                         goal=sp.And(sp.Eq(sig[k].re, spec.re), sp.Eq(sig[k].im, spec.im)), hyps=hyps, rels=rels, backends=("qqnf",)))
    return eps, mu, lam


def strain_stress(b):
    nr, nlon, ncol, nt = [sp.Symbol(x, integer=True) for x in ("n_radius", "n_longitude", "n_colatitude", "n_time")]
    U, Ut, Up, Utt, Upp, Utp = [cxsym(x) for x in ("U", "U_t", "U_p", "U_tt", "U_pp", "U_tp")]
    y = [cxsym(f"y{i}") for i in range(1, 7)]
    mu, K = cxsym("shear"), cxsym("bulk")
    r = R("radius")
    pot = lambda v: CArr("pot", v, (nlon, ncol, nt))
    args = dict(tidal_potential=pot(U), tidal_potential_partial_theta=pot(Ut), tidal_potential_partial_phi=pot(Up), tidal_potential_partial2_theta2=pot(Utt),
                tidal_potential_partial2_phi2=pot(Upp), tidal_potential_partial2_theta_phi=pot(Utp),
                tidal_solution_y=CArr("y", lambda idx: y[int(idx[0])], (6, nr)), longitude_array=CArr("lon", R("longitude"), (nlon,)),
                colatitude_array=CArr("col", R("colatitude"), (ncol,)), time_array=CArr("time", R("time"), (nt,)), radius_array=CArr("rad", r, (nr,)),
                shear_moduli=CArr("mu", mu, (nr,)), bulk_moduli=CArr("K", K, (nr,)), frequency=R("frequency"), order_l=l)
    def _sqrt(ex, node, x):
        # sqrt(1 - sin^2) is |cos| (NOT cos: the colatitude runs over both hemispheres): split on the sign of the cosine atom
        from tpv.symex import _sh_sqrt
        x_ = sp.expand(sp.sympify(x)) if not isinstance(x, Cx) else None
        if x_ is not None and sp.expand(x_ - (1 - sT ** 2)) == 0:
            return cT if ex.truth(ex.compare(ast.GtE(), cT, sp.Integer(0), node), node) else -cT
        if x_ is not None and sp.expand(x_ - (1 - cT ** 2)) == 0:
            return sT            # colatitude in (0, pi): sin > 0
        return _sh_sqrt(ex, node, x)
    npx = Namespace("np", {"sin": lambda ex, node, x: sT, "cos": lambda ex, node, x: cT, "tan": lambda ex, node, x: sT / cT, "sqrt": _sqrt, "empty": _sh_empty, "complex128": "complex128", "real": _sh_real, "imag": _sh_imag, "abs": _sh_abs})
    lam = K - Cx(sp.Rational(2, 3)) * mu
    pre = [sp.Gt(r, 0), sp.Gt(sT, 0), sp.Ne(cT, 0), sp.Eq(sT ** 2 + cT ** 2, 1), sp.Ge(l, 2), sp.Gt(mu.abs2(), 0), sp.Gt((lam + Cx(2) * mu).abs2(), 0)]
    fn = Fn(FS, "calculate_strain_stress")
    b.add_fn(fn)
    ex = Exec(fn, pre=pre, globals_env=dict(np=npx, prange=("fn", "range")), opts=dict(loop_rule=elementwise_loop_rule, check_feasibility=False))
    try:
        paths = ex.run(args)
    except SymExError as e:
        b.subset_exits.append(f"{fn.key}: {e}")
        return
    b.absorb_exec(ex)
    rets = [p_ for p_ in paths if p_.outcome == "return"]
    if not rets or len(rets) != len(paths):
        b.subset_exits.append(f"{fn.key}: {len(paths) - len(rets)} non-returning path(s)")
        return
    for pi_, path_ in enumerate(rets):
        sfx = f"@path{pi_}" if len(rets) > 1 else ""
        eps, mu_, lam_ = _strain_stress_path(b, fn, ex, path_, sfx, args, pre, y, U, Ut, Up, Utt, Upp, mu, lam, l)
    if eps is None:
        return

    b.samples.append(dict(strain_rr=str(eps[0])[:200]))
    b._hooke = (eps, mu, lam)


def heating(b):
    sig = [cxsym(f"sigma{k}") for k in range(6)]
    eps = [cxsym(f"eps{k}") for k in range(6)]
    npx = Namespace("np", {"real": _sh_real, "imag": _sh_imag, "abs": _sh_abs})
    from tpv.symex import NdArr
    fn, ex, paths = run_fn(b, FH, "calculate_volumetric_heating", dict(stress=NdArr(sig), strain=NdArr(eps)), [], globals_env=dict(np=npx), xcheck=False)
    if not paths:
        return
    ensure(b, fn, "nonnegative", paths, lambda p: sp.Ge(p.value, 0), clause="ensures volumetric heating >= 0 (and real: it is built from real and imaginary parts only)")
    w = [1, 1, 1, 2, 2, 2]
    spec = sum(w[k] * (sig[k].im * eps[k].re - sig[k].re * eps[k].im) for k in range(6))
    ensure(b, fn, "formula", paths, lambda p: sp.Or(sp.Eq(p.value, spec), sp.Eq(p.value, -spec)), clause="ensures heating == |sum_k w_k Im(sigma_k conj(eps_k))|, w = (1,1,1,2,2,2)")
    # elastic material: sigma = 2 mu eps + lambda tr(eps) with real mu, lambda  ==> heating == 0
    mu, lam = R("mu_real"), R("lambda_real")
    tr = eps[0] + eps[1] + eps[2]
    sig_el = [Cx(2 * mu) * eps[k] + (Cx(lam) * tr if k < 3 else Cx(0)) for k in range(6)]
    fn2, ex2, p2 = run_fn(b, FH, "calculate_volumetric_heating", dict(stress=NdArr(sig_el), strain=NdArr(eps)), [], globals_env=dict(np=npx), xcheck=False)
    if p2:
        ensure(b, fn, "zero_when_elastic", p2, lambda p: sp.Eq(p.value, 0), clause="ensures heating == 0 when stress obeys Hooke's law with real (elastic) moduli")
    # passive viscoelastic: the signed sum equals 2 Im(mu) sum w |eps|^2 + Im(lambda) |tr eps|^2
    muc, lamc = cxsym("mu"), cxsym("lam")
    sig_ve = [Cx(2) * muc * eps[k] + (lamc * tr if k < 3 else Cx(0)) for k in range(6)]
    signed = sum(w[k] * (sig_ve[k].im * eps[k].re - sig_ve[k].re * eps[k].im) for k in range(6))
    lemma(b, "heating_is_quadratic_form", "sum_k w_k Im(sigma_k conj(eps_k)) == 2 Im(mu) sum_k w_k |eps_k|^2 + Im(lambda) |tr eps|^2 under Hooke's law",
          sp.Eq(signed, 2 * muc.im * sum(w[k] * eps[k].abs2() for k in range(6)) + lamc.im * tr.abs2()), fn=fn.key)


def displacements(b):
    fn = Fn(FDp, "calculate_displacements")
    b.add_fn(fn)
    U, Ut, Up = [cxsym(x) for x in ("U", "U_t", "U_p")]
    y1, y3 = cxsym("y1"), cxsym("y3")
    loops = [s for s in fn.node.body if isinstance(s, ast.For)]
    pre_st = find_stmts(fn.node, assigns_to("potential_dphi_over_sin"))
    if len(loops) != 1 or len(pre_st) != 1:
        b.subset_exits.append(f"{fn.key}: anchors not found")
        return
    hdr_ok = ast.unparse(loops[0].iter) == "range(radius_n)" and "tidal_solution_y.shape[1]" in ast.unparse(fn.node) and \
        "y1 = tidal_solution_y[0, :]" in ast.unparse(fn.node) and "y3 = tidal_solution_y[2, :]" in ast.unparse(fn.node)
    structural(b, f"{fn.key}::loop_header", fn.key, "loop runs over all radial slices; y1, y3 are rows 0 and 2 of the solution", "ok" if hdr_ok else "unknown", detail=ast.unparse(loops[0].iter))
    ri = sp.Symbol("ri_idx", integer=True)
    outs = {k: SymArray(k, complex_=True, shape=(R("n_r"), R("n1"), R("n2"), R("n3"))) for k in ("radial_displacement", "polar_displacement", "azimuthal_displacement")}
    env = dict(tidal_potential=U, tidal_potential_partial_theta=Ut, tidal_potential_partial_phi=Up, colatitude=R("colatitude"), ri=ri,
               y1=CArr("y1", y1, (R("n_r"),)), y3=CArr("y3", y3, (R("n_r"),)), **outs)
    npx = Namespace("np", {"sin": lambda ex, node, x: sT})
    fr, ex, paths = run_fragment(b, fn, pre_st + loops[0].body, "generic_slice", env, [sp.Gt(sT, 0)], globals_env=dict(np=npx))
    if not paths:
        return
    p = paths[0]
    want = {"radial_displacement": y1 * U, "polar_displacement": y3 * Ut, "azimuthal_displacement": y3 * Up / Cx(sT)}
    for k, spec in want.items():
        wr = outs[k].writes
        ok = len(wr) == 1 and str(wr[0][0][0]) == "ri_idx" and all(str(x) == ":" for x in wr[0][0][1:])
        ground(b, f"{fr.key}::frame:{k}", fr.key, f"frame: {k} written exactly at [ri, :, :, :]", ok, detail=str([w[0] for w in wr]))
        if ok:
            v = wr[0][1]
            b.add(Obligation(oid=f"{fr.key}::ensures:{k}", fn=fr.key, clause={"radial_displacement": "u_r == y1 U", "polar_displacement": "u_theta == y3 dU/dtheta",
                                                                                "azimuthal_displacement": "u_phi == y3 dU/dphi / sin(theta)"}[k],
                             goal=sp.And(sp.Eq(Cx.of(v).re, spec.re), sp.Eq(Cx.of(v).im, spec.im)), hyps=[sp.Gt(sT, 0)] + p.hyps))


_C15_NATIVE = r'''
import numpy as np
from TidalPy.tides.multilayer.stress_strain import calculate_strain_stress
from TidalPy.tides.heating import calculate_volumetric_heating
fails = []
lon = np.asarray([0.3, 1.1, 2.5]); col = np.asarray([0.4, 1.0, 2.2]); tm = np.asarray([0.0, 10.0])
LON, COL, TM = np.meshgrid(lon, col, tm, indexing="ij")
s, c = np.sin(COL), np.cos(COL)
def harmonic(l):
    ph = np.exp(2j * LON) * np.exp(1j * 1e-3 * TM)
    if l == 2:
        U, Ut, Utt = 3 * s**2 * ph, 6 * s * c * ph, 6 * (c**2 - s**2) * ph
    else:
        U, Ut, Utt = 15 * c * s**2 * ph, 15 * (2 * s * c**2 - s**3) * ph, 15 * (2 * c**3 - 7 * s**2 * c) * ph
    return U, Ut, 2j * U, Utt, -4 * U, 2j * Ut
rng = np.random.default_rng(1)
nr = 4
radius = np.linspace(2.0e5, 8.0e5, nr)
for l in (2, 3):
    U, Ut, Up, Utt, Upp, Utp = harmonic(l)
    y = rng.normal(size=(6, nr)) + 1j * rng.normal(size=(6, nr))
    for label, mu in (("rock", np.full(nr, 5.0e10 + 2.0e9j)), ("soft maxwell", np.asarray([5.0e10 + 2e9j, 1.0e-14 + 3.0e3j, 4.0e-16 + 40.0j, 5.0e10 + 1e8j]))):
        K = np.full(nr, 1.2e11 + 0j)
        strains, stresses = calculate_strain_stress(U, Ut, Up, Utt, Upp, Utp, y, lon, col, tm, radius, mu, K, 1e-3, order_l=l)
        lam = K - 2 * mu / 3
        tr = strains[0] + strains[1] + strains[2]
        for k in range(6):
            want = 2 * mu[:, None, None, None] * strains[k] + (lam[:, None, None, None] * tr if k < 3 else 0)
            if not np.allclose(stresses[k], want, rtol=1e-9, atol=1e-12 * np.max(np.abs(want))): fails.append(["strain_stress", "l=%d %s: Hooke's law component %d" % (l, label, k)])
        for k, want, nm in ((0, y[1][:, None, None, None] * U[None], "sigma_rr == y2 U"), (3, y[3][:, None, None, None] * Ut[None], "sigma_rtheta == y4 U_theta"),
                            (4, y[3][:, None, None, None] * Up[None] / s[None], "sigma_rphi == y4 U_phi / sin")):
            if not np.allclose(stresses[k], want, rtol=1e-8, atol=1e-10 * np.max(np.abs(want))): fails.append(["strain_stress", "l=%d %s: %s" % (l, label, nm)])
        before = stresses.copy()
        h1 = calculate_volumetric_heating(stresses, strains)
        if not np.array_equal(before, stresses): fails.append(["heating", "l=%d %s: calculate_volumetric_heating modified its stress argument" % (l, label)])
        h2 = calculate_volumetric_heating(stresses, strains)
        if not np.allclose(h1, h2, rtol=1e-12): fails.append(["heating", "l=%d %s: heating not reproducible on a second call" % (l, label)])
        if np.any(h1 < 0) or np.iscomplexobj(h1): fails.append(["heating", "negative or complex heating"])
result = dict(failures=fails[:8], n=len(fails))
'''


def _replay_c15(ob, res):
    from tpv import native
    out = native.run(dict(code=_C15_NATIVE), timeout=900)
    rec = dict(replayed=True, native=out)
    if "result" not in out:
        rec["confirmed"] = True
        rec["detail"] = "the real functions raised on the sample inputs"
        return rec
    fam = "heating" if "heating.py" in ob.fn else "strain_stress"
    hits = [f for f in out["result"]["failures"] if f[0] == fam]
    rec["confirmed"] = bool(hits)
    rec["detail"] = hits[:3]
    return rec
