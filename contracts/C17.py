"""C17 — conversions are exact inverses, compiled and interpreted twins agree, orbit object obeys Kepler III.

(A) inverse pairs: f(g(x)) == x proved on the composition of the two real bodies (x > 0).
(B) twins: the symbolic term of each function in conversions.py equals the term of its cf_* twin in
    conversions_x.pyx (constants compared as the exact decimals they spell).
(C) orbit invariant: after every public OrbitBase setter / set_state with exactly one of (a, n, P), the stored
    a_i, n_i, P_i satisfy n^2 a^3 = G(M+m_i) and P = 2 pi/(86400 n); other worlds' entries unchanged (frame).
"""
import ast
import sympy as sp
from tpv.kit import *
from tpv import terms as T
from tpv.symex import ClassModel, MethodFn, Obj, Exec, SymExError, Contract
from contracts.common import G, orbital_motion2semi_a_contract

FP = "TidalPy/utilities/conversions/conversions.py"
FX = "TidalPy/utilities/conversions/conversions_x.pyx"
FO = "TidalPy/structures/orbit/base.py"

x = R("x")
n, a_, M, m = R("orbital_motion"), R("semi_major_axis"), R("host_mass"), R("target_mass")
GENV = dict(G=G, BadValueError="BadValueError", M_PI=T.PI, sqrt=None, cbrt=None)


def genv_py():
    return dict(G=G)


def genv_pyx():
    from tpv.symex import _sh_sqrt, _sh_cbrt
    return dict(G=G, M_PI=T.PI, sqrt=_sh_sqrt, cbrt=_sh_cbrt)


PAIRS = [("m2Au", "Au2m"), ("Au2m", "m2Au"), ("rads2days", "days2rads"), ("days2rads", "rads2days"), ("sec2myr", "myr2sec"), ("myr2sec", "sec2myr")]
SINGLE = ["m2Au", "Au2m", "rads2days", "days2rads", "sec2myr", "myr2sec"]


def term_of(b, relpath, name, args, pre, genv, inline=None):
    fn, ex, paths = run_fn(b, relpath, name, args, pre, globals_env=genv, inline=inline or {})
    if not paths:
        return fn, None
    ret = [p for p in paths if p.outcome == "return"]
    no_raise(b, fn, paths, pre)
    if not ret:
        b.subset_exits.append(f"{fn.key}: no returning path")
        return fn, None
    if len(ret) > 1:
        # several returning paths: the clauses are stated on each; pairs / twins use the first path and every other path must return the same term
        for i, p in enumerate(ret[1:], 1):
            b.add(Obligation(oid=f"{fn.key}::ensures:paths_agree@path{i}", fn=fn.key, clause="every returning path computes the same closed form (the contract of this function is branch-free)",
                             goal=sp.Eq(sp.sympify(p.value), sp.sympify(ret[0].value)), hyps=list(pre) + p.hyps))
    return fn, ret[0]


def build(tier="quick", seed=0):
    b = Bundle("C17")
    b.const_values[G] = 6.6743e-11
    pre = [sp.Gt(x, 0)]
    terms_py, terms_pyx = {}, {}
    # (A) + terms for (B)
    for name in SINGLE:
        fn, p = term_of(b, FP, name, {Fn(FP, name).params[0]: x}, pre, genv_py())
        terms_py[name] = p.value if p else None
        fn, p = term_of(b, FX, "cf_" + name, {Fn(FX, "cf_" + name).params[0]: x}, pre, genv_pyx())
        terms_pyx[name] = p.value if p else None
    for f, g in PAIRS:
        for lbl, tt in (("py", terms_py), ("pyx", terms_pyx)):
            if tt[f] is None or tt[g] is None:
                continue
            comp = tt[f].subs(x, tt[g])
            key = (FP if lbl == "py" else FX) + "::" + ("" if lbl == "py" else "cf_") + f
            b.add(Obligation(oid=f"{key}::inverse_of:{g}", fn=key, clause=f"{f}({g}(x)) == x for x > 0 ({lbl})",
                             goal=sp.Eq(comp, x), hyps=pre))
    # (B) twins
    for name in SINGLE:
        if terms_py[name] is None or terms_pyx[name] is None:
            continue
        b.add(Obligation(oid=f"{FX}::cf_{name}::twin", fn=f"{FX}::cf_{name}",
                         clause=f"compiled cf_{name}(x) == interpreted {name}(x) as exact terms", goal=sp.Eq(terms_pyx[name], terms_py[name]), hyps=pre,
                         meta=dict(py=str(terms_py[name]), pyx=str(terms_pyx[name]))))
    b.replayer(f"{FX}::cf_*::twin", _replay_twin)

    # Kepler pair
    prek = [sp.Gt(n, 0), sp.Gt(a_, 0), sp.Gt(M, 0), sp.Ge(m, 0), sp.Gt(G, 0)]
    kep = {}
    for lbl, F, pref, genv in (("py", FP, "", genv_py()), ("pyx", FX, "cf_", genv_pyx())):
        a_args = dict(orbital_motion=n, host_mass=M, target_mass=m)
        n_args = dict(semi_major_axis=a_, host_mass=M, target_mass=m)
        if lbl == "pyx":
            a_args["G_to_use"] = G
            n_args["G_to_use"] = G
        fa, pa = term_of(b, F, pref + "orbital_motion2semi_a", a_args, prek, genv)
        fnn, pn = term_of(b, F, pref + "semi_a2orbital_motion", n_args, prek, genv)
        kep[lbl] = (pa.value if pa else None, pn.value if pn else None)
        if pa:
            ensure(b, fa, "kepler", [pa], lambda p: sp.And(sp.Eq(p.value ** 3 * n ** 2, G * (M + m)), sp.Gt(p.value, 0)), prek,
                   clause="ensures a^3 n^2 == G(M+m) and a > 0  (Kepler III with both masses)")
        if pn:
            ensure(b, fnn, "kepler", [pn], lambda p: sp.And(sp.Eq(p.value ** 2 * a_ ** 3, G * (M + m)), sp.Gt(p.value, 0)), prek,
                   clause="ensures n^2 a^3 == G(M+m) and n > 0")
        if pa and pn:
            back = pn.value.subs(a_, pa.value)
            b.add(Obligation(oid=f"{F}::{pref}semi_a2orbital_motion::inverse_of:orbital_motion2semi_a", fn=f"{F}::{pref}semi_a2orbital_motion",
                             clause="semi_a2orbital_motion(orbital_motion2semi_a(n, M, m), M, m) == n", goal=sp.Eq(back, n), hyps=prek))
            fwd = pa.value.subs(n, pn.value)
            b.add(Obligation(oid=f"{F}::{pref}orbital_motion2semi_a::inverse_of:semi_a2orbital_motion", fn=f"{F}::{pref}orbital_motion2semi_a",
                             clause="orbital_motion2semi_a(semi_a2orbital_motion(a, M, m), M, m) == a", goal=sp.Eq(fwd, a_), hyps=prek))
    if all(v is not None for v in kep["py"] + kep["pyx"]):
        b.add(Obligation(oid=f"{FX}::cf_orbital_motion2semi_a::twin", fn=f"{FX}::cf_orbital_motion2semi_a", clause="compiled == interpreted (same G)",
                         goal=sp.Eq(kep["pyx"][0], kep["py"][0]), hyps=prek))
        b.add(Obligation(oid=f"{FX}::cf_semi_a2orbital_motion::twin", fn=f"{FX}::cf_semi_a2orbital_motion", clause="compiled == interpreted (same G)",
                         goal=sp.Eq(kep["pyx"][1], kep["py"][1]), hyps=prek))
    # the python-visible def wrappers of the .pyx forward their arguments unchanged and validate the masses
    for wname in SINGLE:
        wrapper_forwards(b, wname)
    # argument validation of the interpreted Kepler helpers: bad masses raise
    for name, arg in (("orbital_motion2semi_a", "orbital_motion"), ("semi_a2orbital_motion", "semi_major_axis")):
        fn, ex, paths = run_fn(b, FP, name, {arg: x, "host_mass": M, "target_mass": m}, [sp.Gt(x, 0), sp.Gt(G, 0)], globals_env=genv_py())
        if paths:
            for i, p in enumerate(paths):
                ok_masses = sp.And(sp.Gt(M, 0), sp.Ge(m, 0))
                if p.outcome == "return":
                    b.add(Obligation(oid=f"{fn.key}::ensures:returns_only_for_valid_masses@path{i}", fn=fn.key,
                                     clause="returns only when host_mass > 0 and target_mass >= 0", goal=ok_masses, hyps=[sp.Gt(x, 0), sp.Gt(G, 0)] + p.hyps))
    constants(b)
    orbit_invariant(b)
    b.replayer(f"{FO}::OrbitBase.*", _replay_orbit)
    b.replayer(f"{FP}::*", _replay_kepler_fn)
    b.assume("cbrt/sqrt enter through the axioms cbrt(x)^3 = x, sqrt(x)^2 = x, sqrt(x) >= 0, positivity; 'to rounding' in the statement is not quantified (doubles as reals)")
    b.assume("np.pi and libc M_PI denote the same real number pi_")
    return b


def wrapper_forwards(b, name):
    """def wrapper in the .pyx returns cf_name(arg) unchanged"""
    fn = Fn(FX, name)
    b.add_fn(fn)
    body = [s for s in fn.node.body if not (isinstance(s, ast.Expr) and isinstance(s.value, ast.Constant))]
    ok = (len(body) == 1 and isinstance(body[0], ast.Return) and isinstance(body[0].value, ast.Call)
          and ast.unparse(body[0].value.func) == "cf_" + name
          and [ast.unparse(a) for a in body[0].value.args] == fn.params and not body[0].value.keywords)
    simple = len(body) == 1 and isinstance(body[0], ast.Return) and isinstance(body[0].value, ast.Call)
    structural(b, f"{fn.key}::forwards", fn.key, f"python wrapper {name} returns cf_{name}(its argument) unchanged", "ok" if ok else ("wrong" if simple else "unknown"),
               detail=ast.unparse(fn.node)[:200])


def constants(b):
    """G used by the two twins: scipy.constants.G (interpreted) vs the literal in constants_x.pyx"""
    from tpv import native
    from tpv.extract import source
    src = source("TidalPy/utilities/constants_x.pyx")
    lit = None
    for st in src.tree.body:
        if isinstance(st, ast.Assign) and isinstance(st.targets[0], ast.Name) and st.targets[0].id == "G":
            lit = T.dec(ast.get_source_segment(src.text, st.value))
    r = native.run(dict(code="from TidalPy.constants import G\nresult = repr(G)"))
    pyG = T.dec(r["result"]) if "result" in r else None
    ground(b, "TidalPy/utilities/constants_x.pyx::G::twin", "TidalPy/utilities/constants_x.pyx::G",
           "compiled G literal == interpreted TidalPy.constants.G (scipy value read natively)", lit is not None and lit == pyG,
           detail=f"pyx literal {lit}, python value {pyG}")
    b.trust("scipy.constants.G is read by importing TidalPy.constants under /venv/bin/python")


def _replay_twin(ob, res):
    from tpv import native
    name = ob.fn.split("::cf_")[1]
    xv = frac_model(res.get("model")).get("x", 1.0)
    xv = float(xv) if not isinstance(xv, str) else 1.0
    r1 = native.call("TidalPy.utilities.conversions.conversions", name, [xv])
    r2 = native.call("TidalPy.utilities.conversions.conversions_x", name, [xv])
    rec = dict(replayed=True, x=xv, interpreted=r1, compiled=r2)
    try:
        a1, a2 = native.unc(r1["result"]), native.unc(r2["result"])
        rec["confirmed"] = abs(a1 - a2) > 1e-12 * abs(a1)
        rec["relative_difference"] = abs(a1 - a2) / abs(a1)
    except Exception:
        rec["confirmed"] = False
    rec["note"] = "compiled module is the binary built from the pinned .pyx"
    return rec


# ---------------------------------------------------------------------------------------------
def orbit_invariant(b):
    """Kepler(slot) after every public setter, on a star + host + 2 moons orbit, for every way of addressing a world (index, world instance,
    host instance = the host's orbit about its tide raiser) and for stellar-orbit updates; all other slots framed.  world_signature_to_index is
    executed from the real source."""
    cls = ClassModel("OrbitBase", FO)
    Ms, Mh, m1, m2 = R("M_star"), R("M_host"), R("m_1"), R("m_2")
    pre = [sp.Gt(x_, 0) for x_ in (Ms, Mh, m1, m2, G)]
    val = R("new_value")
    pre_v = pre + [sp.Gt(val, 0)]

    def rads2days_c():
        return Contract("rads2days", lambda w_: [("frequency != 0", sp.Ne(w_, 0))], lambda res, w_: [sp.Eq(res * 86400 * w_, 2 * T.PI)])

    def days2rads_c():
        return Contract("days2rads", lambda d: [("days != 0", sp.Ne(d, 0))], lambda res, d: [sp.Eq(res * 86400 * d, 2 * T.PI), sp.Gt(res * d, 0)])

    def semia_c():
        def req(a, hm, tm=sp.Integer(0)):
            return [("host_mass > 0", sp.Gt(hm, 0)), ("target_mass >= 0", sp.Ge(tm, 0)), ("a > 0", sp.Gt(a, 0))]

        def ens(res, a, hm, tm=sp.Integer(0)):
            return [sp.Eq(res ** 2 * a ** 3, G * (hm + tm)), sp.Gt(res, 0)]
        return Contract("semi_a2orbital_motion", req, ens, result=lambda *x_: fresh("n"))

    def noop_c(name):
        return Contract(name, None, None, result=lambda *a, **k: None)
    contracts = {"rads2days": rads2days_c(), "days2rads": days2rads_c(), "semi_a2orbital_motion": semia_c(),
                 "orbital_motion2semi_a": orbital_motion2semi_a_contract(), ".orbit_changed": noop_c(".orbit_changed")}
    genv = dict(all_world_types="WORLD_TYPES", BadWorldSignature="BadWorldSignature", BadWorldSignatureType="BadWorldSignatureType", TidalPyOrbitError="TidalPyOrbitError")

    def mk_orbit(sync):
        masses = [Mh, m1, m2]
        worlds = [Obj(None, mass=masses[i], force_spin_sync=sync, name=f"w{i}", set_spin_frequency=(lambda ex, node, *a, **k: None),
                      orbit_spin_changed=(lambda ex, node, *a, **k: None)) for i in range(3)]
        star = Obj(None, mass=Ms, name="star")
        old = dict(a=[R(f"a{i}_old") for i in range(3)], n=[R(f"n{i}_old") for i in range(3)], P=[R(f"P{i}_old") for i in range(3)])
        o = Obj(cls, _semi_major_axes=list(old["a"]), _orbital_frequencies=list(old["n"]), _orbital_periods=list(old["P"]),
                _eccentricities=[R(f"e{i}") for i in range(3)], _tidal_objects=worlds, _tidal_host=worlds[0], _star=star, _host_tide_raiser=worlds[2],
                _star_host=False, _all_tidal_world_orbit_index_by_instance={worlds[1]: sp.Integer(1), worlds[2]: sp.Integer(2)},
                _all_tidal_world_orbit_index_by_name={"w1": sp.Integer(1), "w2": sp.Integer(2)})
        return o, old, worlds, star

    def check(label, method, argname, via_state, addressing, stellar):
        for sync in (False, True):
            o, old, worlds, star = mk_orbit(sync)
            sig = {"index": sp.Integer(1), "instance": worlds[1], "host": worlds[0], "name": "w1"}[addressing]
            slot = 0 if stellar else {"index": 1, "instance": 1, "host": 2, "name": 1}[addressing]
            Mprimary = Ms if stellar else Mh
            Msecondary = [Mh, m1, m2][slot]
            c, node = cls.lookup("methods", method)
            if node is None:
                b.subset_exits.append(f"{FO}::OrbitBase.{method}: method not found")
                return
            mfn = MethodFn(c, node)
            b.functions[mfn.key] = mfn.info()
            ex = Exec(mfn, pre=pre_v, contracts=contracts, globals_env=genv, opts=dict(max_recursion=3))
            env = dict(self=o, world_signature=sig)
            env[argname] = val
            if stellar:
                env["set_stellar_orbit"] = True
            try:
                paths = ex.run(env)
            except SymExError as e:
                b.subset_exits.append(f"{mfn.key} ({label}): {e}")
                return
            b.absorb_exec(ex)
            for f in ex.called:
                b.functions.setdefault(f, dict(function=f, note="executed inline from the real class source"))
            tag = f"{mfn.key}::{label}:sync={int(sync)}"
            if len(paths) != 1:
                b.subset_exits.append(f"{mfn.key} ({label}): {len(paths)} paths over one shared object store")
                continue
            p = paths[0]
            if p.outcome != "return":
                b.add(Obligation(oid=tag + "::noraise", fn=mfn.key, clause="public setter does not raise for a valid single quantity", goal=sp.false, hyps=pre_v + p.hyps, meta=dict(raised=repr(p.value))))
                continue
            A, N, P = o._attrs["_semi_major_axes"], o._attrs["_orbital_frequencies"], o._attrs["_orbital_periods"]
            kep = sp.And(sp.Eq(N[slot] ** 2 * A[slot] ** 3, G * (Mprimary + Msecondary)), sp.Eq(P[slot] * 86400 * N[slot], 2 * T.PI))
            b.add(Obligation(oid=tag + "::kepler", fn=mfn.key,
                             clause="ensures n^2 a^3 == G(M_primary + m) and P == 2 pi/(86400 n) in the slot the signature addresses, with the masses of that pair", goal=kep,
                             hyps=pre_v + p.hyps, meta=dict(a=str(A[slot]), n=str(N[slot]), P=str(P[slot]), slot=slot)))
            frame = sp.And(*[sp.Eq(X[j], old[k][j]) for X, k in ((A, "a"), (N, "n"), (P, "P")) for j in range(3) if j != slot])
            b.add(Obligation(oid=tag + "::frame", fn=mfn.key, clause="frame: a, n, P of every other slot unchanged", goal=frame, hyps=pre_v + p.hyps))

    setters = [("set_semi_major_axis", "semi_major_axis"), ("set_orbital_frequency", "orbital_frequency"), ("set_orbital_period", "orbital_period")]
    for addressing in ("index", "instance", "host", "name"):
        for meth, arg in setters:
            check(f"{meth}[{addressing}]", meth, arg, False, addressing, False)
            check(f"set_state:{arg}[{addressing}]", "set_state", arg, True, addressing, False)
    for meth, arg in setters:
        check(f"{meth}[host;stellar]", meth, arg, False, "host", True)
        check(f"set_state:{arg}[host;stellar]", "set_state", arg, True, "host", True)
    # frame assumption on orbit_changed: it must not store into the orbital arrays
    for cname, rel in (("OrbitBase", FO), ("PhysicsOrbit", "TidalPy/structures/orbit/physics.py")):
        cm = ClassModel(cname, rel)
        node = cm.methods.get("orbit_changed")
        if node is None:
            continue
        writes = [ast.unparse(t) for s_ in ast.walk(node) if isinstance(s_, (ast.Assign, ast.AugAssign)) for t in (s_.targets if isinstance(s_, ast.Assign) else [s_.target])
                  if any(k in ast.unparse(t) for k in ("_semi_major_axes", "_orbital_frequencies", "_orbital_periods", "semi_major_axes", "orbital_frequencies", "orbital_periods"))]
        ground(b, f"{rel}::{cname}.orbit_changed::frame", f"{rel}::{cname}.orbit_changed",
               "orbit_changed does not store into the a / n / P arrays (frame used by the setter contracts)", not writes, detail=str(writes))
    b.assume("world.set_spin_frequency / orbit_spin_changed do not write the orbit's a / n / P arrays (other classes; not executed here)")
    b.assume("orbit invariant is proved per setter and per way of addressing a world (index, name, instance, host instance, stellar orbit); the statement's 'all sequences of updates' follows by induction since each setter re-establishes the invariant for its slot and frames the others")


_ORBIT_REPLAY = r'''
import numpy as np, math
from TidalPy.structures import build_world
from TidalPy.structures.orbit import PhysicsOrbit
cfg = args
G = 6.6743e-11
star = build_world("55cnc"); host = build_world("earth_simple"); m1 = build_world("io_simple"); m2 = build_world("europa_simple") if False else build_world("io_simple")
m2 = __import__("copy").deepcopy(m1)
try:
    m2.name = "io2"
except Exception:
    pass
orbit = PhysicsOrbit(star, tidal_host=host, tidal_bodies=[m1, m2], host_tide_raiser=m2)
for w, P in ((m1, 1.77), (m2, 3.55)):
    orbit.set_state(w, orbital_period=P, eccentricity=0.01)
try:
    orbit.set_orbital_period(host, 365.0, set_stellar_orbit=True)
except Exception as ex:
    pass
def snap():
    return [[float(np.asarray(x[i]).ravel()[0]) if x[i] is not None else None for i in range(len(orbit.tidal_objects))]
            for x in (orbit.semi_major_axes, orbit.orbital_frequencies, orbit.orbital_periods)]
before = snap()
sig = {"index": 1, "instance": m1, "host": host, "name": m1.name}[cfg["addressing"]]
kw = {"set_stellar_orbit": True} if cfg["stellar"] else {}
val = cfg["value"]
if cfg["method"] == "set_state":
    orbit.set_state(sig, **{cfg["arg"]: val}, **kw)
else:
    getattr(orbit, cfg["method"])(sig, val, **kw)
after = snap()
objs = orbit.tidal_objects
slot = 0 if cfg["stellar"] else (objs.index(m2) if cfg["addressing"] == "host" else objs.index(m1))
Mp = star.mass if cfg["stellar"] else host.mass
a, n, P = after[0][slot], after[1][slot], after[2][slot]
kepler_rel = abs(n * n * a ** 3 - G * (Mp + objs[slot].mass)) / (G * (Mp + objs[slot].mass))
period_rel = abs(P * 86400 * n - 2 * math.pi) / (2 * math.pi)
frame_bad = [(k, j) for k in range(3) for j in range(len(objs)) if j != slot and before[k][j] != after[k][j]]
result = {"slot": slot, "kepler_rel": kepler_rel, "period_rel": period_rel, "frame_changes": frame_bad}
'''


def _replay_orbit(ob, res):
    import re
    from tpv import native
    m = re.search(r"::(set_\w+?)(?::(\w+))?\[(\w+)(;stellar)?\]:sync=", ob.oid)
    if not m:
        return dict(replayed=False, reason="cannot parse the scenario from the obligation id")
    meth, arg, addressing, stellar = m.group(1), m.group(2), m.group(3), bool(m.group(4))
    if meth != "set_state":
        arg = {"set_semi_major_axis": "semi_major_axis", "set_orbital_frequency": "orbital_frequency", "set_orbital_period": "orbital_period"}[meth]
    value = {"semi_major_axis": 6.0e8, "orbital_frequency": 2.9e-5, "orbital_period": 2.6}[arg] if not stellar else {"semi_major_axis": 2.0e11, "orbital_frequency": 1.5e-7, "orbital_period": 500.0}[arg]
    out = native.run(dict(code=_ORBIT_REPLAY, args=dict(method=meth, arg=arg, addressing=addressing, stellar=stellar, value=value)), timeout=600)
    rec = dict(replayed=True, scenario=dict(method=meth, arg=arg, addressing=addressing, stellar=stellar, value=value), native=out)
    try:
        v = out["result"]
        rec["confirmed"] = bool(v["kepler_rel"] > 1e-9 or v["period_rel"] > 1e-9 or v["frame_changes"])
    except Exception:
        rec["confirmed"] = "exception" in out
    return rec


def _replay_kepler_fn(ob, res):
    from tpv import native
    code = r'''
import numpy as np
from TidalPy.utilities.conversions.conversions import orbital_motion2semi_a, semi_a2orbital_motion
G = 6.6743e-11
bad = []
for M, m in ((5.97e24, 7.3e22), (7.3e22, 5.97e24), (1.0, 0.0), (2e30, 1.9e27)):
    for n in (1e-9, 4.1e-5, 3.0):
        a = orbital_motion2semi_a(n, M, m)
        n2 = semi_a2orbital_motion(a, M, m)
        if abs(n2 - n) > 1e-9 * n or abs(n * n * a ** 3 - G * (M + m)) > 1e-9 * G * (M + m): bad.append([M, m, n, float(a), float(n2)])
result = bad[:4]
'''
    out = native.run(dict(code=code), timeout=300)
    return dict(replayed=True, native=out, confirmed=bool(out.get("result")) or "exception" in out)
