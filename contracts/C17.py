"""C17 — conversions are exact inverses, compiled and interpreted twins agree, orbit object obeys Kepler III.

(A) inverse pairs: f(g(x)) == x proved on the composition of the two real bodies (x > 0).
(B) twins: the symbolic term of each function in conversions.py equals the term of its cf_* twin in
    conversions_x.pyx (constants compared as the exact decimals they spell).
(C) orbit invariant: after every public OrbitBase setter / set_state with exactly one of (a, n, P), the stored
    a_i, n_i, P_i satisfy n^2 a^3 = G(M+m_i) and P = 2 pi/(86400 n); other worlds' entries unchanged (frame).
"""
import ast
import sympy as sp
from tpv.kit import *
from tpv import terms as T
from tpv.symex import ClassModel, MethodFn, Obj, Exec, SymExError, Contract
from contracts.common import G, orbital_motion2semi_a_contract

FP = "TidalPy/utilities/conversions/conversions.py"
FX = "TidalPy/utilities/conversions/conversions_x.pyx"
FO = "TidalPy/structures/orbit/base.py"

x = R("x")
n, a_, M, m = R("orbital_motion"), R("semi_major_axis"), R("host_mass"), R("target_mass")
GENV = dict(G=G, BadValueError="BadValueError", M_PI=T.PI, sqrt=None, cbrt=None)


def genv_py():
    return dict(G=G)


def genv_pyx():
    from tpv.symex import _sh_sqrt, _sh_cbrt
    return dict(G=G, M_PI=T.PI, sqrt=_sh_sqrt, cbrt=_sh_cbrt)


PAIRS = [("m2Au", "Au2m"), ("Au2m", "m2Au"), ("rads2days", "days2rads"), ("days2rads", "rads2days"), ("sec2myr", "myr2sec"), ("myr2sec", "sec2myr")]
SINGLE = ["m2Au", "Au2m", "rads2days", "days2rads", "sec2myr", "myr2sec"]


def term_of(b, relpath, name, args, pre, genv, inline=None):
    fn, ex, paths = run_fn(b, relpath, name, args, pre, globals_env=genv, inline=inline or {})
    if not paths:
        return fn, None
    ret = [p for p in paths if p.outcome == "return"]
    no_raise(b, fn, paths, pre)
    if len(ret) != 1:
        b.subset_exits.append(f"{fn.key}: expected a single returning path, got {len(ret)}")
        return fn, None
    return fn, ret[0]


def build(tier="quick", seed=0):
    b = Bundle("C17")
    b.const_values[G] = 6.6743e-11
    pre = [sp.Gt(x, 0)]
    terms_py, terms_pyx = {}, {}
    # (A) + terms for (B)
    for name in SINGLE:
        fn, p = term_of(b, FP, name, {Fn(FP, name).params[0]: x}, pre, genv_py())
        terms_py[name] = p.value if p else None
        fn, p = term_of(b, FX, "cf_" + name, {Fn(FX, "cf_" + name).params[0]: x}, pre, genv_pyx())
        terms_pyx[name] = p.value if p else None
    for f, g in PAIRS:
        for lbl, tt in (("py", terms_py), ("pyx", terms_pyx)):
            if tt[f] is None or tt[g] is None:
                continue
            comp = tt[f].subs(x, tt[g])
            key = (FP if lbl == "py" else FX) + "::" + ("" if lbl == "py" else "cf_") + f
            b.add(Obligation(oid=f"{key}::inverse_of:{g}", fn=key, clause=f"{f}({g}(x)) == x for x > 0 ({lbl})",
                             goal=sp.Eq(comp, x), hyps=pre))
    # (B) twins
    for name in SINGLE:
        if terms_py[name] is None or terms_pyx[name] is None:
            continue
        b.add(Obligation(oid=f"{FX}::cf_{name}::twin", fn=f"{FX}::cf_{name}",
                         clause=f"compiled cf_{name}(x) == interpreted {name}(x) as exact terms", goal=sp.Eq(terms_pyx[name], terms_py[name]), hyps=pre,
                         meta=dict(py=str(terms_py[name]), pyx=str(terms_pyx[name]))))
    b.replayer(f"{FX}::cf_*::twin", _replay_twin)

    # Kepler pair
    prek = [sp.Gt(n, 0), sp.Gt(a_, 0), sp.Gt(M, 0), sp.Ge(m, 0), sp.Gt(G, 0)]
    kep = {}
    for lbl, F, pref, genv in (("py", FP, "", genv_py()), ("pyx", FX, "cf_", genv_pyx())):
        a_args = dict(orbital_motion=n, host_mass=M, target_mass=m)
        n_args = dict(semi_major_axis=a_, host_mass=M, target_mass=m)
        if lbl == "pyx":
            a_args["G_to_use"] = G
            n_args["G_to_use"] = G
        fa, pa = term_of(b, F, pref + "orbital_motion2semi_a", a_args, prek, genv)
        fnn, pn = term_of(b, F, pref + "semi_a2orbital_motion", n_args, prek, genv)
        kep[lbl] = (pa.value if pa else None, pn.value if pn else None)
        if pa:
            ensure(b, fa, "kepler", [pa], lambda p: sp.And(sp.Eq(p.value ** 3 * n ** 2, G * (M + m)), sp.Gt(p.value, 0)), prek,
                   clause="ensures a^3 n^2 == G(M+m) and a > 0  (Kepler III with both masses)")
        if pn:
            ensure(b, fnn, "kepler", [pn], lambda p: sp.And(sp.Eq(p.value ** 2 * a_ ** 3, G * (M + m)), sp.Gt(p.value, 0)), prek,
                   clause="ensures n^2 a^3 == G(M+m) and n > 0")
        if pa and pn:
            back = pn.value.subs(a_, pa.value)
            b.add(Obligation(oid=f"{F}::{pref}semi_a2orbital_motion::inverse_of:orbital_motion2semi_a", fn=f"{F}::{pref}semi_a2orbital_motion",
                             clause="semi_a2orbital_motion(orbital_motion2semi_a(n, M, m), M, m) == n", goal=sp.Eq(back, n), hyps=prek))
            fwd = pa.value.subs(n, pn.value)
            b.add(Obligation(oid=f"{F}::{pref}orbital_motion2semi_a::inverse_of:semi_a2orbital_motion", fn=f"{F}::{pref}orbital_motion2semi_a",
                             clause="orbital_motion2semi_a(semi_a2orbital_motion(a, M, m), M, m) == a", goal=sp.Eq(fwd, a_), hyps=prek))
    if all(v is not None for v in kep["py"] + kep["pyx"]):
        b.add(Obligation(oid=f"{FX}::cf_orbital_motion2semi_a::twin", fn=f"{FX}::cf_orbital_motion2semi_a", clause="compiled == interpreted (same G)",
                         goal=sp.Eq(kep["pyx"][0], kep["py"][0]), hyps=prek))
        b.add(Obligation(oid=f"{FX}::cf_semi_a2orbital_motion::twin", fn=f"{FX}::cf_semi_a2orbital_motion", clause="compiled == interpreted (same G)",
                         goal=sp.Eq(kep["pyx"][1], kep["py"][1]), hyps=prek))
    # the python-visible def wrappers of the .pyx forward their arguments unchanged and validate the masses
    for wname in SINGLE:
        wrapper_forwards(b, wname)
    # argument validation of the interpreted Kepler helpers: bad masses raise
    for name, arg in (("orbital_motion2semi_a", "orbital_motion"), ("semi_a2orbital_motion", "semi_major_axis")):
        fn, ex, paths = run_fn(b, FP, name, {arg: x, "host_mass": M, "target_mass": m}, [sp.Gt(x, 0), sp.Gt(G, 0)], globals_env=genv_py())
        if paths:
            for i, p in enumerate(paths):
                ok_masses = sp.And(sp.Gt(M, 0), sp.Ge(m, 0))
                if p.outcome == "return":
                    b.add(Obligation(oid=f"{fn.key}::ensures:returns_only_for_valid_masses@path{i}", fn=fn.key,
                                     clause="returns only when host_mass > 0 and target_mass >= 0", goal=ok_masses, hyps=[sp.Gt(x, 0), sp.Gt(G, 0)] + p.hyps))
    constants(b)
    orbit_invariant(b)
    b.assume("cbrt/sqrt enter through the axioms cbrt(x)^3 = x, sqrt(x)^2 = x, sqrt(x) >= 0, positivity; 'to rounding' in the statement is not quantified (doubles as reals)")
    b.assume("np.pi and libc M_PI denote the same real number pi_")
    return b


def wrapper_forwards(b, name):
    """def wrapper in the .pyx returns cf_name(arg) unchanged"""
    fn = Fn(FX, name)
    b.add_fn(fn)
    body = [s for s in fn.node.body if not (isinstance(s, ast.Expr) and isinstance(s.value, ast.Constant))]
    ok = (len(body) == 1 and isinstance(body[0], ast.Return) and isinstance(body[0].value, ast.Call)
          and ast.unparse(body[0].value.func) == "cf_" + name
          and [ast.unparse(a) for a in body[0].value.args] == fn.params and not body[0].value.keywords)
    ground(b, f"{fn.key}::forwards", fn.key, f"python wrapper {name} returns cf_{name}(its argument) unchanged", ok,
           detail=ast.unparse(fn.node)[:200])


def constants(b):
    """G used by the two twins: scipy.constants.G (interpreted) vs the literal in constants_x.pyx"""
    from tpv import native
    from tpv.extract import source
    src = source("TidalPy/utilities/constants_x.pyx")
    lit = None
    for st in src.tree.body:
        if isinstance(st, ast.Assign) and isinstance(st.targets[0], ast.Name) and st.targets[0].id == "G":
            lit = T.dec(ast.get_source_segment(src.text, st.value))
    r = native.run(dict(code="from TidalPy.constants import G\nresult = repr(G)"))
    pyG = T.dec(r["result"]) if "result" in r else None
    ground(b, "TidalPy/utilities/constants_x.pyx::G::twin", "TidalPy/utilities/constants_x.pyx::G",
           "compiled G literal == interpreted TidalPy.constants.G (scipy value read natively)", lit is not None and lit == pyG,
           detail=f"pyx literal {lit}, python value {pyG}")
    b.trust("scipy.constants.G is read by importing TidalPy.constants under /venv/bin/python")


def _replay_twin(ob, res):
    from tpv import native
    name = ob.fn.split("::cf_")[1]
    xv = frac_model(res.get("model")).get("x", 1.0)
    xv = float(xv) if not isinstance(xv, str) else 1.0
    r1 = native.call("TidalPy.utilities.conversions.conversions", name, [xv])
    r2 = native.call("TidalPy.utilities.conversions.conversions_x", name, [xv])
    rec = dict(replayed=True, x=xv, interpreted=r1, compiled=r2)
    try:
        a1, a2 = native.unc(r1["result"]), native.unc(r2["result"])
        rec["confirmed"] = abs(a1 - a2) > 1e-12 * abs(a1)
        rec["relative_difference"] = abs(a1 - a2) / abs(a1)
    except Exception:
        rec["confirmed"] = False
    rec["note"] = "compiled module is the binary built from the pinned .pyx"
    return rec


# ---------------------------------------------------------------------------------------------
def orbit_invariant(b):
    """Kepler(i) after every public setter, for a 3-body orbit (host 0, worlds 1, 2); target world = 1."""
    cls = ClassModel("OrbitBase", FO)
    masses = [R("M_host"), R("m_1"), R("m_2")]
    pre = [sp.Gt(masses[0], 0), sp.Gt(masses[1], 0), sp.Gt(masses[2], 0), sp.Gt(G, 0)]
    val = R("new_value")
    pre_v = pre + [sp.Gt(val, 0)]

    def rads2days_c():
        return Contract("rads2days", lambda w: [("frequency != 0", sp.Ne(w, 0))], lambda res, w: [sp.Eq(res * 86400 * w, 2 * T.PI)])

    def days2rads_c():
        return Contract("days2rads", lambda d: [("days != 0", sp.Ne(d, 0))], lambda res, d: [sp.Eq(res * 86400 * d, 2 * T.PI), sp.Gt(res * d, 0)])

    def semia_c():
        def req(a, hm, tm=sp.Integer(0)):
            return [("host_mass > 0", sp.Gt(hm, 0)), ("target_mass >= 0", sp.Ge(tm, 0)), ("a > 0", sp.Gt(a, 0))]

        def ens(res, a, hm, tm=sp.Integer(0)):
            return [sp.Eq(res ** 2 * a ** 3, G * (hm + tm)), sp.Gt(res, 0)]
        return Contract("semi_a2orbital_motion", req, ens, result=lambda *x_: fresh("n"))

    def motion_c():
        c = orbital_motion2semi_a_contract()
        return c

    def idx_c():
        # assumed contract: an int signature in 1..N-1 is its own index (body of world_signature_to_index, int branch)
        return Contract(".world_signature_to_index", None, None, result=lambda self, sig, return_tidal_host=False: sig)

    def noop_c(name):
        return Contract(name, None, None, result=lambda *a, **k: None)

    contracts = {"rads2days": rads2days_c(), "days2rads": days2rads_c(), "semi_a2orbital_motion": semia_c(),
                 "orbital_motion2semi_a": motion_c(), ".world_signature_to_index": idx_c(), ".orbit_changed": noop_c(".orbit_changed")}

    def mk_orbit(sync):
        worlds = [Obj(None, mass=masses[i], force_spin_sync=sync, name=f"w{i}", set_spin_frequency=(lambda ex, node, *a, **k: None),
                      orbit_spin_changed=(lambda ex, node, *a, **k: None)) for i in range(3)]
        old = dict(a=[R(f"a{i}_old") for i in range(3)], n=[R(f"n{i}_old") for i in range(3)], P=[R(f"P{i}_old") for i in range(3)],
                   e=[R(f"e{i}_old") for i in range(3)])
        o = Obj(cls, _semi_major_axes=list(old["a"]), _orbital_frequencies=list(old["n"]), _orbital_periods=list(old["P"]),
                _eccentricities=list(old["e"]), _tidal_objects=worlds, _tidal_host=worlds[0], _star=None, _host_tide_raiser=worlds[1],
                _star_host=False)
        return o, old, worlds

    def check(label, method, args, kwargs, changed_e=False):
        for sync in (False, True):
            o, old, worlds = mk_orbit(sync)
            c, node = cls.lookup("methods", method)
            if node is None:
                b.subset_exits.append(f"{FO}::OrbitBase.{method}: method not found")
                return
            mfn = MethodFn(c, node)
            b.functions[mfn.key] = mfn.info()
            ex = Exec(mfn, pre=pre_v, contracts=contracts, opts=dict(max_recursion=2))
            env = dict(self=o)
            env.update(args)
            env.update(kwargs)
            try:
                paths = ex.run(env)
            except SymExError as e:
                b.subset_exits.append(f"{mfn.key} ({label}): {e}")
                return
            b.absorb_exec(ex)
            for f in ex.called:
                b.functions.setdefault(f, dict(function=f, note="executed inline from the real class source"))
            for i, p in enumerate(paths):
                tag = f"{mfn.key}::{label}:sync={int(sync)}" + (f"@path{i}" if len(paths) > 1 else "")
                if p.outcome != "return":
                    b.add(Obligation(oid=tag + "::noraise", fn=mfn.key, clause="public setter does not raise for a valid single quantity",
                                     goal=sp.false, hyps=pre_v + p.hyps, meta=dict(raised=repr(p.value))))
                    continue
                A, N, P = o._attrs["_semi_major_axes"], o._attrs["_orbital_frequencies"], o._attrs["_orbital_periods"]
                kep = sp.And(sp.Eq(N[1] ** 2 * A[1] ** 3, G * (masses[0] + masses[1])), sp.Eq(P[1] * 86400 * N[1], 2 * T.PI))
                b.add(Obligation(oid=tag + "::kepler", fn=mfn.key,
                                 clause="ensures n_i^2 a_i^3 == G(M+m_i) and P_i == 2 pi/(86400 n_i) for the updated world", goal=kep,
                                 hyps=pre_v + p.hyps, meta=dict(a=str(A[1]), n=str(N[1]), P=str(P[1]))))
                frame = sp.And(*[sp.Eq(X[j], old[k][j]) for X, k in ((A, "a"), (N, "n"), (P, "P")) for j in (0, 2)])
                b.add(Obligation(oid=tag + "::frame", fn=mfn.key, clause="frame: entries of the other worlds unchanged", goal=frame, hyps=pre_v + p.hyps))
            # path objects share `o`: re-running paths mutates the same object, so only single-path methods are supported
            if len(paths) > 1:
                b.subset_exits.append(f"{mfn.key} ({label}): {len(paths)} paths over one shared object store")

    one = sp.Integer(1)
    check("set_semi_major_axis", "set_semi_major_axis", dict(world_signature=one, semi_major_axis=val), {})
    check("set_orbital_frequency", "set_orbital_frequency", dict(world_signature=one, orbital_frequency=val), {})
    check("set_orbital_period", "set_orbital_period", dict(world_signature=one, orbital_period=val), {})
    check("set_state:a", "set_state", dict(world_signature=one), dict(semi_major_axis=val))
    check("set_state:n", "set_state", dict(world_signature=one), dict(orbital_frequency=val))
    check("set_state:P", "set_state", dict(world_signature=one), dict(orbital_period=val))
    # frame assumption on orbit_changed: it must not store into the orbital arrays
    for cname, rel in (("OrbitBase", FO), ("PhysicsOrbit", "TidalPy/structures/orbit/physics.py")):
        cm = ClassModel(cname, rel)
        node = cm.methods.get("orbit_changed")
        if node is None:
            continue
        writes = [ast.unparse(t) for s in ast.walk(node) if isinstance(s, (ast.Assign, ast.AugAssign)) for t in (s.targets if isinstance(s, ast.Assign) else [s.target])
                  if any(k in ast.unparse(t) for k in ("_semi_major_axes", "_orbital_frequencies", "_orbital_periods", "semi_major_axes", "orbital_frequencies", "orbital_periods"))]
        ground(b, f"{rel}::{cname}.orbit_changed::frame", f"{rel}::{cname}.orbit_changed",
               "orbit_changed does not store into the a / n / P arrays (frame used by the setter contracts)", not writes, detail=str(writes))
    b.assume("world_signature_to_index: an int signature 1..N-1 is its own index (int branch of the real method; not executed)")
    b.assume("world.set_spin_frequency / orbit_spin_changed do not write the orbit's a / n / P arrays (other classes; not executed here)")
    b.assume("orbit invariant is proved for the world whose setter is called; the statement's 'all sequences of updates' follows by induction since each setter re-establishes the invariant for its world and frames the others")
