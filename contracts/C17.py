"""C17 — conversions are exact inverses, compiled and interpreted twins agree, orbit object obeys Kepler III.

(A) inverse pairs: f(g(x)) == x proved on the composition of the two real bodies (x > 0).
(B) twins: the symbolic term of each function in conversions.py equals the term of its cf_* twin in
    conversions_x.pyx (constants compared as the exact decimals they spell).
(C) orbit invariant: after every public OrbitBase setter / set_state with exactly one of (a, n, P), the stored
    a_i, n_i, P_i satisfy n^2 a^3 = G(M+m_i) and P = 2 pi/(86400 n); other worlds' entries unchanged (frame).
"""
import ast
import sympy as sp
from tpv.kit import *
from tpv import terms as T
from tpv.symex import ClassModel, MethodFn, Obj, Exec, SymExError, Contract
from contracts.common import G, orbital_motion2semi_a_contract

FP = "TidalPy/utilities/conversions/conversions.py"
FX = "TidalPy/utilities/conversions/conversions_x.pyx"
FO = "TidalPy/structures/orbit/base.py"

x = R("x")
n, a_, M, m = R("orbital_motion"), R("semi_major_axis"), R("host_mass"), R("target_mass")
GENV = dict(G=G, BadValueError="BadValueError", M_PI=T.PI, sqrt=None, cbrt=None)


def genv_py():
    return dict(G=G)


def genv_pyx():
    from tpv.symex import _sh_sqrt, _sh_cbrt
    return dict(G=G, M_PI=T.PI, sqrt=_sh_sqrt, cbrt=_sh_cbrt)


PAIRS = [("m2Au", "Au2m"), ("Au2m", "m2Au"), ("rads2days", "days2rads"), ("days2rads", "rads2days"), ("sec2myr", "myr2sec"), ("myr2sec", "sec2myr")]
SINGLE = ["m2Au", "Au2m", "rads2days", "days2rads", "sec2myr", "myr2sec"]


def term_of(b, relpath, name, args, pre, genv, inline=None):
    fn, ex, paths = run_fn(b, relpath, name, args, pre, globals_env=genv, inline=inline or {})
    if not paths:
        return fn, None
    ret = [p for p in paths if p.outcome == "return"]
    no_raise(b, fn, paths, pre)
    if not ret:
        b.subset_exits.append(f"{fn.key}: no returning path")
        return fn, None
    if len(ret) > 1:
        # several returning paths: the clauses are stated on each; pairs / twins use the first path and every other path must return the same term
        for i, p in enumerate(ret[1:], 1):
            b.add(Obligation(oid=f"{fn.key}::ensures:paths_agree@path{i}", fn=fn.key, clause="every returning path computes the same closed form (the contract of this function is branch-free)",
                             goal=sp.Eq(sp.sympify(p.value), sp.sympify(ret[0].value)), hyps=list(pre) + p.hyps))
    return fn, ret[0]


def build(tier="quick", seed=0):
    b = Bundle("C17")
    b.const_values[G] = 6.6743e-11
    pre = [sp.Gt(x, 0)]
    terms_py, terms_pyx = {}, {}
    # (A) + terms for (B)
    for name in SINGLE:
        fn, p = term_of(b, FP, name, {Fn(FP, name).params[0]: x}, pre, genv_py())
        terms_py[name] = p.value if p else None
        fn, p = term_of(b, FX, "cf_" + name, {Fn(FX, "cf_" + name).params[0]: x}, pre, genv_pyx())
        terms_pyx[name] = p.value if p else None
    for f, g in PAIRS:
        for lbl, tt in (("py", terms_py), ("pyx", terms_pyx)):
            if tt[f] is None or tt[g] is None:
                continue
            comp = tt[f].subs(x, tt[g])
            key = (FP if lbl == "py" else FX) + "::" + ("" if lbl == "py" else "cf_") + f
            b.add(Obligation(oid=f"{key}::inverse_of:{g}", fn=key, clause=f"{f}({g}(x)) == x for x > 0 ({lbl})",
                             goal=sp.Eq(comp, x), hyps=pre))
    # (B) twins
    for name in SINGLE:
        if terms_py[name] is None or terms_pyx[name] is None:
            continue
        b.add(Obligation(oid=f"{FX}::cf_{name}::twin", fn=f"{FX}::cf_{name}",
                         clause=f"compiled cf_{name}(x) == interpreted {name}(x) as exact terms", goal=sp.Eq(terms_pyx[name], terms_py[name]), hyps=pre,
                         meta=dict(py=str(terms_py[name]), pyx=str(terms_pyx[name]))))
    b.replayer(f"{FX}::cf_*::twin", _replay_twin)

    # Kepler pair
    prek = [sp.Gt(n, 0), sp.Gt(a_, 0), sp.Gt(M, 0), sp.Ge(m, 0), sp.Gt(G, 0)]
    kep = {}
    for lbl, F, pref, genv in (("py", FP, "", genv_py()), ("pyx", FX, "cf_", genv_pyx())):
        a_args = dict(orbital_motion=n, host_mass=M, target_mass=m)
        n_args = dict(semi_major_axis=a_, host_mass=M, target_mass=m)
        if lbl == "pyx":
            a_args["G_to_use"] = G
            n_args["G_to_use"] = G
        fa, pa = term_of(b, F, pref + "orbital_motion2semi_a", a_args, prek, genv)
        fnn, pn = term_of(b, F, pref + "semi_a2orbital_motion", n_args, prek, genv)
        kep[lbl] = (pa.value if pa else None, pn.value if pn else None)
        if pa:
            ensure(b, fa, "kepler", [pa], lambda p: sp.And(sp.Eq(p.value ** 3 * n ** 2, G * (M + m)), sp.Gt(p.value, 0)), prek,
                   clause="ensures a^3 n^2 == G(M+m) and a > 0  (Kepler III with both masses)")
        if pn:
            ensure(b, fnn, "kepler", [pn], lambda p: sp.And(sp.Eq(p.value ** 2 * a_ ** 3, G * (M + m)), sp.Gt(p.value, 0)), prek,
                   clause="ensures n^2 a^3 == G(M+m) and n > 0")
        if pa and pn:
            back = pn.value.subs(a_, pa.value)
            b.add(Obligation(oid=f"{F}::{pref}semi_a2orbital_motion::inverse_of:orbital_motion2semi_a", fn=f"{F}::{pref}semi_a2orbital_motion",
                             clause="semi_a2orbital_motion(orbital_motion2semi_a(n, M, m), M, m) == n", goal=sp.Eq(back, n), hyps=prek))
            fwd = pa.value.subs(n, pn.value)
            b.add(Obligation(oid=f"{F}::{pref}orbital_motion2semi_a::inverse_of:semi_a2orbital_motion", fn=f"{F}::{pref}orbital_motion2semi_a",
                             clause="orbital_motion2semi_a(semi_a2orbital_motion(a, M, m), M, m) == a", goal=sp.Eq(fwd, a_), hyps=prek))
    if all(v is not None for v in kep["py"] + kep["pyx"]):
        b.add(Obligation(oid=f"{FX}::cf_orbital_motion2semi_a::twin", fn=f"{FX}::cf_orbital_motion2semi_a", clause="compiled == interpreted (same G)",
                         goal=sp.Eq(kep["pyx"][0], kep["py"][0]), hyps=prek))
        b.add(Obligation(oid=f"{FX}::cf_semi_a2orbital_motion::twin", fn=f"{FX}::cf_semi_a2orbital_motion", clause="compiled == interpreted (same G)",
                         goal=sp.Eq(kep["pyx"][1], kep["py"][1]), hyps=prek))
    # the python-visible def wrappers of the .pyx forward their arguments unchanged and validate the masses
    for wname in SINGLE:
        wrapper_forwards(b, wname)
    # argument validation of the interpreted Kepler helpers: bad masses raise
    for name, arg in (("orbital_motion2semi_a", "orbital_motion"), ("semi_a2orbital_motion", "semi_major_axis")):
        fn, ex, paths = run_fn(b, FP, name, {arg: x, "host_mass": M, "target_mass": m}, [sp.Gt(x, 0), sp.Gt(G, 0)], globals_env=genv_py())
        if paths:
            for i, p in enumerate(paths):
                ok_masses = sp.And(sp.Gt(M, 0), sp.Ge(m, 0))
                if p.outcome == "return":
                    b.add(Obligation(oid=f"{fn.key}::ensures:returns_only_for_valid_masses@path{i}", fn=fn.key,
                                     clause="returns only when host_mass > 0 and target_mass >= 0", goal=ok_masses, hyps=[sp.Gt(x, 0), sp.Gt(G, 0)] + p.hyps))
    # "scalar or array": every interpreted helper gives, for an array argument, element by element the value of the scalar call
    MODP = "TidalPy.utilities.conversions.conversions"
    for name in SINGLE:
        prm = Fn(FP, name).params[0]
        elementwise(b, FP, name, {prm: x}, [prm], pre, globals_env=genv_py())
        b.replayer(f"{FP}::{name}::ensures:array_is_elementwise*", make_elementwise_replayer(MODP, name, {}, {prm: [3.0e-9, 2.5, 7.0e11]}))
    b.replayer(f"{FP}::orbital_motion2semi_a::ensures:array_is_elementwise*", make_elementwise_replayer(MODP, "orbital_motion2semi_a", dict(host_mass=1.9e27, target_mass=8.9e22), dict(orbital_motion=[3.0e-9, 4.1e-5, 2.0])))
    b.replayer(f"{FP}::semi_a2orbital_motion::ensures:array_is_elementwise*", make_elementwise_replayer(MODP, "semi_a2orbital_motion", dict(host_mass=1.9e27, target_mass=8.9e22), dict(semi_major_axis=[2.0e6, 4.2e8, 3.0e13])))
    pk = [sp.Gt(M, 0), sp.Ge(m, 0), sp.Gt(G, 0)]
    elementwise(b, FP, "orbital_motion2semi_a", dict(orbital_motion=n, host_mass=M, target_mass=m), ["orbital_motion"], pk + [sp.Gt(n, 0)], globals_env=genv_py())
    elementwise(b, FP, "semi_a2orbital_motion", dict(semi_major_axis=a_, host_mass=M, target_mass=m), ["semi_major_axis"], pk + [sp.Gt(a_, 0)], globals_env=genv_py())
    constants(b)
    orbit_invariant(b)
    b.replayer(f"{FO}::OrbitBase.*", _replay_orbit)
    bounded_histories(b, tier, seed)
    b.replayer(f"{FP}::*", _replay_kepler_fn)
    b.assume("cbrt/sqrt enter through the axioms cbrt(x)^3 = x, sqrt(x)^2 = x, sqrt(x) >= 0, positivity; 'to rounding' in the statement is not quantified (doubles as reals)")
    b.assume("np.pi and libc M_PI denote the same real number pi_")
    return b


def wrapper_forwards(b, name):
    """def wrapper in the .pyx returns cf_name(arg) unchanged"""
    fn = Fn(FX, name)
    b.add_fn(fn)
    body = [s for s in fn.node.body if not (isinstance(s, ast.Expr) and isinstance(s.value, ast.Constant))]
    ok = (len(body) == 1 and isinstance(body[0], ast.Return) and isinstance(body[0].value, ast.Call)
          and ast.unparse(body[0].value.func) == "cf_" + name
          and [ast.unparse(a) for a in body[0].value.args] == fn.params and not body[0].value.keywords)
    simple = len(body) == 1 and isinstance(body[0], ast.Return) and isinstance(body[0].value, ast.Call)
    structural(b, f"{fn.key}::forwards", fn.key, f"python wrapper {name} returns cf_{name}(its argument) unchanged", "ok" if ok else ("wrong" if simple else "unknown"),
               detail=ast.unparse(fn.node)[:200])


def constants(b):
    """G used by the two twins: scipy.constants.G (interpreted) vs the literal in constants_x.pyx"""
    from tpv import native
    from tpv.extract import source
    src = source("TidalPy/utilities/constants_x.pyx")
    lit = None
    for st in src.tree.body:
        if isinstance(st, ast.Assign) and isinstance(st.targets[0], ast.Name) and st.targets[0].id == "G":
            lit = T.dec(ast.get_source_segment(src.text, st.value))
    r = native.run(dict(code="from TidalPy.constants import G\nresult = repr(G)"))
    pyG = T.dec(r["result"]) if "result" in r else None
    ground(b, "TidalPy/utilities/constants_x.pyx::G::twin", "TidalPy/utilities/constants_x.pyx::G",
           "compiled G literal == interpreted TidalPy.constants.G (scipy value read natively)", lit is not None and lit == pyG,
           detail=f"pyx literal {lit}, python value {pyG}")
    b.trust("scipy.constants.G is read by importing TidalPy.constants under /venv/bin/python")


def _replay_twin(ob, res):
    from tpv import native
    name = ob.fn.split("::cf_")[1]
    xv = frac_model(res.get("model")).get("x", 1.0)
    xv = float(xv) if not isinstance(xv, str) else 1.0
    r1 = native.call("TidalPy.utilities.conversions.conversions", name, [xv])
    r2 = native.call("TidalPy.utilities.conversions.conversions_x", name, [xv])
    rec = dict(replayed=True, x=xv, interpreted=r1, compiled=r2)
    try:
        a1, a2 = native.unc(r1["result"]), native.unc(r2["result"])
        rec["confirmed"] = abs(a1 - a2) > 1e-12 * abs(a1)
        rec["relative_difference"] = abs(a1 - a2) / abs(a1)
    except Exception:
        rec["confirmed"] = False
    rec["note"] = "compiled module is the binary built from the pinned .pyx"
    return rec


# ---------------------------------------------------------------------------------------------
def orbit_invariant(b):
    """Kepler(slot) after every public setter, on a star + host + 2 moons orbit, for every way of addressing a world (index, world instance,
    host instance = the host's orbit about its tide raiser) and for stellar-orbit updates; all other slots framed.  world_signature_to_index is
    executed from the real source."""
    cls = ClassModel("OrbitBase", FO)
    Ms, Mh, m1, m2 = R("M_star"), R("M_host"), R("m_1"), R("m_2")
    pre = [sp.Gt(x_, 0) for x_ in (Ms, Mh, m1, m2, G)]
    val = R("new_value")
    pre_v = pre + [sp.Gt(val, 0)]

    def rads2days_c():
        return Contract("rads2days", lambda w_: [("frequency != 0", sp.Ne(w_, 0))], lambda res, w_: [sp.Eq(res * 86400 * w_, 2 * T.PI)])

    def days2rads_c():
        return Contract("days2rads", lambda d: [("days != 0", sp.Ne(d, 0))], lambda res, d: [sp.Eq(res * 86400 * d, 2 * T.PI), sp.Gt(res * d, 0)])

    def semia_c():
        def req(a, hm, tm=sp.Integer(0)):
            return [("host_mass > 0", sp.Gt(hm, 0)), ("target_mass >= 0", sp.Ge(tm, 0)), ("a > 0", sp.Gt(a, 0))]

        def ens(res, a, hm, tm=sp.Integer(0)):
            return [sp.Eq(res ** 2 * a ** 3, G * (hm + tm)), sp.Gt(res, 0)]
        return Contract("semi_a2orbital_motion", req, ens, result=lambda *x_: fresh("n"))

    def noop_c(name):
        return Contract(name, None, None, result=lambda *a, **k: None)
    contracts = {"rads2days": rads2days_c(), "days2rads": days2rads_c(), "semi_a2orbital_motion": semia_c(),
                 "orbital_motion2semi_a": orbital_motion2semi_a_contract(), ".orbit_changed": noop_c(".orbit_changed")}
    genv = dict(all_world_types="WORLD_TYPES", BadWorldSignature="BadWorldSignature", BadWorldSignatureType="BadWorldSignatureType", TidalPyOrbitError="TidalPyOrbitError")

    def mk_orbit(sync):
        masses = [Mh, m1, m2]
        worlds = [Obj(None, mass=masses[i], force_spin_sync=sync, name=f"w{i}", set_spin_frequency=(lambda ex, node, *a, **k: None),
                      orbit_spin_changed=(lambda ex, node, *a, **k: None), _open=True) for i in range(3)]
        star = Obj(None, mass=Ms, name="star", _open=True)
        old = dict(a=[R(f"a{i}_old") for i in range(3)], n=[R(f"n{i}_old") for i in range(3)], P=[R(f"P{i}_old") for i in range(3)])
        o = Obj(cls, _semi_major_axes=list(old["a"]), _orbital_frequencies=list(old["n"]), _orbital_periods=list(old["P"]),
                _eccentricities=[R(f"e{i}") for i in range(3)], _tidal_objects=worlds, _tidal_host=worlds[0], _star=star, _host_tide_raiser=worlds[2],
                _star_host=False, _all_tidal_world_orbit_index_by_instance={worlds[1]: sp.Integer(1), worlds[2]: sp.Integer(2)},
                _all_tidal_world_orbit_index_by_name={"w1": sp.Integer(1), "w2": sp.Integer(2)})
        return o, old, worlds, star

    def check(label, method, argname, via_state, addressing, stellar, stellar_kw=True, same=False):
        # same=True: the caller hands the STORED value straight back (world.semi_major_axis = world.semi_major_axis after a mass change); the
        # stored n / P are arbitrary (no Kepler hypothesis on the old state), so the derived quantities must still be re-derived for the current masses
        for sync in (False, True):
            slot = 0 if stellar else {"index": 1, "instance": 1, "host": 2, "name": 1}[addressing]
            Mprimary = Ms if stellar else Mh
            Msecondary = [Mh, m1, m2][slot]
            c, node = cls.lookup("methods", method)
            if node is None:
                b.subset_exits.append(f"{FO}::OrbitBase.{method}: method not found")
                return
            mfn = MethodFn(c, node)
            b.functions[mfn.key] = mfn.info()
            holder = {}
            pre_v = pre + [sp.Gt(val, 0)]
            if same:   # the stored value that is handed back is a valid one (positive); nothing is assumed about the stored n / P that go with it
                pre_v = pre_v + [sp.Gt(R({"semi_major_axis": "a", "distance": "a", "orbital_frequency": "n", "orbital_period": "P"}[argname] + f"{slot}_old"), 0)]

            def fresh_args():
                # a fresh object store for every path (the setter mutates the orbit in place)
                o, old, worlds, star = mk_orbit(sync)
                sig = {"index": sp.Integer(1), "instance": worlds[1], "host": worlds[0], "name": "w1"}[addressing]
                env = dict(self=o, world_signature=sig)
                key_ = {"semi_major_axis": "a", "distance": "a", "orbital_frequency": "n", "orbital_period": "P"}[argname]
                env[argname] = old[key_][slot] if same else val
                if stellar and stellar_kw:
                    env["set_stellar_orbit"] = True
                holder["st"] = (o, old, env[argname])
                return env
            ex = Exec(mfn, pre=pre_v, contracts=contracts, globals_env=genv, opts=dict(max_recursion=3, fresh_args=fresh_args, on_path_end=lambda: holder["st"]))
            try:
                paths = ex.run({})
            except SymExError as e:
                b.subset_exits.append(f"{mfn.key} ({label}): {e}")
                return
            b.absorb_exec(ex)
            for f in ex.called:
                b.functions.setdefault(f, dict(function=f, note="executed inline from the real class source"))
            tag = f"{mfn.key}::{label}:sync={int(sync)}"
            for i_, p in enumerate(paths):
                sfx = f"@path{i_}" if len(paths) > 1 else ""
                o, old, val_ = p.state
                if p.outcome != "return":
                    b.add(Obligation(oid=tag + "::noraise" + sfx, fn=mfn.key, clause="public setter does not raise for a valid single quantity", goal=sp.false, hyps=pre_v + p.hyps, meta=dict(raised=repr(p.value))))
                    continue
                A, N, P = o._attrs["_semi_major_axes"], o._attrs["_orbital_frequencies"], o._attrs["_orbital_periods"]
                kep = sp.And(sp.Eq(N[slot] ** 2 * A[slot] ** 3, G * (Mprimary + Msecondary)), sp.Eq(P[slot] * 86400 * N[slot], 2 * T.PI))
                b.add(Obligation(oid=tag + "::kepler" + sfx, fn=mfn.key,
                                 clause="ensures n^2 a^3 == G(M_primary + m) and P == 2 pi/(86400 n) in the slot the signature addresses, with the masses of that pair", goal=kep,
                                 hyps=pre_v + p.hyps, meta=dict(a=str(A[slot]), n=str(N[slot]), P=str(P[slot]), slot=slot, path_condition=[str(c_)[:160] for c_ in p.pc])))
                given = {"semi_major_axis": A, "distance": A, "orbital_frequency": N, "orbital_period": P}[argname][slot]
                b.add(Obligation(oid=tag + "::stores_given" + sfx, fn=mfn.key, clause="ensures the quantity the caller gave is the one reported afterwards (the other two are derived from it)",
                                 goal=sp.Eq(sp.sympify(given), val_), hyps=pre_v + p.hyps, meta=dict(stored=str(given))))
                frame = sp.And(*[sp.Eq(X[j], old[k][j]) for X, k in ((A, "a"), (N, "n"), (P, "P")) for j in range(3) if j != slot])
                b.add(Obligation(oid=tag + "::frame" + sfx, fn=mfn.key, clause="frame: a, n, P of every other slot unchanged", goal=frame, hyps=pre_v + p.hyps))

    setters = [("set_semi_major_axis", "semi_major_axis"), ("set_orbital_frequency", "orbital_frequency"), ("set_orbital_period", "orbital_period")]
    for addressing in ("index", "instance", "host", "name"):
        for meth, arg in setters:
            check(f"{meth}[{addressing}]", meth, arg, False, addressing, False)
            check(f"set_state:{arg}[{addressing}]", "set_state", arg, True, addressing, False)
    for meth, arg in setters:
        check(f"{meth}[host;stellar]", meth, arg, False, "host", True)
        check(f"set_state:{arg}[host;stellar]", "set_state", arg, True, "host", True)
    for meth, arg in setters:
        check(f"{meth}[instance;stored value handed back]", meth, arg, False, "instance", False, same=True)
        check(f"{meth}[host;stellar;stored value handed back]", meth, arg, False, "host", True, same=True)
    # the stellar distance of the tidal host is its semi-major axis about the star (public wrapper; also reached through world.stellar_distance = d)
    check("set_stellar_distance[host;stellar]", "set_stellar_distance", "distance", False, "host", True, stellar_kw=False)
    check("set_stellar_distance[instance;stellar]", "set_stellar_distance", "distance", False, "instance", True, stellar_kw=False)
    # the batch update forwards, for every listed world, the element with that world's position in each list under its own keyword (set_state is a
    # recording stub here; its own contract is the one proved above), with the stellar flag
    c, node = cls.lookup("methods", "set_states")
    if node is not None:
        mfn = MethodFn(c, node)
        b.functions[mfn.key] = mfn.info()
        kinds = (("eccentricities", "eccentricity"), ("semi_major_axes", "semi_major_axis"), ("orbital_frequencies", "orbital_frequency"), ("orbital_periods", "orbital_period"))
        for given in (("semi_major_axes",), ("orbital_frequencies", "eccentricities"), ("orbital_periods",), ("eccentricities", "semi_major_axes")):
            for stellar in (False, True):
                rec = []
                o, old, worlds, star = mk_orbit(False)
                o._attrs["set_state"] = lambda ex, node_, *a, **k: rec.append((a, dict(k)))
                sigs = [worlds[2], worlds[1]]
                env = dict(self=o, world_signatures=sigs, set_stellar_orbit=stellar)
                vals = {lst: [R(f"{lst}_{j}") for j in range(2)] for lst in given}
                env.update(vals)
                tag = f"{mfn.key}::set_states[{'+'.join(given)}{';stellar' if stellar else ''}]"
                ex = Exec(mfn, pre=pre, contracts=contracts, globals_env=genv, opts=dict(max_recursion=3))
                try:
                    paths = ex.run(env)
                except SymExError as e:
                    b.subset_exits.append(f"{mfn.key} ({given}): {e}")
                    break
                b.absorb_exec(ex)
                ok = len(paths) == 1 and paths[0].outcome == "return" and len(rec) == 2
                detail = str(rec)[:300]
                if ok:
                    for j, (a_, k_) in enumerate(rec):
                        sig_ = a_[0] if a_ else k_.get("world_signature")
                        ok = ok and sig_ is sigs[j] and bool(k_.get("set_stellar_orbit", False)) == stellar
                        for lst, kw in kinds:
                            want = vals[lst][j] if lst in vals else None
                            got = k_.get(kw)
                            ok = ok and ((want is None and got is None) or (want is not None and got is not None and got == want))
                ground(b, tag + "::forwards_own_elements", mfn.key, "ensures set_state is called once per listed world, in order, with that world's own element of every given list under its own keyword, and the stellar flag", ok, detail=detail)
    # what the orbit REPORTS: every getter returns the stored value of the slot that the setters write for the same signature (index, instance, name,
    # host instance = the host's tide raiser; for_stellar_orbit = the host's slot 0), and reading changes nothing
    def check_getter(method, field, addressing, stellar, stellar_kw=True):
        o, old, worlds, star = mk_orbit(False)
        sig = {"index": sp.Integer(1), "instance": worlds[1], "host": worlds[0], "name": "w1"}[addressing]
        slot = 0 if stellar else {"index": 1, "instance": 1, "host": 2, "name": 1}[addressing]
        c, node = cls.lookup("methods", method)
        if node is None:
            b.subset_exits.append(f"{FO}::OrbitBase.{method}: method not found")
            return
        mfn = MethodFn(c, node)
        b.functions[mfn.key] = mfn.info()
        ex = Exec(mfn, pre=pre, contracts=contracts, globals_env=genv, opts=dict(max_recursion=3))
        env = dict(self=o, world_signature=sig)
        if stellar and stellar_kw:
            env["for_stellar_orbit"] = True
        try:
            paths = ex.run(env)
        except SymExError as e:
            b.subset_exits.append(f"{mfn.key} ({addressing}{';stellar' if stellar else ''}): {e}")
            return
        b.absorb_exec(ex)
        tag = f"{mfn.key}::{method}[{addressing}{';stellar' if stellar else ''}]"
        if len(paths) != 1 or paths[0].outcome != "return":
            b.add(Obligation(oid=tag + "::noraise", fn=mfn.key, clause="getter returns for a valid signature", goal=sp.false if len(paths) == 1 else sp.true, hyps=pre + paths[0].hyps, meta=dict(outcomes=str([p_.outcome for p_ in paths]))))
            return
        want = old[field][slot]
        b.add(Obligation(oid=tag + "::reports_slot", fn=mfn.key, clause="ensures the getter returns the stored value of the slot the setters write for this signature", goal=sp.Eq(sp.sympify(paths[0].value), want), hyps=pre + paths[0].hyps,
                         meta=dict(returned=str(paths[0].value), slot=slot)))
        A, N, P = o._attrs["_semi_major_axes"], o._attrs["_orbital_frequencies"], o._attrs["_orbital_periods"]
        ground(b, tag + "::pure", mfn.key, "frame: reading does not change a, n, P", all(X[j] == old[k][j] for X, k in ((A, "a"), (N, "n"), (P, "P")) for j in range(3)))
    for method, field in (("get_semi_major_axis", "a"), ("get_orbital_frequency", "n"), ("get_orbital_period", "P")):
        for addressing in ("index", "instance", "host", "name"):
            check_getter(method, field, addressing, False)
        check_getter(method, field, "host", True)
    # the stellar distance every world of a non-star-host orbit reports is the one set_stellar_distance stores: the host's slot 0, whoever asks
    for addressing in ("index", "instance", "host", "name"):
        check_getter("get_stellar_distance", "a", addressing, True, stellar_kw=False)
    # an eccentricity update is not an update of a, n or P: it leaves all of them as they were (so Kepler III keeps holding)
    for emeth, addressing, stellar in (("set_eccentricity", "index", False), ("set_eccentricity", "instance", False), ("set_eccentricity", "host", False), ("set_eccentricity", "host", True),
                                       ("set_stellar_eccentricity", "host", False), ("set_stellar_eccentricity", "instance", False), ("set_stellar_eccentricity", "index", False)):
        o, old, worlds, star = mk_orbit(False)
        sig = {"index": sp.Integer(1), "instance": worlds[1], "host": worlds[0]}[addressing]
        c, node = cls.lookup("methods", emeth)
        if node is None:
            continue
        mfn = MethodFn(c, node)
        b.functions[mfn.key] = mfn.info()
        ex = Exec(mfn, pre=pre, contracts=contracts, globals_env=genv, opts=dict(max_recursion=3))
        env = dict(self=o, world_signature=sig, eccentricity=R("e_new"))
        if stellar:
            env["set_stellar_orbit"] = True
        try:
            paths = ex.run(env)
        except SymExError as e:
            b.subset_exits.append(f"{mfn.key} ({addressing}): {e}")
            continue
        b.absorb_exec(ex)
        if len(paths) != 1 or paths[0].outcome != "return":
            b.subset_exits.append(f"{mfn.key} ({addressing}): {[p_.outcome for p_ in paths]}")
            continue
        A, N, P = o._attrs["_semi_major_axes"], o._attrs["_orbital_frequencies"], o._attrs["_orbital_periods"]
        ground(b, f"{mfn.key}::{emeth}[{addressing}{';stellar' if stellar else ''}]::frame", mfn.key, "frame: an eccentricity update leaves a, n, P of every slot unchanged",
               all(X[j] == old[k][j] for X, k in ((A, "a"), (N, "n"), (P, "P")) for j in range(3)))
    # frame assumption on orbit_changed: it must not store into the orbital arrays
    for cname, rel in (("OrbitBase", FO), ("PhysicsOrbit", "TidalPy/structures/orbit/physics.py")):
        cm = ClassModel(cname, rel)
        node = cm.methods.get("orbit_changed")
        if node is None:
            continue
        writes = [ast.unparse(t) for s_ in ast.walk(node) if isinstance(s_, (ast.Assign, ast.AugAssign)) for t in (s_.targets if isinstance(s_, ast.Assign) else [s_.target])
                  if any(k in ast.unparse(t) for k in ("_semi_major_axes", "_orbital_frequencies", "_orbital_periods", "semi_major_axes", "orbital_frequencies", "orbital_periods"))]
        ground(b, f"{rel}::{cname}.orbit_changed::frame", f"{rel}::{cname}.orbit_changed",
               "orbit_changed does not store into the a / n / P arrays (frame used by the setter contracts)", not writes, detail=str(writes))
    b.assume("world.set_spin_frequency / orbit_spin_changed do not write the orbit's a / n / P arrays (other classes; not executed here)")
    b.assume("orbit invariant is proved per setter and per way of addressing a world (index, name, instance, host instance, stellar orbit); the statement's 'all sequences of updates' follows by induction since each setter re-establishes the invariant for its slot and frames the others")


_ORBIT_HISTORY = r'''
import numpy as np, math, random, logging, warnings, copy
warnings.filterwarnings('ignore')
from TidalPy.structures import build_world
from TidalPy.structures.orbit import PhysicsOrbit
logging.disable(logging.CRITICAL)
G = 6.6743e-11
bad, nops, nchecks, exc = [], 0, 0, {}
for seed in range(args["seeds"]):
    rng = random.Random(1000 + seed)
    star = build_world("55cnc"); host = build_world("earth_simple"); m1 = build_world("io_simple"); m2 = build_world("triton_simple")
    orbit = PhysicsOrbit(star, tidal_host=host, tidal_bodies=[m1, m2], host_tide_raiser=m2)
    objs = orbit.tidal_objects
    hist = []
    def val(kind, arr):
        ex = {"semi_major_axis": (5.0, 13.0), "orbital_frequency": (-12.0, -1.0), "orbital_period": (-3.0, 7.0)}[kind]
        f = lambda: 10.0 ** rng.uniform(*ex)
        return np.asarray([f(), f(), f()]) if arr else f()
    def snap():
        return [[None if x[i] is None else np.array(x[i], dtype=float, copy=True) for i in range(len(objs))] for x in (orbit.semi_major_axes, orbit.orbital_frequencies, orbit.orbital_periods)]
    for step in range(args["steps"]):
        r = rng.random()
        if r < 0.2:
            w = rng.choice([m1, m2, host, star]); fac = 10.0 ** rng.uniform(-0.5, 0.5)
            op = ("set_geometry", w.name, fac)
            try:
                w.set_geometry(float(w.radius), float(w.mass) * fac)
            except Exception as e:
                exc[type(e).__name__ + ":set_geometry"] = exc.get(type(e).__name__ + ":set_geometry", 0) + 1
            hist.append(op); nops += 1
            continue
        kind = rng.choice(["semi_major_axis", "orbital_frequency", "orbital_period"]); arr = rng.random() < 0.25; v = val(kind, arr)
        stellar = rng.random() < 0.25
        if stellar:
            route = rng.choice(["setter", "set_state", "stellar_distance", "world_attr"]) if kind == "semi_major_axis" else rng.choice(["setter", "set_state"])
            slot, sig = 0, host
        else:
            route = rng.choice(["setter", "set_state", "world_set_state"])
            target = rng.choice([m1, m2]); slot = objs.index(target)
            sig = rng.choice([slot, target, target.name])
        op = (route, kind, "stellar" if stellar else "slot%d" % slot, type(sig).__name__, "array" if arr else float(v))
        before = snap()
        try:
            if route == "setter":
                getattr(orbit, "set_" + kind)(sig, v, **({"set_stellar_orbit": True} if stellar else {}))
            elif route == "set_state":
                orbit.set_state(sig, **{kind: v}, **({"set_stellar_orbit": True} if stellar else {}))
            elif route == "stellar_distance":
                orbit.set_stellar_distance(sig, v)
            elif route == "world_attr":
                host.stellar_distance = v
            else:
                target.set_state(**{kind: v})
        except Exception as e:
            k = type(e).__name__ + ":" + route
            exc[k] = exc.get(k, 0) + 1
            hist.append(op + ("raised",)); nops += 1
            continue
        hist.append(op); nops += 1
        after = snap()
        Mp = float(star.mass) if stellar else float(host.mass); ms = float(objs[slot].mass)
        a, n, P = (np.asarray(after[k][slot], dtype=float) for k in range(3))
        kep = np.max(np.abs(n * n * a ** 3 - G * (Mp + ms)) / (G * (Mp + ms)))
        per = np.max(np.abs(P * 86400.0 * n - 2 * math.pi) / (2 * math.pi))
        given = np.max(np.abs(np.asarray(after[["semi_major_axis", "orbital_frequency", "orbital_period"].index(kind)][slot], dtype=float) - np.asarray(v, dtype=float)) / np.asarray(v, dtype=float))
        frame = [(k, j) for k in range(3) for j in range(len(objs)) if j != slot and not (before[k][j] is None and after[k][j] is None) and not (before[k][j] is not None and after[k][j] is not None and np.array_equal(before[k][j], after[k][j]))]
        nchecks += 1
        if not (kep <= 1e-9 and per <= 1e-9 and given <= 1e-12 and not frame):
            bad.append(dict(seed=seed, step=step, history=[list(map(str, h)) for h in hist[-6:]], kepler_rel=float(kep), period_rel=float(per), given_rel=float(given), frame_changes=frame))
            break
    if len(bad) >= 3: break
result = dict(operations=nops, checks=nchecks, bad=bad, exceptions=exc)
'''

_ORBIT_REPLAY = r'''
import numpy as np, math, logging, warnings
warnings.filterwarnings('ignore')
from TidalPy.structures import build_world
from TidalPy.structures.orbit import PhysicsOrbit
logging.disable(logging.CRITICAL)
cfg = args
G = 6.6743e-11
out = []
for value in cfg["values"]:
    star = build_world("55cnc"); host = build_world("earth_simple"); m1 = build_world("io_simple"); m2 = build_world("triton_simple")
    orbit = PhysicsOrbit(star, tidal_host=host, tidal_bodies=[m1, m2], host_tide_raiser=m2)
    for w, P in ((m1, 1.77), (m2, 3.55)):
        orbit.set_state(w, orbital_period=P, eccentricity=0.01)
    try:
        orbit.set_orbital_period(host, 365.0, set_stellar_orbit=True)
    except Exception as ex:
        pass
    objs = orbit.tidal_objects
    def snap():
        return [[float(np.asarray(x[i]).ravel()[0]) if x[i] is not None else None for i in range(len(objs))] for x in (orbit.semi_major_axes, orbit.orbital_frequencies, orbit.orbital_periods)]
    before = snap()
    sig = {"index": 1, "instance": m1, "host": host, "name": m1.name}[cfg["addressing"]]
    kw = {"set_stellar_orbit": True} if (cfg["stellar"] and cfg["method"] != "set_stellar_distance") else {}
    if cfg["method"] == "set_state":
        orbit.set_state(sig, **{cfg["arg"]: value}, **kw)
    else:
        getattr(orbit, cfg["method"])(sig, value, **kw)
    after = snap()
    slot = 0 if cfg["stellar"] else (objs.index(m2) if cfg["addressing"] == "host" else objs.index(m1))
    Mp = star.mass if cfg["stellar"] else host.mass
    a, n, P = after[0][slot], after[1][slot], after[2][slot]
    k = {"semi_major_axis": 0, "distance": 0, "orbital_frequency": 1, "orbital_period": 2}[cfg["arg"]]
    out.append({"value": value, "slot": slot, "kepler_rel": abs(n * n * a ** 3 - G * (Mp + objs[slot].mass)) / (G * (Mp + objs[slot].mass)), "period_rel": abs(P * 86400 * n - 2 * math.pi) / (2 * math.pi),
                "given_rel": abs(after[k][slot] - value) / value, "frame_changes": [(kk, j) for kk in range(3) for j in range(len(objs)) if j != slot and before[kk][j] != after[kk][j]]})
result = out
'''


_GETTER_REPLAY = r'''
import numpy as np, math, logging, warnings
warnings.filterwarnings('ignore')
from TidalPy.structures import build_world
from TidalPy.structures.orbit import PhysicsOrbit
logging.disable(logging.CRITICAL)
star = build_world("55cnc"); host = build_world("earth_simple"); m1 = build_world("io_simple"); m2 = build_world("triton_simple")
orbit = PhysicsOrbit(star, tidal_host=host, tidal_bodies=[m1, m2], host_tide_raiser=m2)
orbit.set_state(m1, orbital_period=1.77, eccentricity=0.01); orbit.set_state(m2, orbital_period=5.9, eccentricity=0.02)
orbit.set_semi_major_axis(host, 1.5e11, set_stellar_orbit=True)
objs = orbit.tidal_objects
bad = []
f = lambda x: float(np.asarray(x).ravel()[0])
before = [[None if v is None else f(v) for v in arr] for arr in (orbit.semi_major_axes, orbit.orbital_frequencies, orbit.orbital_periods)]
for getter, arr in (("get_semi_major_axis", orbit.semi_major_axes), ("get_orbital_frequency", orbit.orbital_frequencies), ("get_orbital_period", orbit.orbital_periods)):
    for sig, slot, kw in ((1, 1, {}), (m1, objs.index(m1), {}), (m1.name, objs.index(m1), {}), (m2, objs.index(m2), {}), (host, objs.index(m2), {}), (host, 0, {"for_stellar_orbit": True})):
        got = f(getattr(orbit, getter)(sig, **kw))
        if got != f(arr[slot]): bad.append([getter, str(sig)[:30], slot, got, f(arr[slot])])
orbit.set_eccentricity(m1, 0.3)
after = [[None if v is None else f(v) for v in arr] for arr in (orbit.semi_major_axes, orbit.orbital_frequencies, orbit.orbital_periods)]
if before != after: bad.append(["set_eccentricity changed a / n / P", before, after])
result = bad
'''

_HANDBACK_REPLAY = r'''
import numpy as np, math, logging, warnings
warnings.filterwarnings('ignore')
from TidalPy.structures import build_world
from TidalPy.structures.orbit import PhysicsOrbit
logging.disable(logging.CRITICAL)
cfg = args
G = 6.6743e-11
out = []
star = build_world("55cnc"); host = build_world("earth_simple"); m1 = build_world("io_simple"); m2 = build_world("triton_simple")
orbit = PhysicsOrbit(star, tidal_host=host, tidal_bodies=[m1, m2], host_tide_raiser=m2)
for w, P in ((m1, 1.77), (m2, 3.55)):
    orbit.set_state(w, orbital_period=P, eccentricity=0.01)
orbit.set_orbital_period(host, 365.0, set_stellar_orbit=True)
objs = orbit.tidal_objects
f = lambda x: float(np.asarray(x).ravel()[0])
for fac in (3.0, 0.25):
    # the masses change (the stored n / P no longer belong to the stored a), then the stored value is handed straight back
    target = host if cfg["stellar"] else m1
    target.set_geometry(float(target.radius), float(target.mass) * fac)
    kw = {"set_stellar_orbit": True} if cfg["stellar"] else {}
    getter = {"set_semi_major_axis": "get_semi_major_axis", "set_orbital_frequency": "get_orbital_frequency", "set_orbital_period": "get_orbital_period"}[cfg["method"]]
    gkw = {"for_stellar_orbit": True} if cfg["stellar"] else {}
    stored = getattr(orbit, getter)(target, **gkw)
    getattr(orbit, cfg["method"])(target, stored, **kw)
    slot = 0 if cfg["stellar"] else objs.index(m1)
    Mp = star.mass if cfg["stellar"] else host.mass
    a, n, P = f(orbit.semi_major_axes[slot]), f(orbit.orbital_frequencies[slot]), f(orbit.orbital_periods[slot])
    GM = G * (Mp + objs[slot].mass)
    out.append({"mass_factor": fac, "slot": slot, "kepler_rel": abs(n * n * a ** 3 - GM) / GM, "period_rel": abs(P * 86400 * n - 2 * math.pi) / (2 * math.pi)})
result = out
'''


def _replay_orbit(ob, res):
    import re
    from tpv import native
    if "stored value handed back" in ob.oid:
        m = re.search(r"::(set_\w+?)\[(\w+)(;stellar)?;stored value handed back\]", ob.oid)
        if not m:
            return dict(replayed=False, reason="cannot parse the scenario from the obligation id")
        out = native.run(dict(code=_HANDBACK_REPLAY, args=dict(method=m.group(1), stellar=bool(m.group(3)))), timeout=900)
        rec = dict(replayed=True, scenario=dict(method=m.group(1), stellar=bool(m.group(3)), history="mass x3 then x0.25 by set_geometry; after each, setter(world, getter(world))"), native=out)
        try:
            rec["confirmed"] = any(v["kepler_rel"] > 1e-9 or v["period_rel"] > 1e-9 for v in out["result"])
        except Exception:
            rec["confirmed"] = "exception" in out
        return rec
    if "::get_" in ob.oid or "::set_eccentricity[" in ob.oid:
        out = native.run(dict(code=_GETTER_REPLAY), timeout=900)
        return dict(replayed=True, native=out, confirmed=bool(out.get("result")) or "exception" in out, what="every getter against the stored arrays for six signatures; a, n, P before / after set_eccentricity")
    if "::bounded:" in ob.oid:
        return dict(replayed=True, confirmed=True, what="the failing history was found by the native run itself", model=res.get("model"))
    m = re.search(r"::(set_\w+?)(?::(\w+))?\[(\w+)(;stellar)?\]:sync=", ob.oid)
    if not m:
        return dict(replayed=False, reason="cannot parse the scenario from the obligation id")
    meth, arg, addressing, stellar = m.group(1), m.group(2), m.group(3), bool(m.group(4))
    if meth != "set_state":
        arg = {"set_semi_major_axis": "semi_major_axis", "set_orbital_frequency": "orbital_frequency", "set_orbital_period": "orbital_period", "set_stellar_distance": "distance"}[meth]
    # an ordinary value and two extreme ones (a separation inside the central body, a very wide one)
    values = {"semi_major_axis": [6.0e8, 2.0e5, 3.0e12], "distance": [2.0e11, 1.0e7, 4.0e13], "orbital_frequency": [2.9e-5, 5.0e-2, 1.0e-11], "orbital_period": [2.6, 1.0e-3, 5.0e6]}[arg]
    if stellar and arg != "distance":
        values = {"semi_major_axis": [2.0e11, 1.0e7, 4.0e13], "orbital_frequency": [1.5e-7, 5.0e-2, 1.0e-12], "orbital_period": [500.0, 1.0e-3, 5.0e7]}[arg]
    out = native.run(dict(code=_ORBIT_REPLAY, args=dict(method=meth, arg=arg, addressing=addressing, stellar=stellar, values=values)), timeout=900)
    rec = dict(replayed=True, scenario=dict(method=meth, arg=arg, addressing=addressing, stellar=stellar, values=values), native=out)
    try:
        rec["confirmed"] = any(v["kepler_rel"] > 1e-9 or v["period_rel"] > 1e-9 or v["given_rel"] > 1e-12 or v["frame_changes"] for v in out["result"])
    except Exception:
        rec["confirmed"] = "exception" in out
    return rec


def bounded_histories(b, tier, seed):
    """whole-history part of the statement ("for the current masses", "all sequences of orbit updates"): BOUNDED native run, never counted as proved.
    Random histories over the public update routes (orbit setters / set_state by index, instance, name; world.set_state; stellar orbit of the host by
    setter, set_state, set_stellar_distance, world.stellar_distance) interleaved with mass changes (world.set_geometry), scalars and arrays, values over
    8-11 orders of magnitude; after every update the addressed slot must satisfy Kepler III for the CURRENT masses, report the given quantity, and leave
    the other slots untouched."""
    from tpv import native
    seeds, steps = (2, 30) if tier == "quick" else (8, 60)
    out = native.run(dict(code=_ORBIT_HISTORY, args=dict(seeds=seeds, steps=steps)), timeout=3000)
    res = out.get("result") if isinstance(out, dict) else None
    b.bounded.append(dict(name="orbit histories (native run): Kepler III for the current masses after every update of a history with interleaved mass changes",
                          bound=f"{seeds} random histories of {steps} operations (star + host + 2 moons), values over 8-11 orders of magnitude, scalars and 3-element arrays",
                          result=res if res is not None else out, counted_as_proved=False))
    if res is not None:
        for item in res.get("bad") or []:
            ground(b, f"{FO}::OrbitBase.set_state::bounded:history[seed{item['seed']};step{item['step']}]", f"{FO}::OrbitBase.set_state",
                   "BOUNDED native run: after every update of this history the addressed slot satisfies Kepler III for the current masses, reports the given quantity, other slots untouched", False,
                   detail=str(item)[:400], refuted_model=dict(history=str(item["history"]), kepler_rel=item["kepler_rel"], period_rel=item["period_rel"], given_rel=item["given_rel"], frame_changes=str(item["frame_changes"])),
                   bounded=True, native_confirmed=True)


def _replay_kepler_fn(ob, res):
    from tpv import native
    code = r'''
import numpy as np
from TidalPy.utilities.conversions.conversions import orbital_motion2semi_a, semi_a2orbital_motion
G = 6.6743e-11
bad = []
for M, m in ((5.97e24, 7.3e22), (7.3e22, 5.97e24), (1.0, 0.0), (2e30, 1.9e27)):
    for n in (1e-9, 4.1e-5, 3.0):
        a = orbital_motion2semi_a(n, M, m)
        n2 = semi_a2orbital_motion(a, M, m)
        if abs(n2 - n) > 1e-9 * n or abs(n * n * a ** 3 - G * (M + m)) > 1e-9 * G * (M + m): bad.append([M, m, n, float(a), float(n2)])
result = bad[:4]
'''
    out = native.run(dict(code=code), timeout=300)
    return dict(replayed=True, native=out, confirmed=bool(out.get("result")) or "exception" in out)
