"""C20 — compiled math helpers match their mathematical definitions (partial: see assumptions).

(A) real semantics, per path, on the mechanically translated complex.pyx: hypot, csqrt (principal branch), cexp, clog,
    cipow / cpow for every integer exponent |b| < 100 (concrete loops: complete) and the exp(b log a) path by contracts.
(B) special values (+-0, +-inf, nan): the translated source is EXECUTED concretely on the full grid and compared with
    C99 Annex G as implemented by CPython's cmath (finite domain: complete for the grid).
(C) double-factorial table: every literal must be the correctly rounded double of n!!; recursion beyond the table.
(D) interpreted sqrt_neg agrees with csqrt.
'few ulp' accuracy is not decidable with machine arithmetic treated as mathematical and is NOT claimed.
"""
import ast, math, cmath, itertools
from fractions import Fraction
import sympy as sp
from tpv.kit import *
from tpv import terms as T
from tpv.terms import Cx
from tpv.symex import Exec, SymExError, Contract, Namespace, _sh_abs, _sh_sqrt, _sh_exp, _sh_log, _sh_cos, _sh_sin
from tpv.extract import source

FC = "TidalPy/utilities/math/complex.pyx"
FX = "TidalPy/utilities/math/special_x.pyx"
FPY = "TidalPy/utilities/math/special.py"
zr, zi = R("z_re"), R("z_im")
Z = Cx(zr, zi)
DBL_MAX, DBL_MIN, LN2 = R("DBL_MAX"), R("DBL_MIN"), T.log_(sp.Integer(2))
pow2 = lambda k: T.pow_(sp.Integer(2), sp.sympify(k))


def _copysign(ex, node, a, b_):
    a, b_ = sp.sympify(a), sp.sympify(b_)
    mag = a if (a.is_number and a >= 0) else (a if ex.decide(sp.Ge(a, 0), node) else -a)
    if b_.is_number:
        return mag if b_ >= 0 else -mag
    return mag if ex.decide(sp.Ge(b_, 0), node) else -mag


def _atan2(ex, node, y, x):
    return T.atan2_(sp.sympify(y), sp.sympify(x))


def _log1p(ex, node, u):
    u = sp.sympify(u)
    ex.oblige("defined", node, sp.Gt(1 + u, 0), "definedness: log1p argument > -1")
    return T.log_(1 + u)


def _ceil(ex, node, x):
    x = sp.sympify(x)
    if x.is_number:
        return sp.ceiling(x)
    raise SymExError("ceil of symbolic value")


def _frexp(ex, node, v, ref):
    _frexp.k = getattr(_frexp, "k", 0) + 1
    m, e = fresh("mant"), sp.Symbol(f"expo!{_frexp.k}", integer=True)
    ex.facts.append(sp.Eq(sp.sympify(v), m * pow2(e)))
    ref.set(0, e)
    return m


def _ldexp(ex, node, m, k):
    return sp.sympify(m) * pow2(k)


def genv(contracts=False):
    false = lambda ex, node, x: False
    g = dict(sqrt=_sh_sqrt, fabs=_sh_abs, exp=_sh_exp, log=_sh_log, cos=_sh_cos, sin=_sh_sin, atan2=_atan2, log1p=_log1p, ceil=_ceil, frexp=_frexp, ldexp=_ldexp,
             isinf=false, isnan=false, isfinite=lambda ex, node, x: True, signbit=lambda ex, node, x: ex.decide(sp.Lt(sp.sympify(x), 0), node), copysign=_copysign,
             INFINITY=sp.oo, NAN=sp.nan, DBL_MAX=DBL_MAX, DBL_MIN=DBL_MIN, DBL_MANT_DIG=sp.Integer(53), cf_build_dblcmplx=lambda ex, node, a, b_: Cx(a, b_))
    src = source(FC)
    pre_ex = Exec(Fn(FC, "cf_cabs"), globals_env=g)   # used only to evaluate module constants in order
    pre_ex._fnstack = [pre_ex.fn]
    for name, node in src.module_constants().items():
        try:
            pre_ex.genv = dict(g)
            g[name] = pre_ex.ev(node, {})
        except Exception:
            pass
    g["LOGE2"] = LN2            # the literal 0.6931471805599453 denotes ln 2 (assumption; off by 2e-17)
    g["SCALED_K_LOGE2_D"] = g["SCALED_CEXP_K_D"] * LN2
    return g


PRE_CONST = [sp.Gt(DBL_MAX, sp.Integer(10) ** 300), sp.Gt(DBL_MIN, 0), sp.Lt(DBL_MIN, sp.Rational(1, 10 ** 300))]


def hypot_contract():
    def ens(res, x, y):
        x, y = sp.sympify(x), sp.sympify(y)
        return [sp.Ge(res, 0), sp.Eq(res ** 2, x ** 2 + y ** 2)]
    return Contract("cf_hypot", None, ens, result=lambda x, y: fresh("hypot"))


def build(tier="quick", seed=0):
    b = Bundle("C20")
    G_ = genv()
    x, y = R("x"), R("y")
    # ---- hypot
    fn, ex, paths = run_fn(b, FC, "cf_hypot", dict(x=x, y=y), PRE_CONST, globals_env=G_, xcheck=False)
    if paths:
        ensure(b, fn, "is_euclidean_norm", paths, lambda p: sp.And(sp.Ge(p.value, 0), sp.Eq(sp.sympify(p.value) ** 2, x ** 2 + y ** 2)), PRE_CONST,
               clause="ensures result >= 0 and result^2 == x^2 + y^2 on every path (scaling branch included)")
        no_raise(b, fn, paths, PRE_CONST)
        from tpv.xcheck import XItem
        b.const_values.update({DBL_MAX: 1.7976931348623157e308, DBL_MIN: 2.2250738585072014e-308})
        b.xitems.append(XItem(fn.key, "TidalPy.utilities.math.complex", "hypot", ["x", "y"], dict(x=x, y=y), PRE_CONST, paths, pyx=FC))
    # ---- csqrt (callee hypot by contract)
    fn, ex, paths = run_fn(b, FC, "cf_csqrt", dict(z=Z), PRE_CONST, globals_env=G_, contracts=dict(cf_hypot=hypot_contract()), xcheck=False)
    if paths:
        for i, p in enumerate(paths):
            if p.outcome != "return":
                continue
            v = Cx.of(p.value)
            sq = v * v
            scaled = any("DBL_MAX" in str(c) and (">=" in str(c)) for c in p.pc)
            tag = "[scaled]" if scaled else "[unscaled]"
            b.add(Obligation(oid=f"{fn.key}::ensures:squares_to_z{tag}@path{i}", fn=fn.key, clause="ensures result^2 == z" + (" on the overflow-avoiding rescaled branch (|Re z| or |Im z| >= DBL_MAX/(1+sqrt2))" if scaled else ""),
                             goal=sp.And(sp.Eq(sq.re, zr), sp.Eq(sq.im, zi)), hyps=PRE_CONST + p.hyps, meta=dict(path_condition=[str(c)[:160] for c in p.pc])))
            b.add(Obligation(oid=f"{fn.key}::ensures:principal_branch{tag}@path{i}", fn=fn.key, clause="ensures Re result >= 0 and (Re result == 0 ==> Im result >= 0)",
                             goal=sp.And(sp.Ge(v.re, 0), sp.Implies(sp.Eq(v.re, 0), sp.Ge(v.im, 0))), hyps=PRE_CONST + p.hyps))
        no_raise(b, fn, paths, PRE_CONST)
    # ---- cexp
    fn, ex, paths = run_fn(b, FC, "cf_cexp", dict(z=Z), PRE_CONST, globals_env=G_, inline={"cf_scaled_cexp": (Fn(FC, "cf_scaled_cexp"), None)}, xcheck=False)
    if paths:
        K = G_["SCALED_CEXP_K_D"]

        def cexp_goal(p):
            v = Cx.of(p.value)
            return sp.And(sp.Eq(v.re, T.exp_(zr) * T.cos_(zi)), sp.Eq(v.im, T.exp_(zr) * T.sin_(zi)))
        for i, p in enumerate(paths):
            if p.outcome != "return":
                continue
            rels = []
            scaled = any(isinstance(f, sp.Eq) and f.rhs.has(T.pow_) for f in p.facts if isinstance(f, sp.Basic))
            if scaled:
                # frexp facts  v == m 2^e  are used as rewriting relations for v; exp(x) = exp(x - K ln2) 2^K; 2^(a+b+..) = 2^a 2^b ..
                for f in p.facts:
                    if isinstance(f, sp.Eq) and isinstance(f.lhs, sp.core.function.AppliedUndef):
                        rels.append((f.lhs, 1, f.rhs))
                rels.append((T.exp_(zr), 1, T.exp_(zr - K * LN2) * pow2(K)))
                v_ = Cx.of(p.value)
                for t in T.free_atoms(sp.And(sp.Eq(v_.re, 0, evaluate=False), sp.Eq(v_.im, 0, evaluate=False))):
                    if isinstance(t, sp.core.function.AppliedUndef) and t.func.__name__ == "pow_" and isinstance(t.args[1], sp.Add):
                        prod = sp.Integer(1)
                        for a_ in t.args[1].args:
                            prod *= pow2(a_)
                        rels.append((t, 1, prod))
            b.add(Obligation(oid=f"{fn.key}::ensures:exponential{'[scaled]' if scaled else ''}@path{i}", fn=fn.key,
                             clause="ensures result == e^x (cos y + i sin y)" + (" on the scaled branch (frexp/ldexp: v = m 2^e; exp(x) = exp(x - K ln2) 2^K; 2^(a+b) = 2^a 2^b)" if scaled else ""),
                             goal=cexp_goal(p), hyps=PRE_CONST + p.hyps, rels=rels, backends=("qqnf", "z3")))
        no_raise(b, fn, paths, PRE_CONST)
    # ---- clog
    fn, ex, paths = run_fn(b, FC, "cf_clog", dict(z=Z), PRE_CONST + [sp.Gt(zr ** 2 + zi ** 2, 0)], globals_env=G_,
                           contracts=dict(cf_hypot=hypot_contract()), inline={"cf_carg": (Fn(FC, "cf_carg"), None)}, xcheck=False)
    if paths:
        for i, p in enumerate(paths):
            if p.outcome != "return":
                continue
            v = Cx.of(p.value)
            # every branch computes log of a positive quantity q (directly or through log1p / rescaling): require  exp-free characterisation
            # re-part == ln|z| is expressed as: the argument of the outermost log_, after undoing the documented rescaling, squares to |z|^2
            logs = [t for t in T.free_atoms(v.re) if isinstance(t, sp.core.function.AppliedUndef) and t.func.__name__ == "log_" and t != LN2]
            ok_shape = len(logs) == 1
            if not ok_shape:
                b.subset_exits.append(f"{fn.key}: path {i} real part is not a single logarithm: {v.re}")
                continue
            lg = logs[0]
            q = lg.args[0]
            coeff = sp.simplify(sp.diff(v.re, lg))
            rest = sp.simplify(v.re - coeff * lg)
            # v.re = coeff*ln(q) + rest ; rest is m*ln2:  |z|^2 must equal q^(2 coeff) * 2^(2m)
            m2 = sp.simplify(rest / LN2)
            if not (coeff in (1, sp.Rational(1, 2)) and m2.is_number):
                b.subset_exits.append(f"{fn.key}: path {i} real part has an unexpected form: {v.re}")
                continue
            target = (q ** 2 if coeff == 1 else q) * (sp.Integer(2) ** (2 * m2) if m2.is_Integer else pow2(2 * m2))
            facts2 = [sp.Eq(pow2(53), sp.Integer(2) ** 53)]
            b.add(Obligation(oid=f"{fn.key}::ensures:log_modulus@path{i}", fn=fn.key,
                             clause="ensures Re result == ln|z|: the real part is c*ln(q) + m*ln2 with q^(2c) 4^m == |z|^2 (log functional equation, log1p(u) = ln(1+u))",
                             goal=sp.Eq(target, zr ** 2 + zi ** 2), hyps=PRE_CONST + [sp.Gt(zr ** 2 + zi ** 2, 0)] + p.hyps + facts2))
            b.add(Obligation(oid=f"{fn.key}::ensures:argument@path{i}", fn=fn.key, clause="ensures Im result == atan2(Im z, Re z) (principal argument)",
                             goal=sp.Eq(v.im, T.atan2_(zi, zr)), hyps=p.hyps))
        no_raise(b, fn, paths, PRE_CONST + [sp.Gt(zr ** 2 + zi ** 2, 0)])
    int_powers(b, G_, tier)
    special_values(b)
    double_factorial(b)
    sqrt_neg(b)
    interpreted_table(b)
    b.replayer("TidalPy/radial_solver/numerical/initial/functions.py::*", _replay_itable)
    b.replayer(f"{FPY}::_sqrt_neg_python::*", _replay_sqrt_neg)
    b.assume("'within a few ulp for every finite argument' is a statement about rounding error and cannot be expressed with machine arithmetic treated as mathematical: NOT decided, NOT claimed")
    b.assume("axioms: sqrt(x)^2 = x >= 0; frexp(v) = (m, e) with v = m 2^e; ldexp(m, k) = m 2^k; 2^(a+b) = 2^a 2^b; exp(a+b) = exp(a) exp(b) and exp(k ln2) = 2^k (one instance); log1p(u) = ln(1+u); ln(q^2) = 2 ln q, ln(2^m q) = m ln2 + ln q; the literal LOGE2 denotes ln 2; tgamma(n+1) = n!")
    b.assume("isinf / isnan are false and isfinite true on the real-semantics paths; the special values are covered separately by exhaustive concrete execution of the translated source")
    b.trust("CPython cmath.sqrt / cmath.log as the C99 Annex G oracle for the special-value grid")
    return b


def int_powers(b, G_, tier):
    a = Cx(R("a_re"), R("a_im"))
    pre = PRE_CONST + [sp.Gt(a.abs2(), 0)]
    fnc = Fn(FC, "cf_cipow")
    b.add_fn(fnc)
    ks = list(range(-99, 100))
    bad = []
    for k in ks:
        ex = Exec(fnc, pre=pre, globals_env=G_, opts=dict(check_feasibility=True, definedness=False))
        try:
            paths = ex.run(dict(a=a, b=sp.Integer(k)))
        except SymExError as e:
            b.subset_exits.append(f"{fnc.key} (b={k}): {e}")
            return
        ret = [p for p in paths if p.outcome == "return"]
        if not ret:
            b.subset_exits.append(f"{fnc.key} (b={k}): no returning path")
            continue
        spec = a.ipow(k)
        for j, p in enumerate(ret):
            v = Cx.of(p.value)
            b.add(Obligation(oid=f"{fnc.key}::ensures:integer_power[{k}]" + (f"@path{j}" if len(ret) > 1 else ""), fn=fnc.key,
                             clause=f"ensures cipow(a, {k}) == a^{k} (binary exponentiation loop executed for this exponent)",
                             goal=sp.And(sp.Eq(v.re, spec.re), sp.Eq(v.im, spec.im)), hyps=pre + p.hyps, backends=("qqnf",)))
    fnp = Fn(FC, "cf_cpow")
    b.add_fn(fnp)
    for k in (ks if tier == "thorough" else list(range(-12, 13)) + [-99, -64, -33, 17, 31, 32, 63, 64, 99]):
        ex = Exec(fnp, pre=pre, globals_env=G_, opts=dict(definedness=False))
        try:
            paths = ex.run(dict(a=a, b=Cx(sp.Integer(k), 0)))
        except SymExError as e:
            b.subset_exits.append(f"{fnp.key} (b={k}): {e}")
            return
        ret = [p for p in paths if p.outcome == "return"]
        if not ret:
            b.subset_exits.append(f"{fnp.key} (b={k}): no returning path")
            continue
        spec = a.ipow(k)
        for j, p in enumerate(ret):
            v = Cx.of(p.value)
            b.add(Obligation(oid=f"{fnp.key}::ensures:integer_power[{k}]" + (f"@path{j}" if len(ret) > 1 else ""), fn=fnp.key, clause=f"ensures cpow(a, {k}+0j) == a^{k}",
                             goal=sp.And(sp.Eq(v.re, spec.re), sp.Eq(v.im, spec.im)), hyps=pre + p.hyps, backends=("qqnf",)))
    # general path of both: exp(b * log a), callees by contract (modular)
    LRe, LIm, ERe, EIm = [sp.Function(n_, real=True) for n_ in ("LOG_re", "LOG_im", "EXP_re", "EXP_im")]
    clog_c = Contract("cf_clog", None, None, result=lambda z: Cx(LRe(Cx.of(z).re, Cx.of(z).im), LIm(Cx.of(z).re, Cx.of(z).im)))
    cexp_c = Contract("cf_cexp", None, None, result=lambda z: Cx(ERe(Cx.of(z).re, Cx.of(z).im), EIm(Cx.of(z).re, Cx.of(z).im)))
    bsym = Cx(R("b_re"), R("b_im"))
    ex = Exec(fnp, pre=pre + [sp.Ne(bsym.im, 0)], globals_env=G_, contracts=dict(cf_clog=clog_c, cf_cexp=cexp_c), opts=dict(definedness=False))
    try:
        paths = ex.run(dict(a=a, b=bsym))
        for i, p in enumerate(paths):
            if p.outcome == "return":
                v = Cx.of(p.value)
                la = Cx(LRe(a.re, a.im), LIm(a.re, a.im))
                w_ = bsym * la
                b.add(Obligation(oid=f"{fnp.key}::ensures:general_power@path{i}", fn=fnp.key, clause="ensures (non-real exponent) cpow(a, b) == cexp(b * clog(a))",
                                 goal=sp.And(sp.Eq(v.re, ERe(w_.re, w_.im)), sp.Eq(v.im, EIm(w_.re, w_.im))), hyps=pre + p.hyps))
    except SymExError as e:
        b.subset_exits.append(f"{fnp.key} (general): {e}")
    ex = Exec(fnc, pre=pre, globals_env=G_, contracts=dict(cf_clog=clog_c, cf_cexp=cexp_c), opts=dict(definedness=False))
    try:
        paths = ex.run(dict(a=a, b=sp.Integer(150)))
        ret = [p for p in paths if p.outcome == "return"]
        la = Cx(LRe(a.re, a.im), LIm(a.re, a.im))
        v = Cx.of(ret[0].value)
        b.add(Obligation(oid=f"{fnc.key}::ensures:large_exponent", fn=fnc.key, clause="ensures |b| >= 100: cipow(a, b) == cexp(b * clog(a)) (b = 150)",
                         goal=sp.And(sp.Eq(v.re, ERe(150 * la.re, 150 * la.im)), sp.Eq(v.im, EIm(150 * la.re, 150 * la.im))), hyps=pre + ret[0].hyps))
    except (SymExError, IndexError) as e:
        b.subset_exits.append(f"{fnc.key} (large exponent): {e}")


# ---------------------------------------------------------------------------------------------
def _concrete_module():
    """exec the translated complex.pyx under CPython with libc shims (floats): used for the finite special-value grid"""
    src = source(FC)
    ns = dict(sqrt=lambda v: math.sqrt(v) if v >= 0 else float("nan"), fabs=abs, exp=lambda v: math.exp(v) if v < 709.8 else float("inf"), log=lambda v: (math.log(v) if v > 0 else (float("-inf") if v == 0 else float("nan"))),
              cos=math.cos, sin=math.sin, atan2=math.atan2, log1p=math.log1p, ceil=math.ceil, frexp=None, ldexp=math.ldexp, isinf=math.isinf, isnan=math.isnan,
              isfinite=math.isfinite, signbit=lambda v: math.copysign(1.0, v) < 0, copysign=math.copysign, INFINITY=float("inf"), NAN=float("nan"),
              DBL_MAX=1.7976931348623157e308, DBL_MIN=2.2250738585072014e-308, DBL_MANT_DIG=53)
    import copy

    class CDiv(ast.NodeTransformer):
        def visit_BinOp(self, node):
            self.generic_visit(node)
            if isinstance(node.op, ast.Div):
                return ast.copy_location(ast.Call(func=ast.Name(id="_cdiv", ctx=ast.Load()), args=[node.left, node.right], keywords=[]), node)
            return node

    def _cdiv(a_, b_):
        try:
            return a_ / b_
        except ZeroDivisionError:      # IEEE semantics of C division (cdivision=True)
            if isinstance(a_, complex) or isinstance(b_, complex):
                return complex(float("nan"), float("nan"))
            if a_ != a_ or a_ == 0:
                return float("nan")
            return math.copysign(float("inf"), a_) * math.copysign(1.0, b_)
    ns["_cdiv"] = _cdiv
    tree = ast.fix_missing_locations(CDiv().visit(copy.deepcopy(src.tree)))
    code = compile(tree, FC, "exec")
    exec(code, ns)
    ns["cf_build_dblcmplx"] = lambda a, b_: complex(a, b_)
    return ns


def _same(a, b_):
    def part(u, v):
        if math.isnan(u) or math.isnan(v):
            return math.isnan(u) and math.isnan(v)
        if u == 0 and v == 0:
            return math.copysign(1, u) == math.copysign(1, v)
        return u == v or abs(u - v) <= 4e-16 * abs(v)
    return part(a.real, b_.real) and part(a.imag, b_.imag)


def special_values(b):
    try:
        ns = _concrete_module()
    except Exception as e:
        b.subset_exits.append(f"{FC}: concrete execution of the translated module failed: {type(e).__name__}: {e}")
        return
    vals = [0.0, -0.0, float("inf"), float("-inf"), float("nan"), 1.0, -1.0, 4.0, -4.0]
    for fname, oracle in (("cf_csqrt", cmath.sqrt), ("cf_clog", cmath.log)):
        key = f"{FC}::{fname}"
        for re_ in vals:
            for im_ in vals:
                z = complex(re_, im_)
                if math.isfinite(re_) and math.isfinite(im_) and re_ != 0 and im_ != 0:
                    continue      # generic finite points belong to part (A)
                try:
                    exp_ = oracle(z)
                except ValueError:
                    exp_ = complex(float("-inf"), math.atan2(im_, re_)) if fname == "cf_clog" else None     # log(0): C99 returns -inf + i*arg
                except OverflowError:
                    exp_ = None
                if exp_ is None:
                    continue
                try:
                    got = ns[fname](z)
                    got = complex(got)
                    ok = _same(got, exp_) or (math.isnan(exp_.real) and math.isnan(exp_.imag))   # NaN results: sign / which part is unspecified
                    if math.isnan(exp_.imag) and not math.isnan(exp_.real):
                        ok = got.real == exp_.real or ok
                    det = f"returned {got!r}, C99 {exp_!r}"
                except Exception as e:
                    ok, det = False, f"raised {type(e).__name__}: {e}"
                ground(b, f"{key}::special[{re_!r},{im_!r}]", key, f"{fname[3:]}({re_!r} + {im_!r}i) follows C99 Annex G (signed zeros, infinities, NaN)", ok, detail=det,
                       refuted_model=None if ok else {"z_re": repr(re_), "z_im": repr(im_)}, z=[repr(re_), repr(im_)], func=fname[3:])
    b.replayer(f"{FC}::cf_c*::special*", _replay_special)
    b.replayer(f"{FC}::cf_csqrt::ensures:*", _replay_csqrt_scale)


def _replay_special(ob, res):
    from tpv import native
    re_, im_ = ob.meta["z"]
    f = ob.meta["func"]
    out = native.run(dict(code=f"import cmath, math\nfrom TidalPy.utilities.math.complex import {f}\nz = complex(float({re_!r}), float({im_!r}))\nr = complex({f}(z))\ntry:\n    e = cmath.{'sqrt' if f == 'csqrt' else 'log'}(z)\nexcept ValueError:\n    e = complex(float('-inf'), math.atan2(z.imag, z.real))\nresult = [repr(r), repr(e)]"))
    rec = dict(replayed=True, z=[re_, im_], native=out, note="compiled binary built from the pinned complex.pyx")
    try:
        r, e = out["result"]
        rec["confirmed"] = r != e
    except Exception:
        rec["confirmed"] = "exception" in out or "crash" in out
    return rec


def _replay_csqrt_scale(ob, res):
    from tpv import native
    out = native.run(dict(code="import cmath\nfrom TidalPy.utilities.math.complex import csqrt\nz = 1e308 + 1e308j\nresult = [repr(complex(csqrt(z))), repr(cmath.sqrt(z))]"))
    rec = dict(replayed=True, z="1e308+1e308j", native=out)
    try:
        r, e = out["result"]
        rec["confirmed"] = r != e
    except Exception:
        rec["confirmed"] = False
    return rec


def double_factorial(b):
    src = source(FX)
    lits = {}
    for st in src.tree.body:
        if isinstance(st, ast.Assign) and isinstance(st.targets[0], ast.Subscript) and ast.unparse(st.targets[0].value) == "pre_calculated_doubles_ptr":
            k = ast.literal_eval(st.targets[0].slice)
            lits[k] = ast.get_source_segment(src.text, st.value)
    key = f"{FX}::cf_double_factorial"
    ground(b, f"{key}::table_complete", key, "the pre-computed table has exactly the entries 0..50", sorted(lits) == list(range(51)), detail=str(sorted(lits))[:100])
    for nn in range(51):
        exact = 1
        k = nn
        while k > 1:
            exact *= k
            k -= 2
        if nn not in lits:
            continue
        as_double = float(lits[nn])                      # the value the C compiler stores for the literal
        best = float(exact)                              # correctly rounded double of n!!
        ok = as_double == best
        ground(b, f"{key}::table[{nn}]", key, f"table entry {nn} is the correctly rounded double of {nn}!!", ok,
               detail=f"literal {lits[nn]} -> {as_double!r}; exact {exact} -> {best!r}", refuted_model=None if ok else {"n": nn}, n=nn)
    fn = Fn(FX, "cf_double_factorial")
    b.add_fn(fn)
    # recursion beyond the table: n!! * (n-1)!! == n!  with tgamma(n+1) = n!
    nsym = R("n")
    DF = sp.Function("DF", real=True)
    fact = sp.Function("FACT", real=True)
    ex = Exec(fn, pre=[sp.Ge(nsym, 51), sp.Lt(nsym, 171)], globals_env=dict(tgamma=lambda ex_, node, v: fact(sp.sympify(v) - 1), pre_calculated_doubles_ptr=None, NAN=sp.nan),
              contracts=dict(cf_double_factorial=Contract("cf_double_factorial", None, None, result=lambda m: DF(sp.sympify(m)))), opts=dict(definedness=False))
    try:
        paths = ex.run(dict(n=nsym))
        ret = [p for p in paths if p.outcome == "return"]
        for i, p in enumerate(ret):
            b.add(Obligation(oid=f"{key}::ensures:recursion@path{i}", fn=key, clause="ensures 51 <= n < 171: result * (n-1)!! == n!  (with tgamma(n+1) = n!)",
                             goal=sp.Eq(sp.sympify(p.value) * DF(nsym - 1), fact(nsym)), hyps=[sp.Ge(nsym, 51), sp.Lt(nsym, 171), sp.Ne(DF(nsym - 1), 0)] + p.hyps))
    except SymExError as e:
        b.subset_exits.append(f"{key}: {e}")
    b.replayer(f"{key}::table*", _replay_df)


def _replay_df(ob, res):
    from tpv import native
    nn = ob.meta["n"]
    out = native.run(dict(code=f"from TidalPy.utilities.math.special_x import double_factorial\nresult = repr(double_factorial({nn}))"))
    exact = 1
    k = nn
    while k > 1:
        exact *= k
        k -= 2
    rec = dict(replayed=True, n=nn, native=out, exact=str(exact), correctly_rounded=repr(float(exact)))
    rec["confirmed"] = out.get("result") != repr(float(exact))
    return rec


def interpreted_table(b):
    """the interpreted (2l+1)!! table of radial_solver/numerical/initial/functions.py (the counterpart of the compiled double-factorial table): the module-level
    statements that build it are extracted verbatim and executed (numpy / scipy as in the package), every entry compared with the exact integer"""
    FT_ = "TidalPy/radial_solver/numerical/initial/functions.py"
    key = f"{FT_}::l2p1_double_factorials"
    try:
        src = source(FT_)
    except ExtractError as e:
        b.subset_exits.append(str(e))
        return
    stmts = [st for st in src.tree.body if not isinstance(st, (ast.FunctionDef, ast.ClassDef, ast.Import, ast.ImportFrom)) and "l2p1_double_factorials" in ast.unparse(st)]
    if not stmts:
        b.subset_exits.append(f"{key}: table construction not found")
        return
    b.functions[key] = dict(function=key, line=stmts[0].lineno, note="module-level statements building the table, executed concretely", dropped=["the rest of the module"])
    try:
        import numpy as np
        from scipy.special import gamma
    except Exception as e:
        b.bounded.append(dict(name="interpreted (2l+1)!! table", bound="not run", result=f"numpy / scipy unavailable in the tooling interpreter: {e}", counted_as_proved=False))
        return
    ns = {"np": np, "gamma": gamma}
    try:
        exec(compile(ast.Module(body=stmts, type_ignores=[]), "table", "exec"), ns)
        table = list(ns["l2p1_double_factorials"])
    except Exception as e:
        b.subset_exits.append(f"{key}: cannot execute the table construction ({type(e).__name__}: {e})")
        return
    from fractions import Fraction
    exact = 1
    for l_ in range(len(table)):
        exact *= (2 * l_ + 1)
        got = Fraction(float(table[l_]))
        rel = abs(got - exact) / exact
        ground(b, f"{key}::table[l={l_}]", key, f"table entry l = {l_} equals (2l+1)!! = {exact} to 1e-13 relative (a few ulp)", rel <= Fraction(1, 10 ** 13),
               detail=f"entry {float(table[l_])!r}, exact {exact}", refuted_model=dict(l=l_, entry=repr(float(table[l_])), exact=str(exact)) if rel > Fraction(1, 10 ** 13) else None)
    ground(b, f"{key}::length", key, "the table covers l = 0..24 (read at order_l and order_l + 1)", len(table) >= 25, detail=f"{len(table)} entries")


def sqrt_neg(b):
    """interpreted sqrt_neg (complex branch) == principal square root: result^2 == z, Re >= 0"""
    from tpv.symex import _sh_real, _sh_imag, _sh_sign, NdArr
    npx = Namespace("np", {"sqrt": _sh_sqrt, "abs": _sh_abs, "real": _sh_real, "imag": _sh_imag, "sign": _sh_sign})
    pre = [sp.Gt(zr ** 2 + zi ** 2, 0)]
    fn, ex, paths = run_fn(b, FPY, "_sqrt_neg_python", dict(z=Z, is_real=False), pre, globals_env=dict(np=npx), xcheck=False)
    if paths:
        def g(p):
            v = Cx.of(p.value)
            sq = v * v
            return sp.And(sp.Eq(sq.re, zr), sp.Eq(sq.im, zi), sp.Ge(v.re, 0), sp.Implies(sp.Eq(v.re, 0), sp.Ge(v.im, 0)))
        ensure(b, fn, "principal_square_root", paths, g, pre, clause="ensures sqrt_neg(z)^2 == z with Re >= 0 (same principal value as the compiled csqrt contract)")
    # the zero argument (excluded above only because the generic clause divides by |z|): sqrt_neg(0) == 0, no exception, scalar and inside an array
    for lab, zarg, real_flag in (("complex_zero", Cx(sp.Integer(0), sp.Integer(0)), False), ("real_zero", sp.Integer(0), True),
                                 ("array_with_zero", NdArr([Cx(sp.Integer(0), sp.Integer(0)), Cx(sp.Integer(3), sp.Integer(4))]), False)):
        fn0, ex0, p0 = run_fn(b, FPY, "_sqrt_neg_python", dict(z=zarg, is_real=real_flag), [], globals_env=dict(np=npx), xcheck=False)
        if not p0:
            continue
        for i_, p_ in enumerate(p0):
            if p_.outcome != "return":
                b.add(Obligation(oid=f"{fn0.key}::ensures:zero_argument[{lab}]:noraise@path{i_}", fn=fn0.key, clause="sqrt_neg of an exactly zero argument returns (C99: csqrt(+-0) = 0), it does not raise", goal=sp.false, hyps=p_.hyps,
                                 meta=dict(raised=repr(p_.value)[:120])))
                continue
            v0 = p_.value[0] if isinstance(p_.value, (list, NdArr)) else p_.value
            v0 = Cx.of(v0)
            goal0 = sp.And(sp.Eq(v0.re, 0), sp.Eq(v0.im, 0))
            if isinstance(p_.value, (list, NdArr)) and len(p_.value) == 2:
                v1 = Cx.of(p_.value[1])
                goal0 = sp.And(goal0, sp.Eq(v1.re, 2), sp.Eq(v1.im, 1))
            b.add(Obligation(oid=f"{fn0.key}::ensures:zero_argument[{lab}]@path{i_}", fn=fn0.key, clause="ensures sqrt_neg(0) == 0 (and the other elements of an array keep their principal roots: sqrt(3+4i) = 2+i)", goal=goal0, hyps=p_.hyps))
    # real branch (is_real=True, the one the interpreted radial solver calls): sqrt(x) for x > 0, i sqrt|x| for x < 0, 0 at 0
    xr = R("x_real")
    fn, ex, paths = run_fn(b, FPY, "_sqrt_neg_python", dict(z=xr, is_real=True), [], globals_env=dict(np=npx), xcheck=False)
    if paths:
        def g2(p):
            v = Cx.of(p.value)
            sq = v * v
            return sp.And(sp.Eq(sq.re, xr), sp.Eq(sq.im, 0), sp.Ge(v.re, 0), sp.Ge(v.im, 0))
        ensure(b, fn, "principal_square_root_of_a_real", paths, g2, [], clause="ensures (is_real=True) sqrt_neg(x)^2 == x with Re >= 0, Im >= 0 for every real x")
    # array arguments: the result is, element by element, the scalar result (two-element arrays of independent symbols; numpy object semantics)
    from tpv.symex import NdArr
    x1, x2 = R("x_first"), R("x_second")
    fn, ex, paths = run_fn(b, FPY, "_sqrt_neg_python", dict(z=NdArr([x1, x2]), is_real=True), [], globals_env=dict(np=npx), xcheck=False)
    if paths:
        def g3(p):
            if not isinstance(p.value, (list, NdArr)) or len(p.value) != 2:
                return sp.false
            out = []
            for v_, x_ in zip(p.value, (x1, x2)):
                v_ = Cx.of(v_)
                sq = v_ * v_
                out += [sp.Eq(sq.re, x_), sp.Eq(sq.im, 0), sp.Ge(v_.re, 0), sp.Ge(v_.im, 0)]
            return sp.And(*out)
        ensure(b, fn, "array_is_elementwise[real]", paths, g3, [], clause="ensures (is_real=True) an array argument gives, element by element, the principal square root of that element (mixed signs included)")
    z1, z2 = Cx(R("z1_re"), R("z1_im")), Cx(R("z2_re"), R("z2_im"))
    prez = [sp.Gt(z1.abs2(), 0), sp.Gt(z2.abs2(), 0)]
    fn, ex, paths = run_fn(b, FPY, "_sqrt_neg_python", dict(z=NdArr([z1, z2]), is_real=False), prez, globals_env=dict(np=npx), xcheck=False, opts=dict(max_paths=4096))
    if paths:
        # one obligation per element and path, with only the hypotheses that mention that element (fewer hypotheses = a stronger statement, and a much smaller query)
        for i_, p in enumerate(paths):
            if p.outcome != "return":
                continue
            ok_shape = isinstance(p.value, (list, NdArr)) and len(p.value) == 2
            if not ok_shape:
                ground(b, f"{fn.key}::ensures:array_is_elementwise[complex]@path{i_}", fn.key, "array in, array of the same length out", False, detail=str(type(p.value)))
                continue
            for k_, (v_, z_) in enumerate(zip(p.value, (z1, z2))):
                v_ = Cx.of(v_)
                sq = v_ * v_
                mine = {z_.re, z_.im}
                other = {z1.re, z1.im, z2.re, z2.im} - mine
                hy = [h for h in (prez + p.hyps) if not (getattr(h, "free_symbols", set()) & other)]
                b.add(Obligation(oid=f"{fn.key}::ensures:array_is_elementwise[complex;element{k_}]@path{i_}", fn=fn.key,
                                 clause="ensures (is_real=False) an array argument gives, element by element, the principal square root of that element",
                                 goal=sp.And(sp.Eq(sq.re, z_.re), sp.Eq(sq.im, z_.im), sp.Ge(v_.re, 0)), hyps=hy))


def _replay_itable(ob, res):
    from tpv import native
    out = native.run(dict(code="import sys, io\nsys.stdin = io.StringIO('n\\n')\nfrom TidalPy.radial_solver.numerical.initial.functions import l2p1_double_factorials as t\nresult = [float(x) for x in t]"), timeout=600)
    rec = dict(replayed=True, native=out)
    try:
        exact, bad = 1, []
        for l_, v in enumerate(out["result"]):
            exact *= (2 * l_ + 1)
            if abs(v - exact) > 1e-12 * exact:
                bad.append((l_, v, exact))
        rec["confirmed"] = bool(bad)
        rec["detail"] = str(bad[:3])
    except Exception:
        rec["confirmed"] = False
    return rec


def _replay_sqrt_neg(ob, res):
    from tpv import native
    code = r'''
import numpy as np, cmath
from TidalPy.utilities.math.special import sqrt_neg
bad = []
xs = np.asarray([4.0, -9.0, 2.25, -1e-3, 1e6])
arr = np.asarray(sqrt_neg(xs, True))
for x, a in zip(xs, arr):
    s = complex(sqrt_neg(float(x), True)); ref = cmath.sqrt(complex(x, 0.0))
    if abs(s - ref) > 1e-12 * abs(ref): bad.append(["scalar real", float(x), [s.real, s.imag]])
    if abs(complex(a) - ref) > 1e-12 * abs(ref): bad.append(["array real", float(x), [complex(a).real, complex(a).imag]])
for z in (3+4j, -3+4j, -3-4j, 3-4j, 2j, -2j, 5e-3j, -7.0+0j):
    s = complex(sqrt_neg(z, False)); ref = cmath.sqrt(z)
    if abs(s - ref) > 1e-12 * abs(ref): bad.append(["scalar complex", [z.real, z.imag], [s.real, s.imag]])
try:
    s = complex(sqrt_neg(0j, False))
    if not (s == 0): bad.append(["scalar zero", [0.0, 0.0], [s.real, s.imag]])
except BaseException as e:
    bad.append(["scalar zero raised", type(e).__name__])
try:
    a = np.asarray(sqrt_neg(np.asarray([0j, 3+4j]), False))
    if not (complex(a[0]) == 0 and abs(complex(a[1]) - (2+1j)) < 1e-12): bad.append(["array with zero", [complex(a[0]).real, complex(a[0]).imag], [complex(a[1]).real, complex(a[1]).imag]])
except BaseException as e:
    bad.append(["array with zero raised", type(e).__name__])
result = dict(bad=bad[:6], n=len(bad))
'''
    out = native.run(dict(code=code), timeout=600)
    rec = dict(replayed=True, native=out)
    rec["confirmed"] = bool("result" not in out or out["result"]["n"])
    return rec
