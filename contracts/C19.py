"""C19 — thermal building blocks: additive radiogenics, signed / monotone cooling, monotone viscosity laws,
floored melt laws.  Top-level clauses are taken from the property statement; exp / pow enter through the
axiom schemas of tpv.terms (positivity, monotonicity, exp(x) >= 1 + x) and explicitly listed instances of the
functional equation exp(a+b) = exp(a) exp(b).
"""
import ast
import sympy as sp
from tpv.kit import *
from tpv import terms as T
from contracts.common import FLOAT_EPS

FR = "TidalPy/radiogenics/radiogenic_models.py"
FC = "TidalPy/cooling/cooling_models.py"
FV = "TidalPy/rheology/viscosity/viscosity_models.py"
FM = "TidalPy/rheology/partial_melt/melting_models.py"

LOG_HALF = T.log_(sp.Rational(1, 2))
LMAX = R("float_lognat_max")
RGAS = R("R_gas")


def build(tier="quick", seed=0):
    b = Bundle("C19")
    b.const_values.update({RGAS: 8.314462618, LMAX: 709.782712893384})
    radiogenics(b)
    cooling(b)
    viscosity(b)
    melting(b)
    arrays(b)
    b.assume("exp/log/pow are uninterpreted with the schemas: exp > 0, exp monotone, exp(0) = 1, exp(x) >= 1 + x, pow(x,a) > 0 and monotone in x for a >= 0 (x > 0); exp(log(1/2)) = 1/2 and the listed instances of exp(a+b) = exp(a)exp(b)")
    b.assume("induction over the isotope loop counter: the discharged step obligation (total' = total + term_k) and the init obligation give total = sum_k term_k for every table length")
    b.assume("array inputs: two-element arrays of independent symbols with numpy object semantics for the functions that take arrays directly (radiogenic, cooling, viscosity laws); the melt laws branch on scalars and receive arrays through np.vectorize (not modelled)")
    b.assume("cooling monotonicity/sign clauses are stated for delta_temp > 2^-52 K (both points); the guard band 0 < delta_temp <= 2^-52 K, where the code substitutes a 1 m boundary layer, is excluded")
    return b


# ---------------------------------------------------------------------------------------------
def radiogenics(b):
    t, tref, mass = R("time"), R("ref_time"), R("mass")
    genv = dict(LOG_HALF=LOG_HALF)
    fn = Fn(FR, "isotope")
    b.add_fn(fn)
    # module constant LOG_HALF must be log(0.5)
    mc = fn.src.module_constants().get("LOG_HALF")
    try:
        import math
        val = eval(compile(ast.Expression(mc), "LOG_HALF", "eval"), {"np": math, "math": math}) if mc is not None else None
        st_ = "ok" if (val is not None and abs(val - math.log(0.5)) <= 4e-16) else ("wrong" if val is not None else "unknown")
    except Exception:
        st_ = "unknown"
    structural(b, f"{FR}::LOG_HALF", f"{FR}::LOG_HALF", "module constant LOG_HALF == ln(1/2)", st_, detail=ast.unparse(mc) if mc else "missing")
    loops = [s for s in fn.node.body if isinstance(s, ast.For)]
    if len(loops) != 1:
        b.subset_exits.append(f"{fn.key}: expected exactly one loop")
        return
    loop = loops[0]
    pre_stmts = fn.node.body[:fn.node.body.index(loop)]
    post_stmts = fn.node.body[fn.node.body.index(loop) + 1:]
    # loop header: zip of the four tables; the loop variables are bound BY POSITION to the table they iterate (names and order are free)
    names4 = ["iso_massfracs_of_isotope", "iso_element_concentrations", "iso_halflives", "iso_heat_production"]
    recognised = isinstance(loop.iter, ast.Call) and ast.unparse(loop.iter.func) == "zip" and len(loop.iter.args) == 4 and all(isinstance(a_, ast.Name) for a_ in loop.iter.args) \
        and isinstance(loop.target, ast.Tuple) and len(loop.target.elts) == 4 and all(isinstance(e_, ast.Name) for e_ in loop.target.elts)
    hdr_ok = recognised and sorted(a_.id for a_ in loop.iter.args) == sorted(names4)
    structural(b, f"{fn.key}::loop_header", fn.key, "loop iterates the four isotope tables in lock-step, one loop variable per table", "ok" if hdr_ok else ("wrong" if recognised else "unknown"),
               detail=ast.unparse(loop.iter) + " -> " + ast.unparse(loop.target))
    if not hdr_ok:
        return
    S, f, c, tau, q = R("total_k"), R("f_k"), R("c_k"), R("tau_k"), R("q_k")
    sym_of_table = dict(zip(names4, (f, c, tau, q)))
    loop_vars = {e_.id: sym_of_table[a_.id] for e_, a_ in zip(loop.target.elts, loop.iter.args)}
    # the accumulator: the one name stored both before the loop and inside it
    stored = lambda stmts: {n_.id for s_ in stmts for n_ in ast.walk(s_) if isinstance(n_, ast.Name) and isinstance(n_.ctx, ast.Store)}
    acc = sorted(stored(pre_stmts) & stored(loop.body))
    if len(acc) != 1:
        structural(b, f"{fn.key}::accumulator", fn.key, "one accumulator is initialised before the loop and updated inside it", "unknown", detail=str(acc))
        return
    acc = acc[0]
    params = dict(time=t, ref_time=tref, mass=mass)
    # init: the statements before the loop (also binds loop-invariant temporaries)
    prelude = [s for s in pre_stmts if not (isinstance(s, ast.Expr) and isinstance(s.value, ast.Constant))]
    fr, ex, paths = run_fragment(b, fn, prelude, "init", dict(params), [], globals_env=genv)
    carried = {}
    if paths:
        ensure(b, fr, "sum_starts_at_zero", paths, lambda p: sp.Eq(p.env[acc], 0), clause="invariant init: total == 0 (empty sum)")
        if len(paths) == 1:
            carried = {k_: v_ for k_, v_ in paths[0].env.items() if k_ in stored(prelude) and k_ != acc}
    # step (generic iteration k)
    prek = [sp.Gt(tau, 0)]
    term = f * c * q * T.exp_(LOG_HALF * (t - tref) / tau)
    fr, ex, paths = run_fragment(b, fn, loop.body, "step", dict(params, **carried, **{acc: S}, **loop_vars), prek, globals_env=genv)
    if paths:
        # a `continue` ends the iteration like falling off the end of the body: the invariant must hold there too
        for p_ in paths:
            if p_.outcome == "continue":
                p_.outcome = "return"
        ensure(b, fr, "invariant_step", paths, lambda p: sp.Eq(p.env[acc], S + term), prek,
               clause="invariant step: total' == total + f_k c_k q_k exp(ln(1/2) (t - t_ref)/tau_k) (also on iterations ended by `continue`)")
        # an early `break` drops every later isotope: with a generic table that breaks the postcondition, so such a path must be infeasible
        for i_, p_ in enumerate(paths):
            if p_.outcome == "break":
                b.add(Obligation(oid=f"{fr.key}::no_early_exit@path{i_}", fn=fr.key, clause="the isotope loop is never left early (a `break` would drop the contributions of all later isotopes): the path must be infeasible",
                                 goal=sp.false, hyps=list(prek) + p_.hyps, meta=dict(path_condition=[str(c_) for c_ in p_.pc])))
    # exit: heating = total * mass
    fr, ex, paths = run_fragment(b, fn, post_stmts, "exit", dict(params, **carried, **{acc: S}), [], globals_env=genv)
    if paths:
        ensure(b, fr, "mass_weighted", paths, lambda p: sp.Eq(p.value, S * mass), clause="ensures result == mass * sum (linear in mass)")
    # consequences on unrolled tables (n = 1, 2): reference value, half-life, additivity, linearity in concentration
    f1, c1, tau1, q1, f2, c2, tau2, q2, lam = [R(x) for x in ("f_1", "c_1", "tau_1", "q_1", "f_2", "c_2", "tau_2", "q_2", "lam")]
    pre1 = [sp.Gt(tau1, 0), sp.Gt(tau2, 0)]

    def run_iso(tv, fs, cs, taus, qs, tag):
        return run_fn(b, FR, "isotope", dict(time=tv, mass=mass, iso_massfracs_of_isotope=tuple(fs), iso_element_concentrations=tuple(cs),
                                              iso_halflives=tuple(taus), iso_heat_production=tuple(qs), ref_time=tref), pre1, globals_env=genv)
    fn1, ex, p_ref = run_iso(tref, [f1], [c1], [tau1], [q1], "ref")
    if p_ref:
        ensure(b, fn1, "reference_value", p_ref, lambda p: sp.Eq(p.value, mass * f1 * c1 * q1), pre1,
               clause="ensures (single isotope) value at t = t_ref equals mass * f c q")
    fn1, ex, p_t = run_iso(t, [f1], [c1], [tau1], [q1], "t")
    fn1, ex, p_h = run_iso(t + tau1, [f1], [c1], [tau1], [q1], "t+tau")
    if p_t and p_h:
        A = LOG_HALF * (t - tref) / tau1
        inst = [sp.Eq(T.exp_(LOG_HALF * (t + tau1 - tref) / tau1), T.exp_(A) * T.exp_(LOG_HALF)), sp.Eq(T.exp_(LOG_HALF), sp.Rational(1, 2))]
        relate_runs(b, fn1, "halves_after_half_life", "ensures (single isotope) value(t + tau) == value(t)/2", p_t, p_h,
                    lambda pa, pb: sp.Eq(pb.value, pa.value / 2), pre1 + inst)
    fn2, ex, p_12 = run_iso(t, [f1, f2], [c1, c2], [tau1, tau2], [q1, q2], "two")
    fn2, ex, p_2 = run_iso(t, [f2], [c2], [tau2], [q2], "second")
    if p_12 and p_t and p_2:
        b.add(Obligation(oid=f"{fn.key}::ensures:additive", fn=fn.key, clause="ensures heating(iso1 + iso2) == heating(iso1) + heating(iso2) (independent contributions)",
                         goal=sp.Eq(p_12[0].value, p_t[0].value + p_2[0].value), hyps=pre1))
    fnl, ex, p_l = run_iso(t, [f1, f2], [lam * c1, c2], [tau1, tau2], [q1, q2], "scaled")
    if p_l and p_12 and p_2:
        b.add(Obligation(oid=f"{fn.key}::ensures:linear_in_concentration", fn=fn.key, clause="ensures scaling one concentration by lam scales that isotope's contribution by lam",
                         goal=sp.Eq(p_l[0].value - p_2[0].value, lam * (p_12[0].value - p_2[0].value)), hyps=pre1))
    # fixed / off
    H, tauf = R("fixed_heat_production"), R("average_half_life")
    fnf, ex, pf = run_fn(b, FR, "fixed", dict(time=t, mass=mass, fixed_heat_production=H, average_half_life=tauf, ref_time=tref), [sp.Gt(tauf, 0)], globals_env=genv)
    if pf:
        ensure(b, fnf, "formula", pf, lambda p: sp.Eq(p.value, mass * H * T.exp_(LOG_HALF * (t - tref) / tauf)), [sp.Gt(tauf, 0)],
               clause="ensures result == mass * H * exp(ln(1/2)(t - t_ref)/tau)")
        no_raise(b, fnf, pf)
    fno, ex, po = run_fn(b, FR, "off", dict(time=t, mass=mass), [])
    if po:
        ensure(b, fno, "zero", po, lambda p: sp.Eq(p.value, 0), clause="ensures result == 0")


# ---------------------------------------------------------------------------------------------
def arrays(b):
    """scalar and array inputs: an array argument gives, element by element, the value of the scalar call (relational postcondition on the real functions)"""
    t, tref, mass = R("time"), R("ref_time"), R("mass")
    genv = dict(LOG_HALF=LOG_HALF)
    H, tauf = R("fixed_heat_production"), R("average_half_life")
    elementwise(b, FR, "fixed", dict(time=t, mass=mass, fixed_heat_production=H, average_half_life=tauf, ref_time=tref), ["time"], [sp.Gt(tauf, 0)], globals_env=genv)
    f1, c1, tau1, q1, f2, c2, tau2, q2 = [R(x) for x in ("f_1", "c_1", "tau_1", "q_1", "f_2", "c_2", "tau_2", "q_2")]
    elementwise(b, FR, "isotope", dict(time=t, mass=mass, iso_massfracs_of_isotope=(f1, f2), iso_element_concentrations=(c1, c2), iso_halflives=(tau1, tau2), iso_heat_production=(q1, q2), ref_time=tref),
                ["time"], [sp.Gt(tau1, 0), sp.Gt(tau2, 0)], globals_env=genv)
    names = ["delta_temp", "viscosity", "thermal_conductivity", "thermal_diffusivity", "thermal_expansion", "layer_thickness", "gravity",
             "density", "convection_alpha", "convection_beta", "critical_rayleigh"]
    sy = {k: R(k) for k in names}
    cg = dict(float_eps=FLOAT_EPS, MIN_VISCOSITY=sp.Integer(1), MIN_THICKNESS=sp.Integer(50))
    pos = [sp.Gt(sy[k], 0) for k in names if k not in ("delta_temp", "convection_beta")] + [sp.Gt(sy["convection_beta"], 0), sp.Gt(sy["delta_temp"], FLOAT_EPS)]
    elementwise(b, FC, "convection", sy, ["delta_temp", "viscosity"], pos, globals_env=cg)
    csy = {k: sy[k] for k in ("delta_temp", "thermal_conductivity", "layer_thickness")}
    elementwise(b, FC, "conduction", csy, ["delta_temp"], [sp.Gt(csy["thermal_conductivity"], 0), sp.Gt(csy["layer_thickness"], 0), sp.Gt(csy["delta_temp"], 0)], globals_env=cg)
    vg = dict(R=RGAS, float_lognat_max=LMAX)
    Tm, P = R("temperature"), R("pressure")
    E, V = R("molar_activation_energy"), R("molar_activation_volume")
    eta0, Tref = R("reference_viscosity"), R("reference_temperature")
    base = [sp.Gt(RGAS, 0), sp.Gt(LMAX, 1)]
    elementwise(b, FV, "reference", dict(temperature=Tm, pressure=P, reference_viscosity=eta0, reference_temperature=Tref, molar_activation_energy=E, molar_activation_volume=V), ["temperature", "pressure"],
                base + [sp.Gt(Tm, 0), sp.Gt(eta0, 0), sp.Gt(Tref, 0)], globals_env=vg)
    A, s_, se, gs, ge = [R(x) for x in ("arrhenius_coeff", "stress", "stress_expo", "grain_size", "grain_size_expo")]
    for extra in (False, True):
        elementwise(b, FV, "arrhenius", dict(temperature=Tm, pressure=P, arrhenius_coeff=A, additional_temp_dependence=extra, stress=s_, stress_expo=se, grain_size=gs, grain_size_expo=ge,
                                              molar_activation_energy=E, molar_activation_volume=V), ["temperature", "pressure"], base + [sp.Gt(Tm, 0), sp.Gt(A, 0), sp.Gt(s_, 0), sp.Gt(gs, 0)],
                    globals_env=vg, clause_id=f"array_is_elementwise[extra={int(extra)}]")


    cool = dict(thermal_conductivity=4.0, thermal_diffusivity=1.0e-6, thermal_expansion=3.0e-5, layer_thickness=2.0e6, gravity=9.8, density=3300., convection_alpha=1.0, convection_beta=1. / 3., critical_rayleigh=1100.)
    b.replayer(f"{FC}::convection::ensures:array_is_elementwise*", make_elementwise_replayer("TidalPy.cooling.cooling_models", "convection", cool, dict(delta_temp=[1.0e-20, 5.0, 1500.0], viscosity=[1.0e22, 1.0e14, 1.0e18])))
    b.replayer(f"{FC}::conduction::ensures:array_is_elementwise*", make_elementwise_replayer("TidalPy.cooling.cooling_models", "conduction", dict(thermal_conductivity=4.0, layer_thickness=2.0e6), dict(delta_temp=[1.0e-20, 5.0, 1500.0])))
    b.replayer(f"{FR}::fixed::ensures:array_is_elementwise*", make_elementwise_replayer("TidalPy.radiogenics.radiogenic_models", "fixed", dict(mass=1.0e22, fixed_heat_production=1.0e-11, average_half_life=1250., ref_time=4600.), dict(time=[0.0, 4600.0, 9000.0])))
    b.replayer(f"{FR}::isotope::ensures:array_is_elementwise*", make_elementwise_replayer("TidalPy.radiogenics.radiogenic_models", "isotope",
               dict(mass=1.0e22, iso_massfracs_of_isotope=(0.9928, 0.0071), iso_element_concentrations=(2.0e-8, 2.0e-8), iso_halflives=(4470., 704.), iso_heat_production=(9.5e-5, 5.7e-4), ref_time=4600.), dict(time=[0.0, 4600.0, 9000.0])))
    visc = dict(pressure=1.0e9, reference_viscosity=1.0e21, reference_temperature=1600., molar_activation_energy=3.0e5, molar_activation_volume=1.0e-6)
    b.replayer(f"{FV}::reference::ensures:array_is_elementwise*", make_elementwise_replayer("TidalPy.rheology.viscosity.viscosity_models", "reference", {k_: v_ for k_, v_ in visc.items() if k_ != "pressure"}, dict(temperature=[40.0, 1200.0, 2500.0], pressure=[0.0, 1.0e9, 1.0e11])))
    for extra in (False, True):
        b.replayer(f"{FV}::arrhenius::ensures:array_is_elementwise[extra={int(extra)}]*", make_elementwise_replayer("TidalPy.rheology.viscosity.viscosity_models", "arrhenius",
                   dict(arrhenius_coeff=1.0e-9, additional_temp_dependence=extra, stress=1.0, stress_expo=1.0, grain_size=1.0, grain_size_expo=1.0, molar_activation_energy=3.0e5, molar_activation_volume=1.0e-6),
                   dict(temperature=[40.0, 1200.0, 2500.0], pressure=[0.0, 1.0e9, 1.0e11])))


# ---------------------------------------------------------------------------------------------
def cooling(b):
    names = ["delta_temp", "viscosity", "thermal_conductivity", "thermal_diffusivity", "thermal_expansion", "layer_thickness", "gravity",
             "density", "convection_alpha", "convection_beta", "critical_rayleigh"]
    sy = {k: R(k) for k in names}
    genv = dict(float_eps=FLOAT_EPS, MIN_VISCOSITY=sp.Integer(1), MIN_THICKNESS=sp.Integer(50))
    fnc = Fn(FC, "convection")
    mc = fnc.src.module_constants()
    for cname in ("MIN_THICKNESS",):
        node = mc.get(cname)
        if node is not None:
            genv[cname] = T.dec(ast.unparse(node)) if isinstance(node, ast.Constant) else sp.Integer(50)
    pos = [sp.Gt(sy[k], 0) for k in names if k not in ("delta_temp", "convection_beta")] + [sp.Gt(sy["convection_beta"], 0), sp.Gt(sy["delta_temp"], FLOAT_EPS)]
    fn, ex, p1 = run_fn(b, FC, "convection", sy, pos, globals_env=genv)
    if p1:
        no_raise(b, fn, p1, pos)
        ensure(b, fn, "flux_positive", p1, lambda p: sp.Gt(p.value[0], 0), pos, clause="ensures cooling flux > 0 for delta_temp > 0")
        k, dT, L = sy["thermal_conductivity"], sy["delta_temp"], sy["layer_thickness"]
        ensure(b, fn, "at_least_conduction", p1, lambda p: sp.Ge(p.value[0], k * dT / L), pos,
               clause="ensures convective flux >= conductive flux k dT / L across the same layer")
        ensure(b, fn, "nusselt_floor", p1, lambda p: sp.Ge(p.value[3], 2), pos, clause="ensures Nusselt number >= 2")
        # monotone in delta_temp and viscosity: second run with renamed symbol
        for var, sense in (("delta_temp", "nondecreasing"), ("viscosity", "nonincreasing")):
            v2 = R(var + "_2")
            sy2 = dict(sy)
            sy2[var] = v2
            pos2 = rename(pos, {sy[var]: v2})
            fn_, ex2, p2 = run_fn(b, FC, "convection", sy2, pos2, globals_env=genv)
            if p2:
                if sense == "nondecreasing":
                    g = lambda pa, pb: sp.Le(pa.value[0], pb.value[0])
                else:
                    g = lambda pa, pb: sp.Ge(pa.value[0], pb.value[0])
                relate_runs(b, fn, f"flux_{sense}_in_{var}", f"ensures flux is {sense} in {var}", p1, p2, g, pos + pos2 + [sp.Le(sy[var], v2)])
    # conduction
    csy = {k: sy[k] for k in ("delta_temp", "thermal_conductivity", "layer_thickness")}
    cpos = [sp.Gt(csy["thermal_conductivity"], 0), sp.Gt(csy["layer_thickness"], 0), sp.Gt(csy["delta_temp"], 0)]
    fn, ex, pc = run_fn(b, FC, "conduction", csy, cpos, globals_env=genv)
    if pc:
        no_raise(b, fn, pc, cpos)
        ensure(b, fn, "flux", pc, lambda p: sp.Eq(p.value[0], csy["thermal_conductivity"] * csy["delta_temp"] / csy["layer_thickness"]), cpos,
               clause="ensures conductive flux == k dT / L (positive, linear hence non-decreasing in dT, independent of viscosity)")
        ensure(b, fn, "flux_positive", pc, lambda p: sp.Gt(p.value[0], 0), cpos, clause="ensures flux > 0")
    fn, ex, po = run_fn(b, FC, "off", dict(delta_temp=sy["delta_temp"], layer_thickness=sy["layer_thickness"]), [], globals_env=genv)
    if po:
        ensure(b, fn, "zero", po, lambda p: sp.Eq(p.value[0], 0), clause="ensures flux == 0 when cooling is off")


# ---------------------------------------------------------------------------------------------
def viscosity(b):
    genv = dict(R=RGAS, float_lognat_max=LMAX)
    base = [sp.Gt(RGAS, 0), sp.Gt(LMAX, 1)]
    Tm, T2, P = R("temperature"), R("temperature_2"), R("pressure")
    E, V = R("molar_activation_energy"), R("molar_activation_volume")
    # reference law
    eta0, Tref = R("reference_viscosity"), R("reference_temperature")
    pre = base + [sp.Gt(Tm, 0), sp.Gt(T2, 0), sp.Le(Tm, T2), sp.Gt(eta0, 0), sp.Gt(Tref, 0), sp.Ge(E + P * V, 0)]
    a1 = dict(temperature=Tm, pressure=P, reference_viscosity=eta0, reference_temperature=Tref, molar_activation_energy=E, molar_activation_volume=V)
    fn, ex, p1 = run_fn(b, FV, "reference", a1, pre, globals_env=genv)
    a2 = dict(a1, temperature=T2)
    fn, ex, p2 = run_fn(b, FV, "reference", a2, pre, globals_env=genv)
    if p1 and p2:
        no_raise(b, fn, p1, pre)
        relate_runs(b, fn, "nonincreasing_in_T", "ensures viscosity(T1) >= viscosity(T2) for T1 <= T2 when E + pV >= 0", p1, p2,
                    lambda pa, pb: sp.Ge(pa.value, pb.value), pre)
        ensure(b, fn, "positive", p1, lambda p: sp.Gt(p.value, 0), pre, clause="ensures viscosity > 0")
    # arrhenius, without and with the extra temperature prefactor
    A, s, se, gs, ge = [R(x) for x in ("arrhenius_coeff", "stress", "stress_expo", "grain_size", "grain_size_expo")]
    for extra in (False, True):
        prea = base + [sp.Gt(Tm, 0), sp.Gt(T2, 0), sp.Le(Tm, T2), sp.Gt(A, 0), sp.Gt(s, 0), sp.Gt(gs, 0), sp.Ge(E + P * V, 0)]
        if extra:
            # T exp(E'/(R T)) is non-increasing exactly where E' >= R T; the clamp must not be active (it would flatten exp while T still grows)
            prea += [sp.Ge(E + P * V, RGAS * T2), sp.Lt((E + P * V) / (Tm * RGAS), LMAX)]
        b1 = dict(temperature=Tm, pressure=P, arrhenius_coeff=A, additional_temp_dependence=extra, stress=s, stress_expo=se, grain_size=gs,
                  grain_size_expo=ge, molar_activation_energy=E, molar_activation_volume=V)
        fn, ex, q1 = run_fn(b, FV, "arrhenius", b1, prea, globals_env=genv)
        fn, ex, q2 = run_fn(b, FV, "arrhenius", dict(b1, temperature=T2), prea, globals_env=genv)
        if q1 and q2:
            no_raise(b, fn, q1, prea)
            inst = []
            if extra:
                u1, u2 = (E + P * V) / (Tm * RGAS), (E + P * V) / (T2 * RGAS)
                inst = [sp.Eq(T.exp_(u1), T.exp_(u2) * T.exp_(u1 - u2)), sp.Ge(T.exp_(u1 - u2), 1 + (u1 - u2))]
            relate_runs(b, fn, f"nonincreasing_in_T:extraT={int(extra)}",
                        "ensures viscosity(T1) >= viscosity(T2) for T1 <= T2 when E + pV >= 0" + (" and E + pV >= R T (extra T prefactor), clamp inactive" if extra else ""),
                        q1, q2, lambda pa, pb: sp.Ge(pa.value, pb.value), prea + inst)
    if True:
        b.assume("arrhenius with additional_temp_dependence=True: T exp(E'/(RT)) is non-increasing only where E' = E + pV >= R T; the clause is proved under that precondition and with the overflow clamp inactive")


# ---------------------------------------------------------------------------------------------
def melting(b):
    m, m2, Tm = R("melt_fraction"), R("melt_fraction_2"), R("temperature")
    eta_s, eta_l, mu_s, mu_l = R("premelt_viscosity"), R("liquid_viscosity"), R("premelt_shear"), R("liquid_shear")
    sol, liq = R("solidus"), R("liquidus")
    crit, width = R("crit_melt_frac"), R("crit_melt_frac_width")
    s1, s2, sp1, sp2, sfall = [R(x) for x in ("hn_visc_slope_1", "hn_visc_falloff_slope", "hn_shear_param_1", "hn_shear_param_2", "hn_shear_falloff_slope")]
    pre = [sp.Ge(m, 0), sp.Le(m, 1), sp.Gt(Tm, 0), sp.Gt(eta_l, 0), sp.Gt(mu_l, 0), sp.Ge(eta_s, eta_l), sp.Ge(mu_s, mu_l),
           sp.Gt(sol, 0), sp.Gt(liq, sol), sp.Gt(crit, 0), sp.Lt(crit, 1), sp.Gt(width, 0), sp.Ge(s1, 0), sp.Ge(s2, 0), sp.Ge(sfall, 0)]
    args = dict(melt_fraction=m, temperature=Tm, premelt_viscosity=eta_s, liquid_viscosity=eta_l, premelt_shear=mu_s, solidus=sol, liquidus=liq,
                liquid_shear=mu_l, crit_melt_frac=crit, crit_melt_frac_width=width, hn_visc_slope_1=s1, hn_visc_falloff_slope=s2,
                hn_shear_param_1=sp1, hn_shear_param_2=sp2, hn_shear_falloff_slope=sfall)
    fn, ex, p1 = run_fn(b, FM, "henning", args, pre, opts=dict(max_paths=4096))
    if p1:
        no_raise(b, fn, p1, pre)
        ensure(b, fn, "floors", p1, lambda p: sp.And(sp.Ge(p.value[0], eta_l), sp.Ge(p.value[1], mu_l)), pre,
               clause="ensures viscosity >= liquid viscosity and rigidity >= liquid rigidity")
        ensure(b, fn, "premelt_at_zero", p1, lambda p: sp.And(sp.Eq(p.value[0], eta_s), sp.Eq(p.value[1], mu_s)), pre + [sp.Le(m, 0)],
               clause="ensures melt fraction <= 0 ==> (premelt viscosity, premelt rigidity)")
        ensure(b, fn, "liquid_beyond_window", p1, lambda p: sp.And(sp.Eq(p.value[0], eta_l), sp.Eq(p.value[1], mu_l)), pre + [sp.Gt(m, crit + width)],
               clause="ensures melt fraction > crit + width ==> exactly (liquid viscosity, liquid rigidity)")
        pre2 = rename(pre, {m: m2})
        fn, ex, p2 = run_fn(b, FM, "henning", dict(args, melt_fraction=m2), pre2, opts=dict(max_paths=4096))
        if p2:
            relate_runs(b, fn, "viscosity_nonincreasing_in_melt", "ensures viscosity(m1) >= viscosity(m2) for m1 <= m2", p1, p2,
                        lambda pa, pb: sp.Ge(pa.value[0], pb.value[0]), pre + pre2 + [sp.Le(m, m2)])
    b.replayer(f"{FM}::henning::ensures:liquid_beyond_window*", _replay_henning)
    b.replayer("*", _replay_c19)
    # spohn
    args = dict(melt_fraction=m, temperature=Tm, liquid_viscosity=eta_l, liquid_shear=mu_l, fs_visc_power_slope=R("fs_visc_power_slope"),
                fs_visc_power_phase=R("fs_visc_power_phase"), fs_shear_power_slope=R("fs_shear_power_slope"), fs_shear_power_phase=R("fs_shear_power_phase"))
    pres = [sp.Gt(Tm, 0), sp.Gt(eta_l, 0), sp.Gt(mu_l, 0)]
    fn, ex, ps = run_fn(b, FM, "spohn", args, pres)
    if ps:
        no_raise(b, fn, ps, pres)
        ensure(b, fn, "floors", ps, lambda p: sp.And(sp.Ge(p.value[0], eta_l), sp.Ge(p.value[1], mu_l)), pres,
               clause="ensures viscosity >= liquid viscosity and rigidity >= liquid rigidity")
    fn, ex, po = run_fn(b, FM, "off", dict(melt_fraction=m, premelt_viscosity=eta_s, premelt_shear=mu_s), [])
    if po:
        ensure(b, fn, "identity", po, lambda p: sp.And(sp.Eq(p.value[0], eta_s), sp.Eq(p.value[1], mu_s)),
               clause="ensures the melt law 'off' returns the pre-melt values (>= liquid values by the precondition premelt >= liquid)")
    b.assume("melt laws: precondition premelt viscosity/rigidity >= liquid viscosity/rigidity (> 0), 0 <= melt fraction <= 1, slopes >= 0, 0 < crit < 1, width > 0")


def _replay_henning(ob, res):
    from tpv import native
    args = [0.9, 1600.0, 1e21, 1.0, 6e10, 1400.0, 2000.0, 1e-5]
    out = native.call("TidalPy.rheology.partial_melt.melting_models", "henning", args)
    rec = dict(replayed=True, inputs=dict(melt_fraction=0.9, temperature=1600.0, premelt_viscosity=1e21, liquid_viscosity=1.0, premelt_shear=6e10,
                                          solidus=1400.0, liquidus=2000.0, liquid_shear=1e-5), native=out, expected=[1.0, 1e-5])
    try:
        v = native.unc(out["result"])
        rec["confirmed"] = not (abs(v[0] - 1.0) < 1e-12 and abs(v[1] - 1e-5) < 1e-17)
    except Exception:
        rec["confirmed"] = False
    return rec


_C19_NATIVE = r'''
import numpy as np
fails = []
# radiogenics: independent contributions, also with switched-off entries
from TidalPy.radiogenics.radiogenic_models import isotope
LOG_HALF = np.log(0.5)
mf = (1.0, 0.9928, 0.0071, 0.9998, 1.19e-4); hl = (103., 4470., 704., 14000., 1250.); hp = (0.3583, 9.46e-5, 5.69e-4, 2.64e-5, 2.92e-5); cc = (5.0e-7, 20.3e-9, 20.3e-9, 79.5e-9, 240.e-6)
for tm in (4000., 4600.):
    for off in (None, 0, 2, 4):
        c = tuple(0. if i == off else x for i, x in enumerate(cc))
        got = isotope(tm, 1.0e22, mf, c, hl, hp, 4600.)
        want = 1.0e22 * sum(f * x * q * np.exp(LOG_HALF * (tm - 4600.) / t_) for f, x, t_, q in zip(mf, c, hl, hp))
        if not np.isclose(got, want, rtol=1e-10): fails.append(["isotope", "time %g, isotope %s switched off: %r != %r" % (tm, off, float(got), float(want))])
# cooling: positive, at least conduction, monotone
from TidalPy.cooling.cooling_models import convection, conduction
for L in (1., 12.5, 49.9, 50., 75., 5.0e3, 4.0e5):
    for eta in (1.0e14, 1.0e18, 1.0e22, 1.0e26):
        prev = None
        for dT in (0.5, 10., 200., 1500.):
            f = float(convection(dT, eta, 3.75, 3.0e-6, 5.2e-5, L, 1.5, 3300., 1., 1. / 3., 1100.)[0]); c = float(conduction(dT, 3.75, L)[0])
            if f <= 0 or f < c * (1 - 1e-12): fails.append(["convection", "L=%g eta=%g dT=%g: convective %g < conductive %g" % (L, eta, dT, f, c)])
            if prev is not None and f < prev: fails.append(["convection", "L=%g eta=%g: flux decreases with dT" % (L, eta)])
            prev = f
# viscosity: non-increasing in temperature (also very cold material)
from TidalPy.rheology.viscosity.viscosity_models import reference, arrhenius
for E, Tref in ((3.0e5, 1600.), (6.0e4, 270.)):
    Ts = np.asarray([5., 9., 20., 45., 49., 52., 80., 150., 400., 900., 1600., 2000.])
    v = np.asarray([float(reference(float(T_), 0., 1.0e22, Tref, E, 0.)) for T_ in Ts])
    if np.any(np.diff(v) > 0): fails.append(["reference", "E=%g: viscosity increases with temperature: %r" % (E, v.tolist())])
# partial melt: floors, liquid beyond the window, viscosity non-increasing in melt fraction
from TidalPy.rheology.partial_melt.melting_models import henning
melt = np.linspace(0., 1., 201); sol, liq = 1600., 2000.
ones = np.ones_like(melt)
visc, shear = henning(melt, sol + melt * (liq - sol), 1.0e22 * ones, 1.0 * ones, 6.0e10 * ones, sol, liq, 1.0e-5, 0.5, 0.05, 13.5, 370., 40000., 25., 700.)
if np.any(np.diff(visc) > 0): fails.append(["henning", "viscosity increases with melt fraction near %g" % float(melt[1:][np.diff(visc) > 0][0])])
if np.any(visc < 1.0) or np.any(shear < 1.0e-5): fails.append(["henning", "below the liquid values"])
if np.any(visc[melt > 0.5501] != 1.0) or np.any(shear[melt > 0.5501] != 1.0e-5): fails.append(["henning", "not the liquid values beyond the window"])
result = dict(failures=fails[:8], n=len(fails))
'''


def _replay_c19(ob, res):
    """native run of the property's clauses for the family the failed obligation belongs to (public functions, sample inputs)"""
    from tpv import native
    out = native.run(dict(code=_C19_NATIVE), timeout=600)
    rec = dict(replayed=True, native=out)
    if "result" not in out:
        rec["confirmed"] = True
        rec["detail"] = "the real function raised on the sample inputs"
        return rec
    fam = "isotope" if "radiogenic" in ob.fn else ("convection" if "cooling" in ob.fn else ("reference" if "viscosity_models" in ob.fn else ("henning" if "melting" in ob.fn else "")))
    hits = [f for f in out["result"]["failures"] if f[0] == fam or (fam == "reference" and f[0] == "arrhenius")]
    rec["confirmed"] = bool(hits)
    rec["family"] = fam
    rec["detail"] = hits[:3]
    return rec
