"""C06 — the radial solver is total, memory-safe and leaves its inputs intact.

The real `radial_solver` / `cf_radial_solver` (translated solver.pyx and everything it calls inside the repository, see contracts/solver_model.py)
are executed symbolically as one function per scenario = (layer stack, entry point, nondimensionalize, requested solutions, injected fault,
raise_on_fail).  All numeric inputs are symbols; the stack and the fault are concrete.  Per scenario the obligations are
  total      every explored path ends in `return <solution object>` or in a Python exception (no construct outside the executor's subset,
             every loop runs to completion under its concrete bound);
  memory     no out-of-bounds read/write on a stack array, heap block or caller array, no use after free, no double/invalid free
             (one obligation per scenario, and one per distinct event signature when something fires, so that a recorded finding never
             hides a different event);
  inputs     at every exit (normal or exceptional) each element of the five caller arrays equals its entry value (exact real arithmetic:
             (x/c)*c = x; "few ulp" in floating point is an assumption);
  protocol   injected failure and not raise_on_fail  ->  solution returned with success False and a non-empty message;
             injected failure and raise_on_fail      ->  exception;   no failure -> success True.
and, on the real class RadialSolverSolution: result / love / k / h / l / __getitem__ return None unless success.
Heap blocks still allocated at exit are reported as notes (a leak is not a memory-safety violation and is not part of the statement).
"""
import sympy as sp
from tpv.kit import *
from tpv import terms as T
from tpv.terms import Cx
from tpv.symex import Exec, SymExError, Obj, Namespace
from contracts import solver_model as SM

KEY = SM.FSOL + "::radial_solver"
KEYCF = SM.FSOL + "::cf_radial_solver"
SINGLES = list(SM.LAYER_KINDS)
PAIRS = [[a, c] for a in SINGLES for c in SINGLES]
TRIPLES = [["S", "L", "S"], ["Ls", "S", "L"], ["S", "Ls", "S"], ["Ss", "Li", "Ssi"], ["L", "Ls", "S"], ["S", "S", "Ls"]]
FAULT_STACKS = [["S"], ["Ls", "S"], ["S", "L", "Ss"]]


def scen_name(stack, **kw):
    parts = ["stack=" + "-".join(stack)]
    for k in sorted(kw):
        v = kw[k]
        if k == "solve_for" and v is None:
            parts.append("solve_for=None")        # explicitly requested default (differs from the scenarios that pass ('tidal',))
            continue
        if (v is None or v is False) and k not in ("nondim",):
            continue
        if k == "solve_for":
            v = "+".join(v) if isinstance(v, (tuple, list)) else str(v)
        if k == "fail_layer":
            v = f"layer{v[0]}sol{v[1]}"
        if isinstance(v, bool):
            v = int(v)
        parts.append(f"{k}={v}")
    return ";".join(parts)


def scenarios(tier):
    out = []
    add = lambda stack, **kw: out.append((stack, kw))
    triples = TRIPLES if tier == "quick" else [[a_, b_, c_] for a_ in SINGLES for b_ in SINGLES for c_ in SINGLES]      # thorough: every triple of layer kinds
    for st in [[k] for k in SINGLES] + PAIRS + triples:
        add(st, nondim=True)
    for st in [[k] for k in SINGLES] + (PAIRS if tier == "thorough" else PAIRS[::9]):
        add(st, nondim=False)
    for st in [[k] for k in SINGLES] + (PAIRS[::5] if tier == "thorough" else []):
        add(st, nondim=True, entry="wrapper")
    fstacks = FAULT_STACKS + ([["L", "S"], ["S", "Ls", "L"], ["Ss", "Ss"]] if tier == "thorough" else [])
    for st in fstacks:
        nsol = [3 if SM.LAYER_KINDS[k][0] == 0 else (1 if SM.LAYER_KINDS[k][1] else 2) for k in st]
        for nd in (True, False):
            for rf in (False, True):
                for li, ns_ in enumerate(nsol):
                    for k in range(ns_):
                        add(st, nondim=nd, fail_layer=(li, k), raise_on_fail=rf)
                add(st, nondim=nd, zgesv_info=1, raise_on_fail=rf)
                add(st, nondim=nd, zgesv_info=2, raise_on_fail=rf, solve_for=("tidal", "loading"))
            add(st, nondim=nd, solve_for=None)
            add(st, nondim=nd, solve_for=("tidal", "loading", "free"))
            add(st, nondim=nd, solve_for=("free", "Loading", "TIDAL", "tidal", "free"))
            add(st, nondim=nd, solve_for=("bogus",))
            add(st, nondim=nd, solve_for=("tidal", "bogus"))
            add(st, nondim=nd, solve_for=("tidal",) * 6)
            add(st, nondim=nd, upper_radius_bad=True)
            add(st, nondim=nd, start_raises=True)
            add(st, nondim=nd, total_override=3 * len(st))
            add(st, nondim=nd, entry="wrapper", total_override=0)
            add(st, nondim=nd, entry="wrapper", layer_type_names=tuple(["solid"] * (len(st) - 1) + ["gas"]))
            add(st, nondim=nd, entry="wrapper", integration_method="euler")
            add(st, nondim=nd, entry="wrapper", integration_method="dop853")
            add(st, nondim=nd, entry="wrapper", solve_for=["tidal"])
            add(st, nondim=nd, entry="wrapper", mismatch=dict(static=0))
            add(st, nondim=nd, entry="wrapper", mismatch=dict(incomp=0))
            add(st, nondim=nd, entry="wrapper", mismatch=dict(upper=0))
    # the same scenario may be reached from several lists: keep one (duplicate obligation ids would get a suffix that no recorded finding matches)
    seen, uniq = set(), []
    for stack, kw in out:
        key_ = (tuple(stack), tuple(sorted((k_, str(v_)) for k_, v_ in kw.items())))
        if key_ not in seen:
            seen.add(key_)
            uniq.append((stack, kw))
    return uniq


def expected_failure(kw, stack):
    """does the scenario inject a failure of the solve (integration / surface system)?"""
    return kw.get("fail_layer") is not None or kw.get("zgesv_info", 0) != 0


def _same(a, b_):
    a, b_ = Cx.of(a), Cx.of(b_)
    return sp.simplify(a.re - b_.re) == 0 and sp.simplify(a.im - b_.im) == 0


def one_scenario(b, stack, kw):
    name = scen_name(stack, **{k: v for k, v in kw.items() if k != "mismatch"}, **({"mismatch": "+".join(kw["mismatch"])} if kw.get("mismatch") else {}))
    key = KEY if kw.get("entry") == "wrapper" else KEYCF
    try:
        ex, paths, cfg = SM.run_solver(b, stack, **kw)
    except SymExError as e:
        b.subset_exits.append(f"{key} [{name}]: {e}")
        return
    b.stats["paths"] += len(paths)
    # -- total
    bad = [p for p in paths if not (p.outcome == "raise" or (p.outcome == "return" and isinstance(p.value, SM.SolutionObj)))]
    ground(b, f"{key}::total[{name}]", key, "every path returns a solution object or raises a Python exception", not bad and len(paths) >= 1,
           detail=f"{len(paths)} path(s): " + ", ".join(f"{p.outcome}:{type(p.value).__name__ if p.outcome == 'return' else p.value.typ}" for p in paths)[:300])
    for pi, p in enumerate(paths):
        st = p.state
        sfx = f"@path{pi}" if len(paths) > 1 else ""
        # -- memory
        sigs = {}
        for s_, i in st.mem.sig:
            s_ = s_.replace("read-oob:", "oob:").replace("write-oob:", "oob:")
            sigs.setdefault(s_, []).append(i)
        ground(b, f"{key}::memory[{name}]{sfx}", key, "no out-of-bounds access, use after free or double free other than the separately listed event signatures",
               True, detail=f"{len(st.mem.blocks)} blocks tracked; events: {sorted(sigs)}")
        for s_, idxs in sorted(sigs.items()):
            ground(b, f"{key}::memory[{name}]{sfx}:{s_}", key, f"memory safety: {s_}", False,
                   detail=f"{s_} at indices {sorted(set(idxs))[:8]}", refuted_model=dict(scenario=name, event=s_, indices=str(sorted(set(idxs))[:8])),
                   scenario=dict(stack=list(stack), kw={k: (list(v) if isinstance(v, tuple) else v) for k, v in kw.items()}), kind="memory")
        live = [x.name for x in st.mem.live()]
        if live:
            note = f"heap blocks still allocated at exit (leak, informational): {sorted(set(live))} in scenario {name}"
            if len([n for n in b.notes if n.startswith("heap blocks")]) < 12:
                b.notes.append(note)
        # -- inputs intact
        diffs = []
        ncmp = 0
        for nm in ("radius", "density", "gravity", "bulk", "shear"):
            now, was = st.arrays[nm].data, st.inputs0[nm]
            ncmp += len(was)
            diffs += [(nm, k, now[k], was[k]) for k in range(len(was)) if not _same(now[k], was[k])]
        ground(b, f"{key}::inputs_intact[{name}]{sfx}", key, f"the five caller arrays hold their entry values at exit ({p.outcome})", not diffs,
               detail=f"{ncmp} elements compared" if not diffs else f"{len(diffs)} of {ncmp} elements differ, e.g. {diffs[0][0]}[{diffs[0][1]}]: now {diffs[0][2]} was {diffs[0][3]}",
               refuted_model=dict(scenario=name, array=diffs[0][0], element=diffs[0][1], now=str(diffs[0][2]), was=str(diffs[0][3])) if diffs else None,
               scenario=dict(stack=list(stack), kw={k: (list(v) if isinstance(v, tuple) else v) for k, v in kw.items()}), kind="inputs")
        # -- protocol
        so = st.solution_obj
        if expected_failure(kw, stack):
            if kw.get("raise_on_fail"):
                ok = p.outcome == "raise"
                what = "failure with raise_on_fail raises"
            else:
                ok = p.outcome == "return" and so is not None and so.success is False and isinstance(so.message, str) and len(so.message.strip()) > 0 \
                    and so.message != "RadialSolverSolution has not had its status set."
                what = "failure is reported through success=False and a message"
            ground(b, f"{key}::protocol[{name}]{sfx}", key, what, ok, detail=f"outcome={p.outcome} success={getattr(so, 'success', None)} message={str(getattr(so, 'message', ''))[:80]!r}")
        elif p.outcome == "return":
            ok = so is not None and so.success is True
            ground(b, f"{key}::protocol[{name}]{sfx}", key, "a solve without any failure reports success=True", ok, detail=f"success={getattr(so, 'success', None)}")


def solution_class(b):
    """RadialSolverSolution exposes no numeric result unless success (the real class body)."""
    from tpv.extract import source
    for prop in ("result", "love", "k", "h", "l", "__getitem__"):
        try:
            fn = Fn(SM.FSOL, "RadialSolverSolution." + prop)
        except ExtractError as e:
            b.subset_exits.append(str(e))
            continue
        b.add_fn(fn)
        for succ in (False, True):
            opaque = lambda ex, node, *a, **k: Obj(None, kind="ndarray")
            npns = Namespace("np", dict(ascontiguousarray=lambda ex, node, *a, **k: Obj(None, kind="ndarray", reshape=("fn", "_reshape")), complex128="complex128"))
            self_ = Obj(None, success=succ, full_solution_view=Obj(None, kind="view"), complex_love_view=[sp.Symbol(f"love{i}") for i in range(6)], num_slices=sp.Integer(4),
                        num_ytypes=sp.Integer(2), ytypes=("tidal", "loading"), result=[sp.Symbol(f"row{i}") for i in range(12)])
            ex = Exec(fn, globals_env=dict(np=npns, MAX_NUM_Y=sp.Integer(6)), opts=dict(definedness=False))
            ex.contracts["_reshape"] = Contract("_reshape", result=lambda *a: Obj(None, kind="ndarray", T=Obj(None, kind="ndarray")))
            args = dict(self=self_)
            if prop == "__getitem__":
                args["ytype_name"] = "loading"
            try:
                paths = ex.run(args)
            except SymExError as e:
                b.subset_exits.append(f"{fn.key}: {e}")
                continue
            vals = [(p.outcome, p.value) for p in paths]
            if succ:
                ok = all(o == "return" and v is not None for o, v in vals)
                ground(b, f"{fn.key}::exposes_result_when_success", fn.key, "returns the stored numbers when success", ok, detail=str(vals)[:200])
            else:
                ok = all(o == "return" and v is None for o, v in vals)
                ground(b, f"{fn.key}::none_unless_success", fn.key, "returns None when the solve was not successful (no numeric result exposed)", ok, detail=str(vals)[:200])


def build(tier="quick", seed=0):
    b = Bundle("C06")
    sc = scenarios(tier)
    for stack, kw in sc:
        one_scenario(b, stack, kw)
    solution_class(b)
    b.replayer("*::inputs_intact[*", _replay)
    b.replayer("*::memory[*", _replay)
    b.samples.append(dict(scenarios=len(sc), example=scen_name(*[sc[len(sc) // 2][0]], **{k: v for k, v in sc[len(sc) // 2][1].items() if k != "mismatch"})))
    b.explanation = ("whole-function symbolic execution of the real (translated) radial_solver / cf_radial_solver and their repository callees on concrete layer stacks with all "
                     "numeric inputs symbolic; external code (CyRK, LAPACK zgesv, allocator) by contract with fault injection; obligations decided by exact ground arithmetic")
    b.assume("layer stacks enumerated: every 1- and 2-layer stack over {solid,liquid}x{static,dynamic}x{compressible,incompressible} and selected 3-layer stacks, 4 slices per layer; "
             "the solver's loops over layers/slices are executed for these concrete bounds (not by a loop invariant for an arbitrary layer count)")
    b.assume("CyRK (cf_build_solver/_solve), LAPACK zgesv and the allocator terminate and honour their size contracts; their failure modes are injected through success=False / info != 0")
    b.assume("NaN / zero material values are outside real arithmetic: only the explicit isnan branch is followed as 'not NaN'")
    b.assume("(x/c)*c = x exactly (reals); the 'few ulp' of the statement is the floating-point counterpart and is not proved")
    b.assume("Cython semantics of the translated constructs: size_t arithmetic does not wrap for the concrete sizes used; `del solver` and object reference counting are not modelled")
    b.trust("tpv.pyx2py translation of solver.pyx, boundaries.pyx, interfaces.pyx, reversed.pyx, collapse.pyx, nondimensional.pyx, love.pyx, solutions.pyx")
    return b


_NATIVE = r'''
import numpy as np
from TidalPy.RadialSolver import radial_solver
sc = args
stack, kw = sc["stack"], sc["kw"]
KINDS = {"S": (0, False, False), "Si": (0, False, True), "Ss": (0, True, False), "Ssi": (0, True, True),
         "L": (1, False, False), "Li": (1, False, True), "Ls": (1, True, False), "Lsi": (1, True, True)}
N = 20
nl = len(stack)
tot = nl * N if kw.get("total_override") is None else (kw["total_override"] if kw["total_override"] == 0 else 3 * nl)
Rp = 6.0e6
r = np.linspace(Rp / max(tot, 1), Rp, tot) if tot else np.zeros(0)
rho = np.full(tot, 4000.0); g = 4 / 3 * np.pi * 6.6743e-11 * 4000.0 * r
K = np.full(tot, 1e11); mu = np.full(tot, 5e10 + 1e8j, dtype=np.complex128)
per = max(tot // nl, 1) if tot else 0
upper = [float(r[min((i + 1) * per, tot) - 1]) if tot else 1.0 for i in range(nl)]
if kw.get("upper_radius_bad"):
    upper[0] = float(r[1])
types = ["solid" if KINDS[k][0] == 0 else "liquid" for k in stack]
for i, k in enumerate(stack):
    if KINDS[k][0] == 1 and tot:
        mu[i * per:(i + 1) * per] = 0
if kw.get("layer_type_names"):
    types = list(kw["layer_type_names"])
statics = [KINDS[k][1] for k in stack]; incomps = [KINDS[k][2] for k in stack]
mm = kw.get("mismatch") or {}
if "static" in mm: statics = statics[:mm["static"]]
if "incomp" in mm: incomps = incomps[:mm["incomp"]]
if "upper" in mm: upper = upper[:mm["upper"]]
sf = kw.get("solve_for", ["tidal"])
if sf is not None and not (kw.get("entry") == "wrapper" and isinstance(sf, list) and sc.get("sf_list")):
    sf = tuple(sf)
before = [a.copy() for a in (r, rho, g, K, mu)]
extra = {}
if kw.get("fail_layer") is not None:
    extra["max_num_steps"] = 3
out = {"raised": None}
try:
    s = radial_solver(r, rho, g, K, mu, 1e-3, 4000.0, tuple(types), tuple(statics), tuple(incomps), tuple(upper), solve_for=sf,
                      integration_method=kw.get("integration_method", "RK45"), nondimensionalize=bool(kw.get("nondim", True)), use_kamata=True, raise_on_fail=bool(kw.get("raise_on_fail", False)), **extra)
    out["success"] = bool(s.success); out["message"] = str(s.message)[:200]; out["result_is_none"] = s.result is None; out["love_is_none"] = s.love is None
except Exception as ex:
    out["raised"] = type(ex).__name__ + ": " + str(ex)[:120]
out["intact"] = [bool(np.array_equal(a, b0)) for a, b0 in zip((r, rho, g, K, mu), before)]
out["maxrel"] = [float(np.max(np.abs(a - b0) / np.maximum(np.abs(b0), 1e-300))) if a.size else 0.0 for a, b0 in zip((r, rho, g, K, mu), before)]
result = out
'''
SOLVER_PYX = [SM.FSOL, SM.FND, SM.FIF, SM.FRV, SM.FBC, SM.FCL, SM.FLV, SM.FSN]


def _replay(ob, res):
    from tpv import native, xcheck
    stale = [f for f in SOLVER_PYX if not xcheck.binary_in_sync(f)]
    if stale:
        return dict(replayed=False, reason=f"compiled solver is stale with respect to {stale} (no Cython in this sandbox): the failed obligation stands on the source-level execution only")
    sc = ob.meta.get("scenario")
    if not sc:
        return dict(replayed=False, reason="no native scenario for this obligation")
    sc = dict(sc)
    sc["sf_list"] = isinstance(sc["kw"].get("solve_for"), list) and sc["kw"].get("entry") == "wrapper" and ob.oid.find("solve_for=['") >= 0
    out = native.run(dict(code=_NATIVE, args=sc), timeout=600)
    kind = ob.meta.get("kind")
    if "crash" in out:
        return dict(replayed=True, confirmed=True, native=out, detail="the interpreter running the compiled radial_solver died: " + out["crash"])
    r = out.get("result") or {}
    if "exception" in out:
        return dict(replayed=True, confirmed=False, native=out)
    if kind == "inputs":
        bad = [n for n, ok, rel in zip(("radius", "density", "gravity", "bulk", "shear"), r.get("intact", []), r.get("maxrel", [])) if not ok and rel > 1e-12]
        return dict(replayed=True, confirmed=bool(bad), native=r, detail=f"arrays changed by more than a few ulp after the call: {bad}")
    return dict(replayed=True, confirmed=False, native=r)
