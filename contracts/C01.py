"""C01 — Love numbers of a uniform body equal the classical (Kelvin / Love) closed form.

Lemma chain; every link is an obligation on real code, the oracle is the closed form of the statement applied to the code's OWN equations:
  kelvin_field      for uniform rho, mu and g = (4/3) pi G rho r the polynomial field y*(r) (ansatz r^(l-2) x even polynomial; coefficients found by the
                    untrusted CAS, then VERIFIED) satisfies dy*/dr = A(r) y* for the static-incompressible solid operator EXTRACTED from the real diffeq,
                    with three free parameters (the regular solutions), symbolic degree l (r^l an indeterminate P with r P' = l P);
  love_closed_form  imposing the tidal surface triple (0, 0, (2l+1)/R) on the family and applying the real find_love_cf gives exactly
                    k = 3/(2(l-1))/(1+m_l), h = (2l+1)k/3, l_l = k/l, m_l = (2l^2+4l+3) mu/(l rho g R)   (complex mu as a formal indeterminate);
  limits            A_dynamic at omega = 0 equals A_static (compressible and incompressible); lim K->inf of the compressible static operator equals the
                    incompressible one, entry by entry (so "effectively incompressible, quasi-static" converges to the case proved exactly);
  end_to_end        the real cf_radial_solver (whole-function symbolic execution, one static-incompressible solid layer, tidal) with the CyRK contract
                    instantiated by the verified Kelvin basis: the constants solving the real surface system are the Kelvin ones and the returned
                    k, h, l equal the closed form;
  imports           starting vectors span the regular solutions (C04), surface / interface plumbing (C02), non-dimensionalisation (C03).
"For every supported integrator ... within the requested tolerance" is the CyRK contract (assumption); a bounded native grid is reported when the compiled
solver is in sync with the source.
"""
import sympy as sp
from tpv.kit import *
from tpv import terms as T
from tpv import backends as B
from tpv.terms import Cx
from tpv.symex import Exec, SymExError
from contracts import radial as RD
from contracts import solver_model as SM

r, rho, G, l = RD.r, RD.rho, RD.Gc, RD.l
MU = sp.Symbol("mu_formal")
Rp = sp.Symbol("R_planet", positive=True)
GAM = 4 * T.PI * G * rho / 3
P = sp.Symbol("P_rl", positive=True)           # r^l ; d/dr (f P) = (f' + l f / r) P
llp1 = l * (l + 1)
KEYS = {"si": ("solid", "static", "incompressible"), "sc": ("solid", "static", "compressible"), "di": ("solid", "dynamic", "incompressible"), "dc": ("solid", "dynamic", "compressible")}


def zero(e, rels=()):
    e = sp.together(sp.sympify(e))
    if e == 0:
        return True
    return B.nf_is_zero(e, list(rels))


def operators(b):
    ops, fns = {}, {}
    for k, key in KEYS.items():
        A, ny, mfn = RD.extract_operator(b, key)
        ops[k] = [[sp.sympify(x).subs(RD.g, GAM * r) for x in row] for row in RD.to_formal(A, MU)]
        fns[k] = mfn
    return ops, fns


def limits(b, ops, fns):
    w, K = RD.w, RD.Kb
    for dyn, sta in (("di", "si"), ("dc", "sc")):
        bad = [(i, j) for i in range(6) for j in range(6) if not zero(ops[dyn][i][j].subs(w, 0) - ops[sta][i][j])]
        ground(b, f"{fns[dyn].key}::ensures:static_limit", fns[dyn].key, "the dynamic operator at omega = 0 is the static operator of the same compressibility (all 36 entries)", not bad,
               detail="36 entries" if not bad else str(bad), refuted_model=dict(entries=str(bad)) if bad else None)
    eps = sp.Symbol("eps_invK", positive=True)
    bad = []
    for i in range(6):
        for j in range(6):
            e = sp.cancel(sp.together(ops["sc"][i][j].subs(K, 1 / eps)))
            num, den = sp.fraction(e)
            if den.subs(eps, 0) == 0:
                bad.append((i, j, "divergent"))
                continue
            lim = sp.cancel(num.subs(eps, 0) / den.subs(eps, 0))
            if not zero(lim - ops["si"][i][j]):
                bad.append((i, j, str(sp.simplify(lim - ops["si"][i][j]))[:60]))
    ground(b, f"{fns['sc'].key}::ensures:incompressible_limit", fns["sc"].key, "lim K -> infinity of the compressible static operator is the incompressible static operator, entry by entry (rational in 1/K, regular at 0)",
           not bad, detail="36 entries" if not bad else str(bad[:3]), refuted_model=dict(entries=str(bad[:3])) if bad else None)


def kelvin_family(b, A, mfn):
    """returns (Y as expressions in r, P and three free parameters, free parameter symbols) after verification"""
    a = sp.symbols("ka1:7")
    bb = sp.symbols("kb1:7")
    c2 = sp.Symbol("kc2")
    f = [a[0] * r + bb[0] / r, a[1] + bb[1] / r ** 2 + c2 * r ** 2, a[2] * r + bb[2] / r, a[3] + bb[3] / r ** 2, a[4] + bb[4] * r ** 2, a[5] / r + bb[5] * r]
    unknowns = list(a) + list(bb) + [c2]
    eqs = []
    for i in range(6):
        d = sp.diff(f[i], r) + l * f[i] / r                      # (f P)' / P
        rhs = sum(A[i][j] * f[j] for j in range(6))
        e = sp.expand(sp.cancel(sp.together((d - rhs) * r ** 3)))
        num, den = sp.fraction(sp.together(e))
        eqs += sp.Poly(sp.expand(num), r).coeffs()
    sol = sp.solve(eqs, unknowns, dict=True)                      # untrusted: verified below
    if not sol:
        b.subset_exits.append("kelvin lemma: the CAS found no polynomial solution family of the extracted operator")
        return None, None
    s = sol[0]
    free = [v for v in unknowns if v not in s]
    Y = [sp.together(fi.subs(s)) for fi in f]
    # verification by substitution (the only trusted step): residual of every component vanishes identically in r, l, rho, mu, G and the free parameters
    for i in range(6):
        d = sp.diff(Y[i], r) + l * Y[i] / r
        rhs = sum(A[i][j] * Y[j] for j in range(6))
        b.add(Obligation(oid=f"{mfn.key}::kelvin_field[y{i + 1}]", fn=mfn.key,
                         clause=f"row {i + 1}: the {len(free)}-parameter polynomial field r^(l-2) x poly(r^2) satisfies dy/dr = A(r) y for the extracted static-incompressible operator (uniform rho, mu; g = 4/3 pi G rho r)",
                         goal=sp.Eq(sp.together(d - rhs), 0, evaluate=False), hyps=[sp.Gt(r, 0), sp.Ge(l, 2)], backends=("qqnf",)))
    ground(b, f"{mfn.key}::kelvin_family_dimension", mfn.key, "the regular polynomial solutions form a three-parameter family (as many as the solver's starting vectors)", len(free) == 3,
           detail=f"free parameters: {free}")
    # regularity: every component is r^(l-2) times a polynomial in r (no pole beyond the r^-2 of the ansatz)
    reg = all(sp.expand(sp.cancel(Y[i] * r ** 2)).is_polynomial(r) for i in range(6)) if len(free) == 3 else False
    ground(b, f"{mfn.key}::kelvin_regular", mfn.key, "every component is r^(l-2) times a polynomial in r: regular at the centre for l >= 2", bool(reg))
    return Y, free


def love_of(b, Ysurf, gs):
    fn = Fn(SM.FLV, "find_love_cf")
    b.add_fn(fn)
    out = [None, None, None]
    ex = Exec(fn, globals_env=dict(cf_build_dblcmplx=lambda ex_, node, a_, b_: Cx(a_, b_)), opts=dict(definedness=False))
    ex.run(dict(complex_love_numbers_ptr=out, surface_solutions_ptr=list(Ysurf), surface_gravity=gs))
    return fn, [Cx.of(v).re for v in out]


def love_definition(b):
    """the real find_love_cf on generic COMPLEX surface values ((re, im) pairs): k = y5 - 1, h = g y1, l = g y3 (catches a dropped or swapped real / imaginary part)"""
    Ys = [Cx(R(f"ys{q + 1}_re"), R(f"ys{q + 1}_im")) for q in range(6)]
    gs = R("g_surface")
    fn = Fn(SM.FLV, "find_love_cf")
    b.add_fn(fn)
    out = [None, None, None]
    ex = Exec(fn, globals_env=dict(cf_build_dblcmplx=lambda ex_, node, a_, b_: Cx(a_, b_)), opts=dict(definedness=False))
    ex.run(dict(complex_love_numbers_ptr=out, surface_solutions_ptr=list(Ys), surface_gravity=gs))
    want = [Ys[4] - Cx(1), Ys[0] * gs, Ys[2] * gs]
    goals = []
    for got, w_ in zip(out, want):
        got = Cx.of(got)
        goals += [sp.Eq(got.re, w_.re), sp.Eq(got.im, w_.im)]
    b.add(Obligation(oid=f"{fn.key}::ensures:definition", fn=fn.key, clause="ensures (k, h, l) == (y5 - 1, g y1, g y3) as complex numbers, for arbitrary complex surface values", goal=sp.And(*goals), hyps=[]))


def closed_form():
    gR = GAM * Rp
    ml = (2 * l ** 2 + 4 * l + 3) * MU / (l * rho * gR * Rp)
    k = sp.Rational(3, 2) / (l - 1) / (1 + ml)
    return k, (2 * l + 1) * k / 3, k / l


def love_closed_form(b, Y, free, mfn):
    PR = sp.Symbol("P_Rl", positive=True)
    YR = [y.subs(r, Rp) * PR for y in Y]
    bc = [YR[1], YR[3], YR[5] - (2 * l + 1) / Rp]
    sol = sp.solve(bc, free, dict=True)                           # untrusted: the obligations below check the surface triple with these parameters
    if not sol:
        b.subset_exits.append("kelvin lemma: surface conditions not solvable for the free parameters")
        return None
    cs = sol[0]
    Ystar = [sp.together(y.subs(cs)) for y in YR]
    b.add(Obligation(oid=f"{mfn.key}::kelvin_surface_triple", fn=mfn.key, clause="the selected member of the family meets the tidal surface triple y2 = 0, y4 = 0, y6 = (2l+1)/R",
                     goal=sp.And(sp.Eq(Ystar[1], 0, evaluate=False), sp.Eq(Ystar[3], 0, evaluate=False), sp.Eq(sp.together(Ystar[5] - (2 * l + 1) / Rp), 0, evaluate=False)), hyps=[], backends=("qqnf",)))
    fn, (k, h, sh) = love_of(b, Ystar, GAM * Rp)
    kc, hc, lc = closed_form()
    for nm, got, want in (("k", k, kc), ("h", h, hc), ("l", sh, lc)):
        b.add(Obligation(oid=f"{fn.key}::ensures:kelvin_{nm}", fn=fn.key,
                         clause=f"the real find_love_cf applied to the Kelvin field at the surface gives {nm}_l of the statement: k = 3/(2(l-1))/(1+m_l), h = (2l+1)k/3, l = k/l, m_l = (2l^2+4l+3) mu/(l rho g R)",
                         goal=sp.Eq(sp.together(got - want), 0, evaluate=False), hyps=[sp.Ge(l, 2)], backends=("qqnf",)))
    return cs


def end_to_end(b, Y, free, cs):
    """real cf_radial_solver on one static-incompressible solid layer; CyRK contract instantiated with the verified Kelvin basis"""
    KEY = SM.FSOL + "::cf_radial_solver"
    PR = sp.Symbol("P_Rl", positive=True)
    basis_R = [[sp.together(sp.diff(y, p).subs(r, Rp) * PR) for y in Y] for p in free]       # three basis vectors at the surface
    ns = 4

    def sol(layer, k, slice_, q):
        if q % 2 == 1:
            return sp.Integer(0)
        if slice_ == ns - 1:
            return basis_R[k][q // 2]
        return sp.Symbol(f"SOL_{layer}_{k}_{slice_}_{q // 2}")
    try:
        # real_driver=False: the driver rejects static + incompressible for the innermost layer (see assumptions); the run exercises the surface system,
        # collapse and Love-number plumbing of the real solver on the exactly solvable limit case
        ex, paths, cfg = SM.run_solver(b, ["Ssi"], solve_for=("tidal",), nondim=False, analytic=True, sol_contract=sol, slices_per_layer=ns, real_driver=False)
    except SymExError as e:
        b.subset_exits.append(f"{KEY} [kelvin end-to-end]: {e}")
        return
    st = paths[0].state
    so = st.solution_obj
    # uniform body: rho_k = rho, mu_k = mu, g at the surface = 4/3 pi G rho R, bulk density = rho
    total = cfg["total"]
    uni = {sp.Symbol(f"rho_{k}", positive=True): rho for k in range(total)}
    uni.update({sp.Symbol(f"mu_{k}"): MU for k in range(total)})
    uni.update({sp.Symbol(f"g_{k}", positive=True): GAM * cfg["frac"][k] * Rp for k in range(total)})
    uni[cfg["rho_b"]] = rho
    z = st.zgesv_calls[0]
    cvars = [c.re for c in z["c"]]
    cstar = {cv: cs[p] for cv, p in zip(cvars, free)}
    bad = []
    for i, (fr, fi) in enumerate(z["facts"]):
        if not zero(sp.sympify(fr).subs(uni).subs(cstar)):
            bad.append(i)
    ground(b, f"{KEY}::kelvin_constants", KEY, "the Kelvin parameters solve the surface system built by the real cf_apply_surface_bc (each ZGESV equation holds identically); by non-singularity (info = 0) they are the solver's constants",
           not bad and len(z["facts"]) == 3, detail="3 complex equations" if not bad else f"equation(s) {bad} fail", refuted_model=dict(equations=str(bad)) if bad else None)
    kc, hc, lc = closed_form()
    for idx, (nm, want) in enumerate((("k", kc), ("h", hc), ("l", lc))):
        got = Cx.of(so.complex_love_ptr.data[idx])
        ok = zero(sp.sympify(got.re).subs(uni).subs(cstar) - want) and zero(sp.sympify(got.im).subs(uni).subs(cstar))
        ground(b, f"{KEY}::kelvin_love[{nm}]", KEY, f"the {nm} returned by the real cf_radial_solver for a uniform static-incompressible sphere equals the closed form of the statement (symbolic l, R, rho, complex mu, G)", ok,
               detail="exact" if ok else str(sp.simplify(sp.sympify(got.re).subs(uni).subs(cstar) - want))[:200])


_NATIVE = r'''
import numpy as np
from TidalPy.RadialSolver import radial_solver
G = 6.6743e-11
rows = []
worst = {"incompressible": 0.0, "compressible": 0.0}
core = {"incompressible": 0.0, "compressible": 0.0}
for R in args["radii"]:
    for l in args["degrees"]:
        for method in args["methods"]:
            # (incompressible flag, Kamata family, static, K/|mu|): the driver offers the incompressible assumption only for dynamic layers with the Kamata family
            for incomp, kamata, static, Kfac in ((True, True, False, 1e3), (False, True, True, 1e6), (False, True, False, 1e6), (False, False, True, 1e6), (False, False, False, 1e6)):
                N = 120
                rho = 4000.0; mu = 3.0e9 + 4.0e8j
                r = np.linspace(R / N, R, N)
                g = 4 / 3 * np.pi * G * rho * r
                dens = np.full(N, rho); K = np.full(N, Kfac * abs(mu)); sh = np.full(N, mu, dtype=np.complex128)
                try:
                    s = radial_solver(r, dens, g, K, sh, 1.0e-6, rho, ("solid",), (static,), (incomp,), (R,), degree_l=l, use_kamata=kamata,
                                      integration_method=method, integration_rtol=1e-10, integration_atol=1e-12)
                except Exception as ex:
                    rows.append([R, l, method, incomp, kamata, static, "raised " + type(ex).__name__]); continue
                if not s.success:
                    rows.append([R, l, method, incomp, kamata, static, "no success"]); continue
                gR = g[-1]
                ml = (2 * l * l + 4 * l + 3) * mu / (l * rho * gR * R)
                kc = 1.5 / (l - 1) / (1 + ml); hc = (2 * l + 1) * kc / 3; lc = kc / l
                k, h, sh_ = s.love[0]
                err = float(max(abs(k - kc), abs(h - hc), abs(sh_ - lc)))
                key = "incompressible" if incomp else "compressible"
                worst[key] = max(worst[key], err)
                if R <= 1.0e7 and l <= 3 and method != "RK23":
                    core[key] = max(core[key], err)
                rows.append([R, l, method, incomp, kamata, static, err])
result = dict(worst=worst, core=core, n=len(rows), rows=rows[:10], largest=sorted([x for x in rows if not isinstance(x[6], str)], key=lambda x: -x[6])[:4], failures=[x for x in rows if isinstance(x[6], str)][:6])
'''


def bounded_native(b, tier):
    from tpv import native, xcheck
    files = [SM.FSOL, SM.FBC, SM.FCL, SM.FLV, SM.FND, RD.FODE, "TidalPy/RadialSolver/starting/kamata.pyx", "TidalPy/RadialSolver/starting/takeuchi.pyx", "TidalPy/RadialSolver/starting/common.pyx"]
    stale = [f for f in files if not xcheck.binary_in_sync(f)]
    if stale:
        b.bounded.append(dict(name="native grid vs closed form", bound="not run", result=f"compiled solver stale with respect to {stale}", counted_as_proved=False))
        return
    cfg = dict(radii=[1e5, 1e7] if tier == "quick" else [1e5, 1e6, 1e7, 1e8], degrees=[2, 3] if tier == "quick" else [2, 3, 5, 10],
               methods=["RK45"] if tier == "quick" else ["RK23", "RK45", "DOP853"])
    out = native.run(dict(code=_NATIVE, args=cfg), timeout=1500)
    res = out.get("result", out)
    b.bounded.append(dict(name="compiled radial_solver on homogeneous spheres vs the Kelvin closed form (rtol 1e-10, frequency 1e-6 rad/s), error on the O(1) scale; incompressible = dynamic-incompressible "
                               "Kamata layers, compressible = K = 1e6 |mu| (finite-K effect grows with the body's self-compression rho g R / K)",
                          bound=f"R in {cfg['radii']}, l in {cfg['degrees']}, integrators {cfg['methods']}, both starting families, static and dynamic", result=res, counted_as_proved=False))
    # a gross disagreement of the running solver with the closed form is a genuine failing input (the stand-in's refutations count, its passes do not)
    # RK23 rows are informative only: at rtol 1e-10 the low-order pair reports success while still being several per cent off (not converged with respect to
    # its tolerance - outside the statement's quantifier; an integrator matter, CyRK is external).
    # only inside the domain where the statement's premises are known to hold for these settings (R <= 1e7 m, l <= 3: "effectively incompressible" needs
    # K >> (rho g R)^2/|mu| for the Shida number, which K = 1e6 |mu| violates for giant bodies; high degrees need smaller start radii): outside, rows are informative
    if isinstance(res, dict) and isinstance(res.get("core"), dict):
        for kind, tol in (("incompressible", 1e-3), ("compressible", 2e-2)):
            if res["core"].get(kind, 0.0) > tol:
                ground(b, f"{SM.FSOL}::radial_solver::bounded:kelvin_native[{kind}]", f"{SM.FSOL}::radial_solver", f"BOUNDED native run: Love numbers of a homogeneous sphere agree with the Kelvin closed form ({kind} setting, O(1)-scale error below {tol})",
                       False, detail=str(res.get("largest"))[:300], refuted_model=dict(largest=str(res.get("largest"))[:300]), bounded=True, native_confirmed=True)
        if res.get("failures"):
            b.notes.append(dict(native_grid_failures=res["failures"]))


def build(tier="quick", seed=0):
    b = Bundle("C01")
    try:
        ops, fns = operators(b)
    except (SymExError, ExtractError) as e:
        b.subset_exits.append(f"ODE operators: {e}")
        return b
    limits(b, ops, fns)
    love_definition(b)
    Y, free = kelvin_family(b, ops["si"], fns["si"])
    if Y is not None and len(free) == 3:
        cs = love_closed_form(b, Y, free, fns["si"])
        if cs is not None:
            end_to_end(b, Y, free, cs)
    bounded_native(b, tier)
    b.replayer("*::bounded:kelvin_native*", lambda ob, res: dict(replayed=True, confirmed=True, detail="found by running the compiled solver (see model)"))
    b.explanation = "Kelvin lemma on the ODE operator extracted from the real code, operator limits, real find_love_cf, and an end-to-end symbolic execution of the real solver with the verified Kelvin basis as CyRK contract"
    b.assume("CyRK integrates the linear ODE it is given within rtol/atol (external contract): 'for every supported integrator, within the requested tolerance' is assumed through it, not proved")
    b.assume("the driver rejects the static + incompressible solid combination (NotImplementedError): the runnable settings are dynamic-incompressible (Kamata) and compressible ones; the exact "
             "static-incompressible case proved here is their common limit (operator identities ::static_limit, ::incompressible_limit)")
    b.assume("finite-K ('effectively incompressible') and finite-frequency ('quasi-static') solves converge to the exactly proved static-incompressible case: supported by the proved operator limits, the rate is not quantified")
    b.assume("the solver's solution is THE regular solution meeting the surface triple: uniqueness from C04 (starting vectors span the regular solutions) and ZGESV info = 0 (non-singular surface matrix)")
    b.assume("linear interpolation of rho, g, mu between nodes is exact for a uniform body (constants and g proportional to r); complex mu as a formal indeterminate (no conjugation in these functions); doubles as reals")
    b.trust("tpv.pyx2py translation of derivatives/odes.pyx, love.pyx and the solver sources; sympy.solve is untrusted (its output is verified by substitution)")
    return b
