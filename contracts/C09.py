"""C09 — inclination functions equal Kaula's F_lmp(I)^2; off-tables are the I = 0 values; degree coefficients.

Oracle: Kaula (1966) eq. 3.62 triple sum, as an exact polynomial in s = sin(I/2), c = cos(I/2) (spec function).
The real table functions are executed symbolically with np.sin / np.cos of integer multiples of I/2 expanded by
the angle-addition rules; each entry minus spec^2 is reduced modulo s^2 + c^2 = 1 and must vanish coefficient-wise
(literal tolerance 1e-14 * max|coef|, the tables are hand-typed decimals).
"""
import ast
from fractions import Fraction
from math import comb, factorial
import sympy as sp
from tpv.kit import *
from tpv import terms as T
from tpv.symex import Namespace, SymExError

s, c = sp.symbols("s c", real=True)
TH = R("theta_half")           # inclination = 2*theta_half
TOL = Fraction(1, 10 ** 14)
FU = "TidalPy/tides/universal_coeffs.py"


def kaula_F(l, m, p):
    k = (l - m) // 2
    tot = sp.Integer(0)
    sinI, cosI = 2 * s * c, c ** 2 - s ** 2
    for t in range(0, min(p, k) + 1):
        c1 = sp.Rational(factorial(2 * l - 2 * t), factorial(t) * factorial(l - t) * factorial(l - m - 2 * t) * 2 ** (2 * l - 2 * t))
        inner = sp.Integer(0)
        for ss in range(0, m + 1):
            acc = 0
            for cc in range(0, l - m - 2 * t + ss + 1):
                a = p - t - cc
                if a < 0 or a > m - ss:
                    continue
                acc += comb(l - m - 2 * t + ss, cc) * comb(m - ss, a) * (-1) ** (cc - k)
            inner += comb(m, ss) * cosI ** ss * acc
        tot += c1 * sinI ** (l - m - 2 * t) * inner
    return sp.expand(tot)


def reduce_sc(e):
    """canonical form modulo s^2 + c^2 - 1: degree < 2 in c"""
    return sp.Poly(sp.rem(sp.expand(e), c ** 2 + s ** 2 - 1, c), s, c, domain="QQ")


def _multiple_angle(k):
    """(sin(k theta), cos(k theta)) as polynomials in s, c by the angle-addition recurrence"""
    sn, cs = sp.Integer(0), sp.Integer(1)
    for _ in range(abs(k)):
        sn, cs = sp.expand(sn * c + cs * s), sp.expand(cs * c - sn * s)
    return (sn if k >= 0 else -sn), cs


def _angle_k(x):
    x = sp.sympify(x)
    k = sp.simplify(x / TH)
    if not k.is_Integer:
        raise SymExError(f"trig argument {x} is not an integer multiple of I/2")
    return int(k)


def _sin(ex, node, x):
    return _multiple_angle(_angle_k(x))[0]


def _cos(ex, node, x):
    return _multiple_angle(_angle_k(x))[1]


def _ones_like(ex, node, x, **k):
    return sp.Integer(1)


NPX = Namespace("np", {"sin": _sin, "cos": _cos, "ones_like": _ones_like})


def _non_polynomial(e):
    try:
        reduce_sc(e)
        return False
    except Exception:
        return True


def _pointwise(entry, spec):
    import math
    pts = [(sp.Rational(3, 5), sp.Rational(4, 5)), (sp.Rational(4, 5), sp.Rational(3, 5)), (sp.Rational(5, 13), sp.Rational(12, 13)), (sp.Rational(12, 13), sp.Rational(5, 13)),
           (sp.Rational(8, 17), sp.Rational(15, 17)), (sp.Rational(15, 17), sp.Rational(8, 17))]
    agree = 0
    for sv, cv in pts:
        want = sp.Rational(spec.subs({s: sv, c: cv})) ** 2
        try:
            got = sp.sympify(entry).subs({s: sv, c: cv})
            got = got.replace(lambda t: getattr(t, "func", None) == T.sqrt_, lambda t: sp.sqrt(t.args[0]))
            got = sp.nsimplify(got)
        except Exception as e_:
            return "undecided", f"cannot evaluate the entry at a rational point ({e_})"
        if not got.is_Rational:
            return "undecided", "entry is irrational at a rational point of the circle"
        if abs(got - want) > sp.Rational(1, 10 ** 12) * max(1, abs(want)):
            I_deg = 2 * math.degrees(math.atan2(float(sv), float(cv)))
            return "refuted", f"at sin(I/2) = {sv}, cos(I/2) = {cv} (I = {I_deg:.1f} deg) the entry is {got} but F^2 = {want}"
        agree += 1
    return "undecided", f"agrees with F^2 at {agree} rational points"


def build(tier="quick", seed=0):
    b = Bundle("C09")
    spec_lemmas(b)
    for l in range(2, 8):
        F = f"TidalPy/tides/inclination_funcs/orderl{l}.py"
        fn, ex, paths = run_fn(b, F, "calc_inclination", dict(inclination=2 * TH), [], globals_env=dict(np=NPX), xcheck=False,
                               opts=dict(definedness=False))
        table = paths[0].value if paths and len(paths) == 1 and paths[0].outcome == "return" and isinstance(paths[0].value, dict) else None
        if paths and table is None:
            b.subset_exits.append(f"{fn.key}: expected a single path returning a dict")
        fn0, ex0, paths0 = run_fn(b, F, "calc_inclination_off", dict(inclination=2 * TH), [], globals_env=dict(np=NPX), xcheck=False,
                                  opts=dict(definedness=False))
        off = paths0[0].value if paths0 and len(paths0) == 1 and isinstance(paths0[0].value, dict) else None
        for m in range(l + 1):
            for p in range(l + 1):
                spec = kaula_F(l, m, p)
                spec2 = reduce_sc(spec ** 2)
                at0 = sp.Rational(spec.subs({s: 0, c: 1})) ** 2
                if table is not None:
                    key = (m, p)
                    oid = f"{F}::calc_inclination::entry({m},{p})"
                    if key not in table:
                        ground(b, oid, f"{F}::calc_inclination", f"table has an entry for (m,p)=({m},{p}) equal to F_{l}{m}{p}(I)^2", False,
                               detail="entry missing", l=l, m=m, p=p)
                    elif _non_polynomial(table[key]):
                        # the entry is not a polynomial in sin(I/2), cos(I/2) (e.g. a square root): it cannot be normalised, but it can be REFUTED exactly at rational
                        # points of the circle (prograde and retrograde obliquities); agreement at all points leaves it undecided
                        verdict, info = _pointwise(table[key], spec)
                        if verdict == "refuted":
                            ground(b, oid, f"{F}::calc_inclination", f"entry (m,p)=({m},{p}) == Kaula F_{l}{m}{p}(I)^2", False, detail=info, refuted_model={"inclination": info.split("I = ")[1].split(" ")[0] if "I = " in info else "see detail"}, l=l, m=m, p=p)
                        else:
                            b.add(Obligation(oid=oid, fn=f"{F}::calc_inclination", clause=f"entry (m,p)=({m},{p}) == Kaula F_{l}{m}{p}(I)^2", goal=None,
                                             decided=dict(verdict="undecided", backend="-", reason="entry is not a polynomial in sin(I/2), cos(I/2): " + info, model=None), meta=dict(l=l, m=m, p=p)))
                    else:
                        d = reduce_sc(table[key]) - spec2
                        mx = max([abs(Fraction(int(x.p), int(x.q))) for x in spec2.coeffs()] or [Fraction(1)])
                        worst = max([abs(Fraction(int(x.p), int(x.q))) for x in d.coeffs()] or [Fraction(0)])
                        ok = worst <= TOL * mx
                        model = None
                        if not ok:
                            model = {"inclination": "3/10"}
                        ground(b, oid, f"{F}::calc_inclination", f"entry (m,p)=({m},{p}) == Kaula F_{l}{m}{p}(I)^2 modulo s^2+c^2=1 (tol 1e-14 max|coef|)", ok,
                               detail=f"max coefficient deviation {float(worst):.3e} (largest spec coefficient {float(mx):.3e})", refuted_model=model, l=l, m=m, p=p)
                if off is not None:
                    oid = f"{F}::calc_inclination_off::entry({m},{p})"
                    if (m, p) in off:
                        v = sp.nsimplify(off[(m, p)]) if not isinstance(off[(m, p)], sp.Rational) else off[(m, p)]
                        ok = abs(Fraction(int(sp.Rational(v).p), int(sp.Rational(v).q)) - Fraction(int(at0.p), int(at0.q))) <= TOL * max(1, abs(Fraction(int(at0.p), int(at0.q))))
                        ground(b, oid, f"{F}::calc_inclination_off", f"off-table entry ({m},{p}) == F_{l}{m}{p}(0)^2", ok, detail=f"table {v}, spec {at0}", l=l, m=m, p=p)
                    else:
                        ground(b, oid, f"{F}::calc_inclination_off", f"entry ({m},{p}) absent from the off-table ==> F_{l}{m}{p}(0) == 0", at0 == 0,
                               detail=f"spec value at I=0: {at0}", l=l, m=m, p=p)
        if table is not None:
            extra = [k for k in table if not (isinstance(k, tuple) and len(k) == 2 and 0 <= k[0] <= l and 0 <= k[1] <= l)]
            ground(b, f"{F}::calc_inclination::keys", f"{F}::calc_inclination", "table has no keys outside 0 <= m,p <= l", not extra, detail=str(extra))
        if off is not None:
            extra = [k for k in off if not (isinstance(k, tuple) and len(k) == 2 and 0 <= k[0] <= l and 0 <= k[1] <= l)]
            ground(b, f"{F}::calc_inclination_off::keys", f"{F}::calc_inclination_off", "off-table has no keys outside 0 <= m,p <= l", not extra, detail=str(extra))
        b.replayer(f"{F}::calc_inclination::entry*", _replayer(l))
    lookup_tables(b)
    universal(b)
    b.assume("sin / cos of integer multiples of I/2 are expanded by the angle-addition rules (axioms); s^2 + c^2 = 1")
    b.assume("hand-typed decimal coefficients are compared with the exact rationals with tolerance 1e-14 relative to the largest coefficient of the entry")
    b.trust("spec function kaula_F (Kaula 1966 eq. 3.62) after its self-consistency lemmas (mirror symmetry, values at I = 0, printed degree-2 table)")
    return b


def spec_lemmas(b):
    """the oracle must agree with independent facts, otherwise every proof below would be vacuous or every check an alarm"""
    ok_sym, ok_zero = True, True
    for l in range(2, 8):
        for m in range(l + 1):
            for p in range(l + 1):
                F = kaula_F(l, m, p)
                mirror = kaula_F(l, m, l - p).subs({s: c, c: s}, simultaneous=True)      # I -> pi - I swaps s and c
                if reduce_sc(F - (-1) ** (l - m) * mirror) != sp.Poly(0, s, c, domain="QQ"):
                    ok_sym = False
                v0 = F.subs({s: 0, c: 1})
                if (v0 != 0) != (m == l - 2 * p):
                    ok_zero = False
    ground(b, "spec::kaula_F::mirror_symmetry", "spec::kaula_F", "F_lmp(pi - I) == (-1)^(l-m) F_lm(l-p)(I) for l = 2..7", ok_sym)
    ground(b, "spec::kaula_F::zero_obliquity_selection", "spec::kaula_F", "F_lmp(0) != 0 exactly when m == l - 2p", ok_zero)
    sinI, cosI = 2 * s * c, c ** 2 - s ** 2
    printed = {(2, 0, 0): -sp.Rational(3, 8) * sinI ** 2, (2, 0, 1): sp.Rational(3, 4) * sinI ** 2 - sp.Rational(1, 2), (2, 1, 0): sp.Rational(3, 4) * sinI * (1 + cosI),
               (2, 1, 1): -sp.Rational(3, 2) * sinI * cosI, (2, 2, 0): sp.Rational(3, 4) * (1 + cosI) ** 2, (2, 2, 1): sp.Rational(3, 2) * sinI ** 2,
               (2, 2, 2): sp.Rational(3, 4) * (1 - cosI) ** 2, (3, 3, 0): sp.Rational(15, 8) * (1 + cosI) ** 3}
    ok = all(reduce_sc(kaula_F(*k) - v) == sp.Poly(0, s, c, domain="QQ") for k, v in printed.items())
    ground(b, "spec::kaula_F::printed_table", "spec::kaula_F", "agrees with Kaula's printed table (Table 1) for F_200, F_201, F_210, F_211, F_220, F_221, F_222, F_330", ok)


def lookup_tables(b):
    F = "TidalPy/tides/inclination_funcs/__init__.py"
    from tpv.extract import source
    src = source(F)
    imports = {}
    for st in src.tree.body:
        if isinstance(st, ast.ImportFrom) and st.module and st.module.startswith("orderl"):
            for a in st.names:
                imports[a.asname or a.name] = (st.module, a.name)
    for tname, want in (("inclination_functions_on", "calc_inclination"), ("inclination_functions_off", "calc_inclination_off")):
        node = src.module_constants().get(tname)
        ok = isinstance(node, ast.Dict)
        det = ""
        if ok:
            got = {}
            for k, v in zip(node.keys, node.values):
                got[ast.literal_eval(k)] = imports.get(ast.unparse(v))
            exp = {l: (f"orderl{l}", want) for l in range(2, 8)}
            ok = got == exp
            det = str(got)
        ground(b, f"{F}::{tname}", f"{F}::{tname}", f"lookup table maps l = 2..7 to orderl<l>.{want}", ok, detail=det)


def universal(b):
    for l in range(2, 8):
        fn, ex, paths = run_fn(b, FU, "get_universal_coeffs", dict(order_l=sp.Integer(l)), [], xcheck=False)
        if not paths:
            continue
        tab = paths[0].value if paths[0].outcome == "return" else None
        for m in range(l + 1):
            spec = sp.Rational((2 if m else 1) * factorial(l - m), factorial(l + m))
            ok = isinstance(tab, dict) and m in tab and sp.Rational(tab[m]) == spec
            ground(b, f"{FU}::get_universal_coeffs::l{l}m{m}", fn.key, f"coefficient (l={l}, m={m}) == (2 - delta_0m)(l-m)!/(l+m)!", ok,
                   detail=f"table {tab.get(m) if isinstance(tab, dict) else tab}, spec {spec}")
        ground(b, f"{FU}::get_universal_coeffs::l{l}keys", fn.key, f"table for l={l} has exactly the keys 0..l", isinstance(tab, dict) and sorted(tab) == list(range(l + 1)))
    fn, ex, paths = run_fn(b, FU, "get_universal_coeffs", dict(order_l=sp.Integer(1)), [], xcheck=False)
    if paths:
        ground(b, f"{FU}::get_universal_coeffs::rejects_l1", fn.key, "order_l < 2 raises", paths[0].outcome == "raise")


def _replayer(l):
    def rp(ob, res):
        from tpv import native
        m, p = ob.meta["m"], ob.meta["p"]
        angles = [0.3, 1.2, 2.0, 2.9]          # prograde and retrograde obliquities
        out = native.run(dict(code=f"from TidalPy.tides.inclination_funcs.orderl{l} import calc_inclination\nr = calc_inclination(np.array({angles}))\nresult = [float(x) for x in r[({m},{p})]] if ({m},{p}) in r else None"))
        exp = [float(kaula_F(l, m, p).subs({s: sp.sin(sp.Float(I, 40) / 2), c: sp.cos(sp.Float(I, 40) / 2)}) ** 2) for I in angles]
        rec = dict(replayed=True, inclinations=angles, l=l, m=m, p=p, native=out, expected_F2=exp)
        got = out.get("result")
        rec["confirmed"] = got is None or any(abs(g_ - e_) > 1e-10 * max(1.0, abs(e_)) for g_, e_ in zip(got, exp))
        return rec
    return rp
