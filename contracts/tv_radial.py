"""Translation validation (bounded, never counted as proved): the mechanically translated .pyx functions, executed by the symbolic executor on exact
rational inputs, against the COMPILED functions called through their public Python wrappers.  Runs only while the compiled module is in sync with
the source (baseline/pyx.sha256); a mismatch is a tool fault (the translation or the executor is wrong), never a property violation."""
import itertools, random
import sympy as sp
from tpv.kit import *
from tpv import terms as T
from tpv.terms import Cx
from tpv.symex import Exec, SymExError, Pointer
from contracts import solver_model as SM

_NATIVE_IFACE = r'''
import numpy as np
from TidalPy.RadialSolver.interfaces.interfaces import solve_upper_y_at_interface
out = []
for case in args["cases"]:
    lo = np.asarray([[complex(*v) for v in row] for row in case["lower"]], dtype=np.complex128)
    nu = case["nu"]
    # NOTE: the buffer is 3 x 6 as inside cf_radial_solver.  With an exactly sized (nu x 6) array the compiled function writes past the end for liquid
    # upper layers (its NaN / third-solution slots are not bounded by num_sols_upper): heap corruption in the public wrapper, outside the listed properties.
    up = np.full((3, 6), np.nan + 1j * np.nan, dtype=np.complex128)
    solve_upper_y_at_interface(lo, up, case["lt"], case["ls"], case["li"], case["ut"], case["us"], case["ui"], case["g"], case["rho"], case["G"])
    out.append([[[float(z.real), float(z.imag)] if np.isfinite(z) else None for z in row] for row in up[:nu]])
result = out
'''


def _nsols(t, st):
    return 3 if t == 0 else (1 if st else 2)


def interfaces(b, seed=0, quick=True):
    from tpv import native, xcheck
    if not xcheck.binary_in_sync(SM.FIF):
        b.bounded.append(dict(name="translation validation: interfaces.pyx", bound="not run", result="compiled module stale with respect to the source", counted_as_proved=False))
        return
    rnd = random.Random(seed)
    fn = Fn(SM.FIF, "cf_solve_upper_y_at_interface")
    cases, mine = [], []
    combos = list(itertools.product((0, 1), (False, True), (False, True), (0, 1), (False, True), (False, True)))
    for lt, ls, li, ut, us, ui in combos:
        nl, nu = _nsols(lt, ls), _nsols(ut, us)
        q = lambda: sp.Rational(rnd.randint(-40, 40), rnd.randint(1, 9))
        lower = [[Cx(q(), q()) for _ in range(6)] for _ in range(nl)]
        g, rho, G = sp.Rational(rnd.randint(1, 40), 7), sp.Rational(rnd.randint(1, 40), 3), sp.Rational(rnd.randint(1, 9), 11)
        flat_lo = [v for row in lower for v in row] + [SM.NANC] * (18 - 6 * nl)
        flat_up = [Cx(SM.NANC, SM.NANC)] * 18
        ex = Exec(fn, globals_env=dict(pi=T.PI, NAN=SM.NANC, cmplx_NAN=Cx(SM.NANC, SM.NANC), cmplx_zero=Cx(0, 0), cf_build_dblcmplx=lambda ex_, node, a_, b_: Cx(a_, b_)), opts=dict(definedness=False))
        try:
            ex.run(dict(lower_layer_y_ptr=flat_lo, upper_layer_y_ptr=flat_up, num_sols_lower=sp.Integer(nl), num_sols_upper=sp.Integer(nu), max_num_y=sp.Integer(6),
                        lower_layer_type=sp.Integer(lt), lower_is_static=ls, lower_is_incompressible=li, upper_layer_type=sp.Integer(ut), upper_is_static=us, upper_is_incompressible=ui,
                        interface_gravity=g, liquid_density=rho, G_to_use=G))
        except SymExError as e:
            b.subset_exits.append(f"translation validation {fn.key}: {e}")
            return
        mine.append([[flat_up[j * 6 + i] for i in range(6)] for j in range(nu)])
        cases.append(dict(lower=[[[float(v.re), float(v.im)] for v in row] for row in lower], nu=nu, lt=lt, ls=bool(ls), li=bool(li), ut=ut, us=bool(us), ui=bool(ui),
                          g=float(g), rho=float(rho), G=float(G)))
    out = native.run(dict(code=_NATIVE_IFACE, args=dict(cases=cases)), timeout=600)
    if "result" not in out:
        b.bounded.append(dict(name="translation validation: interfaces.pyx", bound="64 flag combinations", result=out, counted_as_proved=False))
        return
    import math
    worst, mism = 0.0, []
    PIv = math.pi
    for ci_, (m_, n_) in enumerate(zip(mine, out["result"])):
        for j, (rm, rn) in enumerate(zip(m_, n_)):
            for i, (vm, vn) in enumerate(zip(rm, rn)):
                vm = Cx.of(vm)
                undefined = vm.re.has(SM.NANC) or vm.im.has(SM.NANC)
                if undefined != (vn is None):
                    mism.append((ci_, j, i, "set/unset"))
                    continue
                if vn is None:
                    continue
                a = complex(float(vm.re.subs(T.PI, PIv)), float(vm.im.subs(T.PI, PIv)))
                c = complex(vn[0], vn[1])
                err = abs(a - c) / max(abs(c), 1e-300) if c != 0 else abs(a)
                worst = max(worst, err)
                if err > 1e-11:
                    mism.append((ci_, j, i, err))
    b.bounded.append(dict(name="translation validation: translated cf_solve_upper_y_at_interface (executor, exact rationals) vs compiled solve_upper_y_at_interface",
                          bound="64 (type, static, incompressible) x (type, static, incompressible) combinations, one random rational input each", result=dict(worst_relative_difference=worst, mismatches=mism[:5]), counted_as_proved=False))
    if mism:
        b.tool_faults.append(f"translation validation failed for {fn.key}: {mism[:3]} (translated source and compiled module disagree although the source hash matches)")


_NATIVE_ND = r'''
import numpy as np
from TidalPy.utilities.dimensions.nondimensional import non_dimensionalize_physicals, redimensionalize_physicals
from TidalPy.RadialSolver.love import find_love
c = args
r = np.asarray(c["r"]); d = np.asarray(c["d"]); g = np.asarray(c["g"]); K = np.asarray(c["K"]); mu = np.asarray([complex(*v) for v in c["mu"]], dtype=np.complex128)
f_nd, G_nd = non_dimensionalize_physicals(c["freq"], c["R"], c["rho"], r, d, g, K, mu)
nd = dict(r=r.tolist(), d=d.tolist(), g=g.tolist(), K=K.tolist(), mu=[[z.real, z.imag] for z in mu], f=float(f_nd), G=float(G_nd))
redimensionalize_physicals(c["freq"], c["R"], c["rho"], r, d, g, K, mu)
back = dict(r=r.tolist(), d=d.tolist(), g=g.tolist(), K=K.tolist(), mu=[[z.real, z.imag] for z in mu])
love = np.zeros(3, dtype=np.complex128)
find_love(love, np.asarray([complex(*v) for v in c["ysurf"]], dtype=np.complex128), c["gs"])
result = dict(nd=nd, back=back, love=[[z.real, z.imag] for z in love])
'''


def nondim_and_love(b, seed=0):
    from tpv import native, xcheck
    import math
    if not (xcheck.binary_in_sync(SM.FND) and xcheck.binary_in_sync(SM.FLV)):
        b.bounded.append(dict(name="translation validation: nondimensional.pyx / love.pyx", bound="not run", result="compiled module stale with respect to the source", counted_as_proved=False))
        return
    rnd = random.Random(seed)
    n = 4
    q = lambda lo, hi: sp.Rational(rnd.randint(lo, hi), rnd.randint(1, 9))
    r = sorted(q(1000, 900000) for _ in range(n))
    d, g, K = [q(900, 9000) for _ in range(n)], [q(1, 90) for _ in range(n)], [q(10 ** 9, 10 ** 11) for _ in range(n)]
    mu = [Cx(q(10 ** 9, 10 ** 11), q(10 ** 6, 10 ** 9)) for _ in range(n)]
    freq, Rm, rho = q(1, 9) / 10 ** 5, r[-1], q(2000, 6000)
    Gval = sp.Rational(66743, 10 ** 15)
    G = R("G")
    # translated run
    genv = dict(pi=T.PI, G=G, sqrt=lambda ex_, node, x: T.sqrt_(sp.sympify(x)))
    fn = Fn(SM.FND, "cf_non_dimensionalize_physicals")
    from tpv.symex import RefCell
    arrs = dict(r=list(r), d=list(d), g=list(g), K=list(K), mu=list(mu))
    cells = {k: {"v": None} for k in ("R", "rho", "f", "G")}
    ex = Exec(fn, globals_env=genv, opts=dict(definedness=False))
    try:
        ex.run(dict(num_radius=sp.Integer(n), frequency=freq, mean_radius=Rm, bulk_density=rho, radius_array_ptr=arrs["r"], density_array_ptr=arrs["d"], gravity_array_ptr=arrs["g"],
                    bulk_array_ptr=arrs["K"], shear_array_ptr=arrs["mu"], radius_planet_to_use=RefCell(cells["R"], "v"), bulk_density_to_use=RefCell(cells["rho"], "v"),
                    frequency_to_use=RefCell(cells["f"], "v"), G_to_use=RefCell(cells["G"], "v")))
    except SymExError as e:
        b.subset_exits.append(f"translation validation {fn.key}: {e}")
        return
    fl = Fn(SM.FLV, "find_love_cf")
    ysurf = [Cx(q(-9, 9), q(-9, 9)) for _ in range(6)]
    gs = q(1, 20)
    love = [None] * 3
    Exec(fl, globals_env=dict(cf_build_dblcmplx=lambda ex_, node, a_, b_: Cx(a_, b_)), opts=dict(definedness=False)).run(dict(complex_love_numbers_ptr=love, surface_solutions_ptr=ysurf, surface_gravity=gs))
    out = native.run(dict(code=_NATIVE_ND, args=dict(r=[float(x) for x in r], d=[float(x) for x in d], g=[float(x) for x in g], K=[float(x) for x in K],
                                                       mu=[[float(z.re), float(z.im)] for z in mu], freq=float(freq), R=float(Rm), rho=float(rho),
                                                       ysurf=[[float(z.re), float(z.im)] for z in ysurf], gs=float(gs))), timeout=300)
    if "result" not in out:
        b.bounded.append(dict(name="translation validation: nondimensional.pyx / love.pyx", bound="one random input", result=out, counted_as_proved=False))
        return
    from tpv.xcheck import numeval
    import mpmath as mp
    pt = {G: mp.mpf(float(Gval))}
    val = lambda e: complex(float(numeval(sp.sympify(Cx.of(e).re), pt)), float(numeval(sp.sympify(Cx.of(e).im), pt)))
    res = out["result"]
    worst, mism = 0.0, []

    def cmp_(tag, a, c):
        nonlocal worst
        c = complex(*c) if isinstance(c, list) else complex(c)
        err = abs(a - c) / max(abs(c), 1e-300)
        worst = max(worst, err)
        if err > 1e-11:
            mism.append((tag, err))
    for k_, nm in (("r", "r"), ("d", "d"), ("g", "g"), ("K", "K"), ("mu", "mu")):
        for i in range(n):
            cmp_(f"nondim {nm}[{i}]", val(arrs[k_][i]), res["nd"][nm][i])
    cmp_("frequency_to_use", val(cells["f"]["v"]), res["nd"]["f"])
    cmp_("G_to_use", val(cells["G"]["v"]), res["nd"]["G"])
    for i in range(3):
        cmp_(f"love[{i}]", val(love[i]), res["love"][i])
    # the compiled round trip restores the arrays (few ulp)
    for nm, orig in (("r", r), ("d", d), ("g", g), ("K", K)):
        for i in range(n):
            cmp_(f"round trip {nm}[{i}]", complex(float(orig[i])), res["back"][nm][i])
    b.bounded.append(dict(name="translation validation: translated cf_non_dimensionalize_physicals and find_love_cf (executor, exact rationals) vs the compiled wrappers; compiled round trip non-dim -> re-dim",
                          bound="one random 4-slice input", result=dict(worst_relative_difference=worst, mismatches=mism[:5]), counted_as_proved=False))
    if mism:
        b.tool_faults.append(f"translation validation failed for nondimensional.pyx / love.pyx: {mism[:3]}")
