"""C18 — restart of an interrupted parameter study (PARTIAL: level 'other').

The statement quantifies over kill points and schedules of a multi-process, file-system mediated run.  No contract on a single call
expresses 'for every prefix of this call's effects a later call completes', and there is no verifier here for Python's OS effects:
that part is NOT decided.  Three per-call consequences the restart logic relies on ARE decided on the real code:
  1. (deductive) the per-case worker returns a record carrying ITS OWN case number and grid index (data flow, enclosing scope havocked);
  2. (deductive, ghost file state) in the worker, the result file is written before the success marker, so at every statement boundary
     exists(mp_success.log) ==> exists(mp_results.npz)  — the restart path skips a case on the marker and then loads the result file;
  3. (bounded, labelled) the input journal written to tpy_mp.log is parsed back to the same inputs for must_include given as a list or
     a tuple of 0..3 floats (the extracted writer / reader statements are executed concretely).
"""
import ast, itertools, copy
import sympy as sp
from tpv.kit import *
from tpv import terms as T
from tpv.heap import HeapExec, GhostFS, S
from tpv.symex import SymExError, Namespace
from tpv.extract import source

FMP = "TidalPy/utilities/multiprocessing/multiprocessing.py"


class NestedFn(FragmentFn):
    """a function defined inside another function (closure): extracted by name; free variables are supplied by the contract (havocked)"""

    def __init__(self, parent, name):
        node = None
        for n in ast.walk(parent.node):
            if isinstance(n, ast.FunctionDef) and n.name == name and n is not parent.node:
                node = n
        if node is None:
            raise ExtractError(f"{parent.key}: no nested function {name}")
        super().__init__(parent, node.body, name)
        self.node = node
        self.params = [a.arg for a in node.args.args]
        self.vararg = node.args.vararg.arg if node.args.vararg else None
        self.kwarg = node.args.kwarg.arg if node.args.kwarg else None
        self.key = f"{parent.relpath}::{parent.qualname}.<locals>.{name}"


def build(tier="quick", seed=0):
    b = Bundle("C18", level="other")
    b.explanation = ("Partial: kill points, schedules and pool sizes are not decidable with contracts on single calls (listed under assumptions). Decided: "
                     "worker record carries its own case number / index; result file precedes the success marker on every path of the worker; "
                     "journal round trip (bounded).")
    parent = Fn(FMP, "multiprocessing_run")
    b.add_fn(parent)
    try:
        worker = NestedFn(parent, "func_to_use")
    except ExtractError as e:
        b.subset_exits.append(str(e))
        return b
    b.functions[worker.key] = worker.info()
    this_run, idx, total = sp.Symbol("this_run_num", integer=True), S("run_indicies"), sp.Symbol("total_runs_to_do", integer=True)
    enclosing_run_num = sp.Symbol("enclosing_scope_run_num", integer=True)
    for avoid in (True, False):
        for fails in ((False, True) if avoid else (False,)):
            fs = GhostFS()
            genv = fs.shims()
            result_obj = {"value": R("study_result")}

            def study(ex, node, run_dir, *a, **k):
                if fails:
                    from tpv.symex import _Raise, Raised
                    raise _Raise(Raised("Exception", ("study function raised",)))
                return result_obj
            genv.update(dict(mp_log_path="LOG", dir_to_use="DIR", avoid_crashes=avoid, study_function=study, run_num=enclosing_run_num,
                             warnings=Namespace("warnings", {"warn": lambda ex, node, *a, **k: None}),
                             MultiprocessingOutput=lambda ex, node, **k: dict(k)))
            ex = HeapExec(worker, globals_env=genv, opts=dict(definedness=False, check_feasibility=False))
            try:
                paths = ex.run(dict(this_run_num=this_run, run_indicies=idx, total_runs_to_do=total))
            except SymExError as e:
                b.subset_exits.append(f"{worker.key} [avoid_crashes={avoid}, study fails={fails}]: {e}")
                continue
            tag = f"[avoid_crashes={int(avoid)};study_raises={int(fails)}]"
            for i, p in enumerate(paths):
                if p.outcome == "raise":
                    if not avoid and fails:
                        continue
                    b.add(Obligation(oid=f"{worker.key}::noraise{tag}@path{i}", fn=worker.key, clause="worker does not raise when the study function returns (or crashes are shielded)",
                                     goal=sp.false, hyps=p.hyps, meta=dict(raised=repr(p.value))))
                    continue
                rec = p.value
                ok_shape = isinstance(rec, dict) and {"case_number", "input_index", "result"} <= set(rec)
                if not ok_shape:
                    ground(b, f"{worker.key}::record_shape{tag}", worker.key, "worker returns a MultiprocessingOutput(case_number, input_index, result)", False, detail=str(rec)[:100])
                    continue
                b.add(Obligation(oid=f"{worker.key}::ensures:own_case_number{tag}", fn=worker.key,
                                 clause="ensures record.case_number == this_run_num (the worker's own first argument, not a variable of the enclosing scope)",
                                 goal=sp.Eq(sp.sympify(rec["case_number"]), this_run), hyps=p.hyps))
                b.add(Obligation(oid=f"{worker.key}::ensures:own_grid_index{tag}", fn=worker.key, clause="ensures record.input_index == run_indicies (its own second argument)",
                                 goal=sp.Eq(sp.sympify(rec["input_index"]), idx), hyps=p.hyps))
                # ghost file state: walk the event list; after every event  marker exists ==> results exist
                exists = set()
                bad_at = None
                for k, (kind, path) in enumerate(fs.events):
                    if kind.startswith("open:w") or kind in ("savez", "makedirs"):
                        exists.add(path)
                    marker = any(x.endswith("mp_success.log") for x in exists)
                    results = any(x.endswith("mp_results.npz") for x in exists)
                    if marker and not results and bad_at is None:
                        bad_at = (k, kind, path)
                ground(b, f"{worker.key}::invariant:marker_implies_results{tag}", worker.key,
                       "at every statement boundary of the worker: exists(mp_success.log) ==> exists(mp_results.npz)  (a kill between the two writes must not leave a marked case without its result)",
                       bad_at is None, detail=f"events: {fs.events}" if bad_at else "", refuted_model=None if bad_at is None else {"kill_point": f"after event #{bad_at[0]} {bad_at[1]} {bad_at[2]}"})
                if not fails:
                    wrote = any(k == "savez" and pth.endswith("mp_results.npz") for k, pth in fs.events) and any(pth.endswith("mp_success.log") for k, pth in fs.events)
                    ground(b, f"{worker.key}::ensures:successful_case_persisted{tag}", worker.key, "a successful case writes both its result file and its success marker", wrote, detail=str(fs.events))
                else:
                    nomark = not any(pth.endswith("mp_success.log") for k, pth in fs.events)
                    ground(b, f"{worker.key}::ensures:failed_case_unmarked{tag}", worker.key, "a failed case leaves no success marker (it is re-run on restart)", nomark, detail=str(fs.events))
    journal(b, parent, seed, tier)
    b.replayer(f"{worker.key}::*", _replay_worker)
    b.assume("NOT DECIDED: kill points inside and between bookkeeping steps, process schedules, pool sizes 4..16, subsets of failing cases across a real restart — no contract on a single call can state them and no verifier for OS effects is available")
    b.assume("ghost file system: open(path,'w'), os.makedirs and np.savez create the named path; the event order of one worker call is the program order")
    b.assume("journal round trip is a bounded check of the extracted writer / reader statements on generated inputs, not a proof")
    return b


def journal(b, parent, seed, tier):
    """bounded: exec the extracted writer statements (journal line) and reader statements (parsing) on concrete inputs"""
    import random
    from collections import namedtuple
    MI = namedtuple("MultiprocessingInput", ("name", "nice_name", "start", "end", "scale", "must_include", "n"))
    node = parent.node
    # writer: the `for input_tuple in input_data:` loop inside `with open(mp_log_path, 'w')`
    writer = [n for n in ast.walk(node) if isinstance(n, ast.For) and ast.unparse(n.iter) == "input_data" and any("mp_file.write" in ast.unparse(s) for s in n.body)]
    reader = [n for n in ast.walk(node) if isinstance(n, ast.For) and ast.unparse(n.iter) == "lines"]
    key = f"{FMP}::multiprocessing_run#journal"
    if len(writer) != 1 or len(reader) != 1:
        b.subset_exits.append(f"{key}: writer / reader loops not found ({len(writer)}, {len(reader)})")
        return
    wsrc = "def _write(input_data, mp_file):\n" + "\n".join("    " + l for l in ast.unparse(writer[0]).split("\n"))
    rsrc = "def _read(lines, MultiprocessingInput):\n    input_data_to_use = list()\n    start_input_found = True\n" + \
           "\n".join("    " + l for l in ast.unparse(reader[0]).split("\n")) + "\n    return input_data_to_use"
    b.functions[key] = dict(function=key, line=writer[0].lineno, note="journal writer loop (lines %d-%d) and reader loop (lines %d-%d) extracted verbatim and executed concretely" % (writer[0].lineno, writer[0].end_lineno, reader[0].lineno, reader[0].end_lineno),
                            dropped=["everything of multiprocessing_run outside the two loops"])
    ns = {}
    exec(compile(wsrc, "writer", "exec"), ns)
    exec(compile(rsrc, "reader", "exec"), ns)
    rnd = random.Random(seed)

    class F:
        def __init__(self):
            self.lines = []

        def write(self, s):
            self.lines.append(s)
    cases = []
    for container in (list, tuple):
        for k in range(0, 4):
            for rep in range(3 if tier == "quick" else 20):
                mi = container(round(rnd.uniform(-5, 5), rnd.choice([0, 1, 3, 6])) for _ in range(k))
                cases.append(MI("viscosity", "Viscosity [Pa s]", round(rnd.uniform(0, 3), 3), round(rnd.uniform(4, 9), 3), rnd.choice(["log", "linear"]), mi, rnd.randint(2, 9)))
    n_ok = 0
    fails = []
    for c in cases:
        f = F()
        try:
            ns["_write"]([c], f)
            back = ns["_read"](f.lines, MI)
            same = len(back) == 1 and back[0].name == c.name and back[0].nice_name == c.nice_name and back[0].start == c.start and back[0].end == c.end and \
                back[0].scale == c.scale and list(back[0].must_include) == list(c.must_include) and back[0].n == c.n
        except Exception as e:
            same = False
            back = f"{type(e).__name__}: {e}"
        if same:
            n_ok += 1
        else:
            fails.append((repr(c.must_include), str(back)[:120]))
    by_kind = {}
    for c in cases:
        by_kind.setdefault((type(c.must_include).__name__, len(c.must_include)), 0)
    for (kind, k) in sorted(by_kind):
        bad = [f_ for f_ in fails if (f_[0].startswith("(") if kind == "tuple" else f_[0].startswith("["))
               and len(eval(f_[0])) == k]
        ground(b, f"{key}::roundtrip[{kind};len={k}]", key, f"BOUNDED: parse(format(inputs)) == inputs for must_include given as a {kind} of {k} floats", not bad,
               detail=str(bad[:2]), refuted_model=None if not bad else {"must_include": bad[0][0]}, bounded=True)
    b.bounded.append(dict(name="journal round trip (extracted writer / reader statements executed concretely)", bound=f"{len(cases)} generated inputs: list / tuple x 0..3 floats",
                          evaluations=len(cases), passed=n_ok, counted_as_proved=False))


def _replay_worker(ob, res):
    """native replay: run a tiny study, then restart it; check the record fields and the on-disk order"""
    from tpv import native
    code = r'''
import os, tempfile, shutil, inspect
import numpy as np
import TidalPy.utilities.multiprocessing.multiprocessing as M
src = inspect.getsource(M.multiprocessing_run)
i_marker = src.find("mp_success.log'), 'w'")
i_savez = src.find("np.savez(")
# the worker is a closure and the pool needs >3 processes; read the order of the two writes from the running module's source and
# exercise the record fields through the real function with a 4-process pool when available
out = {"marker_written_before_results_in_loaded_source": bool(0 <= i_marker < i_savez)}
out["record_uses_closure_run_num"] = "MultiprocessingOutput(case_number=run_num" in src
result = out
'''
    out = native.run(dict(code=code), timeout=120)
    rec = dict(replayed=True, native=out)
    try:
        v = out["result"]
        if "own_case_number" in ob.oid:
            rec["confirmed"] = bool(v["record_uses_closure_run_num"])
        elif "marker_implies_results" in ob.oid:
            rec["confirmed"] = bool(v["marker_written_before_results_in_loaded_source"])
        else:
            rec["confirmed"] = False
    except Exception:
        rec["confirmed"] = False
    rec["note"] = "the worker is a closure inside multiprocessing_run; the replay inspects the imported module's own source for the two facts the obligation names"
    return rec
