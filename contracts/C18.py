"""C18 — restart of an interrupted parameter study (PARTIAL: level 'other').

The statement quantifies over kill points and schedules of a multi-process, file-system mediated run.  No contract on a single call
expresses 'for every prefix of this call's effects a later call completes', and there is no verifier here for Python's OS effects:
that part is NOT decided.  Three per-call consequences the restart logic relies on ARE decided on the real code:
  1. (deductive) the per-case worker returns a record carrying ITS OWN case number and grid index (data flow, enclosing scope havocked);
  2. (deductive, ghost file state) in the worker, the result file is written before the success marker, so at every statement boundary
     exists(mp_success.log) ==> exists(mp_results.npz)  — the restart path skips a case on the marker and then loads the result file;
  3. (bounded, labelled) the input journal written to tpy_mp.log is parsed back to the same inputs for must_include given as a list or
     a tuple of 0..3 floats (the extracted writer / reader statements are executed concretely).
"""
import ast, itertools, copy
import sympy as sp
from tpv.kit import *
from tpv import terms as T
from tpv.heap import HeapExec, GhostFS, S
from tpv.symex import SymExError, Namespace
from tpv.extract import source

FMP = "TidalPy/utilities/multiprocessing/multiprocessing.py"


class NestedFn(FragmentFn):
    """a function defined inside another function (closure): extracted by name; free variables are supplied by the contract (havocked)"""

    def __init__(self, parent, name):
        node = None
        for n in ast.walk(parent.node):
            if isinstance(n, ast.FunctionDef) and n.name == name and n is not parent.node:
                node = n
        if node is None:
            raise ExtractError(f"{parent.key}: no nested function {name}")
        super().__init__(parent, node.body, name)
        self.node = node
        self.params = [a.arg for a in node.args.args]
        self.vararg = node.args.vararg.arg if node.args.vararg else None
        self.kwarg = node.args.kwarg.arg if node.args.kwarg else None
        self.key = f"{parent.relpath}::{parent.qualname}.<locals>.{name}"


def build(tier="quick", seed=0):
    b = Bundle("C18", level="other")
    b.explanation = ("Partial: kill points, schedules and pool sizes are not decidable with contracts on single calls (listed under assumptions). Decided: "
                     "worker record carries its own case number / index; result file precedes the success marker on every path of the worker; "
                     "journal round trip (bounded).")
    parent = Fn(FMP, "multiprocessing_run")
    b.add_fn(parent)
    try:
        worker = NestedFn(parent, "func_to_use")
    except ExtractError as e:
        b.subset_exits.append(str(e))
        return b
    b.functions[worker.key] = worker.info()
    this_run, idx, total = sp.Symbol("this_run_num", integer=True), S("run_indicies"), sp.Symbol("total_runs_to_do", integer=True)
    enclosing_run_num = sp.Symbol("enclosing_scope_run_num", integer=True)
    # what an earlier, interrupted attempt at the same case may have left in its directory (kill points of the worker): nothing; the directory; the
    # directory and a result file cut off inside the write; the directory and a complete result file without the marker
    LEFT = {"fresh": {}, "dir_only": {"_run_this_run_num": "dir"}, "partial_results": {"_run_this_run_num": "dir", "mp_results.npz": "partial"},
            "results_no_marker": {"_run_this_run_num": "dir", "mp_results.npz": "complete"}}
    for left_name, left in LEFT.items():
        for avoid in (True, False):
          for fails in ((False, True) if avoid else (False,)):
              if left_name != "fresh" and fails:
                  continue
              fs = GhostFS(initial=left)
              genv = fs.shims()
              result_obj = {"value": R("study_result")}

              def study(ex, node, run_dir, *a, **k):
                  if fails:
                      from tpv.symex import _Raise, Raised
                      raise _Raise(Raised("Exception", ("study function raised",)))
                  return result_obj
              genv.update(dict(mp_log_path="LOG", dir_to_use="DIR", avoid_crashes=avoid, study_function=study, run_num=enclosing_run_num,
                               warnings=Namespace("warnings", {"warn": lambda ex, node, *a, **k: None}),
                               MultiprocessingOutput=lambda ex, node, **k: dict(k)))
              ex = HeapExec(worker, globals_env=genv, opts=dict(definedness=False, check_feasibility=False))
              try:
                  paths = ex.run(dict(this_run_num=this_run, run_indicies=idx, total_runs_to_do=total))
              except SymExError as e:
                  b.subset_exits.append(f"{worker.key} [avoid_crashes={avoid}, study fails={fails}]: {e}")
                  continue
              tag = f"[avoid_crashes={int(avoid)};study_raises={int(fails)}]" + ("" if left_name == "fresh" else f"[left_behind={left_name}]")
              for i, p in enumerate(paths):
                  if p.outcome == "raise":
                      if not avoid and fails:
                          continue
                      b.add(Obligation(oid=f"{worker.key}::noraise{tag}@path{i}", fn=worker.key, clause="worker does not raise when the study function returns (or crashes are shielded)",
                                       goal=sp.false, hyps=p.hyps, meta=dict(raised=repr(p.value))))
                      continue
                  rec = p.value
                  ok_shape = isinstance(rec, dict) and {"case_number", "input_index", "result"} <= set(rec)
                  if not ok_shape:
                      ground(b, f"{worker.key}::record_shape{tag}", worker.key, "worker returns a MultiprocessingOutput(case_number, input_index, result)", False, detail=str(rec)[:100])
                      continue
                  b.add(Obligation(oid=f"{worker.key}::ensures:own_case_number{tag}", fn=worker.key,
                                   clause="ensures record.case_number == this_run_num (the worker's own first argument, not a variable of the enclosing scope)",
                                   goal=sp.Eq(sp.sympify(rec["case_number"]), this_run), hyps=p.hyps))
                  b.add(Obligation(oid=f"{worker.key}::ensures:own_grid_index{tag}", fn=worker.key, clause="ensures record.input_index == run_indicies (its own second argument)",
                                   goal=sp.Eq(sp.sympify(rec["input_index"]), idx), hyps=p.hyps))
                  # ghost file state: walk the event list; after every event  marker exists ==> results exist
                  exists = set()
                  bad_at = None
                  for k, (kind, path) in enumerate(fs.events):
                      if kind.startswith("open:w") or kind in ("savez", "makedirs"):
                          exists.add(path)
                      marker = any(x.endswith("mp_success.log") for x in exists)
                      results = any(x.endswith("mp_results.npz") for x in exists)
                      if marker and not results and bad_at is None:
                          bad_at = (k, kind, path)
                  ground(b, f"{worker.key}::invariant:marker_implies_results{tag}", worker.key,
                         "at every statement boundary of the worker: exists(mp_success.log) ==> exists(mp_results.npz)  (a kill between the two writes must not leave a marked case without its result)",
                         bad_at is None, detail=f"events: {fs.events}" if bad_at else "", refuted_model=None if bad_at is None else {"kill_point": f"after event #{bad_at[0]} {bad_at[1]} {bad_at[2]}"})
                  if not fails:
                      wrote = any(k == "savez" and pth.endswith("mp_results.npz") for k, pth in fs.events) and any(pth.endswith("mp_success.log") for k, pth in fs.events)
                      ground(b, f"{worker.key}::ensures:successful_case_persisted{tag}", worker.key, "a successful case writes both its result file and its success marker", wrote, detail=str(fs.events))
                  else:
                      nomark = not any(pth.endswith("mp_success.log") for k, pth in fs.events)
                      ground(b, f"{worker.key}::ensures:failed_case_unmarked{tag}", worker.key, "a failed case leaves no success marker (it is re-run on restart)", nomark, detail=str(fs.events))
    journal(b, parent, seed, tier)
    journal_atomicity(b, parent)
    restart_scan(b, parent)
    reload_indices(b, parent, seed, tier)
    b.replayer(f"{worker.key}::*left_behind*", _replay_left_behind)
    b.replayer(f"{worker.key}::*", _replay_worker)
    b.replayer(f"{FMP}::multiprocessing_run#journal_creation*", _replay_journal_kill)
    b.replayer(f"{FMP}::multiprocessing_run#journal::roundtrip*", _replay_roundtrip)
    b.replayer(f"{FMP}::multiprocessing_run#*", _replay_restart)
    b.assume("DECIDED on a ghost file system (event order = program order of the real statements): kill points between any two file-system events of one worker call (directory, result file, success marker) and of the journal creation, including the middle of a write. NOT DECIDED: process schedules, pool sizes 4..16, a kill of the parent while workers run on, subsets of failing cases across a real restart (bounded native run only), partially written .npz files, the log appends of the restart branch - no contract on a single call can state them and no verifier for OS effects is available")
    b.assume("ghost file system: open(path,'w'), os.makedirs and np.savez create the named path; the event order of one worker call is the program order")
    b.assume("journal round trip is a bounded check of the extracted writer / reader statements on generated inputs, not a proof")
    return b


def journal(b, parent, seed, tier):
    """bounded: exec the extracted writer statements (journal line) and reader statements (parsing) on concrete inputs"""
    import random
    from collections import namedtuple
    MI = namedtuple("MultiprocessingInput", ("name", "nice_name", "start", "end", "scale", "must_include", "n"))
    node = parent.node
    # writer: the `for input_tuple in input_data:` loop inside `with open(mp_log_path, 'w')`
    writer = [n for n in ast.walk(node) if isinstance(n, ast.For) and ast.unparse(n.iter) == "input_data" and any("mp_file.write" in ast.unparse(s) for s in n.body)]
    reader = [n for n in ast.walk(node) if isinstance(n, ast.For) and ast.unparse(n.iter) == "lines"]
    key = f"{FMP}::multiprocessing_run#journal"
    if len(writer) != 1 or len(reader) != 1:
        b.subset_exits.append(f"{key}: writer / reader loops not found ({len(writer)}, {len(reader)})")
        return
    wsrc = "def _write(input_data, mp_file):\n" + "\n".join("    " + l for l in ast.unparse(writer[0]).split("\n"))
    rsrc = "def _read(lines, MultiprocessingInput):\n    input_data_to_use = list()\n    start_input_found = True\n" + \
           "\n".join("    " + l for l in ast.unparse(reader[0]).split("\n")) + "\n    return input_data_to_use"
    b.functions[key] = dict(function=key, line=writer[0].lineno, note="journal writer loop (lines %d-%d) and reader loop (lines %d-%d) extracted verbatim and executed concretely" % (writer[0].lineno, writer[0].end_lineno, reader[0].lineno, reader[0].end_lineno),
                            dropped=["everything of multiprocessing_run outside the two loops"])
    ns = {}
    exec(compile(wsrc, "writer", "exec"), ns)
    exec(compile(rsrc, "reader", "exec"), ns)
    rnd = random.Random(seed)

    class F:
        def __init__(self):
            self.lines = []

        def write(self, s):
            self.lines.append(s)
    cases = []
    for container in (list, tuple):
        for k in range(0, 4):
            for rep in range(3 if tier == "quick" else 20):
                mi = container(round(rnd.uniform(-5, 5), rnd.choice([0, 1, 3, 6])) for _ in range(k))
                if rep % 2 == 0:
                    lo_, hi_ = round(rnd.uniform(0, 3), 3), round(rnd.uniform(4, 9), 3)
                else:                         # bounds that are not exact in a few significant digits (log10 of a physical value, a third)
                    import math
                    lo_, hi_ = rnd.choice([1.0 / 3.0, math.log10(3.3e13) - 13.0, rnd.uniform(0, 3)]), rnd.choice([math.log10(3.3e13), 20.0 / 3.0, rnd.uniform(4, 9)])
                cases.append(MI("viscosity", "Viscosity [Pa s]", lo_, hi_, rnd.choice(["log", "linear"]), mi, rnd.randint(2, 9)))
    # values whose text form is special (zero, negative zero, exponent notation, many digits): always included, whatever the seed
    for container in (list, tuple):
        for mi in ((0.0,), (0.0, 1.5), (-0.0, 2.0, 0.0), (1e-07, 1e+22), (123456789.12345678, -3.0e-300, 5.0)):
            cases.append(MI("viscosity", "Viscosity [Pa s]", 0.0, 1e+22, "log", container(mi), 5))
            cases.append(MI("x", "x", -1e-07, 0.0, "linear", container(mi), 2))
    n_ok = 0
    fails = []
    for c in cases:
        f = F()
        try:
            ns["_write"]([c], f)
            back = ns["_read"](f.lines, MI)
            same = len(back) == 1 and back[0].name == c.name and back[0].nice_name == c.nice_name and back[0].start == c.start and back[0].end == c.end and \
                back[0].scale == c.scale and list(back[0].must_include) == list(c.must_include) and back[0].n == c.n
        except Exception as e:
            same = False
            back = f"{type(e).__name__}: {e}"
        if same:
            n_ok += 1
        else:
            fails.append((repr(c.must_include), str(back)[:120]))
    by_kind = {}
    for c in cases:
        by_kind.setdefault((type(c.must_include).__name__, len(c.must_include)), 0)
    for (kind, k) in sorted(by_kind):
        bad = [f_ for f_ in fails if (f_[0].startswith("(") if kind == "tuple" else f_[0].startswith("["))
               and len(eval(f_[0])) == k]
        ground(b, f"{key}::roundtrip[{kind};len={k}]", key, f"BOUNDED: parse(format(inputs)) == inputs for must_include given as a {kind} of {k} floats", not bad,
               detail=str(bad[:2]), refuted_model=None if not bad else {"must_include": bad[0][0]}, bounded=True)
    b.bounded.append(dict(name="journal round trip (extracted writer / reader statements executed concretely)", bound=f"{len(cases)} generated inputs: list / tuple x 0..3 floats",
                          evaluations=len(cases), passed=n_ok, counted_as_proved=False))


def journal_atomicity(b, parent):
    """kill points inside the creation of the study journal (ghost file system with contents): the block `if not study_restart:` is extracted verbatim and
    executed with ghost `open` / `os`; after EVERY file-system event (a kill there leaves exactly the state built so far, with partially written content
    flushed or not) the restart protocol must still work: if the state contains a journal under the name the restart detection looks for, the real reader
    statements parse from it exactly the inputs of the study.  (A journal that exists but is incomplete makes every later run of the study fail or run a
    smaller grid.)"""
    from collections import namedtuple
    import datetime
    MI = namedtuple("MultiprocessingInput", ("name", "nice_name", "start", "end", "scale", "must_include", "n"))
    node = parent.node
    key = f"{FMP}::multiprocessing_run#journal_creation"
    blocks = [n for n in ast.walk(node) if isinstance(n, ast.If) and ast.unparse(n.test) == "not study_restart" and any("mp_file.write" in ast.unparse(s_) for s_ in n.body)]
    reader = [n for n in ast.walk(node) if isinstance(n, ast.For) and ast.unparse(n.iter) == "lines"]
    if len(blocks) != 1 or len(reader) != 1:
        b.subset_exits.append(f"{key}: journal creation block / reader loop not found ({len(blocks)}, {len(reader)})")
        return
    blk = blocks[0]
    b.functions[key] = dict(function=key, line=blk.lineno, note="journal creation block (lines %d-%d) executed concretely on a ghost file system; reader loop (lines %d-%d) run on every intermediate state" % (blk.lineno, blk.body[-1].end_lineno, reader[0].lineno, reader[0].end_lineno),
                            dropped=["everything of multiprocessing_run outside the block and the reader loop"])
    wsrc = "def _create(study_restart, dir_to_use, mp_log_path, input_data, version, study_name, start_time, os, open):\n" + "\n".join("    " + l for l in "\n".join(ast.unparse(s_) for s_ in blk.body).split("\n"))
    rsrc = "def _read(lines, MultiprocessingInput):\n    input_data_to_use = list()\n    start_input_found = False\n" + \
           "\n".join("    " + l for l in ast.unparse(reader[0]).split("\n")) + "\n    return input_data_to_use"
    ns = {}
    try:
        exec(compile(wsrc, "journal_creation", "exec"), ns)
        exec(compile(rsrc, "reader", "exec"), ns)
    except SyntaxError as e:
        b.subset_exits.append(f"{key}: extracted block does not compile on its own ({e})")
        return
    events = []          # (kind, path, payload)

    class GhostFile:
        def __init__(self, path, mode):
            self.path, self.mode = path, mode
            events.append(("open:" + mode, path, None))

        def write(self, text):
            events.append(("write", self.path, text))

        def __enter__(self):
            return self

        def __exit__(self, *a_):
            events.append(("close", self.path, None))
            return False

        def close(self):
            events.append(("close", self.path, None))

    class GhostPath:
        @staticmethod
        def join(*a_):
            return "/".join(a_)

        @staticmethod
        def isdir(p_):
            return any(k_ == "makedirs" and q_ == p_ for k_, q_, _ in events)

        @staticmethod
        def isfile(p_):
            return p_ in state_after(len(events))

        exists = isfile

    class GhostOS:
        path = GhostPath

        @staticmethod
        def makedirs(p_, exist_ok=False):
            events.append(("makedirs", p_, None))

        @staticmethod
        def replace(src, dst):
            events.append(("replace", src, dst))

        rename = replace

        @staticmethod
        def remove(p_):
            events.append(("remove", p_, None))

        @staticmethod
        def fsync(*a_):
            return None

    def state_after(k):
        files = {}
        for kind, path, payload in events[:k]:
            if kind.startswith("open:w"):
                files[path] = ""
            elif kind.startswith("open:a"):
                files.setdefault(path, "")
            elif kind == "write":
                files[path] = files.get(path, "") + payload
            elif kind == "replace":
                if path in files:
                    files[payload] = files.pop(path)
            elif kind == "remove":
                files.pop(path, None)
        return files
    inputs = [MI("viscosity", "Viscosity [Pa s]", 14.0, 22.0, "log", (18.5,), 5), MI("temperature", "Temperature [K]", 1000.0, 2000.0, "linear", [], 3)]
    try:
        ns["_create"](False, "DIR", "DIR/tpy_mp.log", inputs, "0.0.0", "study", datetime.datetime(2026, 1, 1), GhostOS, lambda p_, m_="r": GhostFile(p_, m_))
    except Exception as e:
        b.subset_exits.append(f"{key}: extracted block raised on the ghost file system ({type(e).__name__}: {e})")
        return

    def parses(text):
        lines = text.splitlines(keepends=True)
        try:
            back = ns["_read"](lines, MI)
        except Exception as e:
            return False, f"{type(e).__name__}: {e}"
        same = len(back) == len(inputs) and all(x_.name == y_.name and x_.start == y_.start and x_.end == y_.end and x_.scale == y_.scale and list(x_.must_include) == list(y_.must_include) and x_.n == y_.n
                                                for x_, y_ in zip(back, inputs))
        return same, f"{len(back)} of {len(inputs)} inputs read back"
    bad = None
    # kill after event k (k = 0: nothing happened yet).  A partially written line is a state as well: the write is cut in the middle.
    states = []
    for k in range(len(events) + 1):
        states.append((f"after event #{k} {events[k - 1][0] + ' ' + str(events[k - 1][1]) if k else '(start)'}", state_after(k)))
        if k < len(events) and events[k][0] == "write" and len(events[k][2]) > 1:
            st_ = dict(state_after(k))
            st_[events[k][1]] = st_.get(events[k][1], "") + events[k][2][:len(events[k][2]) // 2]
            states.append((f"in the middle of event #{k + 1} write {events[k][1]}", st_))
    for label, st_ in states:
        if "DIR/tpy_mp.log" in st_:
            ok, why = parses(st_["DIR/tpy_mp.log"])
            if not ok and bad is None:
                bad = (label, why, st_["DIR/tpy_mp.log"][:120])
    final = state_after(len(events))
    ok_final = "DIR/tpy_mp.log" in final and parses(final["DIR/tpy_mp.log"])[0]
    ground(b, f"{key}::ensures:journal_written", key, "ensures: after the block the journal exists under the name the restart detection looks for and parses back to the inputs", ok_final,
           detail=str(sorted(final))[:200])
    ground(b, f"{key}::invariant:journal_complete_or_absent", key,
           "at every kill point of the journal creation (between any two file-system events, and in the middle of a write): exists(tpy_mp.log) ==> the restart reader parses exactly the study's inputs from it",
           bad is None, detail="" if bad is None else f"kill {bad[0]}: {bad[1]}; journal so far: {bad[2]!r}",
           refuted_model=None if bad is None else dict(kill_point=bad[0], restart_reads=bad[1], journal_so_far=bad[2]), kill_points=len(states))


def restart_scan(b, parent):
    """the scan that decides which cases a restart skips: the real loop body is executed for one directory entry under EVERY combination of
    presence of the files it asks about (the set of files is discovered from the body's own os.path.isfile calls, so a new dependency enlarges
    the enumeration).  Contract: a case is skipped iff its directory holds the success marker - nothing else may influence the decision
    (completed cases are never executed again; uncompleted ones always are)."""
    import itertools as it
    node = parent.node
    loops = [n for n in ast.walk(node) if isinstance(n, ast.For) and ast.unparse(n.iter) == "os.listdir(dir_to_use)"]
    key = f"{FMP}::multiprocessing_run#restart_scan"
    if len(loops) != 1:
        b.subset_exits.append(f"{key}: scan loop not found ({len(loops)})")
        return
    loop = loops[0]
    b.functions[key] = dict(function=key, line=loop.lineno, note=f"restart scan loop body (lines {loop.lineno}-{loop.end_lineno}) executed concretely under every file-presence combination",
                            dropped=["everything of multiprocessing_run outside the loop"])
    src = "def _scan(run_dir, dir_to_use, cases_to_skip, run_num, os):\n    for _once in (0,):\n" + "\n".join("        " + l for l in "\n".join(ast.unparse(s_) for s_ in loop.body).split("\n")) + "\n    return cases_to_skip, run_num"
    ns = {}
    try:
        exec(compile(src, "scan", "exec"), ns)
    except SyntaxError as e:
        b.subset_exits.append(f"{key}: {e}")
        return
    asked = set()

    def mk_os(present):
        class P:
            @staticmethod
            def join(*a):
                return "/".join(a)

            @staticmethod
            def isfile(path):
                name = path.split("/")[-1]
                asked.add(name)
                return path.startswith("DIR/index_(1, 2)_run_7/") and name in present

            @staticmethod
            def isdir(path):
                return path == "DIR/index_(1, 2)_run_7"

        class O:
            path = P
        return O
    files = {"mp_success.log"}
    for _round in range(4):
        before = set(files)
        for k in range(len(files) + 1):
            for present in it.combinations(sorted(files), k):
                ns["_scan"]("index_(1, 2)_run_7", "DIR", [], 0, mk_os(set(present)))
        files |= asked
        if files == before:
            break
    bad = []
    n = 0
    for k in range(len(files) + 1):
        for present in it.combinations(sorted(files), k):
            n += 1
            try:
                skipped, _ = ns["_scan"]("index_(1, 2)_run_7", "DIR", [], 0, mk_os(set(present)))
            except Exception as e:
                bad.append((present, f"raised {type(e).__name__}"))
                continue
            if (7 in skipped) != ("mp_success.log" in present) or len(skipped) > 1:
                bad.append((present, f"skipped={skipped}"))
    ground(b, f"{key}::skip_iff_marker", key, f"for every combination of presence of the files the scan asks about ({sorted(files)}): the case is skipped iff its success marker exists", not bad,
           detail=f"{n} combinations" if not bad else str(bad[:3]), refuted_model=dict(files_present=str(bad[0][0]), outcome=bad[0][1]) if bad else None, exhaustive=True)
    # entries that are not case directories never put a case on the skip list.  What such an entry may contain is read off the function itself: every
    # file it writes (open(..., 'w'/'a'), np.save*, os.makedirs) below a sub-directory of the study directory that is not a case directory
    joins = {}
    for n_ in ast.walk(node):
        if isinstance(n_, ast.Assign) and len(n_.targets) == 1 and isinstance(n_.targets[0], ast.Name) and isinstance(n_.value, ast.Call) and ast.unparse(n_.value.func) == "os.path.join" \
                and len(n_.value.args) == 2 and isinstance(n_.value.args[1], ast.Constant) and isinstance(n_.value.args[1].value, str):
            joins[n_.targets[0].id] = (ast.unparse(n_.value.args[0]), n_.value.args[1].value)
    written = set()
    for n_ in ast.walk(node):
        if isinstance(n_, ast.Call) and n_.args:
            f_ = ast.unparse(n_.func)
            is_write = (f_ == "open" and len(n_.args) >= 2 and isinstance(n_.args[1], ast.Constant) and str(n_.args[1].value)[:1] in ("w", "a")) or f_ in ("np.save", "np.savez", "np.savez_compressed")
            if is_write and isinstance(n_.args[0], ast.Name) and n_.args[0].id in joins:
                base, leaf = joins[n_.args[0].id]
                if base in joins and joins[base][0] == "dir_to_use":        # a file inside a named sub-directory of the study directory
                    written.add((joins[base][1], leaf))
    extra_entries = sorted({d_ for d_, _ in written})

    def mk_os2(entry, leaves):
        class P:
            @staticmethod
            def join(*a):
                return "/".join(a)

            @staticmethod
            def isfile(path):
                return path.startswith(f"DIR/{entry}/") and path.split("/")[-1] in leaves

            @staticmethod
            def isdir(path):
                return path == f"DIR/{entry}"

        class O:
            path = P
        return O
    bad = []
    for entry in ["tpy_mp.log", "viscosity.npy", "post_processing"] + extra_entries:
        leaves = set() if entry in ("tpy_mp.log", "viscosity.npy") else {l_ for d_, l_ in written if d_ == entry}      # plain files contain nothing
        try:
            # the scan arrives at this entry with the case number of the entry listed before it (an UNFINISHED case 5): it must not end up skipped
            skipped, _ = ns["_scan"](entry, "DIR", [], 5, mk_os2(entry, leaves))
            if skipped:
                bad.append((entry, sorted(leaves), skipped))
        except Exception as e:
            bad.append((entry, sorted(leaves), f"raised {type(e).__name__}: {e}"))
    ground(b, f"{key}::other_entries_ignored", key, "directory entries that are not case directories (journal, saved grids, post-processing with every file the function itself writes there) do not put a case on the skip list", not bad, detail=str(bad)[:200],
           refuted_model=dict(entry=str(bad[0])) if bad else None)


def reload_indices(b, parent, seed, tier):
    """BOUNDED (concrete execution of extracted statements with numpy): grid construction, case builder and the reload loop of a restart - every
    reloaded case is reported with the grid index the case builder gives the same case number, also when must_include values were merged in."""
    import random
    from collections import namedtuple
    try:
        import numpy as np
    except Exception as e:
        b.bounded.append(dict(name="reload indices", bound="not run", result=f"numpy unavailable: {e}", counted_as_proved=False))
        return
    node = parent.node
    key = f"{FMP}::multiprocessing_run#reload_indices"
    build = [n for n in ast.walk(node) if isinstance(n, ast.For) and ast.unparse(n.iter) == "input_data_to_use" and "np.linspace" in ast.unparse(n)]
    mesh = [n for n in ast.walk(node) if isinstance(n, ast.Assign) and ast.unparse(n.targets[0]) == "mesh"]
    builder = [n for n in ast.walk(node) if isinstance(n, ast.For) and ast.unparse(n.iter) == "range(total_n)" and "cases.append" in ast.unparse(n)]
    reload_ = [n for n in ast.walk(node) if isinstance(n, ast.For) and ast.unparse(n.iter) == "cases_to_skip" and "np.load" in ast.unparse(n)]
    if not (len(build) == 1 and len(mesh) == 1 and len(builder) == 1 and len(reload_) == 1):
        b.subset_exits.append(f"{key}: anchors not found {(len(build), len(mesh), len(builder), len(reload_))}")
        return
    try:
        fnear = Fn("TidalPy/utilities/numpy_helper/array_other.py", "find_nearest")
    except ExtractError as e:
        b.subset_exits.append(str(e))
        return
    b.add_fn(fnear)
    ind = lambda n_: "\n".join("    " + l for l in ast.unparse(n_).split("\n"))
    src = ("def _run(input_data_to_use, cases_to_skip, dir_to_use, np, os, find_nearest):\n    total_n = 1\n    dimensions = 0\n    input_arrays = list()\n    input_names = list()\n    input_scales = list()\n"
           + ind(build[0]) + "\n" + ind(mesh[0]) + "\n    skipped_indicies = dict()\n    cases = list()\n" + ind(builder[0]) + "\n    previous_run_data = list()\n" + ind(reload_[0])
           + "\n    return cases, skipped_indicies, previous_run_data, input_arrays")
    fsrc = ast.unparse(ast.FunctionDef(name="find_nearest", args=fnear.node.args, body=fnear.node.body, decorator_list=[], lineno=1, col_offset=0))
    ns = {"np": np}
    try:
        exec(compile(fsrc, "find_nearest", "exec"), ns)
        exec(compile(src, "restart", "exec"), ns)
    except SyntaxError as e:
        b.subset_exits.append(f"{key}: {e}")
        return
    b.functions[key] = dict(function=key, line=build[0].lineno, note="grid construction loop, mesh, case builder loop and reload loop extracted verbatim and executed concretely with numpy",
                            dropped=["everything of multiprocessing_run outside these statements"])
    MI = namedtuple("MultiprocessingInput", ("name", "nice_name", "start", "end", "scale", "must_include", "n"))

    class NP:
        def __getattr__(self, a):
            return getattr(np, a)

        @staticmethod
        def save(*a, **k):
            return None

        @staticmethod
        def load(path):
            loaded_paths.append(path)
            return ("loaded", path)

    class OS:
        class path:
            join = staticmethod(lambda *a: "/".join(a))
    # the directory the WORKER writes a case into (statement of the real closure) - the reload must look into exactly that directory, for every case number
    loaded_paths = []
    worker_dir = worker_file = None
    wk = [n_ for n_ in ast.walk(node) if isinstance(n_, ast.FunctionDef) and n_.name == "func_to_use"]
    if len(wk) == 1:
        a_dir = [n_ for n_ in ast.walk(wk[0]) if isinstance(n_, ast.Assign) and len(n_.targets) == 1 and isinstance(n_.targets[0], ast.Name)
                 and "os.path.join(dir_to_use" in ast.unparse(n_.value) and "_run_" in ast.unparse(n_.value)]
        saves = [n_ for n_ in ast.walk(wk[0]) if isinstance(n_, ast.Call) and ast.unparse(n_.func) in ("np.savez", "np.savez_compressed", "np.save") and n_.args]
        if len(a_dir) == 1 and len(saves) == 1:
            worker_dir_name = a_dir[0].targets[0].id
            worker_dir = compile(ast.Expression(a_dir[0].value), "worker_dir", "eval")
            arg0 = saves[0].args[0]
            joins_w = {n_.targets[0].id: n_.value for n_ in ast.walk(wk[0]) if isinstance(n_, ast.Assign) and len(n_.targets) == 1 and isinstance(n_.targets[0], ast.Name)}
            worker_file = compile(ast.Expression(joins_w[arg0.id] if isinstance(arg0, ast.Name) and arg0.id in joins_w else arg0), "worker_file", "eval")
    rnd = random.Random(seed)
    bad, n = [], 0
    path_bad, path_checked = [], 0
    for rep in range(12 if tier == "quick" else 80):
        dims = rnd.randint(1, 3)
        inputs = []
        for d in range(dims):
            log = rnd.random() < 0.5
            lo_, hi_ = (rnd.uniform(0, 2), rnd.uniform(3, 6))
            k = rnd.choice([0, 0, 1, 2, 3])
            mi = [rnd.uniform(lo_, hi_) for _ in range(k)]
            if k and rnd.random() < 0.5:
                mi = tuple(mi)
            inputs.append(MI(f"x{d}", f"X{d}", lo_, hi_, "log" if log else "linear", mi, rnd.randint(2, 5)))
        total = 1
        try:
            cases0, _, _, arrays = ns["_run"](inputs, [], "DIR", NP(), OS, ns["find_nearest"])
            own = {c[0]: tuple(int(i) for i in c[1]) for c in cases0}
            own_raw = {c[0]: c[1] for c in cases0}          # what the worker receives (and formats into the directory name)
            total = len(cases0)
            skip = sorted(rnd.sample(range(total), max(1, total // 3)))
            cases1, skipped, prev, _ = ns["_run"](inputs, list(skip), "DIR", NP(), OS, ns["find_nearest"])
        except Exception as e:
            bad.append((rep, f"raised {type(e).__name__}: {e}"))
            continue
        n += 1
        if worker_dir is not None:
            for k_ in skip:
                envw = dict(os=OS, dir_to_use="DIR", this_run_num=k_, run_indicies=own_raw[k_], run_num=k_, total_n=total, char_n_total=len(str(total)), np=np)
                try:
                    envw[worker_dir_name] = eval(worker_dir, envw)
                    want_path = eval(worker_file, envw)
                except Exception as e:
                    path_bad.append((rep, f"cannot evaluate the worker's path expression: {type(e).__name__}: {e}"))
                    break
                path_checked += 1
                mine = [p_ for p_ in loaded_paths if p_ == want_path or p_ == want_path + ".npz" or p_ + ".npz" == want_path]
                if not mine:
                    path_bad.append((rep, f"case {k_} of {total}: the worker writes {want_path!r}; the reload opens {[p_ for p_ in loaded_paths if ('_run_%d' % k_) in p_ or p_.endswith('_%d/mp_results.npz' % k_)][:2] or loaded_paths[:2]}"))
                    break
        loaded_paths.clear()
        rep_idx = {}
        for rec in prev:
            rep_idx[int(rec[0])] = tuple(int(i) for i in rec[1])
        for k_ in skip:
            if rep_idx.get(k_) != own[k_]:
                bad.append((rep, f"case {k_} reloaded with index {rep_idx.get(k_)}, its own is {own[k_]}; must_include={[tuple(i.must_include) for i in inputs]}"))
                break
        if sorted(c[0] for c in cases1) != [k_ for k_ in range(total) if k_ not in skip]:
            bad.append((rep, "cases to run are not exactly the non-skipped case numbers"))
    ground(b, f"{key}::own_index_on_reload", key, "BOUNDED: every reloaded case carries the grid index the case builder assigns to its case number; the cases queued for execution are exactly the non-skipped ones", not bad,
           detail=f"{n} generated studies (1-3 dimensions, must_include as list / tuple of 0-3 values, linear / log)" if not bad else str(bad[:2]),
           refuted_model=dict(example=str(bad[0])) if bad else None, bounded=True)
    if worker_dir is None:
        structural(b, f"{key}::reload_path_is_worker_path", key, "the worker's case-directory statement and result-file call are recognised", "unknown", detail="func_to_use: `<dir> = os.path.join(dir_to_use, f'..._run_...')` / np.savez(...) not found")
    else:
        undecided = [x_ for x_ in path_bad if "cannot evaluate" in x_[1]]
        if undecided:
            b.subset_exits.append(f"{key}: {undecided[0][1]}")
        else:
            ground(b, f"{key}::reload_path_is_worker_path", key, "BOUNDED: for every completed case of every generated study (1 to 100+ cases) the reload opens exactly the result file the worker of the same source writes for that case number and grid index",
                   not path_bad, detail=f"{path_checked} cases" if not path_bad else str(path_bad[:2]), refuted_model=dict(example=str(path_bad[0])) if path_bad else None, bounded=True)
    b.bounded.append(dict(name="restart: grid construction + case builder + reload loop (extracted statements executed concretely with numpy)", bound=f"{n} generated studies", evaluations=n,
                          passed=n - len(bad), counted_as_proved=False))


_RESTART_NATIVE = r'''
import os, tempfile, shutil, math
import numpy as np
from TidalPy.utilities.multiprocessing.multiprocessing import multiprocessing_run, MultiprocessingInput
calls = []
def study(run_dir, a, b_, a_name=None, b_name=None):
    with open(os.path.join(BASE, "calls.txt"), "a") as f:
        f.write(os.path.basename(run_dir) + "\\n")
    if os.path.exists(os.path.join(BASE, "FAIL")) and int(run_dir.split("_run_")[-1]) % 4 == 1:
        raise RuntimeError("injected")
    return {"v": np.asarray([a * 10 + b_])}
def post(post_dir, results, *a, **k):
    with open(os.path.join(BASE, "post_calls.txt"), "a") as f:
        f.write("%d\\n" % len(results))
fails = []
base = tempfile.mkdtemp()
BASE = base
try:
    inputs = (MultiprocessingInput("a", "A", 1.0 / 3.0, math.log10(3.3e13) - 12.0, "linear", (0.9,), 3), MultiprocessingInput("b", "B", 0.0, 2.0, "log", [1.5], 3))
    ref = multiprocessing_run(os.path.join(base, "ref"), "ref", study, inputs, max_procs=2, allow_low_procs=True, verbose=False, avoid_crashes=True, force_restart=False)
    open(os.path.join(base, "calls.txt"), "w").close()
    refd = {int(r[0]): (tuple(int(i) for i in r[1]), float(r[2]["v"][0])) for r in ref}
    open(os.path.join(base, "FAIL"), "w").close()
    r1 = multiprocessing_run(os.path.join(base, "study"), "study", study, inputs, postprocess_func=post, max_procs=2, allow_low_procs=True, verbose=False, avoid_crashes=True, force_restart=False)
    if not [x for x in r1 if x[2] is None]: fails.append("scenario broken: no case failed in the interrupted run")
    os.remove(os.path.join(base, "FAIL"))
    for attempt in (2, 3):
        open(os.path.join(base, "calls.txt"), "w").close()
        r = multiprocessing_run(os.path.join(base, "study"), "study", study, inputs, postprocess_func=post, max_procs=2, allow_low_procs=True, verbose=False, avoid_crashes=True, force_restart=False)
        got = {}
        for rec in r:
            k = int(rec[0]); got.setdefault(k, []).append((tuple(int(i) for i in rec[1]), float(rec[2]["v"][0]) if rec[2] is not None else None))
        for k, (idx, val) in refd.items():
            if k not in got: fails.append("run %d: case %d missing" % (attempt, k)); continue
            if len(got[k]) != 1: fails.append("run %d: case %d reported %d times" % (attempt, k, len(got[k])))
            if got[k][0][0] != idx: fails.append("run %d: case %d reported with index %s, its own is %s" % (attempt, k, got[k][0][0], idx))
            if got[k][0][1] is None or abs(got[k][0][1] - val) > 1e-12 * max(abs(val), 1): fails.append("run %d: case %d result %r differs from the uninterrupted %r" % (attempt, k, got[k][0][1], val))
        ran = [l.strip() for l in open(os.path.join(base, "calls.txt")) if l.strip()]
        if attempt == 3 and ran: fails.append("run 3: completed cases executed again: %s" % ran[:4])
finally:
    shutil.rmtree(base, ignore_errors=True)
result = dict(failures=fails[:8], n=len(fails))
'''


_KILL_JOURNAL = r'''
import os, shutil, sys, numpy as np, warnings, tempfile
warnings.filterwarnings('ignore')
import TidalPy.utilities.multiprocessing.multiprocessing as mpmod
from TidalPy.utilities.multiprocessing import multiprocessing_run, MultiprocessingInput
def study(run_dir, a, b_, *names):
    return dict(v=np.asarray(a * 10 + b_))
inputs = (MultiprocessingInput('a', 'A', 0., 2., 'linear', (), 3), MultiprocessingInput('b', 'B', 0., 1., 'linear', (0.5,), 2))
base = tempfile.mkdtemp(prefix="tpv_c18_kill_")
class Kill(BaseException): pass
def run(d):
    return multiprocessing_run(d, "s", study, inputs, max_procs=2, allow_low_procs=True, verbose=False, avoid_crashes=True, force_restart=False, perform_memory_check=False)
out = []
try:
    ref = run(os.path.join(base, "ref"))
    for k in (0, 1, 3, 4, 5):          # (more than ~16 studies in one process exhaust the pool's resources: unrelated to the journal)
        d = os.path.join(base, f"kill{k}")
        count = {"n": 0}
        real_open = open
        def patched(path, mode="r", *a, **kw):
            f = real_open(path, mode, *a, **kw)
            if "w" in mode and "tpy_mp.log" in str(path):
                real_write = f.write
                class W:
                    def __enter__(s): return s
                    def __exit__(s, *e): f.close(); return False
                    def write(s, t):
                        if count["n"] >= k:
                            f.flush(); raise Kill()
                        count["n"] += 1
                        return real_write(t)
                    def __getattr__(s, a_): return getattr(f, a_)
                return W()
            return f
        mpmod.open = patched
        try:
            run(d); first = "completed"
        except Kill:
            first = "killed"
        finally:
            del mpmod.open
        try:
            r = run(d); second = "completed %d" % len(r); ok = len(r) == len(ref)
        except BaseException as e:
            second = "RAISED %s: %s" % (type(e).__name__, str(e)[:60]); ok = False
        out.append([k, first, second, ok])
finally:
    shutil.rmtree(base, ignore_errors=True)
result = out
'''


def _replay_journal_kill(ob, res):
    from tpv import native
    out = native.run(dict(code=_KILL_JOURNAL), timeout=1200)
    rec = dict(replayed=True, native=out, what="simulated kill (exception out of the k-th write to the journal, k in {0, 1, 3, 4, 5}, file flushed as an OS would leave it), then the same call again on the same directory: must complete with the 9 results of the uninterrupted study")
    try:
        rec["confirmed"] = any(not row[3] for row in out["result"])
    except Exception:
        rec["confirmed"] = "exception" in out
    return rec


_LEFT_BEHIND = r'''
import os, shutil, tempfile, glob, numpy as np, warnings
warnings.filterwarnings('ignore')
from TidalPy.utilities.multiprocessing import multiprocessing_run, MultiprocessingInput
def study(run_dir, a, b_, *names):
    return dict(v=np.asarray(a * 10 + b_))
inputs = (MultiprocessingInput('a', 'A', 0., 2., 'linear', (), 3), MultiprocessingInput('b', 'B', 0., 1., 'linear', (0.5,), 2))
base = tempfile.mkdtemp(prefix="tpv_c18_left_")
out = {}
try:
    run = lambda d: multiprocessing_run(d, "s", study, inputs, max_procs=2, allow_low_procs=True, verbose=False, avoid_crashes=True, force_restart=False, perform_memory_check=False)
    for name in (args["name"],):
        d = os.path.join(base, name)
        ref = run(d)
        want = sorted((int(r[0]), float(np.asarray(r[2]["v"]))) for r in ref)
        case = sorted(glob.glob(os.path.join(d, "index_*_run_4")))[0]
        os.remove(os.path.join(case, "mp_success.log"))
        res = os.path.join(case, "mp_results.npz")
        if name == "dir_only":
            os.remove(res)
        elif name == "partial_results":
            data = open(res, "rb").read(); open(res, "wb").write(data[:max(8, len(data) // 3)])
        try:
            r = run(d)
            got = sorted((int(x[0]), float(np.asarray(x[2]["v"]))) for x in r) if r is not None else None
            out[name] = "ok" if got == want else "differs: %s" % (str(got)[:120])
        except BaseException as e:
            out[name] = "RAISED %s: %s" % (type(e).__name__, str(e)[:80])
finally:
    shutil.rmtree(base, ignore_errors=True)
result = out
'''


def _replay_left_behind(ob, res):
    from tpv import native
    out = {"result": {}}
    for nm in ("dir_only", "partial_results", "results_no_marker"):       # one process per scenario (a long-lived process runs out of pool resources)
        o_ = native.run(dict(code=_LEFT_BEHIND, args=dict(name=nm)), timeout=900)
        if "result" in o_ and isinstance(o_["result"], dict):
            out["result"].update(o_["result"])
        else:
            out["result"][nm] = str(o_)[:200]
    rec = dict(replayed=True, native=out, what="a finished study; case 4 is put back into the state a kill would leave (directory only / result file cut off / result file without marker); the same call again must complete with the results of the uninterrupted study")
    try:
        rec["confirmed"] = any(v_ != "ok" for v_ in out["result"].values())
    except Exception:
        rec["confirmed"] = "exception" in out
    return rec


def _replay_roundtrip(ob, res):
    """native: the journal writer and reader loops of the IMPORTED multiprocessing_run (inspect.getsource under /venv) on the failing must_include"""
    from tpv import native
    mi = (res.get("model") or {}).get("must_include")
    if mi is None:
        return dict(replayed=False, reason="no failing input recorded")
    code = r'''
import ast, inspect, textwrap
from collections import namedtuple
import TidalPy.utilities.multiprocessing.multiprocessing as M
node = ast.parse(textwrap.dedent(inspect.getsource(M.multiprocessing_run))).body[0]
writer = [n for n in ast.walk(node) if isinstance(n, ast.For) and ast.unparse(n.iter) == "input_data" and any("mp_file.write" in ast.unparse(s) for s in n.body)][0]
reader = [n for n in ast.walk(node) if isinstance(n, ast.For) and ast.unparse(n.iter) == "lines"][0]
ns = {}
exec("def _write(input_data, mp_file):\n" + "\n".join("    " + l for l in ast.unparse(writer).split("\n")), ns)
exec("def _read(lines, MultiprocessingInput):\n    input_data_to_use = list()\n    start_input_found = True\n" + "\n".join("    " + l for l in ast.unparse(reader).split("\n")) + "\n    return input_data_to_use", ns)
MI = namedtuple("MultiprocessingInput", ("name", "nice_name", "start", "end", "scale", "must_include", "n"))
class F:
    def __init__(self): self.lines = []
    def write(self, s): self.lines.append(s)
mi = eval(args["must_include"])
f = F(); ns["_write"]([MI("viscosity", "Viscosity [Pa s]", 0.0, 9.0, "log", mi, 5)], f)
try:
    back = ns["_read"](f.lines, MI)
    result = {"journal_line": f.lines, "given": list(mi), "read_back": list(back[0].must_include) if back else None}
except Exception as e:
    result = {"journal_line": f.lines, "given": list(mi), "raised": type(e).__name__ + ": " + str(e)}
'''
    out = native.run(dict(code=code, args=dict(must_include=mi)), timeout=120)
    rec = dict(replayed=True, failing_input=mi, native=out)
    try:
        r_ = out["result"]
        rec["confirmed"] = ("raised" in r_) or r_["read_back"] != r_["given"]
    except Exception:
        rec["confirmed"] = False
    return rec


def _replay_restart(ob, res):
    """native: an interrupted study (cases raising), restarted twice on the same directory, against an uninterrupted reference"""
    from tpv import native
    out = native.run(dict(code=_RESTART_NATIVE), timeout=900)
    rec = dict(replayed=True, native=out)
    if "result" not in out:
        rec["confirmed"] = True
        rec["detail"] = "the real multiprocessing_run raised / crashed in the restart scenario"
        return rec
    rec["confirmed"] = bool(out["result"]["failures"])
    rec["detail"] = out["result"]["failures"][:3]
    return rec


def _replay_worker(ob, res):
    """native replay: run a tiny study, then restart it; check the record fields and the on-disk order"""
    from tpv import native
    code = r'''
import os, tempfile, shutil, inspect
import numpy as np
import TidalPy.utilities.multiprocessing.multiprocessing as M
src = inspect.getsource(M.multiprocessing_run)
i_marker = src.find("mp_success.log'), 'w'")
i_savez = src.find("np.savez(")
# the worker is a closure and the pool needs >3 processes; read the order of the two writes from the running module's source and
# exercise the record fields through the real function with a 4-process pool when available
out = {"marker_written_before_results_in_loaded_source": bool(0 <= i_marker < i_savez)}
out["record_uses_closure_run_num"] = "MultiprocessingOutput(case_number=run_num" in src
result = out
'''
    out = native.run(dict(code=code), timeout=120)
    rec = dict(replayed=True, native=out)
    try:
        v = out["result"]
        if "own_case_number" in ob.oid:
            rec["confirmed"] = bool(v["record_uses_closure_run_num"])
        elif "marker_implies_results" in ob.oid:
            rec["confirmed"] = bool(v["marker_written_before_results_in_loaded_source"])
        else:
            rec["confirmed"] = False
    except Exception:
        rec["confirmed"] = False
    rec["note"] = "the worker is a closure inside multiprocessing_run; the replay inspects the imported module's own source for the two facts the obligation names"
    return rec
