"""C03 — Love numbers are invariant under representation changes; reciprocity.

Scaling group (lambda_L, lambda_rho, lambda_T):  r -> r/lambda_L, rho -> rho/lambda_rho, g -> g lambda_T^2/lambda_L, K, mu -> K lambda_T^2/(lambda_rho lambda_L^2),
omega -> omega lambda_T, G -> G lambda_rho lambda_T^2; the radial functions scale with D = diag(lambda_T^2/lambda_L, lambda_rho, lambda_T^2/lambda_L, lambda_rho, 1, 1/lambda_L)
(y_dimensional = D y_scaled).  The internal non-dimensionalisation is the member (R, rho_bulk, 1/sqrt(pi G rho_bulk)) applied by the real code; the exactly
rescaled copy of the statement (lengths x a, moduli x a^2, gravity x a) is the member (1/a, 1, 1).

  equivariance[class]     every ODE operator of derivatives/odes.pyx (extracted by symbolic execution of the real diffeq) satisfies
                          A(scaled parameters) == lambda_L D^-1 A D   (so the scaled problem's solutions are the scaled solutions);
  nondim[stack]           two whole-function symbolic executions of the real cf_radial_solver, nondimensionalize False / True, with the CyRK contract
                          "rows of the scaled run = D^-1 rows of the unscaled run" (justified layer by layer by the obligations: arguments handed to the
                          starting-condition driver and to the integrator are the scaled ones; every layer's initial vector is D^-1 times the unscaled one;
                          the ZGESV system is a row scaling of the unscaled system): every entry of the returned solution and every Love number is equal;
  rescaled[stack]         the same for inputs scaled by a symbolic factor a: Love numbers equal, radial functions scaled by D;
  alone_vs_together[stack] requesting a type alone or together with others: same ZGESV system and same output block;
  reciprocity             k_load = k_tidal - h_tidal as a lemma chain: bilinear form W invariant under every operator (dW/dr = 0), continuous across every
                          interface given C02's interface conditions, W = 0 on the surface vectors => the relation, with the real find_love_cf.
Integrator and grid invariance follow from the CyRK contract only (assumption).
"""
import itertools
import sympy as sp
from tpv.kit import *
from tpv import terms as T
from tpv import backends as B
from tpv.terms import Cx
from tpv.symex import SymExError
from contracts import solver_model as SM
from contracts import radial as RD
from contracts.C02 import linear_certificate, layout, collapsed, TYPES, SINGLES, PAIRS, TRIPLES, DEEP

KEY = SM.FSOL + "::cf_radial_solver"
lL, lr, lT = sp.Symbol("lambda_L", positive=True), sp.Symbol("lambda_rho", positive=True), sp.Symbol("lambda_T", positive=True)


def Dvec(kind_type, static, sL, sr, sT):
    """scaling of the layer vector: y_unscaled = D * y_scaled"""
    d1, d2, d5, d6 = sT ** 2 / sL, sr, sp.Integer(1), 1 / sL
    if kind_type == 0:
        return [d1, d2, d1, d2, d5, d6]
    if static:
        return [d5, d6]
    return [d1, d2, d5, d6]


TN = sp.Symbol("T_nd", positive=True)       # non-dimensional time unit: G is re-parametrised as G = 1/(pi rho_bulk T_nd^2) (a bijection on G > 0), so that
RHO_B = sp.Symbol("rho_bulk", positive=True)  # sqrt(1/(pi G rho_bulk)) = T_nd exactly and no square root remains


def norm(e):
    if isinstance(e, Cx):
        return Cx(norm(e.re), norm(e.im))
    e = sp.sympify(e)
    e = e.xreplace({T.sqrt_(1 / (T.PI * SM.Gsym * RHO_B)): TN})
    return e.subs(SM.Gsym, 1 / (T.PI * RHO_B * TN ** 2))


_PT = {}


def point_value(e):
    """exact value at a fixed pseudo-random rational point (symbols get their value by name, consistently across calls)"""
    import random
    val = {}
    for sy in e.free_symbols:
        if sy not in _PT:
            rnd = random.Random(hash(sy.name) & 0xffffff)
            _PT[sy] = sp.Rational(*rnd.sample([2, 3, 5, 7, 11, 13, 17, 19, 23, 29, 31, 37, 41, 43, 47, 53, 59, 61, 67, 71, 73, 79, 83, 89, 97], 2))
        val[sy] = _PT[sy]
    return e.xreplace(val)


def zero(e):
    e = norm(sp.sympify(e))
    if e == 0:
        return True
    # refutation first: an identity that is non-zero at one exact rational point is not an identity (cheap, and keeps a broken tree from
    # sending the normal form into an expression swell)
    try:
        if not any(isinstance(a, sp.core.function.AppliedUndef) for a in sp.preorder_traversal(e)):
            v = point_value(e)
            if v.is_number and v != 0 and v.is_finite:
                return False
    except Exception:
        pass
    try:
        return _budgeted(60, lambda: B.nf_is_zero(e, []))
    except _Undecided:
        raise
    except Exception:
        return sp.cancel(sp.together(e)) == 0


class _Undecided(Exception):
    pass


def _budgeted(seconds, f):
    """wall-clock budget for one normal form (SIGALRM); an exhausted budget is 'undecided', never a verdict"""
    import signal

    def h(sig, frm):
        raise _Undecided("normal form not finished within the budget")
    old = signal.signal(signal.SIGALRM, h)
    signal.alarm(int(seconds))
    try:
        return f()
    finally:
        signal.alarm(0)
        signal.signal(signal.SIGALRM, old)


def cx_zero(e):
    e = Cx.of(e)
    return zero(e.re) and zero(e.im)


# ---------------------------------------------------------------------------------------------
def equivariance(b):
    mu = sp.Symbol("mu_formal")
    for key in RD.ODE_CLASSES:
        try:
            A, ny, mfn = RD.extract_operator(b, key)
            Af = RD.to_formal(A, mu)
        except (SymExError, ExtractError) as e:
            b.subset_exits.append(f"ODE operator {key}: {e}")
            continue
        D = Dvec(0 if key[0] == "solid" else 1, key[1] == "static", lL, lr, lT)
        sub = {RD.r: RD.r / lL, RD.rho: RD.rho / lr, RD.g: RD.g * lT ** 2 / lL, RD.Kb: RD.Kb * lT ** 2 / (lr * lL ** 2), mu: mu * lT ** 2 / (lr * lL ** 2),
               RD.w: RD.w * lT, RD.Gc: RD.Gc * lr * lT ** 2}
        bad = []
        for i in range(ny):
            for j in range(ny):
                lhs = sp.sympify(Af[i][j]).subs(sub, simultaneous=True)
                rhs = lL * Af[i][j] * D[j] / D[i]
                if not zero(lhs - rhs):
                    bad.append((i, j))
        ground(b, f"{mfn.key}::equivariance", mfn.key, "A(scaled parameters) == lambda_L D^-1 A D for the three-parameter scaling group (all entries, exact)", not bad,
               detail=f"{ny * ny} entries" if not bad else str(bad[:3]), refuted_model=dict(entries=str(bad[:3])) if bad else None)


# ---------------------------------------------------------------------------------------------
def scaled_contracts(cfg_kinds, ns, sL, sr, sT, analytic=True):
    """CyRK / starting-vector contracts of the scaled run expressed through the symbols of the unscaled run"""
    def sol(layer, k, slice_, q):
        t, st, _ = cfg_kinds[layer]
        D = Dvec(t, st, sL, sr, sT)
        if q % 2 == 1:
            return sp.Integer(0)
        return sp.Symbol(f"SOL_{layer}_{k}_{slice_}_{q // 2}") / D[q // 2]

    def start(j, i):
        t, st, _ = cfg_kinds[0]
        D = Dvec(t, st, sL, sr, sT)
        return sp.Symbol(f"START_{j}_{i}") / D[i]
    return sol, start


def compare_runs(b, tag, base, scaled, sL, sr, sT, G_scaled_expected, what):
    """base / scaled: (paths, cfg) of two runs; obligations relating them"""
    (pb, cb), (ps, cs) = base, scaled
    if len(pb) == 1 and len(ps) == 1 and pb[0].outcome == "raise" and ps[0].outcome == "raise" and getattr(pb[0].value, "typ", "") == "NotImplementedError":
        return          # configuration rejected by the real starting-condition driver in both runs
    if len(pb) != 1 or len(ps) != 1 or pb[0].outcome != "return" or ps[0].outcome != "return":
        b.subset_exits.append(f"{KEY} [{tag}]: unexpected paths")
        return
    sb, ss = pb[0].state, ps[0].state
    if sb.mem.sig or ss.mem.sig:
        b.notes.append(f"[{tag}] no successful solution for this stack on the current source (C06 finding) - no C03 obligation generated")
        return
    kinds, ns, nl = cb["kinds"], cb["ns"], cb["nl"]
    # (1) arguments handed to the starting-condition driver and to the integrator
    bad = []
    for x, y in zip(sb.start_calls, ss.start_calls):
        exp = dict(frequency=x["frequency"] * sT, radius=x["radius"] / sL, density=x["density"] / sr, bulk=x["bulk"] * sT ** 2 / (sr * sL ** 2),
                   shear=Cx.of(x["shear"]) * (sT ** 2 / (sr * sL ** 2)), G=x["G"] * sr * sT ** 2)
        for k_, v in exp.items():
            if not cx_zero(Cx.of(y[k_]) - Cx.of(v)):
                bad.append(("start", k_, str(y[k_])[:60], str(v)[:60]))
        for k_ in ("type", "static", "incomp", "kamata", "degree", "num_ys"):
            if str(x[k_]) != str(y[k_]):
                bad.append(("start", k_))
    for x, y in zip(sb.solver_builds, ss.solver_builds):
        for k_, v in dict(frequency=x["frequency"] * sT, G=x["G"] * sr * sT ** 2, radius0=x["radius0"] / sL).items():
            if not cx_zero(Cx.of(y[k_]) - Cx.of(v)):
                bad.append(("integrator", x["layer"], k_, str(y[k_])[:60], str(v)[:60]))
        if str(x["degree"]) != str(y["degree"]) or any(not cx_zero(u - v / sL) for u, v in zip(y["span"], x["span"])):
            bad.append(("integrator", x["layer"], "degree/span"))
        for nm_, fac in (("radius", 1 / sL), ("density", 1 / sr), ("gravity", sT ** 2 / sL), ("bulk", sT ** 2 / (sr * sL ** 2)), ("shear", sT ** 2 / (sr * sL ** 2))):
            for i_, (u, v) in enumerate(zip(y[nm_], x[nm_])):
                if not cx_zero(Cx.of(u) - Cx.of(v) * fac):
                    bad.append(("integrator", x["layer"], nm_, i_))
                    break
    if len(sb.start_calls) != len(ss.start_calls) or len(sb.solver_builds) != len(ss.solver_builds):
        bad.append(("different number of calls",))
    ground(b, f"{KEY}::{what}_arguments[{tag}]", KEY, "the scaled run hands exactly the scaled frequency, G, radii, densities, gravities and moduli (every slice) to the starting-condition driver and to every layer's integrator",
           not bad, detail=f"{len(sb.start_calls)} start call(s), {len(sb.solver_builds)} integrator set-ups" if not bad else str(bad[:3]), refuted_model=dict(mismatch=str(bad[:3])) if bad else None)
    # (2) every layer's initial vectors
    bad = []
    for x, y in zip(sb.solves, ss.solves):
        t, st, _ = kinds[x["layer"]]
        D = Dvec(t, st, sL, sr, sT)
        for q in range(0, len(x["y0"]), 2):
            if q // 2 >= len(D):
                continue
            vx = Cx(x["y0"][q], x["y0"][q + 1])
            vy = Cx(y["y0"][q], y["y0"][q + 1])
            if not cx_zero(vy - vx * (y.get("s", 1) / D[q // 2])):
                bad.append((x["layer"], x["sol"], q // 2))
    ground(b, f"{KEY}::{what}_initial_vectors[{tag}]", KEY, "every layer's initial vectors in the scaled run are s D^-1 times those of the unscaled run, s one scalar per solution (interface maps are equivariant up to the normalisation of newly introduced solutions)",
           not bad and len(sb.solves) == len(ss.solves), detail=f"{len(sb.solves)} solves" if not bad else f"differs at (layer, solution, component) {bad[:4]}",
           refuted_model=dict(where=str(bad[:4])) if bad else None)
    # (3) ZGESV systems: row scaling
    bad = []
    for zb, zs in zip(sb.zgesv_calls, ss.zgesv_calls):
        cv = [c.re for c in (zb["c"] or [])]
        for i, ((fb, _), (fs, _)) in enumerate(zip(zb.get("facts", []), zs.get("facts", []))):
            if linear_certificate(fs, [fb], cv) is None:
                bad.append((zb["call"], i))
    ground(b, f"{KEY}::{what}_surface_system[{tag}]", KEY, "each equation of the scaled run's surface system is a non-zero multiple of the unscaled run's equation (same constants)",
           not bad and len(sb.zgesv_calls) == len(ss.zgesv_calls), detail=f"{len(sb.zgesv_calls)} systems" if not bad else f"(system, row) {bad[:4]}", refuted_model=dict(where=str(bad[:4])) if bad else None)
    if any(o.decided and o.decided.get("verdict") == "refuted" for o in b.obligations[-3:]):
        return None          # the premise of the relational CyRK contract failed (reported above): comparing the outputs under it would be meaningless
    return sb, ss


def _nondim_pair(b, stack, solve_for=TYPES):
    tag = "-".join(stack) + ";solve_for=" + "+".join(solve_for)
    try:
        exb, pb, cb = SM.run_solver(b, stack, solve_for=tuple(solve_for), nondim=False, analytic=True)
        Rp, rho_b = cb["Rp"], cb["rho_b"]
        sL, sr = Rp, rho_b
        sT = T.sqrt_(1 / (T.PI * SM.Gsym * rho_b))
        sol, start = scaled_contracts(cb["kinds"], cb["ns"], sL, sr, sT)
        rel = dict(solves=pb[0].state.solves, D=lambda li: Dvec(cb["kinds"][li][0], cb["kinds"][li][1], sL, sr, sT), norm=norm)
        exs, ps, cs = SM.run_solver(b, stack, solve_for=tuple(solve_for), nondim=True, analytic=True, relative_to=rel, start_contract=start)
    except SymExError as e:
        b.subset_exits.append(f"{KEY} [{tag}]: {e}")
        return
    b.stats["paths"] += 2
    r = compare_runs(b, tag, (pb, cb), (ps, cs), sL, sr, sT, None, "nondim")
    if not r:
        return
    sb, ss = r
    ob, os_ = sb.solution_obj, ss.solution_obj
    rel = []
    bad = []
    for k, (x, y) in enumerate(zip(ob.full_solution_ptr.data, os_.full_solution_ptr.data)):
        x, y = Cx.of(x), Cx.of(y)
        if x.re.has(SM.NANC) or y.re.has(SM.NANC):
            if str(x.re.has(SM.NANC)) != str(y.re.has(SM.NANC)):
                bad.append((k, "defined in one run only"))
            continue
        try:
            if not (zero(x.re - y.re) and zero(x.im - y.im)):
                bad.append((k, "differs at an exact rational point"))
        except Exception as e_:
            bad.append((k, f"normal form failed: {e_}"))
    nout = 6 * len(solve_for)
    ground(b, f"{KEY}::nondim_solution[{tag}]", KEY, "with and without internal non-dimensionalisation every entry of the returned radial functions is equal (slice, type, y)", not bad,
           detail=f"{len(ob.full_solution_ptr.data)} entries" if not bad else f"entry {bad[0][0]} = (slice {bad[0][0] // nout}, column {bad[0][0] % nout}): {bad[0][1]}",
           refuted_model=dict(entry=bad[0][0], slice=bad[0][0] // nout, column=bad[0][0] % nout, difference=bad[0][1]) if bad else None)
    bad = []
    for k, (x, y) in enumerate(zip(ob.complex_love_ptr.data, os_.complex_love_ptr.data)):
        x, y = Cx.of(x), Cx.of(y)
        if x.re.has(SM.NANC) or y.re.has(SM.NANC):        # h, l of a static-liquid surface are undefined (NaN) in both runs
            if x.re.has(SM.NANC) != y.re.has(SM.NANC):
                bad.append((k, "defined in one run only"))
            continue
        try:
            if not (zero(x.re - y.re) and zero(x.im - y.im)):
                bad.append((k, "differs at an exact rational point"))
        except Exception as e_:
            bad.append((k, f"normal form failed: {e_}"))
    ground(b, f"{KEY}::nondim_love[{tag}]", KEY, "k, h, l of every requested type are equal with and without internal non-dimensionalisation", not bad,
           detail=f"{len(ob.complex_love_ptr.data)} numbers" if not bad else str(bad[:2]), refuted_model=dict(which=str(bad[:2])) if bad else None)


def _rescaled_pair(b, stack, nondim, solve_for=("tidal", "loading")):
    tag = "-".join(stack) + f";nondim={int(nondim)};solve_for=" + "+".join(solve_for)
    a = sp.Symbol("a_scale", positive=True)
    try:
        exb, pb, cb = SM.run_solver(b, stack, solve_for=tuple(solve_for), nondim=nondim, analytic=True)
        sL, sr, sT = 1 / a, sp.Integer(1), sp.Integer(1)
        if nondim:
            # both runs are non-dimensionalised by the real code: their internal problems coincide, so the opaque rows coincide
            sol, start, rel = None, None, None
        else:
            sol, start = scaled_contracts(cb["kinds"], cb["ns"], sL, sr, sT)
            rel = dict(solves=pb[0].state.solves, D=lambda li: Dvec(cb["kinds"][li][0], cb["kinds"][li][1], sL, sr, sT))
        exs, ps, cs = SM.run_solver(b, stack, solve_for=tuple(solve_for), nondim=nondim, analytic=True, relative_to=rel, start_contract=start, input_scale=a)
    except SymExError as e:
        b.subset_exits.append(f"{KEY} [{tag}]: {e}")
        return
    b.stats["paths"] += 2
    if nondim:
        r = compare_runs(b, tag, (pb, cb), (ps, cs), sp.Integer(1), sp.Integer(1), sp.Integer(1), None, "rescaled")
    else:
        r = compare_runs(b, tag, (pb, cb), (ps, cs), sL, sr, sT, None, "rescaled")
    if not r:
        return
    sb, ss = r
    ob, os_ = sb.solution_obj, ss.solution_obj
    bad = []
    for k, (x, y) in enumerate(zip(ob.complex_love_ptr.data, os_.complex_love_ptr.data)):
        if Cx.of(x).re.has(SM.NANC) or Cx.of(y).re.has(SM.NANC):
            if Cx.of(x).re.has(SM.NANC) != Cx.of(y).re.has(SM.NANC):
                bad.append(k)
            continue
        if not cx_zero(Cx.of(x) - Cx.of(y)):
            bad.append(k)
    ground(b, f"{KEY}::rescaled_love[{tag}]", KEY, "an exactly rescaled copy of the planet (lengths x a, moduli x a^2, gravity x a, same densities and frequency) has the same k, h, l",
           not bad, detail=f"{len(ob.complex_love_ptr.data)} numbers" if not bad else f"Love number #{bad[0]} (type {bad[0] // 3}, {'khl'[bad[0] % 3]}) differs",
           refuted_model=dict(number=bad[0]) if bad else None)
    # radial functions: y1,y3 / a ; y2,y4,y5 unchanged ; y6 / a
    D = [1 / a, 1, 1 / a, 1, 1, 1 / a]
    bad = []
    for k, (x, y) in enumerate(zip(ob.full_solution_ptr.data, os_.full_solution_ptr.data)):
        x, y = Cx.of(x), Cx.of(y)
        if x.re.has(SM.NANC) or y.re.has(SM.NANC):
            continue
        if not cx_zero(y - x * D[k % 6]):
            bad.append(k)
    ground(b, f"{KEY}::rescaled_solution[{tag}]", KEY, "radial functions of the rescaled copy: y1, y3, y6 divided by a; y2, y4, y5 unchanged", not bad,
           detail=f"{len(ob.full_solution_ptr.data)} entries" if not bad else f"entry {bad[0]}", refuted_model=dict(entry=bad[0]) if bad else None)


def _alone_vs_together(b, stack, nondim=True):
    tag = "-".join(stack) + f";nondim={int(nondim)}"
    try:
        ext, pt, ct = SM.run_solver(b, stack, solve_for=TYPES, nondim=nondim, analytic=True)
    except SymExError as e:
        b.subset_exits.append(f"{KEY} [{tag}]: {e}")
        return
    st_t = pt[0].state
    if st_t.mem.sig or pt[0].outcome != "return":
        return
    for ti, name in enumerate(TYPES):
        try:
            exa, pa, ca = SM.run_solver(b, stack, solve_for=(name,), nondim=nondim, analytic=True)
        except SymExError as e:
            b.subset_exits.append(f"{KEY} [{tag}:{name}]: {e}")
            continue
        b.stats["paths"] += 1
        st_a = pa[0].state
        zt, za = st_t.zgesv_calls[ti], st_a.zgesv_calls[0]
        ren = {}
        for ct_, ca_ in zip(zt["c"] or [], za["c"] or []):
            ren[ca_.re] = ct_.re
        same_sys = all(cx_zero(Cx.of(x) - Cx.of(y)) for rx, ry in zip(zt["A"], za["A"]) for x, y in zip(rx, ry)) and all(cx_zero(Cx.of(x) - Cx.of(y)) for x, y in zip(zt["b"], za["b"]))
        ot, oa = st_t.solution_obj, st_a.solution_obj
        bad = []
        total = ct["total"]
        for sl in range(total):
            for q in range(6):
                x = Cx.of(ot.full_solution_ptr.data[sl * 18 + ti * 6 + q])
                y = Cx.of(oa.full_solution_ptr.data[sl * 6 + q])
                y = Cx(sp.sympify(y.re).xreplace(ren), sp.sympify(y.im).xreplace(ren))
                if x.re.has(SM.NANC) or y.re.has(SM.NANC):
                    if x.re.has(SM.NANC) != y.re.has(SM.NANC):
                        bad.append((sl, q, "defined in one run only"))
                    continue
                if not cx_zero(x - y):
                    bad.append((sl, q))
        for q in range(3):
            x = Cx.of(ot.complex_love_ptr.data[ti * 3 + q])
            y = Cx.of(oa.complex_love_ptr.data[q])
            y = Cx(sp.sympify(y.re).xreplace(ren), sp.sympify(y.im).xreplace(ren))
            if not cx_zero(x - y):
                bad.append(("love", q))
        ground(b, f"{KEY}::alone_vs_together[{tag}]:{name}", KEY, f"'{name}' requested alone or together with the other types: same surface system, same block of radial functions, same Love numbers",
               same_sys and not bad, detail=f"{total * 6 + 3} values" if (same_sys and not bad) else f"system equal: {same_sys}; differing {bad[:3]}",
               refuted_model=dict(system_equal=same_sys, differing=str(bad[:3])) if (bad or not same_sys) else None)


# ---------------------------------------------------------------------------------------------
def Wform(kind, y, z, rr, llp1, G):
    """bilinear form on two layer vectors (dicts by name)"""
    t, st = kind
    if t == 0:
        return rr ** 2 * (y["y1"] * z["y2"] - y["y2"] * z["y1"] + llp1 * (y["y3"] * z["y4"] - y["y4"] * z["y3"])) + rr ** 2 / (4 * T.PI * G) * (y["y5"] * z["y6"] - y["y6"] * z["y5"])
    if not st:
        return rr ** 2 * (y["y1"] * z["y2"] - y["y2"] * z["y1"]) + rr ** 2 / (4 * T.PI * G) * (y["y5"] * z["y6"] - y["y6"] * z["y5"])
    return rr ** 2 / (4 * T.PI * G) * (y["y5"] * z["y7"] - y["y7"] * z["y5"])


def reciprocity(b):
    mu = sp.Symbol("mu_formal")
    rr, G, l = RD.r, RD.Gc, RD.l
    llp1 = l * (l + 1)
    # (i) dW/dr = 0 under every operator
    for key in RD.ODE_CLASSES:
        try:
            A, ny, mfn = RD.extract_operator(b, key)
            Af = RD.to_formal(A, mu)
        except (SymExError, ExtractError) as e:
            b.subset_exits.append(f"ODE operator {key}: {e}")
            continue
        kind = (0 if key[0] == "solid" else 1, key[1] == "static")
        names = layout((kind[0], kind[1], False))
        y = {n: sp.Symbol("Y_" + n) for n in names}
        z = {n: sp.Symbol("Z_" + n) for n in names}
        W = Wform(kind, y, z, rr, llp1, G)
        dW = sp.diff(W, rr)
        for i, n in enumerate(names):
            dyi = sum(Af[i][j] * y[names[j]] for j in range(ny))
            dzi = sum(Af[i][j] * z[names[j]] for j in range(ny))
            dW += sp.diff(W, y[n]) * dyi + sp.diff(W, z[n]) * dzi
        if key == ("liquid", "dynamic", "compressible") or key == ("liquid", "dynamic", "incompressible"):
            # the dynamic-liquid state omits y3, which the operator eliminates through  y3 = (g y1 - y2/rho - y5)/(omega^2 r): nothing further to add
            pass
        ok = zero(dW)
        ground(b, f"{mfn.key}::W_invariant", mfn.key, "the bilinear form W(y, z) of two solutions is constant in r (d/dr W = 0 identically in y, z and all parameters)", ok,
               detail="exact normal form" if ok else str(sp.together(dW))[:200], refuted_model=dict(dW=str(sp.together(dW))[:200]) if not ok else None)
    # (ii) continuity of W across every kind of interface, given C02's interface conditions as hypotheses
    g_i, rho_l = sp.Symbol("g_i", positive=True), sp.Symbol("rho_liquid", positive=True)
    kinds2 = [(0, False), (1, False), (1, True)]
    for lo, up in itertools.product(kinds2, kinds2):
        nlo, nup = layout((lo[0], lo[1], False)), layout((up[0], up[1], False))
        y = {n: sp.Symbol("Ylo_" + n) for n in nlo}
        z = {n: sp.Symbol("Zlo_" + n) for n in nlo}
        yu = {n: sp.Symbol("Yup_" + n) for n in nup}
        zu = {n: sp.Symbol("Zup_" + n) for n in nup}
        sub = {}
        # C02 conditions: solve them for the upper-side quantities where possible, else for lower-side ones
        for (a_, au) in ((y, yu), (z, zu)):
            for q in ("y1", "y2", "y5", "y6"):
                if q in a_ and q in au:
                    sub[au[q]] = a_[q]
            if lo[0] == 0 and up[0] == 0:
                sub[au["y3"]] = a_["y3"]            # welded solid|solid contact
                sub[au["y4"]] = a_["y4"]
            if lo[0] == 0 and up[0] != 0:
                sub[a_["y4"]] = 0
            if lo[0] != 0 and up[0] == 0:
                sub[au["y4"]] = 0
            if "y7" in au and "y6" in a_:
                sub[au["y7"]] = a_["y6"] + 4 * T.PI * G / g_i * a_["y2"]
                sub[a_["y2"]] = rho_l * (g_i * a_["y1"] - a_["y5"])
            if "y7" in a_ and "y6" in au:
                sub[a_["y7"]] = au["y6"] + 4 * T.PI * G / g_i * au["y2"]
                sub[au["y2"]] = rho_l * (g_i * au["y1"] - au["y5"])
            if "y7" in a_ and "y7" in au:
                sub[au["y7"]] = a_["y7"]
        Wlo = Wform(lo, y, z, rr, llp1, G)
        Wup = Wform(up, yu, zu, rr, llp1, G)
        d = (Wlo - Wup)
        for _ in range(3):
            d = d.subs(sub, simultaneous=True)
        ok = zero(d)
        nm = lambda k_: "solid" if k_[0] == 0 else ("static-liquid" if k_[1] else "dynamic-liquid")
        ground(b, f"lemma::W_continuous[{nm(lo)}|{nm(up)}]", "lemma", "W is continuous across the interface given the C02 interface conditions (continuity, y4 = 0, y7 relation, hydrostatic normal stress)", ok,
               detail="exact" if ok else str(sp.together(d))[:200], refuted_model=dict(jump=str(sp.together(d))[:200]) if not ok else None)
    # (iii) surface algebra with the real find_love_cf: W(Y_tidal, Y_load)(R) = 0 and the two surface triples => k_load = k_tidal - h_tidal
    fn = Fn(SM.FLV, "find_love_cf")
    b.add_fn(fn)
    from tpv.symex import Exec, Pointer
    Rp, rho_b, gs = sp.Symbol("R_planet", positive=True), sp.Symbol("rho_bulk", positive=True), sp.Symbol("g_surface", positive=True)
    def love(Y):
        out = [None, None, None]
        ex = Exec(fn, globals_env=dict(cf_build_dblcmplx=lambda ex_, node, a_, b_: Cx(a_, b_)), opts=dict(definedness=False))
        ex.run(dict(complex_love_numbers_ptr=out, surface_solutions_ptr=[Y[n] for n in ("y1", "y2", "y3", "y4", "y5", "y6")], surface_gravity=gs))
        return [Cx.of(v).re for v in out]
    for top in [(0, False), (1, False)]:
        names = layout((top[0], top[1], False))
        Yt = {n: sp.Symbol("T_" + n) for n in ("y1", "y2", "y3", "y4", "y5", "y6")}
        Yl = {n: sp.Symbol("L_" + n) for n in ("y1", "y2", "y3", "y4", "y5", "y6")}
        bc_t = {Yt["y2"]: 0, Yt["y4"]: 0, Yt["y6"]: (2 * l + 1) / Rp}
        bc_l = {Yl["y2"]: -(2 * l + 1) * rho_b / 3, Yl["y4"]: 0, Yl["y6"]: (2 * l + 1) / Rp}
        W = Wform(top, Yt, Yl, Rp, llp1, G).subs({**bc_t, **bc_l})
        # W = 0 is linear in L_y5: solve, substitute into the goal
        sol5 = sp.solve(sp.Eq(W, 0), Yl["y5"])
        if len(sol5) != 1:
            b.subset_exits.append("reciprocity: cannot solve W = 0 for the loading potential")
            continue
        kt, ht, lt_ = love({**Yt, **{k_: v for k_, v in zip([Yt["y2"], Yt["y4"], Yt["y6"]], bc_t.values())}})
        kl, hl, ll_ = love(Yl)
        goal = (kl - (kt - ht)).subs({Yl["y5"]: sol5[0]})
        # consistency of the bulk density with the surface gravity: g_s = 4 pi G rho_bulk R / 3 (the loading triple is written with rho_bulk)
        goal = goal.subs(gs, 4 * T.PI * G * rho_b * Rp / 3)
        ok = zero(goal)
        ground(b, f"{fn.key}::saito_molodensky[{'solid' if top[0] == 0 else 'dynamic-liquid'} surface]", fn.key,
               "W(Y_tidal, Y_load)(R) = 0, the tidal and loading surface triples and g_s = 4 pi G rho_bulk R/3 imply k_load = k_tidal - h_tidal through the real find_love_cf", ok,
               detail="exact" if ok else str(sp.together(goal))[:200], refuted_model=dict(residual=str(sp.together(goal))[:200]) if not ok else None)


def stacks_for(tier):
    nd = [[k] for k in SINGLES] + (PAIRS if tier == "thorough" else PAIRS[::2]) + TRIPLES[:6] + DEEP[:2]
    rs = [[k] for k in SINGLES] + (PAIRS[::3] if tier == "thorough" else PAIRS[1::7]) + TRIPLES[:2]
    av = [[k] for k in SINGLES[::2]] + (PAIRS[::4] if tier == "thorough" else PAIRS[2::9]) + TRIPLES[:2] + DEEP[:1]
    return nd, rs, av


def build(tier="quick", seed=0):
    b = Bundle("C03")
    equivariance(b)
    nd, rs, av = stacks_for(tier)
    for st in nd:
        nondim_pair(b, st)
    for st in rs:
        rescaled_pair(b, st, nondim=False)
        rescaled_pair(b, st, nondim=True)
    for st in av:
        alone_vs_together(b, st)
    reciprocity(b)
    from contracts import tv_radial
    tv_radial.nondim_and_love(b, seed)
    b.samples.append(dict(nondim_stacks=len(nd), rescaled_stacks=len(rs), alone_vs_together_stacks=len(av)))
    b.explanation = ("relational obligations over pairs of whole-function symbolic executions of the real cf_radial_solver (scaled / unscaled, alone / together), operator equivariance on the "
                     "extracted ODE operators, and the reciprocity lemma chain; all decided by exact normal forms")
    b.assume("CyRK contract: the integrator returns the solution of the linear ODE it is given at the requested nodes; hence (with the proved operator equivariance and the proved relation of "
             "initial vectors) the rows of the scaled run are D^-1 times the rows of the unscaled run. Integrator choice, tolerances and grid refinement enter only through this contract: NOT proved")
    b.assume("starting vectors: cf_find_starting_conditions(scaled arguments) = s_j D^-1 cf_find_starting_conditions(arguments) - imported from C04 (obligations ::ensures:scaling_equivariant, proved "
             "there for all nine start functions in the differential ring); the runs here take s_j = 1 for the first layer, which the result does not see (constants absorb it: same argument as for the "
             "per-solution scalars of upper layers, which ARE carried)")
    b.assume("reciprocity: W vanishes on every pair of starting vectors - imported from C04 (obligations ::ensures:regular_pair[i,j], proved there for the Kamata families and the liquid "
             "Takeuchi family; refuted for the two solid Takeuchi functions = recorded C04 finding, so reciprocity is NOT established for Takeuchi-started solid cores); the remaining links "
             "(invariance under each operator, continuity across interfaces from the C02 conditions, surface algebra with the real find_love_cf) are proved here; planet_bulk_density consistent with the surface gravity")
    b.assume("layer stacks enumerated (see C02); ZGESV: info = 0 => A c = b with A non-singular; doubles as reals")
    b.trust("tpv.pyx2py translation of the solver sources and of derivatives/odes.pyx")
    return b


def _guard(f, label):
    def g(b, stack, *a, **k):
        try:
            return f(b, stack, *a, **k)
        except _Undecided as e:
            b.add(Obligation(oid=f"{KEY}::{label}[{'-'.join(stack)}]::budget", fn=KEY, clause="relational comparison of two whole-solver runs", goal=None,
                             decided=dict(verdict="undecided", backend="-", reason=str(e), model=None)))
    return g


nondim_pair = _guard(_nondim_pair, "nondim")
rescaled_pair = _guard(_rescaled_pair, "rescaled")
alone_vs_together = _guard(_alone_vs_together, "alone_vs_together")
