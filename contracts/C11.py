"""C11 — spin-orbit evolution rates conserve energy and angular momentum.

Postconditions are the conservation laws of the statement, written on the real functions:
  energy   :  d/dt(-G M1 M2/(2a)) = G M1 M2/(2 a^2) da/dt  ==  - sum_i Mhost_i n dU/dM_i
              (with C_i dOmega_i/dt = Mhost_i dU/dOmega_i and heating_i = Mhost_i (n dU/dM_i - Omega_i dU/dOmega_i),
               the C10 identity, this is  dE_orb + sum dE_rot = - sum heating)
  ang. mom.:  d/dt[beta sqrt(G(M1+M2) a (1-e^2))] + sum_i Mhost_i dU/dOmega_i == 0   at zero obliquity (dU/dw = dU/dOmega)
under Kepler III  n^2 a^3 = G(M1+M2)  (postcondition of orbital_motion2semi_a, C17).
Definedness of every division is an obligation: this is what decides "de/dt is 0, not NaN, at e = 0".
"""
import sympy as sp
from tpv.kit import *
import ast
from tpv import terms as T
from contracts.common import G, FLOAT_EPS, orbital_motion2semi_a_contract

FS = "TidalPy/dynamics/single_dissipation.py"
FD = "TidalPy/dynamics/dual_dissipation.py"
FQ = "TidalPy/toolbox/quick_tides.py"

a, n, e, M1, M2 = [R(x) for x in ("semi_major_axis", "orbital_motion", "eccentricity", "mass_1", "mass_2")]
dM1, dw1, dM2, dw2 = [R(x) for x in ("dU_dM_1", "dU_dw_1", "dU_dM_2", "dU_dw_2")]
PRE = [sp.Gt(a, 0), sp.Gt(n, 0), sp.Ge(e, 0), sp.Lt(e, 1), sp.Gt(M1, 0), sp.Gt(M2, 0), sp.Gt(G, 0),
       sp.Eq(n ** 2 * a ** 3, G * (M1 + M2))]
GENV = dict(float_eps=FLOAT_EPS)
s_ = T.sqrt_(1 - e ** 2)
beta = M1 * M2 / (M1 + M2)


def energy_goal(da, dual):
    rhs = -(M2 * n * dM1 + (M1 * n * dM2 if dual else 0))
    return sp.Eq(G * M1 * M2 / (2 * a ** 2) * da, rhs)


def am_goal(da, de, dual):
    """d/dt L_orb written with sqrt(G(M1+M2)a) = n a^2 (Kepler) and s = sqrt(1-e^2); torque on the spins is
    Mhost_i dU/dOmega_i = Mhost_i dU/dw_i at zero obliquity."""
    dL = beta * n * a ** 2 * (s_ / (2 * a) * da - (e / s_) * de)
    return sp.Eq(dL + M2 * dw1 + (M1 * dw2 if dual else 0), 0)


def _kepler_elim(expr):
    # Kepler III is used as a rewriting relation  G -> n^2 a^3/(M1+M2)
    return expr


KEPLER_REL = [(G, 1, n ** 2 * a ** 3 / (M1 + M2))]


def nonzero_e(p):
    return any("eccentricity" in str(c) and ("> " in str(c) or "<" in str(c)) for c in p.pc)


def build(tier="quick", seed=0):
    b = Bundle("C11")
    b.const_values[G] = 6.6743e-11
    for F, dual in ((FS, False), (FD, True)):
        tag = "dual" if dual else "single"
        args = dict(semi_major_axis=a, orbital_motion=n, mass_1=M1, dU_dM_1=dM1, mass_2=M2)
        if dual:
            args["dU_dM_2"] = dM2
        fn, ex, paths = run_fn(b, F, "semi_major_axis_derivative", args, PRE, globals_env=GENV)
        if paths:
            ensure(b, fn, "energy", paths, lambda p: energy_goal(p.value, dual), PRE, rels=KEPLER_REL,
                   clause="ensures G M1 M2/(2a^2) * da/dt == - sum Mhost_i n dU/dM_i  (orbital energy balance)")
            no_raise(b, fn, paths, PRE)
        args = dict(semi_major_axis=a, orbital_motion=n, eccentricity=e, mass_1=M1, dU_dM_1=dM1, dU_dw_1=dw1, mass_2=M2)
        if dual:
            args.update(dU_dM_2=dM2, dU_dw_2=dw2)
        # the energy-conserving da/dt (unique solution of the energy clause)
        da_E = -(M2 * n * dM1 + (M1 * n * dM2 if dual else 0)) * 2 * a ** 2 / (G * M1 * M2)
        fn, ex, paths = run_fn(b, F, "eccentricity_derivative", args, PRE, globals_env=GENV)
        if paths:
            main = lambda p: not any(str(c).startswith("Eq(") or "<=" in str(c) for c in p.pc if "eccentricity" in str(c)) and _denom_big(p)
            ensure(b, fn, "angmom", paths, lambda p: am_goal(da_E, p.value, dual), PRE, rels=KEPLER_REL, when=_denom_big,
                   clause="ensures (|n a^2 e| > eps) d/dt L_orb + sum Mhost_i dU/dw_i == 0 with the energy-conserving da/dt")
            ensure(b, fn, "zero_at_e0", paths, lambda p: sp.Eq(p.value, 0), PRE + [sp.Eq(e, 0)],
                   clause="ensures e == 0 ==> de/dt == 0")
            no_raise(b, fn, paths, PRE)
        fn, ex, paths = run_fn(b, F, "semia_eccen_derivatives", args, PRE, globals_env=GENV)
        if paths:
            ensure(b, fn, "energy", paths, lambda p: energy_goal(p.value[0], dual), PRE, rels=KEPLER_REL,
                   clause="ensures orbital energy balance for the returned da/dt")
            ensure(b, fn, "angmom", paths, lambda p: am_goal(p.value[0], p.value[1], dual), PRE, rels=KEPLER_REL, when=_denom_big,
                   clause="ensures (|n a^2 e| > eps) angular momentum balance for the returned pair")
            ensure(b, fn, "zero_at_e0", paths, lambda p: sp.Eq(p.value[1], 0), PRE + [sp.Eq(e, 0)],
                   clause="ensures e == 0 ==> de/dt == 0")
            no_raise(b, fn, paths, PRE)
        for q in ("eccentricity_derivative", "semia_eccen_derivatives"):
            b.replayer(f"{F}::{q}::defined*", _replay_defined(F, q, dual))
    # spin rate
    dUdO, C, Mh = R("dU_dO"), R("moment_of_inertia"), R("host_mass")
    pre = [sp.Gt(C, 0), sp.Gt(Mh, 0)]
    fn, ex, paths = run_fn(b, FS, "spin_rate_derivative", dict(dU_dO=dUdO, moment_of_inertia=C, host_mass=Mh), pre)
    if paths:
        ensure(b, fn, "torque", paths, lambda p: sp.Eq(C * p.value, Mh * dUdO), pre, clause="ensures C dOmega/dt == Mhost dU/dOmega")
        no_raise(b, fn, paths, pre)

    call_sites(b)
    b.assume("heating_i = Mhost_i (n dU/dM_i - Omega_i dU/dOmega_i) is the C10 postcondition of the mode collapse; used here as a hypothesis")
    b.assume("at zero obliquity dU/dw = dU/dOmega (C10 key fact: only m = l-2p terms survive)")
    b.assume("angular-momentum clause excludes the sliver 0 < |n a^2 e| <= 2^-52 where the code returns de/dt = 0 by design")
    b.assume("array inputs: numpy element-wise arithmetic applies the scalar expression per element (no loops in these functions)")
    return b


def _denom_big(p):
    """path on which the mask |denom| > eps was taken"""
    txt = " ".join(str(c) for c in p.pc)
    return "> 1/4503599627370496" in txt or ("<= 1/4503599627370496" not in txt and "Not" not in txt and False)


def _replay_defined(F, q, dual):
    from tpv import native
    mod = "TidalPy.dynamics." + ("dual_dissipation" if dual else "single_dissipation")

    def rp(ob, res):
        m = frac_model(res.get("model"))
        g = lambda k, d: float(m.get(k, d)) if not isinstance(m.get(k, d), str) else d
        vals = dict(semi_major_axis=g("semi_major_axis", 1e8), orbital_motion=g("orbital_motion", 1e-5), eccentricity=g("eccentricity", 0.0),
                    mass_1=g("mass_1", 1e22), dU_dM_1=g("dU_dM_1", 1.0), dU_dw_1=g("dU_dw_1", 1.0), mass_2=g("mass_2", 1e27))
        order = ["semi_major_axis", "orbital_motion", "eccentricity", "mass_1", "dU_dM_1", "dU_dw_1", "mass_2"]
        if dual:
            vals.update(dU_dM_2=g("dU_dM_2", 1.0), dU_dw_2=g("dU_dw_2", 1.0))
            order += ["dU_dM_2", "dU_dw_2"]
        args = [vals[k] for k in order]
        scalar = native.call(mod, q, args)
        arr = native.call(mod, q, [native.arr([v, v]) for v in args[:3]] + args[3:])
        rec = dict(replayed=True, module=mod, func=q, inputs=vals, scalar_call=scalar, array_call=arr)
        bad = "exception" in scalar
        try:
            r = native.unc(arr.get("result"))
            flat = r if not isinstance(r[0], list) else r[-1]
            bad = bad or any(x != x for x in flat)
        except Exception:
            pass
        rec["confirmed"] = bool(bad)
        rec["why"] = "scalar call raises / array call returns NaN where the statement requires 0"
        return rec
    return rp


def call_sites(b):
    """quick_tides: the derivative blocks use the callees' contracts (modular) and must establish their
    preconditions (argument binding, Kepler III from orbital_motion2semi_a)."""
    qt = Fn(FQ, "quick_tidal_dissipation")
    b.add_fn(qt)
    tm, hm, moi, ecc, nn, dUdM, dUdw, dUdO, Om = [R(x) for x in ("target_mass", "host_mass", "target_moi", "eccentricity", "orbital_frequency", "dUdM", "dUdw", "dUdO", "spin_frequency")]
    sc = [R(x) for x in ("dspin_dt_scale", "de_dt_scale", "da_dt_scale")]
    pre = [sp.Gt(tm, 0), sp.Gt(hm, 0), sp.Gt(moi, 0), sp.Ge(ecc, 0), sp.Lt(ecc, 1), sp.Gt(nn, 0), sp.Gt(G, 0)] + [sp.Gt(x, 0) for x in sc]

    def c_semia():
        def requires(a_, n_, e_, m1, dm, dw, m2):
            return [("Kepler III n^2 a^3 == G(M1+M2)", sp.Eq(n_ ** 2 * a_ ** 3, G * (m1 + m2))), ("a > 0", sp.Gt(a_, 0)),
                    ("masses > 0", sp.And(sp.Gt(m1, 0), sp.Gt(m2, 0)))]

        def ensures(res, a_, n_, e_, m1, dm, dw, m2):
            da, de = res
            return [sp.Eq(G * m1 * m2 / (2 * a_ ** 2) * da, -(m2 * n_ * dm))]
        return Contract("semia_eccen_derivatives", requires, ensures, result=lambda *x: (fresh("da_dt"), fresh("de_dt")))

    def c_spin():
        def ensures(res, dUdO_, C_, Mh_):
            return [sp.Eq(C_ * res, Mh_ * dUdO_)]
        return Contract("spin_rate_derivative", lambda d, C_, M_: [("C > 0", sp.Gt(C_, 0))], ensures)

    body = qt.node
    st_a = find_stmts(body, lambda s: assigns_to("semi_major_axis")(s) and calls("orbital_motion2semi_a")(s))
    st_if = find_stmts(body, lambda s: isinstance(s, ast.If) and isinstance(s.test, ast.Name) and s.test.id == "calculate_orbit_spin_derivatives")
    if len(st_a) != 1 or len(st_if) != 1:
        b.subset_exits.append(f"{qt.key}: anchors for the derivative block not found ({len(st_a)}, {len(st_if)})")
        return
    env = dict(orbital_frequency=nn, host_mass=hm, target_mass=tm, target_moi=moi, eccentricity=ecc, dUdM=dUdM, dUdw=dUdw, dUdO=dUdO,
               dspin_dt_scale=sc[0], de_dt_scale=sc[1], da_dt_scale=sc[2], calculate_orbit_spin_derivatives=True, dissipation_results={})
    fr, ex, paths = run_fragment(b, qt, st_a + st_if, "orbit_spin_derivatives", env, pre,
                                 contracts=dict(orbital_motion2semi_a=orbital_motion2semi_a_contract(), semia_eccen_derivatives=c_semia(),
                                                spin_rate_derivative=c_spin()))
    if not paths:
        return
    heating = hm * (nn * dUdM - Om * dUdO)

    def goal(p):
        d = p.env["dissipation_results"]
        a_ = p.env["semi_major_axis"]
        da = d["semi_major_axis_derivative"] / sc[2]
        dsp = d["spin_rate_derivative"] / sc[0]
        return sp.Eq(G * tm * hm / (2 * a_ ** 2) * da + moi * Om * dsp, -heating)
    ensure(b, fr, "energy_balance", paths, goal, pre,
           clause="ensures d/dt E_orb + C Omega dOmega/dt == -heating for the values stored in the result dict (per unit scale)")
