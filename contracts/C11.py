"""C11 — spin-orbit evolution rates conserve energy and angular momentum.

Postconditions are the conservation laws of the statement, written on the real functions:
  energy   :  d/dt(-G M1 M2/(2a)) = G M1 M2/(2 a^2) da/dt  ==  - sum_i Mhost_i n dU/dM_i
              (with C_i dOmega_i/dt = Mhost_i dU/dOmega_i and heating_i = Mhost_i (n dU/dM_i - Omega_i dU/dOmega_i),
               the C10 identity, this is  dE_orb + sum dE_rot = - sum heating)
  ang. mom.:  d/dt[beta sqrt(G(M1+M2) a (1-e^2))] + sum_i Mhost_i dU/dOmega_i == 0   at zero obliquity (dU/dw = dU/dOmega)
under Kepler III  n^2 a^3 = G(M1+M2)  (postcondition of orbital_motion2semi_a, C17).
Definedness of every division is an obligation: this is what decides "de/dt is 0, not NaN, at e = 0".
"""
import sympy as sp
from tpv.kit import *
import ast
from tpv import terms as T
from contracts.common import G, FLOAT_EPS, orbital_motion2semi_a_contract

FS = "TidalPy/dynamics/single_dissipation.py"
FD = "TidalPy/dynamics/dual_dissipation.py"
FQ = "TidalPy/toolbox/quick_tides.py"

a, n, e, M1, M2 = [R(x) for x in ("semi_major_axis", "orbital_motion", "eccentricity", "mass_1", "mass_2")]
dM1, dw1, dM2, dw2 = [R(x) for x in ("dU_dM_1", "dU_dw_1", "dU_dM_2", "dU_dw_2")]
PRE = [sp.Gt(a, 0), sp.Gt(n, 0), sp.Ge(e, 0), sp.Lt(e, 1), sp.Gt(M1, 0), sp.Gt(M2, 0), sp.Gt(G, 0),
       sp.Eq(n ** 2 * a ** 3, G * (M1 + M2))]
GENV = dict(float_eps=FLOAT_EPS)
s_ = T.sqrt_(1 - e ** 2)
beta = M1 * M2 / (M1 + M2)


def energy_goal(da, dual):
    rhs = -(M2 * n * dM1 + (M1 * n * dM2 if dual else 0))
    return sp.Eq(G * M1 * M2 / (2 * a ** 2) * da, rhs)


def am_goal(da, de, dual):
    """d/dt L_orb written with sqrt(G(M1+M2)a) = n a^2 (Kepler) and s = sqrt(1-e^2); torque on the spins is
    Mhost_i dU/dOmega_i = Mhost_i dU/dw_i at zero obliquity."""
    dL = beta * n * a ** 2 * (s_ / (2 * a) * da - (e / s_) * de)
    return sp.Eq(dL + M2 * dw1 + (M1 * dw2 if dual else 0), 0)


def _kepler_elim(expr):
    # Kepler III is used as a rewriting relation  G -> n^2 a^3/(M1+M2)
    return expr


KEPLER_REL = [(G, 1, n ** 2 * a ** 3 / (M1 + M2))]


def nonzero_e(p):
    return any("eccentricity" in str(c) and ("> " in str(c) or "<" in str(c)) for c in p.pc)


def build(tier="quick", seed=0):
    b = Bundle("C11")
    b.const_values[G] = 6.6743e-11
    for F, dual in ((FS, False), (FD, True)):
        tag = "dual" if dual else "single"
        args = dict(semi_major_axis=a, orbital_motion=n, mass_1=M1, dU_dM_1=dM1, mass_2=M2)
        if dual:
            args["dU_dM_2"] = dM2
        fn, ex, paths = run_fn(b, F, "semi_major_axis_derivative", args, PRE, globals_env=GENV)
        if paths:
            ensure(b, fn, "energy", paths, lambda p: energy_goal(p.value, dual), PRE, rels=KEPLER_REL,
                   clause="ensures G M1 M2/(2a^2) * da/dt == - sum Mhost_i n dU/dM_i  (orbital energy balance)")
            no_raise(b, fn, paths, PRE)
        args = dict(semi_major_axis=a, orbital_motion=n, eccentricity=e, mass_1=M1, dU_dM_1=dM1, dU_dw_1=dw1, mass_2=M2)
        if dual:
            args.update(dU_dM_2=dM2, dU_dw_2=dw2)
        # the energy-conserving da/dt (unique solution of the energy clause)
        da_E = -(M2 * n * dM1 + (M1 * n * dM2 if dual else 0)) * 2 * a ** 2 / (G * M1 * M2)
        fn, ex, paths = run_fn(b, F, "eccentricity_derivative", args, PRE, globals_env=GENV)
        if paths:
            main = lambda p: not any(str(c).startswith("Eq(") or "<=" in str(c) for c in p.pc if "eccentricity" in str(c)) and _denom_big(p)
            ensure(b, fn, "angmom", paths, lambda p: am_goal(da_E, p.value, dual), PRE, rels=KEPLER_REL, when=_denom_big,
                   clause="ensures (|n a^2 e| > eps) d/dt L_orb + sum Mhost_i dU/dw_i == 0 with the energy-conserving da/dt")
            ensure(b, fn, "zero_at_e0", paths, lambda p: sp.Eq(p.value, 0), PRE + [sp.Eq(e, 0)],
                   clause="ensures e == 0 ==> de/dt == 0")
            no_raise(b, fn, paths, PRE)
        fn, ex, paths = run_fn(b, F, "semia_eccen_derivatives", args, PRE, globals_env=GENV)
        if paths:
            ensure(b, fn, "energy", paths, lambda p: energy_goal(p.value[0], dual), PRE, rels=KEPLER_REL,
                   clause="ensures orbital energy balance for the returned da/dt")
            ensure(b, fn, "angmom", paths, lambda p: am_goal(p.value[0], p.value[1], dual), PRE, rels=KEPLER_REL, when=_denom_big,
                   clause="ensures (|n a^2 e| > eps) angular momentum balance for the returned pair")
            ensure(b, fn, "zero_at_e0", paths, lambda p: sp.Eq(p.value[1], 0), PRE + [sp.Eq(e, 0)],
                   clause="ensures e == 0 ==> de/dt == 0")
            no_raise(b, fn, paths, PRE)
        for q in ("eccentricity_derivative", "semia_eccen_derivatives"):
            b.replayer(f"{F}::{q}::defined*", _replay_defined(F, q, dual))
    # spin rate
    dUdO, C, Mh = R("dU_dO"), R("moment_of_inertia"), R("host_mass")
    pre = [sp.Gt(C, 0), sp.Gt(Mh, 0)]
    fn, ex, paths = run_fn(b, FS, "spin_rate_derivative", dict(dU_dO=dUdO, moment_of_inertia=C, host_mass=Mh), pre)
    if paths:
        ensure(b, fn, "torque", paths, lambda p: sp.Eq(C * p.value, Mh * dUdO), pre, clause="ensures C dOmega/dt == Mhost dU/dOmega")
        no_raise(b, fn, paths, pre)

    arrays(b)
    call_sites(b)
    dual_call_site(b)
    imported_from_C10(b)
    dict_wrappers(b)
    b.replayer("*::ensures:*", lambda ob, res: replay(dict(obligation=ob.oid)))
    b.assume("heating_i = Mhost_i (n dU/dM_i - Omega_i dU/dOmega_i) is the C10 postcondition of the mode collapse; used here as a hypothesis, and discharged here on three covering (l_max, truncation, obliquity) configurations (all configurations: C10)")
    b.assume("at zero obliquity dU/dw = dU/dOmega (C10 key fact: only m = l-2p terms survive)")
    b.assume("angular-momentum clause excludes the sliver 0 < |n a^2 e| <= 2^-52 where the code returns de/dt = 0 by design")
    b.assume("array inputs: two-element arrays of independent symbols with numpy object semantics (broadcast of scalars, element-wise operators, comparisons and masks); longer arrays and mixed shapes follow by the same element-wise rules, not re-proved")
    return b


def imported_from_C10(b):
    """the hypotheses this property takes from C10 are discharged here too, on the real mode_manipulation.py / quick_tides.py (both anchored by this
    property): per-mode heating / derivative identity and its grouped form for two covering configurations, and the argument binding of
    quick_tidal_dissipation (signed modes for every rheology)."""
    from contracts import C10
    for cfg in ((2, 2, True, False, False), (3, 4, True, False, False), (2, 6, False, True, False)):
        sub = C10._one_config_clean(cfg)
        b.extend(sub.obligations)
        b.functions.update(sub.functions)
        b.subset_exits += sub.subset_exits
        b.stats["paths"] += sub.stats["paths"]
    b.replayer("*[maxl*", lambda ob, res: C10.replay(dict(obligation=ob.oid)))
    C10.quick_tides_pipeline(b)


def dict_wrappers(b):
    """single_ / dual_dissipation_from_dict_or_world_instance (dictionary inputs): pure argument binding onto the functions proved above.  Every keyword the
    callee receives is the caller's quantity of the same meaning: masses, radii, gravities, densities and moments of inertia of the RIGHT body (host
    first, secondary second in the dual tuples), every pass-through parameter under its own name, and the single-body wrapper asks for the derivatives."""
    from tpv.symex import Exec, SymExError
    keys = ("radius", "mass", "gravity_surface", "density_bulk", "moi")
    H = {k_: R("host_" + k_) for k_ in keys}
    S_ = {k_: R("secondary_" + k_) for k_ in keys}
    for name, callee in (("single_dissipation_from_dict_or_world_instance", "quick_tidal_dissipation"), ("dual_dissipation_from_dict_or_world_instance", "quick_dual_body_tidal_dissipation")):
        try:
            fn = Fn(FQ, name)
        except ExtractError as e:
            b.subset_exits.append(str(e))
            continue
        b.add_fn(fn)
        passed = {p_: R("arg_" + p_) for p_ in fn.params if p_ not in ("host", "secondary", "rheology", "rheologies", "use_obliquity", "obliquity", "eccentricity")}
        rec = []

        def stub(ex, node, *a_, **k_):
            rec.append((a_, k_))
            return "RESULT"
        env = dict(passed, host=dict(H), secondary=dict(S_), use_obliquity=True, eccentricity=R("arg_eccentricity"))
        if "rheology" in fn.params:
            env["rheology"] = "maxwell"
            env["obliquity"] = R("arg_obliquity")
        else:
            env["rheologies"] = "maxwell"
        ex = Exec(fn, globals_env={callee: stub, "MissingAttributeError": "MissingAttributeError"}, opts=dict(definedness=False, auto_inline_same_module=False))
        try:
            paths = ex.run(env)
        except SymExError as e:
            b.subset_exits.append(f"{fn.key}: {e}")
            continue
        rets = [p_ for p_ in paths if p_.outcome == "return"]
        if len(paths) != 1 or len(rets) != 1 or len(rec) != 1:
            b.subset_exits.append(f"{fn.key}: {[p_.outcome for p_ in paths]}, {len(rec)} call(s) of {callee}")
            continue
        a_, k_ = rec[0]
        if a_:
            callee_params = Fn(FQ, callee).params
            k_ = dict(zip(callee_params, a_), **k_)
        if callee == "quick_tidal_dissipation":
            want = dict(host_mass=H["mass"], target_radius=S_["radius"], target_mass=S_["mass"], target_gravity=S_["gravity_surface"], target_density=S_["density_bulk"], target_moi=S_["moi"],
                        calculate_orbit_spin_derivatives=True, rheology="maxwell", eccentricity=R("arg_eccentricity"), obliquity=R("arg_obliquity"), use_obliquity=True)
        else:
            want = dict(radii=(H["radius"], S_["radius"]), masses=(H["mass"], S_["mass"]), gravities=(H["gravity_surface"], S_["gravity_surface"]), densities=(H["density_bulk"], S_["density_bulk"]),
                        mois=(H["moi"], S_["moi"]), rheologies="maxwell", eccentricity=R("arg_eccentricity"), use_obliquity=True)
        for p_, v_ in passed.items():
            want.setdefault(p_, v_)
        bad = {kk: (str(k_.get(kk, "<missing>")), str(vv)) for kk, vv in want.items() if not (kk in k_ and (k_[kk] is vv or k_[kk] == vv))}
        extra = sorted(set(k_) - set(want))
        ground(b, f"{fn.key}::ensures:argument_binding", fn.key, f"ensures {callee} receives every quantity under the parameter of the same meaning (host / secondary not swapped, scales under their own names, derivatives requested)",
               not bad and not extra and rets[0].value == "RESULT", detail=f"wrong: {bad}; unexpected: {extra}"[:400], refuted_model=None if not bad else {kk: vv[0] for kk, vv in list(bad.items())[:4]})


def arrays(b):
    """array inputs give the same rates element-wise as scalar calls (the last clause of the statement): relational postcondition on the real functions"""
    pre = [sp.Gt(a, 0), sp.Gt(n, 0), sp.Ge(e, 0), sp.Lt(e, 1), sp.Gt(M1, 0), sp.Gt(M2, 0)]
    for F, dual in ((FS, False), (FD, True)):
        args = dict(semi_major_axis=a, orbital_motion=n, mass_1=M1, dU_dM_1=dM1, mass_2=M2)
        arr = ["semi_major_axis", "orbital_motion", "dU_dM_1"]
        if dual:
            args["dU_dM_2"] = dM2
            arr.append("dU_dM_2")
        elementwise(b, F, "semi_major_axis_derivative", args, arr, pre, globals_env=GENV)
        args = dict(semi_major_axis=a, orbital_motion=n, eccentricity=e, mass_1=M1, dU_dM_1=dM1, dU_dw_1=dw1, mass_2=M2)
        arr = ["semi_major_axis", "orbital_motion", "eccentricity", "dU_dM_1", "dU_dw_1"]
        if dual:
            args.update(dU_dM_2=dM2, dU_dw_2=dw2)
            arr += ["dU_dM_2", "dU_dw_2"]
        elementwise(b, F, "eccentricity_derivative", args, arr, pre, globals_env=GENV)
        elementwise(b, F, "semia_eccen_derivatives", args, arr, pre, globals_env=GENV)
    dUdO, C, Mh = R("dU_dO"), R("moment_of_inertia"), R("host_mass")
    elementwise(b, FS, "spin_rate_derivative", dict(dU_dO=dUdO, moment_of_inertia=C, host_mass=Mh), ["dU_dO"], [sp.Gt(C, 0), sp.Gt(Mh, 0)])
    # native replay: mixed arrays (one circular orbit among eccentric ones)
    A_ = dict(semi_major_axis=[4.2e8, 4.2e8, 6.0e8], orbital_motion=[4.1e-5, 4.1e-5, 2.4e-5], eccentricity=[0.0, 0.05, 0.3], dU_dM_1=[1.0e-3, -2.0e-3, 5.0e-4], dU_dw_1=[7.0e-4, 3.0e-4, -1.0e-4],
              dU_dM_2=[2.0e-3, 1.0e-3, -5.0e-4], dU_dw_2=[-3.0e-4, 2.0e-4, 1.0e-4])
    for F, dual, mod in ((FS, False, "TidalPy.dynamics.single_dissipation"), (FD, True, "TidalPy.dynamics.dual_dissipation")):
        base = dict(mass_1=8.9e22, mass_2=1.9e27)
        for q, keys in (("semi_major_axis_derivative", ["semi_major_axis", "orbital_motion", "dU_dM_1"] + (["dU_dM_2"] if dual else [])),
                        ("eccentricity_derivative", ["semi_major_axis", "orbital_motion", "eccentricity", "dU_dM_1", "dU_dw_1"] + (["dU_dM_2", "dU_dw_2"] if dual else [])),
                        ("semia_eccen_derivatives", ["semi_major_axis", "orbital_motion", "eccentricity", "dU_dM_1", "dU_dw_1"] + (["dU_dM_2", "dU_dw_2"] if dual else []))):
            b.replayer(f"{F}::{q}::ensures:array_is_elementwise*", make_elementwise_replayer(mod, q, base, {k_: A_[k_] for k_ in keys}))


def _denom_big(p):
    """path on which the mask |denom| > eps was taken"""
    txt = " ".join(str(c) for c in p.pc)
    return "> 1/4503599627370496" in txt or ("<= 1/4503599627370496" not in txt and "Not" not in txt and False)


def _replay_defined(F, q, dual):
    from tpv import native
    mod = "TidalPy.dynamics." + ("dual_dissipation" if dual else "single_dissipation")

    def rp(ob, res):
        m = frac_model(res.get("model"))
        g = lambda k, d: float(m.get(k, d)) if not isinstance(m.get(k, d), str) else d
        vals = dict(semi_major_axis=g("semi_major_axis", 1e8), orbital_motion=g("orbital_motion", 1e-5), eccentricity=g("eccentricity", 0.0),
                    mass_1=g("mass_1", 1e22), dU_dM_1=g("dU_dM_1", 1.0), dU_dw_1=g("dU_dw_1", 1.0), mass_2=g("mass_2", 1e27))
        order = ["semi_major_axis", "orbital_motion", "eccentricity", "mass_1", "dU_dM_1", "dU_dw_1", "mass_2"]
        if dual:
            vals.update(dU_dM_2=g("dU_dM_2", 1.0), dU_dw_2=g("dU_dw_2", 1.0))
            order += ["dU_dM_2", "dU_dw_2"]
        args = [vals[k] for k in order]
        scalar = native.call(mod, q, args)
        arr = native.call(mod, q, [native.arr([v, v]) for v in args[:3]] + args[3:])
        rec = dict(replayed=True, module=mod, func=q, inputs=vals, scalar_call=scalar, array_call=arr)
        bad = "exception" in scalar
        try:
            r = native.unc(arr.get("result"))
            flat = r if not isinstance(r[0], list) else r[-1]
            bad = bad or any(x != x for x in flat)
        except Exception:
            pass
        rec["confirmed"] = bool(bad)
        rec["why"] = "scalar call raises / array call returns NaN where the statement requires 0"
        return rec
    return rp


def call_sites(b):
    """quick_tides: the derivative blocks use the callees' contracts (modular) and must establish their
    preconditions (argument binding, Kepler III from orbital_motion2semi_a)."""
    qt = Fn(FQ, "quick_tidal_dissipation")
    b.add_fn(qt)
    tm, hm, moi, ecc, nn, dUdM, dUdw, dUdO, Om = [R(x) for x in ("target_mass", "host_mass", "target_moi", "eccentricity", "orbital_frequency", "dUdM", "dUdw", "dUdO", "spin_frequency")]
    sc = [R(x) for x in ("dspin_dt_scale", "de_dt_scale", "da_dt_scale")]
    pre = [sp.Gt(tm, 0), sp.Gt(hm, 0), sp.Gt(moi, 0), sp.Ge(ecc, 0), sp.Lt(ecc, 1), sp.Gt(nn, 0), sp.Gt(G, 0)] + [sp.Gt(x, 0) for x in sc]

    def c_semia():
        def requires(a_, n_, e_, m1, dm, dw, m2):
            return [("Kepler III n^2 a^3 == G(M1+M2)", sp.Eq(n_ ** 2 * a_ ** 3, G * (m1 + m2))), ("a > 0", sp.Gt(a_, 0)),
                    ("masses > 0", sp.And(sp.Gt(m1, 0), sp.Gt(m2, 0)))]

        def ensures(res, a_, n_, e_, m1, dm, dw, m2):
            da, de = res
            return [sp.Eq(G * m1 * m2 / (2 * a_ ** 2) * da, -(m2 * n_ * dm))]
        return Contract("semia_eccen_derivatives", requires, ensures, result=lambda *x: (fresh("da_dt"), fresh("de_dt")))

    def c_spin():
        def ensures(res, dUdO_, C_, Mh_):
            return [sp.Eq(C_ * res, Mh_ * dUdO_)]
        return Contract("spin_rate_derivative", lambda d, C_, M_: [("C > 0", sp.Gt(C_, 0))], ensures)

    body = qt.node
    st_a = find_stmts(body, lambda s: assigns_to("semi_major_axis")(s) and calls("orbital_motion2semi_a")(s))
    st_if = find_stmts(body, lambda s: isinstance(s, ast.If) and isinstance(s.test, ast.Name) and s.test.id == "calculate_orbit_spin_derivatives")
    if len(st_a) != 1 or len(st_if) != 1:
        b.subset_exits.append(f"{qt.key}: anchors for the derivative block not found ({len(st_a)}, {len(st_if)})")
        return
    env = dict(orbital_frequency=nn, host_mass=hm, target_mass=tm, target_moi=moi, eccentricity=ecc, dUdM=dUdM, dUdw=dUdw, dUdO=dUdO,
               dspin_dt_scale=sc[0], de_dt_scale=sc[1], da_dt_scale=sc[2], calculate_orbit_spin_derivatives=True, dissipation_results={})
    fr, ex, paths = run_fragment(b, qt, st_a + st_if, "orbit_spin_derivatives", env, pre,
                                 contracts=dict(orbital_motion2semi_a=orbital_motion2semi_a_contract(), semia_eccen_derivatives=c_semia(),
                                                spin_rate_derivative=c_spin()))
    if not paths:
        return
    heating = hm * (nn * dUdM - Om * dUdO)

    def goal(p):
        d = p.env["dissipation_results"]
        a_ = p.env["semi_major_axis"]
        da = d["semi_major_axis_derivative"] / sc[2]
        dsp = d["spin_rate_derivative"] / sc[0]
        return sp.Eq(G * tm * hm / (2 * a_ ** 2) * da + moi * Om * dsp, -heating)
    ensure(b, fr, "energy_balance", paths, goal, pre,
           clause="ensures d/dt E_orb + C Omega dOmega/dt == -heating for the values stored in the result dict (per unit scale)")


def dual_call_site(b):
    """quick_dual_body_tidal_dissipation executed as a whole, every callee by contract: the per-world calculator returns
    dUdM, dUdw, dUdO and a heating that satisfies the C10 identity FOR THE HOST MASS AND SPIN IT WAS CALLED WITH; the
    statement's energy balance is then required of the values stored in the result dict."""
    from tpv.symex import Exec, SymExError
    fn = Fn(FQ, "quick_dual_body_tidal_dissipation")
    b.add_fn(fn)
    m0, m1, C0, C1, O0, O1, nn, ecc = [R(x) for x in ("mass_0", "mass_1", "moi_0", "moi_1", "spin_0", "spin_1", "orbital_frequency", "eccentricity")]
    sc = [R(x) for x in ("da_dt_scale", "de_dt_scale", "dspin_dt_scale")]
    pre = [sp.Gt(x, 0) for x in (m0, m1, C0, C1, nn, G)] + [sp.Ge(ecc, 0), sp.Lt(ecc, 1)] + [sp.Gt(x, 0) for x in sc]
    calls = []

    def qtd_result(host_mass, **kw):
        i = len(calls)
        r = dict(tidal_heating=R(f"heating_{i}"), dUdM=R(f"dUdM_{i}"), dUdw=R(f"dUdw_{i}"), dUdO=R(f"dUdO_{i}"))
        calls.append((host_mass, kw, r))
        return r

    def qtd_ensures(res, host_mass, **kw):
        Om = kw.get("spin_frequency")
        return [sp.Eq(res["tidal_heating"], host_mass * (kw["orbital_frequency"] * res["dUdM"] - Om * res["dUdO"]))]

    class KwContract(Contract):
        pass
    qtd = Contract("quick_tidal_dissipation", None, None)

    def call_qtd(ex, node, host_mass, **kw):
        res = qtd_result(host_mass, **kw)
        for f in qtd_ensures(res, host_mass, **kw):
            ex.facts.append(f)
        return res

    def c_dual():
        def requires(a_, n_, e_, mA, dMA, dwA, mB, dMB, dwB):
            return [("Kepler III n^2 a^3 == G(M1+M2)", sp.Eq(n_ ** 2 * a_ ** 3, G * (mA + mB))), ("a > 0", sp.Gt(a_, 0))]

        def ensures(res, a_, n_, e_, mA, dMA, dwA, mB, dMB, dwB):
            return [sp.Eq(G * mA * mB / (2 * a_ ** 2) * res[0], -(mB * n_ * dMA + mA * n_ * dMB))]
        return Contract("semia_eccen_derivatives_dual", requires, ensures, result=lambda *x: (fresh("da_dt"), fresh("de_dt")))

    def c_spin():
        return Contract("spin_rate_derivative", lambda d, C_, M_: [("C > 0", sp.Gt(C_, 0))], lambda res, d, C_, M_: [sp.Eq(C_ * res, M_ * d)])
    opaque = lambda name: (lambda ex, node, *a, **k: R(name))
    genv = dict(quick_tidal_dissipation=call_qtd, find_mode_manipulators=lambda ex, node, **k: (opaque("ttfc"), opaque("cmf"), opaque("eccentricity_results"), opaque("inclin")),
                IncorrectArgumentType="IncorrectArgumentType", ArgumentException="ArgumentException", MissingArgumentError="MissingArgumentError")
    args = dict(radii=(R("R_0"), R("R_1")), masses=(m0, m1), gravities=(R("g_0"), R("g_1")), densities=(R("rho_0"), R("rho_1")), mois=(C0, C1),
                viscosities=(R("eta_0"), R("eta_1")), shear_moduli=(R("mu_0"), R("mu_1")), rheologies="Maxwell", obliquities=None,
                spin_frequencies=(O0, O1), eccentricity=ecc, orbital_frequency=nn, da_dt_scale=sc[0], de_dt_scale=sc[1], dspin_dt_scale=sc[2])
    ex = Exec(fn, pre=pre, globals_env=genv, contracts=dict(orbital_motion2semi_a=orbital_motion2semi_a_contract(), semia_eccen_derivatives_dual=c_dual(),
                                                             spin_rate_derivative=c_spin()))
    try:
        paths = ex.run(args)
    except SymExError as e:
        b.subset_exits.append(f"{fn.key}: {e}")
        return
    b.absorb_exec(ex)
    ret = [p for p in paths if p.outcome == "return"]
    if len(ret) != 1:
        b.subset_exits.append(f"{fn.key}: {len(ret)} returning paths of {len(paths)}")
        return
    p = ret[0]
    d = p.value
    a_ = p.env["semi_major_axis"]
    ok = len(calls) == 2 and isinstance(d, dict) and "host" in d and "secondary" in d
    ground(b, f"{fn.key}::two_worlds", fn.key, "the per-world calculator is called once per world and both results are stored", ok)
    if not ok:
        return
    # what the callee was told: world i is perturbed by the OTHER body's mass, spins bound per world
    (h0, kw0, r0), (h1, kw1, r1) = calls
    b.add(Obligation(oid=f"{fn.key}::ensures:perturber_masses", fn=fn.key, clause="world 0 (host) is computed with the secondary's mass as tide raiser, world 1 with the host's; each with its own mass, moment of inertia and spin",
                     goal=sp.And(sp.Eq(h0, m1), sp.Eq(h1, m0), sp.Eq(kw0["target_mass"], m0), sp.Eq(kw1["target_mass"], m1), sp.Eq(kw0["spin_frequency"], O0), sp.Eq(kw1["spin_frequency"], O1),
                                 sp.Eq(kw0["target_moi"], C0), sp.Eq(kw1["target_moi"], C1)), hyps=pre + p.hyps))
    own = dict(target_radius=("R_0", "R_1"), target_gravity=("g_0", "g_1"), target_density=("rho_0", "rho_1"), viscosity=("eta_0", "eta_1"), shear_modulus=("mu_0", "mu_1"))
    wrong = {f"{k_}[world {i_}]": str(kw_.get(k_)) for k_, nm_ in own.items() for i_, kw_ in enumerate((kw0, kw1)) if not (kw_.get(k_) is R(nm_[i_]) or kw_.get(k_) == R(nm_[i_]))}
    ground(b, f"{fn.key}::ensures:own_bulk_properties", fn.key, "each world is computed with ITS OWN radius, surface gravity, bulk density, viscosity and shear modulus (the homogeneous Love number is built from the body's own rho g R)",
           not wrong, detail=str(wrong)[:300], refuted_model=None if not wrong else dict(wrong=str(wrong)[:200]))
    da = d["semi_major_axis_derivative"] / sc[0]
    ds0 = d["host"]["spin_rate_derivative"] / sc[2]
    ds1 = d["secondary"]["spin_rate_derivative"] / sc[2]
    heat = d["host"]["tidal_heating"] + d["secondary"]["tidal_heating"]
    b.add(Obligation(oid=f"{fn.key}::ensures:energy_balance", fn=fn.key,
                     clause="ensures d/dt E_orb + sum_i C_i Omega_i dOmega_i/dt == -(heating_host + heating_secondary) for the values stored in the result dict",
                     goal=sp.Eq(G * m0 * m1 / (2 * a_ ** 2) * da + C0 * O0 * ds0 + C1 * O1 * ds1, -heat), hyps=pre + p.hyps))
    b.add(Obligation(oid=f"{fn.key}::ensures:torque_balance", fn=fn.key,
                     clause="ensures C_i dOmega_i/dt == M_perturber_i dU/dOmega_i for both worlds (spin angular momentum)",
                     goal=sp.And(sp.Eq(C0 * ds0, m1 * d["host"]["dUdO"]), sp.Eq(C1 * ds1, m0 * d["secondary"]["dUdO"])), hyps=pre + p.hyps))


_NATIVE_BUDGET = r'''
import numpy as np
from TidalPy.toolbox.quick_tides import quick_tidal_dissipation, quick_dual_body_tidal_dissipation
from TidalPy.utilities.conversions import orbital_motion2semi_a
G = 6.6743e-11
cfg = args
out = {}
M0, M1 = 1.9e27, 8.9e22
R0, R1 = 7.0e7, 1.8e6
C0, C1 = 0.25 * M0 * R0**2, 0.38 * M1 * R1**2
n = 4.1e-5
e = cfg.get("e", 0.1)
O0, O1 = 1.76e-4, 6.0e-5
a = orbital_motion2semi_a(n, M0, M1)
def budgets(da, de, spins, heats, torque_pairs):
    dE = G * M0 * M1 / (2 * a**2) * da + sum(C * O * dO for (C, O, dO) in spins)
    s = np.sqrt(1 - e * e)
    beta = M0 * M1 / (M0 + M1)
    dL = beta * n * a**2 * (s / (2 * a) * da - (e / s) * de) + sum(C * dO for (C, O, dO) in spins)
    scaleE = abs(G * M0 * M1 / (2 * a**2) * da) + sum(abs(C * O * dO) for (C, O, dO) in spins) + abs(sum(heats)) + 1e-300
    scaleL = abs(beta * n * a * s / 2 * da) + abs(beta * n * a**2 * (e / s) * de) + sum(abs(C * dO) for (C, O, dO) in spins) + 1e-300
    return {"energy_residual_rel": float(abs(dE + sum(heats)) / scaleE), "angmom_residual_rel": float(abs(dL) / scaleL)}
kw = dict(viscosities=(1e20, 1e17), shear_moduli=(5e10, 5e10), rheologies="maxwell", eccentricity=e, orbital_frequency=n, spin_frequencies=(O0, O1),
          max_tidal_order_l=2, eccentricity_truncation_lvl=6, use_obliquity=False)
d = quick_dual_body_tidal_dissipation((R0, R1), (M0, M1), (G * M0 / R0**2, G * M1 / R1**2), (M0 / (4.19 * R0**3), M1 / (4.19 * R1**3)), (C0, C1), **kw)
h, s_ = d["host"], d["secondary"]
out["dual"] = budgets(float(d["semi_major_axis_derivative"]), float(d["eccentricity_derivative"]),
                      [(C0, O0, float(h["spin_rate_derivative"])), (C1, O1, float(s_["spin_rate_derivative"]))],
                      [float(h["tidal_heating"]), float(s_["tidal_heating"])], None)
r = quick_tidal_dissipation(M0, R1, M1, G * M1 / R1**2, M1 / (4.19 * R1**3), C1, viscosity=1e17, shear_modulus=5e10, rheology="maxwell", eccentricity=e,
                            orbital_frequency=n, spin_frequency=O1, max_tidal_order_l=2, eccentricity_truncation_lvl=6, use_obliquity=False, calculate_orbit_spin_derivatives=True)
out["single"] = budgets(float(r["semi_major_axis_derivative"]), float(r["eccentricity_derivative"]), [(C1, O1, float(r["spin_rate_derivative"]))], [float(r["tidal_heating"])], None)
r0 = quick_tidal_dissipation(M0, R1, M1, G * M1 / R1**2, M1 / (4.19 * R1**3), C1, viscosity=1e17, shear_modulus=5e10, rheology="maxwell", eccentricity=0.0,
                             orbital_frequency=n, spin_frequency=O1, max_tidal_order_l=2, eccentricity_truncation_lvl=6, use_obliquity=False, calculate_orbit_spin_derivatives=True)
out["de_dt_at_e0"] = float(r0["eccentricity_derivative"])
result = out
'''


def replay(doc):
    """native replay for C11: energy and angular-momentum budgets of the quick calculators at a concrete unequal-mass, eccentric, non-synchronous state"""
    from tpv import native
    r = native.run(dict(code=_NATIVE_BUDGET, args={}), timeout=900)
    rec = dict(replayed=True, native=r)
    if "result" not in r:
        rec["confirmed"] = True
        rec["why"] = "real code raised / crashed"
        return rec
    v = native.unc(r["result"])
    bad = any(v[k][q] > 1e-9 for k in ("dual", "single") for q in ("energy_residual_rel", "angmom_residual_rel")) or v["de_dt_at_e0"] != 0.0
    rec["confirmed"] = bool(bad)
    return rec
