"""C07 — rheology models return the exact, passive complex modulus of their law.

The real cdef classes of rheology/models.pyx (mechanically translated) are instantiated through their real __init__ /
change_args and _implementation is executed symbolically.  Published compliances J(w) are written here from the
statement's list; clauses: G * J == 1, Re G >= 0, Im G >= 0, Maxwell family |G| <= mu and an explicit bound that
forces G -> mu at high frequency, documented extreme branches, vectorisers (loop contract + frame), name lookup,
legacy compliance functions.
"""
import ast
import sympy as sp
from tpv.kit import *
from tpv import terms as T
from tpv.terms import Cx
from tpv.symex import ClassModel, MethodFn, Obj, Exec, SymExError, Contract, SymArray, Namespace
from tpv.symex import _sh_abs
from tpv.extract import source

FMOD = "TidalPy/rheology/models.pyx"
FBASE = "TidalPy/rheology/base.pyx"
FLEG = "TidalPy/rheology/complex_compliance/compliance_models.py"
FCONST = "TidalPy/utilities/constants_x.pyx"
w, mu, eta = R("frequency"), R("modulus"), R("viscosity")
cmu, ceta, alpha, zeta = R("voigt_modulus_scale"), R("voigt_viscosity_scale"), R("alpha"), R("zeta")
MODELS = {"Elastic": (), "Newton": (), "Maxwell": (), "Voigt": (cmu, ceta), "Burgers": (cmu, ceta), "Andrade": (alpha, zeta),
          "SundbergCooper": (cmu, ceta, alpha, zeta)}
MAXWELL_FAMILY = ("Maxwell", "Burgers", "Andrade", "SundbergCooper")
CA, SA = T.cos_(T.PI * alpha / 2), T.sin_(T.PI * alpha / 2)
GAM = T.tgamma_(alpha + 1)


def consts():
    src = source(FCONST)
    out = {}
    for k, v in src.module_constants().items():
        try:
            out[k] = T.dec(ast.get_source_segment(src.text, v))
        except Exception:
            pass
    return out


def genv():
    c = consts()
    from tpv.symex import _sh_cos, _sh_sin
    g = dict(fabs=_sh_abs, cos=_sh_cos, sin=_sh_sin, pi=T.PI, tgamma=lambda ex, node, x: T.tgamma_(sp.sympify(x)), INFINITY=sp.oo, NAN=sp.nan,
             isinf=lambda ex, node, x: False, cf_build_dblcmplx=lambda ex, node, a, b_: Cx(a, b_))
    g.update({k: c[k] for k in ("MIN_FREQUENCY", "MAX_FREQUENCY", "MIN_MODULUS") if k in c})
    return g


def published_J(name):
    """published complex compliances, Im J <= 0 convention (G = 1/J has Im G >= 0)"""
    x = w * eta / mu                      # w * Maxwell time
    Jm = Cx(1 / mu, -1 / (eta * w))
    Jv = Cx(1) / Cx(cmu * mu, w * ceta * eta)
    A = T.pow_(x * zeta, alpha)
    Ja = Cx(1 / mu) * Cx(GAM / A * CA, -GAM / A * SA)          # J (i w tau zeta)^-alpha Gamma(1+alpha)
    return {"Elastic": Cx(1 / mu), "Newton": Cx(0, -1 / (eta * w)), "Maxwell": Jm, "Voigt": Jv, "Burgers": Jm + Jv, "Andrade": Jm + Ja,
            "SundbergCooper": Jm + Ja + Jv}[name]


PRE = [sp.Ge(w, sp.Rational(1, 10 ** 12)), sp.Le(w, 100), sp.Ge(mu, 1000), sp.Le(mu, 10 ** 13), sp.Ge(eta, 1), sp.Le(eta, sp.Integer(10) ** 30),
       sp.Gt(cmu, 0), sp.Gt(ceta, 0), sp.Gt(alpha, 0), sp.Lt(alpha, 1), sp.Gt(zeta, 0)]
TRIG = [sp.Gt(CA, 0), sp.Gt(SA, 0), sp.Gt(GAM, 0)]


def make_instance(b, name):
    base = ClassModel("RheologyModelBase", FBASE)
    cls = ClassModel(name, FMOD, bases=[base])
    o = Obj(cls, debug_mode=False)
    noop = Contract(".super.__init__", None, None, result=lambda *a, **k: None)
    c, init = cls.lookup("methods", "__init__")
    mfn = MethodFn(c, init)
    b.functions[mfn.key] = mfn.info()
    ex = Exec(mfn, pre=PRE, globals_env=genv(), contracts={".super.__init__": noop}, opts=dict(check_feasibility=False))
    args = dict(self=o)
    if MODELS[name]:
        args["args"] = tuple(MODELS[name])
    paths = ex.run(args)
    b.absorb_exec(ex)
    for f in ex.called:
        b.functions.setdefault(f, dict(function=f, note="executed inline from the real (translated) class source"))
    if len(paths) != 1 or paths[0].outcome != "return":
        raise SymExError(f"{mfn.key}: constructor has {len(paths)} paths / {paths[0].outcome}")
    return cls, o


def run_impl(b, cls, o, pre, freq=w, mod=mu, visc=eta):
    c, node = cls.lookup("methods", "_implementation")
    mfn = MethodFn(c, node)
    b.functions[mfn.key] = mfn.info()
    ex = Exec(mfn, pre=pre, globals_env=genv())
    paths = ex.run(dict(self=o, frequency=freq, modulus=mod, viscosity=visc))
    b.absorb_exec(ex)
    return mfn, paths


def build(tier="quick", seed=0):
    b = Bundle("C07")
    for name in MODELS:
        try:
            cls, o = make_instance(b, name)
            model_obligations(b, name, cls, o)
        except SymExError as e:
            b.subset_exits.append(f"{FMOD}::{name}: {e}")
    vectorisers(b)
    lookup(b)
    lookup_tables(b)
    frequency_dependent_variants(b)
    legacy(b)
    b.assume("pow(x,a) > 0, tgamma(1+alpha) > 0, cos(pi alpha/2) > 0 and sin(pi alpha/2) > 0 for alpha in (0,1), cos^2+sin^2 = 1 (axioms); isinf(x) is false for the finite reals of the model")
    b.assume("thread-count independence of prange: the vectoriser loops carry no state between iterations (frame obligation), so any schedule gives the same array")
    b.assume("triangle inequality in C and 'pow(x, a) -> infinity as x -> infinity for a > 0' turn the discharged piecewise bounds into G -> mu at high frequency")
    b.assume("legacy compliance functions are compared where their own clamps (eta w <= 2^-52, w tau zeta <= 2^-52 -> 1e-100) are inactive")
    b.assume("physical range of the statement: w in [1e-12, 1e2], mu in [1e3, 1e13], eta in [1, 1e30], offsets > 0, alpha in (0,1), zeta > 0")
    b.replayer(f"{FLEG}::*", _replay_legacy)
    return b


def model_obligations(b, name, cls, o):
    pre = PRE + TRIG
    mfn, paths = run_impl(b, cls, o, pre)
    ret = [p for p in paths if p.outcome == "return"]
    key = mfn.key
    from tpv.xcheck import XItem
    b.xitems.append(XItem(key, "TidalPy.rheology.models", name, ["frequency", "modulus", "viscosity"], dict(frequency=w, modulus=mu, viscosity=eta), pre, paths,
                          ctor=(name, list(MODELS[name])), pyx=FMOD))
    # cover: in the physical range exactly the main branch is reachable
    b.add(Obligation(oid=f"{key}::cover:single_main_path", fn=key, clause="in the physical range exactly one branch (the closed form) is reachable; the extreme-value guards are not",
                     goal=None, decided=dict(verdict="discharged" if len(ret) == 1 and len(paths) == 1 else "refuted", backend="ground-exact", reason=f"{len(paths)} feasible paths", model=None)))
    if len(ret) != 1:
        return
    p = ret[0]
    G = Cx.of(p.value)
    J = published_J(name)
    one = G * J
    posatoms = [w, mu, eta, cmu, ceta, zeta, alpha, CA, SA, GAM, T.pow_(w * eta / mu * zeta, alpha)]
    hy = pre + p.hyps
    CREL = []
    UNIT = [CA, SA]                    # cos, sin of an angle in (0, pi/2) lie in (0, 1)
    for ob in b.obligations:
        if ob.fn == key and ob.meta.get("auto") and not ob.positive:
            ob.positive = posatoms
            ob.rels = CREL
            ob.unit = UNIT
    b.add(Obligation(oid=f"{key}::ensures:reciprocal_of_published_compliance", fn=key, clause=f"ensures G(w) * J_published(w) == 1 for the {name} law",
                     goal=sp.And(sp.Eq(one.re, 1), sp.Eq(one.im, 0)), hyps=hy, meta=dict(G=str(G)[:300])))
    b.add(Obligation(oid=f"{key}::ensures:passive_real", fn=key, clause="ensures Re G >= 0", goal=sp.Ge(G.re, 0), hyps=hy, positive=posatoms))
    b.add(Obligation(oid=f"{key}::ensures:passive_imag", fn=key, clause="ensures Im G >= 0 (no energy generation)", goal=sp.Ge(G.im, 0), hyps=hy, positive=posatoms))
    if name in MAXWELL_FAMILY:
        b.add(Obligation(oid=f"{key}::ensures:bounded_by_unrelaxed", fn=key, clause="ensures |G|^2 <= mu^2 (never exceeds the unrelaxed rigidity)",
                         goal=sp.Le(G.abs2(), mu ** 2), hyps=hy, positive=posatoms, unit=UNIT))
        # G - mu == -mu G (J - 1/mu): with |G| <= mu this gives |G - mu| <= mu^2 |J - 1/mu|, and |J - 1/mu| -> 0 as w -> infinity
        d = G - Cx(mu)
        rhs = Cx(-mu) * G * (J - Cx(1 / mu))
        b.add(Obligation(oid=f"{key}::ensures:high_frequency_identity", fn=key, clause="ensures G - mu == -mu G (J - 1/mu)  (with |G| <= mu: |G - mu| <= mu^2 |J - 1/mu|)",
                         goal=sp.And(sp.Eq(d.re, rhs.re), sp.Eq(d.im, rhs.im)), hyps=hy))
        x = w * eta / mu
        A = T.pow_(x * zeta, alpha)
        pieces = {"maxwell": (Cx(0, -1 / (eta * w)), 1 / (eta * w))}
        if name in ("Burgers", "SundbergCooper"):
            pieces["voigt"] = (Cx(1) / Cx(cmu * mu, w * ceta * eta), 1 / (w * ceta * eta))
        if name in ("Andrade", "SundbergCooper"):
            pieces["andrade"] = (Cx(1 / mu) * Cx(GAM / A * CA, -GAM / A * SA), GAM / (mu * A))
        tot = Cx(0)
        for z, _ in pieces.values():
            tot = tot + z
        dJ = J - Cx(1 / mu)
        b.add(Obligation(oid=f"{key}::ensures:compliance_excess_decomposition", fn=key, clause="J - 1/mu is the sum of the viscous, Voigt and Andrade excess compliances",
                         goal=sp.And(sp.Eq(dJ.re, tot.re), sp.Eq(dJ.im, tot.im)), hyps=hy))
        for pn, (z, bd) in pieces.items():
            b.add(Obligation(oid=f"{key}::ensures:compliance_excess_bound[{pn}]", fn=key,
                             clause=f"|{pn} excess compliance|^2 <= ({bd})^2, which vanishes as w -> infinity (pow(x,a) unbounded in x for a > 0); with the triangle inequality |J - 1/mu| <= sum of the bounds",
                             goal=sp.Le(z.abs2(), bd ** 2), hyps=hy, positive=posatoms, unit=UNIT, rels=[(SA, 2, 1 - CA ** 2)]))
    # documented extreme branches
    c = consts()
    lowpre = [sp.Ge(w, 0), sp.Lt(w, c["MIN_FREQUENCY"])] + PRE[2:] + TRIG
    mfn2, plow = run_impl(b, cls, o, lowpre)
    vmod = cmu * mu
    expect_low = {"Elastic": Cx(mu), "Newton": Cx(0), "Maxwell": Cx(0), "Voigt": Cx(vmod), "Burgers": Cx(0), "Andrade": Cx(0), "SundbergCooper": Cx(0)}[name]
    for i, pp in enumerate(plow):
        if pp.outcome == "return":
            v = Cx.of(pp.value)
            b.add(Obligation(oid=f"{key}::ensures:zero_frequency_branch@path{i}", fn=key, clause="ensures |w| < MIN_FREQUENCY returns the documented static limit (0 for fluid-like laws, mu resp. mu_v for solid-like)",
                             goal=sp.And(sp.Eq(v.re, expect_low.re), sp.Eq(v.im, expect_low.im)), hyps=lowpre + pp.hyps))
    hipre = [sp.Gt(w, c["MAX_FREQUENCY"])] + PRE[2:] + TRIG
    mfn3, phigh = run_impl(b, cls, o, hipre)
    expect_hi = {"Elastic": Cx(mu), "Newton": Cx(0, sp.oo), "Maxwell": Cx(mu), "Voigt": Cx(0, sp.oo), "Burgers": Cx(mu), "Andrade": Cx(mu), "SundbergCooper": Cx(mu)}[name]
    for i, pp in enumerate(phigh):
        if pp.outcome == "return":
            v = Cx.of(pp.value)
            ok = sp.simplify(v.re - expect_hi.re) == 0 and (v.im == expect_hi.im or sp.simplify(v.im - expect_hi.im) == 0)
            ground(b, f"{key}::ensures:infinite_frequency_branch@path{i}", key, "|w| > MAX_FREQUENCY returns the documented limit (mu for the Maxwell family, i*inf for Newton / Voigt)", bool(ok),
                   detail=f"returned ({v.re}, {v.im}), documented ({expect_hi.re}, {expect_hi.im})")
    # __call__ == _implementation (base class wrapper), checked modularly with IMPL uninterpreted
    b.replayer(f"{key}::ensures:*", _replayer(name))


IMPLre, IMPLim = sp.Function("IMPL_re", real=True), sp.Function("IMPL_im", real=True)


def impl_contract():
    return Contract("._implementation", None, None, result=lambda self, f, m, v: Cx(IMPLre(f, m, v), IMPLim(f, m, v)))


def vectorisers(b):
    base = ClassModel("RheologyModelBase", FBASE)
    o = Obj(base, debug_mode=False)
    n = sp.Symbol("n", integer=True)
    # __call__
    c, node = base.lookup("methods", "__call__")
    mfn = MethodFn(c, node)
    b.functions[mfn.key] = mfn.info()
    ex = Exec(mfn, contracts={"._implementation": impl_contract()})
    paths = ex.run(dict(self=o, frequency=w, modulus=mu, viscosity=eta))
    b.absorb_exec(ex)
    ensure(b, mfn, "call_is_implementation", paths, lambda p: sp.And(sp.Eq(Cx.of(p.value).re, IMPLre(w, mu, eta)), sp.Eq(Cx.of(p.value).im, IMPLim(w, mu, eta))),
           clause="ensures model(w, mu, eta) == _implementation(w, mu, eta)")
    for meth, arrs in (("_vectorize_frequency", ("frequency_ptr",)), ("_vectorize_modulus_viscosity", ("modulus_ptr", "viscosity_ptr"))):
        c, node = base.lookup("methods", meth)
        mfn = MethodFn(c, node)
        b.functions[mfn.key] = mfn.info()
        ins = {a: SymArray(a, shape=(n,)) for a in arrs}
        out = SymArray("output", complex_=True, shape=(n,))
        ex = Exec(mfn, contracts={"._implementation": impl_contract()}, opts=dict(loop_rule=elementwise_loop_rule))
        args = dict(self=o, output_ptr=out, n=n)
        args.update(ins)
        if meth == "_vectorize_frequency":
            args.update(modulus=mu, viscosity=eta)
        else:
            args.update(frequency=w)
        try:
            paths = ex.run(args)
        except SymExError as e:
            b.subset_exits.append(f"{mfn.key}: {e}")
            continue
        b.absorb_exec(ex)
        i = ex.loop_indices[0] if getattr(ex, "loop_indices", None) else None
        ok = i is not None and len(out.writes) == 1 and out.writes[0][0] == (i,)
        ground(b, f"{mfn.key}::frame", mfn.key, "frame: the loop writes exactly output[i] for the generic index i (no loop-carried state)", ok, detail=str([x[0] for x in out.writes]))
        if ok:
            v = Cx.of(out.writes[0][1])
            if meth == "_vectorize_frequency":
                spec = (IMPLre(ins["frequency_ptr"].get(i), mu, eta), IMPLim(ins["frequency_ptr"].get(i), mu, eta))
                cl = "loop contract: output[i] == _implementation(frequency[i], mu, eta)"
            else:
                spec = (IMPLre(w, ins["modulus_ptr"].get(i), ins["viscosity_ptr"].get(i)), IMPLim(w, ins["modulus_ptr"].get(i), ins["viscosity_ptr"].get(i)))
                cl = "loop contract: output[i] == _implementation(w, mu[i], eta[i])"
            b.add(Obligation(oid=f"{mfn.key}::ensures:elementwise", fn=mfn.key, clause=cl, goal=sp.And(sp.Eq(v.re, spec[0]), sp.Eq(v.im, spec[1])), hyps=list(paths[0].hyps)))
    # public wrappers pass &view[0] and n = len(view), and reject unequal lengths
    for meth, arrs in (("vectorize_frequency", ("frequency_view", "output_view")), ("vectorize_modulus_viscosity", ("modulus_view", "viscosity_view", "output_view"))):
        c, node = base.lookup("methods", meth)
        mfn = MethodFn(c, node)
        b.functions[mfn.key] = mfn.info()
        calls_ = [x for x in ast.walk(node) if isinstance(x, ast.Call) and ast.unparse(x.func) == "self._" + meth]
        ok = len(calls_) == 1
        det = ""
        if ok:
            a = [ast.unparse(x) for x in calls_[0].args]
            want = {"vectorize_frequency": ["ADDR(frequency_view[0])", "modulus", "viscosity", "ADDR(output_view[0])", "n"],
                    "vectorize_modulus_viscosity": ["frequency", "ADDR(modulus_view[0])", "ADDR(viscosity_view[0])", "ADDR(output_view[0])", "n"]}[meth]
            ok = a == want and "n = len(" + arrs[0] + ")" in ast.unparse(node)
            det = str(a)
        simple = len(calls_) == 1 and len(calls_[0].args) == 5
        structural(b, f"{mfn.key}::forwards", mfn.key, "public wrapper forwards &view[0] of each array and n = len(first array) to the cdef loop", "ok" if ok else ("wrong" if simple else "unknown"), detail=det)
        sizes = {a: sp.Symbol("len_" + a, integer=True) for a in arrs}
        views = {a: SymArray(a, complex_=(a == "output_view"), shape=(sizes[a],)) for a in arrs}
        ex = Exec(mfn, contracts={"._" + meth: Contract("._" + meth, None, None, result=lambda *a_, **k: None)}, pre=[sp.Ge(s_, 1) for s_ in sizes.values()])
        args = dict(self=o)
        args.update(views)
        args.update(dict(modulus=mu, viscosity=eta) if meth == "vectorize_frequency" else dict(frequency=w))
        try:
            paths = ex.run(args)
        except SymExError as e:
            b.subset_exits.append(f"{mfn.key}: {e}")
            continue
        b.absorb_exec(ex)
        for k, p in enumerate(paths):
            eq = sp.And(*[sp.Eq(sizes[arrs[0]], sizes[a]) for a in arrs[1:]])
            if p.outcome == "return":
                b.add(Obligation(oid=f"{mfn.key}::ensures:sizes_equal@path{k}", fn=mfn.key, clause="returns only when all arrays have the same length (so the loop stays in bounds)",
                                 goal=eq, hyps=p.hyps + [sp.Ge(s_, 1) for s_ in sizes.values()]))


def lookup(b):
    fn = Fn(FMOD, "find_rheology")
    b.add_fn(fn)
    want = {"elastic": "Elastic", "off": "Elastic", "newton": "Newton", "viscous": "Newton", "maxwell": "Maxwell", "voigt": "Voigt", "voigtkelvin": "Voigt",
            "burgers": "Burgers", "andrade": "Andrade", "sundberg": "SundbergCooper", "sundbergcooper": "SundbergCooper", "  MaxWell ": "Maxwell"}
    genv_ = {k: k for k in MODELS}
    for nm, cls in want.items():
        ex = Exec(fn, globals_env=genv_)
        try:
            paths = ex.run(dict(rheology_name=nm))
        except SymExError as e:
            b.subset_exits.append(f"{fn.key}: {e}")
            return
        ok = len(paths) == 1 and paths[0].outcome == "return" and paths[0].value == cls
        ground(b, f"{fn.key}::alias:{nm.strip().lower()}{'~ws' if nm != nm.strip().lower() else ''}", fn.key, f"find_rheology({nm!r}) is the class {cls}", ok, detail=str(paths[0].value)[:80])
    ex = Exec(fn, globals_env=genv_)
    paths = ex.run(dict(rheology_name="no-such-law"))
    ground(b, f"{fn.key}::unknown_raises", fn.key, "an unknown name raises instead of returning a model", len(paths) == 1 and paths[0].outcome == "raise")


def lookup_tables(b):
    """"through the name lookup": the interpreted lookup tables (known_models / known_model_live_args / known_model_const_args) are built from the
    `!TPY_args live:` / `!TPY_args const:` lines of each model's docstring, and the OOP layer then calls  func(frequency, *live, *const).  For that
    call to be the scalar call of the statement, the documented argument lists, in their order, must be exactly the function's parameters after
    `frequency` - live ones first."""
    try:
        src = source(FLEG)
    except ExtractError as e:
        b.subset_exits.append(str(e))
        return
    import re
    models = [n_ for n_ in src.tree.body if isinstance(n_, ast.FunctionDef) and n_.args.args and n_.args.args[0].arg == "frequency"]
    if not models:
        b.subset_exits.append(f"{FLEG}: no model functions found")
        return
    for fnode in models:
        key = f"{FLEG}::{fnode.name}"
        doc = ast.get_docstring(fnode) or ""
        live = re.findall(r"!TPY_args live:\s*(.*)", doc)
        const = re.findall(r"!TPY_args const:\s*(.*)", doc)
        names = lambda lst: [x_.strip().replace("self.", "") for x_ in (lst[0].split(",") if lst else []) if x_.strip() and x_.strip().lower() != "none"]
        n_live = len(names(live))           # live names are attributes of the model holder (self.compliance ...): their number and order matter, not their spelling
        documented = names(const)           # constant names are configuration keys = parameter names: passed positionally after the live ones
        params_all = [a_.arg for a_ in fnode.args.args][1:]
        params = params_all[n_live:]
        if not live and not const:
            structural(b, f"{key}::lookup_arguments", key, "the model documents its live / constant arguments for the lookup tables", "unknown", detail="no !TPY_args lines")
            continue
        ok = documented == params and n_live <= len(params_all)
        ground(b, f"{key}::lookup_arguments", key, "the `!TPY_args const:` list names exactly the parameters that follow `frequency` and the live arguments, in signature order: a model obtained through the name lookup is called with every constant in its own position",
               ok, detail=f"documented {documented}; signature {params}", refuted_model=None if ok else dict(documented=str(documented), signature=str(params)))


def frequency_dependent_variants(b):
    """sundberg_freq is voigt + andrade_freq with every argument in its own position (the composition the plain sundberg has with andrade)"""
    from tpv.symex import Exec, SymExError
    try:
        fn = Fn(FLEG, "sundberg_freq")
    except ExtractError as e:
        b.subset_exits.append(str(e))
        return
    b.add_fn(fn)
    names = ("frequency", "compliance", "viscosity", "voigt_compliance_offset", "voigt_viscosity_offset", "alpha", "zeta", "critical_freq", "critical_freq_falloff")
    A = {k_: R("sf_" + k_) for k_ in names}
    if [a_ for a_ in fn.params] != list(names):
        structural(b, f"{fn.key}::composition", fn.key, "sundberg_freq takes (frequency, compliance, viscosity, voigt offsets, alpha, zeta, critical frequency, fall-off)", "unknown", detail=str(fn.params))
        return
    rec = []

    def stub(nm, val):
        def f(ex, node, *a_, **k_):
            rec.append((nm, tuple(a_), dict(k_)))
            return val
        return f
    JA, JV = Cx(R("J_andrade_re"), R("J_andrade_im")), Cx(R("J_voigt_re"), R("J_voigt_im"))
    ex = Exec(fn, globals_env=dict(andrade_freq=stub("andrade_freq", JA), voigt=stub("voigt", JV)), opts=dict(definedness=False, auto_inline_same_module=False))
    try:
        paths = ex.run(dict(A))
    except SymExError as e:
        b.subset_exits.append(f"{fn.key}: {e}")
        return
    rets = [p_ for p_ in paths if p_.outcome == "return"]
    if len(paths) != 1 or len(rets) != 1:
        b.subset_exits.append(f"{fn.key}: {[p_.outcome for p_ in paths]}")
        return
    want = {"andrade_freq": ("frequency", "compliance", "viscosity", "alpha", "zeta", "critical_freq", "critical_freq_falloff"),
            "voigt": ("frequency", "compliance", "viscosity", "voigt_compliance_offset", "voigt_viscosity_offset")}
    ok = sorted(r_[0] for r_ in rec) == ["andrade_freq", "voigt"]
    detail = ""
    if ok:
        for nm, a_, k_ in rec:
            pn = Fn(FLEG, nm).params
            bound = dict(zip(pn, a_), **k_)
            for q_ in want[nm]:
                if bound.get(q_) is not A[q_]:
                    ok = False
                    detail += f"{nm}({q_}={bound.get(q_)}); "
    v = Cx.of(rets[0].value)
    ok_sum = ok and sp.simplify(v.re - (JA.re + JV.re)) == 0 and sp.simplify(v.im - (JA.im + JV.im)) == 0
    ground(b, f"{fn.key}::composition", fn.key, "ensures sundberg_freq == voigt(...) + andrade_freq(...) with every argument (alpha, zeta, critical frequency, fall-off, Voigt offsets) passed in its own position", ok_sum,
           detail=detail or str(rec)[:300], refuted_model=None if ok_sum else dict(wrong=detail[:200]))


def legacy(b):
    """1 / J_legacy == G of the compiled model, with compliance = 1/mu and the legacy offsets mapped to the new scales"""
    from contracts.common import FLOAT_EPS
    J0 = 1 / mu
    # the legacy functions clamp eta*w and (w tau zeta) to 1e-100 below 2^-52 (their documented extreme-value branch); the clause is for the unclamped regime
    pre = PRE + TRIG + [sp.Gt(eta * w, FLOAT_EPS), sp.Gt(w * eta * zeta / mu, FLOAT_EPS)]
    fact = T.tgamma_(alpha + 1)
    inl = {k: (Fn(FLEG, k), None) for k in ("maxwell", "voigt", "andrade")}
    g = dict(float_eps=FLOAT_EPS, find_factorial=lambda ex, node, x: T.tgamma_(sp.sympify(x) + 1))
    from tpv.symex import _sh_cos, _sh_sin, _sh_abs as _abs, _sh_sqrt, _sh_exp, _sh_log

    def _sqrt(ex_, node, x):
        x = sp.sympify(x)
        if x.is_Rational and x >= 0 and sp.sqrt(x).is_Rational:
            return sp.sqrt(x)
        return _sh_sqrt(ex_, node, x)
    g["np"] = Namespace("np", {"abs": _abs, "cos": _sh_cos, "sin": _sh_sin, "pi": T.PI, "sqrt": _sqrt, "exp": _sh_exp, "log": _sh_log})
    legacy_args = {"elastic": {}, "newton": {}, "maxwell": {}, "voigt": dict(voigt_compliance_offset=1 / cmu, voigt_viscosity_offset=ceta),
                   "burgers": dict(voigt_compliance_offset=1 / cmu, voigt_viscosity_offset=ceta), "andrade": dict(alpha=alpha, zeta=zeta),
                   "sundberg": dict(voigt_compliance_offset=1 / cmu, voigt_viscosity_offset=ceta, alpha=alpha, zeta=zeta)}
    pub = {"elastic": "Elastic", "newton": "Newton", "maxwell": "Maxwell", "voigt": "Voigt", "burgers": "Burgers", "andrade": "Andrade", "sundberg": "SundbergCooper"}
    for lname, extra in legacy_args.items():
        args = dict(frequency=w, compliance=J0, viscosity=eta)
        args.update(extra)
        fn, ex, paths = run_fn(b, FLEG, lname, args, pre, globals_env=g, inline=inl, xcheck=False)
        if not paths:
            continue
        ret = [p for p in paths if p.outcome == "return"]
        for i, p in enumerate(ret):
            Jl = Cx.of(p.value)
            Jp = published_J(pub[lname])
            # cos(alpha*pi/2) in the legacy code vs cos(pi*alpha/2): same atom after sympy's canonical ordering
            b.add(Obligation(oid=f"{fn.key}::ensures:equals_published_compliance" + (f"@path{i}" if len(ret) > 1 else ""), fn=fn.key,
                             clause=f"legacy {lname}(w, 1/mu, eta, ...) == published compliance of {pub[lname]} (hence 1/J_legacy == compiled G by the reciprocal clause)",
                             goal=sp.And(sp.Eq(Jl.re, Jp.re), sp.Eq(Jl.im, Jp.im)), hyps=pre + p.hyps,
                             rels=[(T.pow_(w * eta * zeta / mu, -alpha), 1, 1 / T.pow_(w * eta * zeta / mu, alpha))]))


def _replayer(name):
    def rp(ob, res):
        from tpv import native
        m = frac_model(res.get("model"))
        g = lambda k, d: float(m.get(k, d)) if not isinstance(m.get(k, d), str) else d
        vals = dict(w=min(max(g("frequency", 1e-5), 1e-12), 100.0), mu=min(max(g("modulus", 5e10), 1e3), 1e13), eta=min(max(g("viscosity", 1e18), 1.0), 1e30))
        argmap = dict(voigt_modulus_scale=g("voigt_modulus_scale", 5.0), voigt_viscosity_scale=g("voigt_viscosity_scale", 0.02), alpha=min(max(g("alpha", 0.3), 0.01), 0.99), zeta=g("zeta", 1.0))
        margs = [argmap[str(s_)] for s_ in MODELS[name]]
        code = f"""
import math, cmath
from TidalPy.rheology.models import {name}
m = {name}({tuple(margs)!r}) if {bool(margs)} else {name}()
w, mu, eta = {vals['w']!r}, {vals['mu']!r}, {vals['eta']!r}
G = complex(m(w, mu, eta))
cmu, ceta, alpha, zeta = {argmap['voigt_modulus_scale']!r}, {argmap['voigt_viscosity_scale']!r}, {argmap['alpha']!r}, {argmap['zeta']!r}
x = w * eta / mu
Jm = 1 / mu - 1j / (eta * w)
Jv = 1 / (cmu * mu + 1j * w * ceta * eta)
Ja = (1 / mu) * (1j * x * zeta) ** (-alpha) * math.gamma(1 + alpha)
J = {{'Elastic': 1 / mu, 'Newton': -1j / (eta * w), 'Maxwell': Jm, 'Voigt': Jv, 'Burgers': Jm + Jv, 'Andrade': Jm + Ja, 'SundbergCooper': Jm + Ja + Jv}}['{name}']
result = dict(G=[G.real, G.imag], GJ=[(G * J).real, (G * J).imag], absG_over_mu=abs(G) / mu)
"""
        out = native.run(dict(code=code))
        rec = dict(replayed=True, model=name, inputs=vals, model_args=margs, native=out,
                   note="the compiled module is the binary built from the pinned models.pyx; a source change to the .pyx is not reflected in it")
        try:
            v = native.unc(out["result"])
            bad = abs(v["GJ"][0] - 1) > 1e-9 or abs(v["GJ"][1]) > 1e-9 or v["G"][0] < 0 or v["G"][1] < 0 or (name in MAXWELL_FAMILY and v["absG_over_mu"] > 1 + 1e-12)
            rec["confirmed"] = bool(bad)
        except Exception:
            rec["confirmed"] = "exception" in out or "crash" in out
        return rec
    return rp


_LEGACY_NATIVE = r'''
import numpy as np
from TidalPy.rheology.complex_compliance import compliance_models as L
from TidalPy.rheology.models import Maxwell, Voigt, Burgers, Andrade, SundbergCooper
fails = []
mu, eta = 5.0e10, 1.0e19
for w in (1e-10, 1.4e-8, 1e-6, 1e-3):
    for (vc, vv, al, ze) in ((0.2, 0.02, 0.3, 1.0), (0.5, 0.1, 0.2, 10.0), (3.0, 0.3, 0.4, 1.0e-2)):
        pairs = (("maxwell", L.maxwell(w, 1 / mu, eta), Maxwell()(w, mu, eta)),
                 ("voigt", L.voigt(w, 1 / mu, eta, vc, vv), Voigt((1 / vc, vv))(w, mu, eta)),
                 ("burgers", L.burgers(w, 1 / mu, eta, vc, vv), Burgers((1 / vc, vv))(w, mu, eta)),
                 ("andrade", L.andrade(w, 1 / mu, eta, al, ze), Andrade((al, ze))(w, mu, eta)),
                 ("sundberg", L.sundberg(w, 1 / mu, eta, vc, vv, al, ze), SundbergCooper((1 / vc, vv, al, ze))(w, mu, eta)))
        for nm, J, Gc in pairs:
            p = complex(J) * complex(Gc)
            if abs(p - 1) > 1e-9: fails.append([nm, "w=%g offsets=(%g,%g) alpha=%g zeta=%g: J_legacy * G_compiled = %r" % (w, vc, vv, al, ze, p)])
result = dict(failures=fails[:8], n=len(fails))
'''


def _replay_legacy(ob, res):
    from tpv import native
    out = native.run(dict(code=_LEGACY_NATIVE), timeout=600)
    rec = dict(replayed=True, native=out)
    if "result" not in out:
        rec["confirmed"] = True
        rec["detail"] = "the real functions raised on the sample inputs"
        return rec
    name = ob.fn.split("::")[-1]
    hits = [f for f in out["result"]["failures"] if f[0] == name]
    rec["confirmed"] = bool(hits)
    rec["detail"] = hits[:3]
    return rec
