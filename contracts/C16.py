"""C16 — world construction keeps geometry / mass bookkeeping consistent and terminates.

Deductive parts (real functions, all branches):
  find_geometry_from_config   every presence pattern of the five config keys x layer position: contiguity, volume, mass rules
  PhysicalObjSpherical.set_geometry (scalar part)  volume, inner radius, surface gravity G(M + M_below)/R^2, bulk density
  LayerBase.set_geometry      mass below = sum of the masses of the layers beneath (1..6 layers)
  scale_from_world            every length x s, thickness = radius - radius_inner, volume fractions invariant (degree-3 homogeneity)
  build_from_world            termination of the variant-naming loop for EVERY name (opaque strings, divergence detection), new name != old
                              name, and the frame: no write reaches the caller's config dictionaries (abstract heap with ownership)
  nested_merge / clean_world_config   frame under make_copies / make_copy = True (generic iteration, recursive call by contract)
  LayeredWorld.reinit         world-level assembly on layer stubs: concatenation in layer order of each layer's own arrays, world mass / radius
                              / tidal scale, call order
Bounded (labelled, never counted as proved): the OOP assembly of whole worlds and the slice arrays, run natively on shipped + random configs.
"""
import ast, itertools, os
import sympy as sp
from tpv.kit import *
from tpv import terms as T
from tpv.symex import ClassModel, MethodFn, Obj, Exec, SymExError, Contract, Namespace
from tpv.heap import HeapExec, AbsDict, S, deepcopy_shim, type_shim, fmt_axioms

FH = "TidalPy/structures/layers/helper.py"
FP = "TidalPy/structures/physical.py"
FL = "TidalPy/structures/layers/basic.py"
FW = "TidalPy/structures/world_builder/world_builder.py"
FCH = "TidalPy/structures/world_builder/config_handler.py"
FD = "TidalPy/utilities/dictionary_utils.py"
G_ = R("G")


def build(tier="quick", seed=0):
    b = Bundle("C16")
    b.const_values[G_] = 6.6743e-11
    geometry_from_config(b)
    physical_geometry(b)
    physical_slices(b)
    layer_mass_below(b)
    world_assembly(b)
    layer_call_site(b)
    lean_lemmas(b, tier)
    scaling(b)
    naming_and_frame(b)
    bounded_assembly(b, tier, seed)
    b.assume("opaque strings: f-strings with a non-empty literal differ from their string arguments and are injective in their integer arguments; '_variant' in s and s.split(..)[0] are uninterpreted")
    b.assume("abstract heap: dictionaries are objects with ownership; copy.deepcopy returns a fresh object graph; build_world deep-copies its configuration argument before any use (checked on its source)")
    b.assume("np.pi is the real number pi; LayeredWorld.reinit is executed on 1-3 layer stubs (super().reinit, set_geometry, set_static_pressure are recording stubs; np.concatenate is list concatenation); the slice arrays themselves (np.linspace, cumulative sums inside each layer) and the assembly of whole shipped worlds are covered by the bounded native run only")
    return b


# ---------------------------------------------------------------------------------------------
def geometry_from_config(b):
    Rw, Mw, rb = R("world_radius"), R("world_mass"), R("layer_below_radius")
    vals = dict(radius=R("cfg_radius"), mass=R("cfg_mass"), thickness=R("cfg_thickness"), density=R("cfg_density"), mass_frac=R("cfg_mass_frac"))
    pre = [sp.Gt(v, 0) for v in vals.values()] + [sp.Gt(Rw, 0), sp.Gt(Mw, 0), sp.Gt(rb, 0)]
    fn = Fn(FH, "find_geometry_from_config")
    b.add_fn(fn)
    npx = Namespace("np", {"pi": T.PI})
    n_ok = n_raise = 0
    for present in itertools.product((False, True), repeat=5):
        keys = [k for k, p in zip(vals, present) if p]
        for layer_index, is_top, below in ((0, False, None), (0, True, None), (1, False, rb), (1, True, rb), (1, True, None), (2, False, None)):
            cfg = {k: vals[k] for k in keys}
            ex = Exec(fn, pre=pre, globals_env=dict(np=npx, ParameterMissingError="ParameterMissingError"), opts=dict(definedness=False))
            try:
                paths = ex.run(dict(config=cfg, layer_index=sp.Integer(layer_index), is_top_layer=is_top, world_radius=Rw, world_mass=Mw, layer_below_radius=below))
            except SymExError as e:
                b.subset_exits.append(f"{fn.key}: {e}")
                return
            tag = f"[{'+'.join(keys) or 'none'};idx={layer_index};top={int(is_top)};below={'y' if below is not None else 'n'}]"
            for p in paths:
                if p.outcome == "raise":
                    n_raise += 1
                    # raising is only allowed when the geometry or the mass really is under-determined
                    has_r, has_t = "radius" in keys, "thickness" in keys
                    geo_known = (has_r and (has_t or layer_index == 0 or below is not None)) or (has_t and (layer_index == 0 or below is not None)) or \
                                (not has_r and not has_t and is_top and below is not None)
                    mass_known = "mass" in keys or "density" in keys or "mass_frac" in keys
                    ground(b, f"{fn.key}::raises_only_if_underdetermined{tag}", fn.key, "raises ParameterMissingError only when radius/thickness or mass cannot be determined from the given keys",
                           not (geo_known and mass_known), detail=repr(p.value))
                    continue
                n_ok += 1
                r_, t_, vol, mass, dens = p.value
                goals = [sp.Eq(vol, sp.Rational(4, 3) * T.PI * (r_ ** 3 - (r_ - t_) ** 3))]
                clause = ["volume == 4/3 pi (r^3 - (r - t)^3)"]
                derived_geo = not ("radius" in keys and "thickness" in keys)
                if derived_geo:
                    inner = sp.Integer(0) if layer_index == 0 else below
                    if inner is not None:
                        goals.append(sp.Eq(r_ - t_, inner))
                        clause.append("contiguity: radius - thickness == radius of the layer below (0 for the innermost layer)")
                    if "radius" not in keys and "thickness" not in keys:
                        goals.append(sp.Eq(r_, Rw))
                        clause.append("top layer without radius/thickness reaches the world radius")
                if "mass" in keys:
                    goals.append(sp.Eq(mass, vals["mass"]))
                elif "density" in keys:
                    goals.append(sp.Eq(mass, vals["density"] * vol))
                    clause.append("mass == density * volume")
                elif "mass_frac" in keys:
                    goals.append(sp.Eq(mass, Mw * vals["mass_frac"]))
                    clause.append("mass == world mass * mass fraction")
                b.add(Obligation(oid=f"{fn.key}::ensures:geometry{tag}", fn=fn.key, clause="; ".join(clause), goal=sp.And(*goals), hyps=pre + p.hyps))
    b.notes.append(dict(find_geometry_from_config=dict(presence_patterns=32 * 6, returning=n_ok, raising=n_raise)))


def physical_geometry(b):
    cls = ClassModel("PhysicalObjSpherical", FP)
    c, node = cls.lookup("methods", "set_geometry")
    mfn = MethodFn(c, node)
    b.functions[mfn.key] = mfn.info()
    Rr, M, Tk, Mb = R("radius"), R("mass"), R("thickness"), R("mass_below")
    pre = [sp.Gt(Rr, 0), sp.Gt(M, 0), sp.Gt(Tk, 0), sp.Le(Tk, Rr), sp.Ge(Mb, 0), sp.Gt(G_, 0)]
    o = Obj(cls, _moi=None, _num_slices=None)
    npx = Namespace("np", {"pi": T.PI})
    ex = Exec(mfn, pre=pre + T.PI_FACTS, globals_env=dict(np=npx, G=G_, extensive_checks=False, float_eps=sp.Rational(1, 2 ** 52)))
    try:
        paths = ex.run(dict(self=o, radius=Rr, mass=M, thickness=Tk, mass_below=Mb, update_state_geometry=True, build_slices=False))
    except SymExError as e:
        b.subset_exits.append(f"{mfn.key}: {e}")
        return
    b.absorb_exec(ex)
    for i, p in enumerate(paths):
        if p.outcome != "return":
            b.add(Obligation(oid=f"{mfn.key}::noraise@path{i}", fn=mfn.key, clause="no exception for valid geometry", goal=sp.false, hyps=pre + p.hyps, meta=dict(raised=repr(p.value))))
            continue
        a = o._attrs
        vol = sp.Rational(4, 3) * T.PI * (Rr ** 3 - (Rr - Tk) ** 3)
        goals = sp.And(sp.Eq(a["_radius_inner"], Rr - Tk), sp.Eq(a["_volume"], vol), sp.Eq(a["_gravity_outer"], G_ * (M + Mb) / Rr ** 2),
                       sp.Eq(a["_density_bulk"] * vol, M), sp.Eq(a["_radius"], Rr), sp.Eq(a["_mass"], M))
        b.add(Obligation(oid=f"{mfn.key}::ensures:scalar_geometry@path{i}", fn=mfn.key,
                         clause="ensures inner radius = R - T, volume = 4/3 pi (R^3 - r_in^3), surface gravity = G (M + M_below)/R^2, bulk density * volume = M",
                         goal=goals, hyps=pre + T.PI_FACTS + p.hyps))
        # shell volumes telescope: volume(R, T1 + T2) == volume(R, T1) + volume(R - T1, T2)
    T1, T2 = R("T1"), R("T2")
    V = lambda r, t: sp.Rational(4, 3) * T.PI * (r ** 3 - (r - t) ** 3)
    lemma(b, "shell_volumes_telescope", "V(R, T1 + T2) == V(R, T1) + V(R - T1, T2): contiguous shells add up to the enclosing shell (sum of layer / slice volumes = world volume by induction)",
          sp.Eq(V(Rr, T1 + T2), V(Rr, T1) + V(Rr - T1, T2)), fn=mfn.key)


def physical_slices(b):
    """the slice arrays built by the real PhysicalObjSpherical.set_geometry (build_slices=True), for enumerated slice counts, all reals symbolic:
    radii strictly increasing and ending at the radius, slice volumes summing to the volume, enclosed mass non-decreasing and ending at
    mass_below + mass, gravity of the last slice = surface gravity."""
    from tpv.symex import NdArr
    cls = ClassModel("PhysicalObjSpherical", FP)
    c, node = cls.lookup("methods", "set_geometry")
    mfn = MethodFn(c, node)
    Rr, M, Tk, Mb = R("radius"), R("mass"), R("thickness"), R("mass_below")
    pre = [sp.Gt(Rr, 0), sp.Gt(M, 0), sp.Gt(Tk, 0), sp.Le(Tk, Rr), sp.Ge(Mb, 0), sp.Gt(G_, 0)]

    def linspace(ex, node, start, stop, num, endpoint=True):
        n = int(num)
        if n == 1:
            return NdArr([sp.sympify(start)])
        return NdArr([sp.sympify(start) + (sp.sympify(stop) - sp.sympify(start)) * sp.Rational(i, n - 1) for i in range(n)])

    class SliceExec(Exec):
        def ev_Subscript(self, node, env):
            base = self.ev(node.value, env)
            if isinstance(base, NdArr) and isinstance(node.slice, ast.Slice):
                lo = self.ev(node.slice.lower, env) if node.slice.lower is not None else None
                hi = self.ev(node.slice.upper, env) if node.slice.upper is not None else None
                return NdArr(list(base)[(int(lo) if lo is not None else None):(int(hi) if hi is not None else None)])
            return super().ev_Subscript(node, env)

        def assign(self, t, v, env):
            if isinstance(t, ast.Subscript):
                base = self.ev(t.value, env)
                if isinstance(base, NdArr):
                    if isinstance(t.slice, ast.Slice):
                        lo = int(self.ev(t.slice.lower, env)) if t.slice.lower is not None else 0
                        hi = int(self.ev(t.slice.upper, env)) if t.slice.upper is not None else len(base)
                        vals = list(v) if isinstance(v, (list, NdArr)) else [v] * (hi - lo)
                        if len(vals) != hi - lo:
                            raise SymExError("slice assignment of a different length")
                        for k_, x_ in zip(range(lo, hi), vals):
                            base[k_] = x_
                    else:
                        base[int(self.ev(t.slice, env))] = v
                    return
            return super().assign(t, v, env)
    npx = Namespace("np", {"pi": T.PI, "linspace": linspace, "zeros_like": lambda ex, node, a_: NdArr([sp.Integer(0)] * len(a_)), "ones_like": lambda ex, node, a_: NdArr([sp.Integer(1)] * len(a_)),
                           "asarray": lambda ex, node, a_: NdArr(list(a_))})
    for N in (1, 2, 3, 5):
        o = Obj(cls, _moi=None, _num_slices=sp.Integer(N))
        ex = SliceExec(mfn, pre=pre + T.PI_FACTS, globals_env=dict(np=npx, G=G_, extensive_checks=False, float_eps=sp.Rational(1, 2 ** 52)))
        try:
            paths = ex.run(dict(self=o, radius=Rr, mass=M, thickness=Tk, mass_below=Mb, update_state_geometry=True, build_slices=True))
        except SymExError as e:
            b.subset_exits.append(f"{mfn.key} [slices={N}]: {e}")
            return
        rets = [p for p in paths if p.outcome == "return"]
        if len(rets) != len(paths) or not rets:
            b.subset_exits.append(f"{mfn.key} [slices={N}]: non-returning path")
            continue
        a = o._attrs
        need = ("_radii", "_volume_slices", "_mass_slices", "_mass_below_slices", "_gravity_slices")
        if not all(isinstance(a.get(k_), (list, NdArr)) and len(a[k_]) == N for k_ in need):
            ground(b, f"{mfn.key}::slices_built[slices={N}]", mfn.key, "the five slice arrays are built with num_slices entries", False, detail=str({k_: type(a.get(k_)).__name__ for k_ in need}))
            continue
        rad, vs, ms, mbs, gs = [list(a[k_]) for k_ in need]
        vol = sp.Rational(4, 3) * T.PI * (Rr ** 3 - (Rr - Tk) ** 3)
        hy = pre + T.PI_FACTS + rets[0].hyps
        incr = [sp.Gt(rad[0], Rr - Tk)] + [sp.Gt(rad[i + 1], rad[i]) for i in range(N - 1)]
        b.add(Obligation(oid=f"{mfn.key}::ensures:radii_increasing[slices={N}]", fn=mfn.key, clause="radial slices strictly increasing, above the inner radius, the last one equal to the outer radius",
                         goal=sp.And(*incr, sp.Eq(rad[-1], Rr)), hyps=hy))
        b.add(Obligation(oid=f"{mfn.key}::ensures:slice_volumes_sum[slices={N}]", fn=mfn.key, clause="slice volumes sum to the shell volume; slice masses sum to the mass",
                         goal=sp.And(sp.Eq(sum(vs), vol), sp.Eq(sum(ms), M)), hyps=hy, backends=("qqnf", "z3")))
        mono = [sp.Ge(mbs[0], Mb)] + [sp.Ge(mbs[i + 1], mbs[i]) for i in range(N - 1)]
        b.add(Obligation(oid=f"{mfn.key}::ensures:enclosed_mass_monotone[slices={N}]", fn=mfn.key, clause="enclosed mass never decreases with radius and ends at mass_below + mass; gravity of the last slice is the surface gravity",
                         goal=sp.And(*mono, sp.Eq(mbs[-1], Mb + M), sp.Eq(gs[-1], G_ * (M + Mb) / Rr ** 2)), hyps=hy))


def layer_mass_below(b):
    cls_base = ClassModel("PhysicalObjSpherical", FP)
    cls = ClassModel("LayerBase", FL, bases=[cls_base])
    c, node = cls.lookup("methods", "set_geometry")
    mfn = MethodFn(c, node)
    b.functions[mfn.key] = mfn.info()
    for nlayers in range(1, 7):
        idx = nlayers - 1
        masses = [R(f"layer_mass_{k}") for k in range(nlayers)]
        world = Obj(None, layers=[Obj(None, mass=masses[k]) for k in range(nlayers)], volume=R("world_volume"))
        rec = {}

        def super_geo(self_, radius, mass, thickness, mass_below=None, update_state_geometry=True, build_slices=True):
            rec["mass_below"] = mass_below
            return None
        o = Obj(cls, layer_index=sp.Integer(idx), world=world, use_tidal_vol_frac=False)
        ex = Exec(mfn, contracts={"=super.set_geometry": Contract("=super.set_geometry", None, None, result=super_geo)})
        try:
            paths = ex.run(dict(self=o, radius=R("radius"), mass=R("mass"), thickness=R("thickness")))
        except SymExError as e:
            b.subset_exits.append(f"{mfn.key}: {e}")
            return
        ok = len(paths) == 1 and paths[0].outcome == "return" and "mass_below" in rec
        if not ok:
            ground(b, f"{mfn.key}::mass_below[{nlayers}]", mfn.key, "single returning path that forwards mass_below", False)
            continue
        b.add(Obligation(oid=f"{mfn.key}::ensures:mass_below[layers={nlayers}]", fn=mfn.key,
                         clause=f"ensures the mass passed as mass_below for layer {idx} == sum of the masses of layers 0..{idx - 1} (enclosed mass never decreases with radius for non-negative masses)",
                         goal=sp.Eq(sp.sympify(rec["mass_below"]), sum(masses[:idx], sp.Integer(0))), hyps=[]))

FLW = "TidalPy/structures/world_types/layered.py"
_ARR = ("radii", "volume_slices", "sa_slices", "depths", "mass_slices", "mass_below_slices", "density_slices", "gravity_slices")


def world_assembly(b):
    """LayeredWorld.reinit (the world-level assembly) executed from the real source on 1..3 layer stubs whose attributes are symbols: every layer is
    re-initialised with its geometry, in order; the world's slice arrays are the concatenation, in layer order, of each layer's OWN array of the same
    name; the mass handed to set_geometry is the configured mass or, when none is configured, the sum of the layer masses; the radius is the
    configured one; the tidal scale is the sum over the tidal layers.  super().reinit, set_geometry and set_static_pressure are recording stubs."""
    base = ClassModel("PhysicalObjSpherical", FP)
    cls = ClassModel("LayeredWorld", FLW, bases=[base])
    c, node = cls.lookup("methods", "reinit")
    if node is None:
        b.subset_exits.append(f"{FLW}::LayeredWorld.reinit: method not found")
        return
    mfn = MethodFn(c, node)
    b.functions[mfn.key] = mfn.info()
    for nlayers in (1, 2, 3):
        for mass_given, from_state in ((False, False), (True, False), (True, True)):
            # from_state: reinit(pull_geo_from_config=False) - radius and mass are the world's current state, not the configuration's
            tag = f"{mfn.key}::assembly[layers={nlayers};mass_{'given' if mass_given else 'derived'}{';from_state' if from_state else ''}]"
            calls, layers = [], []
            for k in range(nlayers):
                def mk_reinit(k_):
                    def reinit_(ex, node_, *a, **kw):
                        calls.append(("layer.reinit", k_, a, dict(kw)))
                    return reinit_
                attrs = {nm: [R(f"L{k}_{nm}_{j}") for j in range(2)] for nm in _ARR}
                layers.append(Obj(None, name=f"layer{k}", layer_index=sp.Integer(k), radius=R(f"layer_radius_{k}"), thickness=R(f"layer_thickness_{k}"), volume=R(f"layer_volume_{k}"), mass=R(f"layer_mass_{k}"), is_tidal=(k != 0 or nlayers == 1), tidal_scale=R(f"tidal_scale_{k}"), reinit=mk_reinit(k), **attrs))
            Rw, Mw = R("config_radius"), R("config_mass")
            cfg = {"radius": Rw, "layers": {}, "store_tides_config_in_world": True}
            if mass_given:
                cfg["mass"] = Mw

            def set_geo(ex, node_, *a, **kw):
                calls.append(("set_geometry", a, dict(kw)))

            def set_pressure(ex, node_, *a, **kw):
                calls.append(("set_static_pressure", a, dict(kw)))

            def super_reinit(self_, *a, **kw):
                calls.append(("super.reinit", a, dict(kw)))
            o = Obj(cls, config=cfg, _config=cfg, layers=tuple(layers), _layers=tuple(layers), tides_on=False, pressure_above=R("p_above"),
                    set_geometry=set_geo, set_static_pressure=set_pressure)
            if from_state:
                o._attrs["_radius"], o._attrs["_mass"] = R("state_radius"), R("state_mass")
                Rw, Mw = R("state_radius"), R("state_mass")
            npns = Namespace("np", dict(concatenate=lambda ex, node_, seq, *a, **k: [x_ for part in seq for x_ in part], pi=T.PI))
            ex = Exec(mfn, contracts={"=super.reinit": Contract("=super.reinit", None, None, result=super_reinit)}, globals_env=dict(np=npns))
            try:
                paths = ex.run(dict(self=o, initial_init=not from_state, setup_simple_tides=False, reinit_layers=True, **({"pull_geo_from_config": False} if from_state else {})))
            except SymExError as e:
                b.subset_exits.append(f"{mfn.key} [layers={nlayers}]: {e}")
                return
            if len(paths) != 1 or paths[0].outcome != "return":
                ground(b, tag + "::noraise", mfn.key, "the assembly returns on a single path for a valid stack", False, detail=str([p_.outcome for p_ in paths]))
                continue
            lre = [c_ for c_ in calls if c_[0] == "layer.reinit"]
            ground(b, tag + "::layers_reinitialised", mfn.key, "every layer is re-initialised once, bottom to top, with initialize_geometry=True",
                   [c_[1] for c_ in lre] == list(range(nlayers)) and all(c_[3].get("initialize_geometry") is True or (len(c_[2]) > 1 and c_[2][1] is True) for c_ in lre), detail=str(lre)[:300])
            for nm in _ARR:
                got = o._attrs.get("_" + nm)
                want = [x_ for L in layers for x_ in L._attrs[nm]]
                ground(b, tag + f"::concatenates[{nm}]", mfn.key, f"ensures world.{nm} == the layers' own {nm}, concatenated bottom to top", isinstance(got, list) and got == want, detail=str(got)[:300])
            ground(b, tag + "::num_slices", mfn.key, "ensures num_slices == total number of layer slices", o._attrs.get("_num_slices") in (2 * nlayers, sp.Integer(2 * nlayers)), detail=str(o._attrs.get("_num_slices")))
            geo = [c_ for c_ in calls if c_[0] == "set_geometry"]
            if len(geo) != 1:
                ground(b, tag + "::set_geometry_once", mfn.key, "the world's geometry is set exactly once", False, detail=str(geo)[:300])
                continue
            ga, gk = geo[0][1], geo[0][2]
            radius_arg = ga[0] if len(ga) > 0 else gk.get("radius")
            mass_arg = ga[1] if len(ga) > 1 else gk.get("mass")
            mbelow = gk.get("mass_below", ga[3] if len(ga) > 3 else None)
            want_mass = Mw if mass_given else sum((L._attrs["mass"] for L in layers), sp.Integer(0))
            b.add(Obligation(oid=tag + "::world_mass", fn=mfn.key, clause="ensures the mass given to the world's geometry is the configured mass, or the sum of the layer masses when none is configured",
                             goal=sp.Eq(sp.sympify(mass_arg), want_mass), hyps=[], meta=dict(mass=str(mass_arg))))
            b.add(Obligation(oid=tag + "::world_radius", fn=mfn.key, clause="ensures the radius given to the world's geometry is the configured radius (top of the stack)",
                             goal=sp.Eq(sp.sympify(radius_arg), Rw), hyps=[], meta=dict(radius=str(radius_arg))))
            b.add(Obligation(oid=tag + "::nothing_below", fn=mfn.key, clause="ensures the world has no mass below it (surface gravity G M / R^2)",
                             goal=sp.Eq(sp.sympify(mbelow if mbelow is not None else 1), 0), hyps=[], meta=dict(mass_below=str(mbelow))))
            want_ts = sum((L._attrs["tidal_scale"] for L in layers if L._attrs["is_tidal"]), sp.Integer(0))
            b.add(Obligation(oid=tag + "::tidal_scale", fn=mfn.key, clause="ensures world.tidal_scale == sum of the tidal layers' volume fractions",
                             goal=sp.Eq(sp.sympify(o._attrs.get("tidal_scale", -1)), want_ts), hyps=[], meta=dict(tidal_scale=str(o._attrs.get("tidal_scale")))))
            order = [c_[0] for c_ in calls]
            ground(b, tag + "::order", mfn.key, "layers are re-initialised before the world's geometry is set, and the pressure is set after it",
                   order.index("set_geometry") > max(i_ for i_, c_ in enumerate(order) if c_ == "layer.reinit") and "set_static_pressure" in order and order.index("set_static_pressure") > order.index("set_geometry"), detail=str(order))


def layer_call_site(b):
    """LayerBase.reinit: the call site of find_geometry_from_config (argument binding by the callee's REAL parameter names) and of set_geometry, executed
    from the real source for every position in a 3-layer stack; layer_below is the class's real property.  Contiguity of the assembled world rests on
    it: the radius handed in as layer_below_radius must be the radius of the layer directly beneath (None for the bottom layer)."""
    import ast as _ast
    base = ClassModel("PhysicalObjSpherical", FP)
    cls = ClassModel("LayerBase", FL, bases=[base])
    c, node = cls.lookup("methods", "reinit")
    if node is None:
        b.subset_exits.append(f"{FL}::LayerBase.reinit: method not found")
        return
    mfn = MethodFn(c, node)
    b.functions[mfn.key] = mfn.info()
    try:
        from tpv import REPO as _REPO
        src = open(os.path.join(_REPO, FH)).read()
        fdef = [n_ for n_ in _ast.parse(src).body if isinstance(n_, _ast.FunctionDef) and n_.name == "find_geometry_from_config"][0]
        params = [a_.arg for a_ in fdef.args.args]
    except Exception as e:
        b.subset_exits.append(f"{FH}::find_geometry_from_config: signature not readable ({e})")
        return
    n = 3
    for idx in range(n):
        tag = f"{mfn.key}::call_site[layer {idx} of {n}]"
        calls = []
        stubs = [Obj(None, name=f"layer{k}", radius=R(f"layer_radius_{k}"), thickness=R(f"layer_thickness_{k}"), radius_inner=R(f"layer_radius_inner_{k}")) for k in range(n)]
        world = Obj(None, name="world", radius=R("world_radius"), mass=R("world_mass"), num_layers=sp.Integer(n))
        cfg = {"is_tidally_active": True, "use_tidal_vol_frac": True, "use_surface_gravity": False, "use_bulk_density": True}
        ret = {x_: R(f"fg_{x_}") for x_ in ("radius", "thickness", "volume", "mass", "density")}

        def fg(ex, node_, *a, **kw):
            calls.append(("find_geometry_from_config", a, dict(kw)))
            return tuple(ret[x_] for x_ in ("radius", "thickness", "volume", "mass", "density"))

        def sg(ex, node_, *a, **kw):
            calls.append(("set_geometry", a, dict(kw)))

        def sup(self_, *a, **kw):
            calls.append(("super.reinit", a, dict(kw)))
        o = Obj(cls, config=cfg, _config=cfg, layer_index=sp.Integer(idx), _layer_index=sp.Integer(idx), is_top_layer=(idx == n - 1), _is_top_layer=(idx == n - 1),
                world=world, _world=world, set_geometry=sg, name=f"layer{idx}")
        layers = list(stubs)
        layers[idx] = o
        world._attrs["layers"] = tuple(layers)
        ex = Exec(mfn, contracts={"=super.reinit": Contract("=super.reinit", None, None, result=sup)},
                  globals_env=dict(find_geometry_from_config=fg, ParameterMissingError="ParameterMissingError"), opts=dict(definedness=False))
        try:
            paths = ex.run(dict(self=o, initial_init=True, initialize_geometry=True))
        except SymExError as e:
            b.subset_exits.append(f"{mfn.key} [layer {idx}]: {e}")
            return
        fgc = [c_ for c_ in calls if c_[0] == "find_geometry_from_config"]
        sgc = [c_ for c_ in calls if c_[0] == "set_geometry"]
        if len(paths) != 1 or paths[0].outcome != "return" or len(fgc) != 1 or len(sgc) != 1:
            ground(b, tag + "::calls", mfn.key, "one returning path with one call of find_geometry_from_config and one of set_geometry", False, detail=str([p_.outcome for p_ in paths]) + str([c_[0] for c_ in calls]))
            continue
        bound = dict(zip(params, fgc[0][1]))
        bound.update(fgc[0][2])
        want = dict(layer_index=sp.Integer(idx), is_top_layer=(idx == n - 1), world_radius=world._attrs["radius"], world_mass=world._attrs["mass"],
                    layer_below_radius=(None if idx == 0 else stubs[idx - 1]._attrs["radius"]))
        for k_, w_ in want.items():
            g_ = bound.get(k_, None if k_ == "layer_below_radius" else "<not passed>")
            ok = (g_ is None and w_ is None) or (g_ is not None and w_ is not None and not isinstance(g_, str) and (g_ == w_ or sp.sympify(g_) == sp.sympify(w_)))
            ground(b, tag + f"::binds[{k_}]", mfn.key, f"requires of find_geometry_from_config at this site: {k_} is this layer's own / the world's / the radius of the layer directly beneath", ok, detail=f"passed {g_}, expected {w_}")
        ground(b, tag + "::binds[config]", mfn.key, "the layer's own configuration is the one parsed", bound.get("config") is cfg, detail=str(type(bound.get("config"))))
        sk = dict(zip(("radius", "mass", "thickness"), sgc[0][1]))
        sk.update(sgc[0][2])
        for k_ in ("radius", "mass", "thickness"):
            ground(b, tag + f"::stores[{k_}]", mfn.key, f"set_geometry receives the {k_} that find_geometry_from_config returned", sk.get(k_) == ret[k_], detail=f"passed {sk.get(k_)}")
        ground(b, tag + "::builds_slices", mfn.key, "the layer's state geometry is updated and its slices are built", sk.get("update_state_geometry", True) is True and sk.get("build_slices", True) is True, detail=str(sk))


def lean_lemmas(b, tier):
    """for-every-N lemmas behind the slice-array clauses (lean/Telescoping.lean, Lean 4 + Mathlib): thorough tier only (a cold Mathlib import
    takes minutes).  The element forms the lemmas start from are what physical_slices checks on the real source for N = 1, 2, 3, 5."""
    import subprocess, time, re
    key = f"{FP}::PhysicalObjSpherical.set_geometry"
    path = os.path.join(os.path.dirname(os.path.dirname(os.path.abspath(__file__))), "lean", "Telescoping.lean")
    lemmas = [("slice_volumes_sum", "for every N: sum_k c (r_{k+1}^3 - r_k^3) == c (r_N^3 - r_0^3): slice volumes of contiguous shells sum to the shell volume"),
              ("linspace_strict_mono", "for every N > 0 and r_in < R: the linspace radii r_in + k (R - r_in)/N are strictly increasing"),
              ("linspace_last", "for every N > 0: the last linspace radius is R"),
              ("enclosed_mass_mono", "for every N: mass_below + running sum of non-negative slice masses never decreases")]
    if tier != "thorough":
        b.notes.append("lean/Telescoping.lean (for-every-N lemmas of the slice arrays) is checked in the thorough tier only")
        return
    try:
        src = open(path).read()
    except OSError as e:
        b.subset_exits.append(f"lean/Telescoping.lean not readable: {e}")
        return
    body = re.sub(r"/-.*?-/", "", src, flags=re.S)
    body = re.sub(r"--.*", "", body)
    cheats = [w for w in ("sorry", "axiom", "admit", "native_decide", "unsafe") if re.search(r"\b" + w + r"\b", body)]
    t0 = time.time()
    try:
        r = subprocess.run(["lean", path], capture_output=True, text=True, timeout=1500)
        out, rc = (r.stdout + r.stderr).strip(), r.returncode
    except (subprocess.TimeoutExpired, OSError) as e:
        out, rc = f"{type(e).__name__}: {e}", None
    secs = round(time.time() - t0, 1)
    for name, clause in lemmas:
        present = re.search(r"\btheorem\s+" + name + r"\b", body) is not None
        if rc is None or not present:
            verdict, reason = "undecided", (out[:300] if rc is None else "theorem not found in the file")
        elif rc == 0 and not cheats and "error" not in out and "sorry" not in out:
            verdict, reason = "discharged", f"lean {path} exit 0 in {secs}s, no sorry / axiom in the file"
        else:
            verdict, reason = "undecided", f"lean exit {rc}; escape hatches found: {cheats}; output: {out[:300]}"
        b.add(Obligation(oid=f"{key}::lemma:lean[{name}]", fn=key, clause=clause, goal=None, meta=dict(seconds=secs),
                         decided=dict(verdict=verdict, backend="lean4+mathlib", reason=reason, model=None)))
    b.trusted_base.append("Lean 4.33.0 kernel + Mathlib v4.33.0 (thorough tier, lean/Telescoping.lean)")


def scaling(b):
    fn = Fn(FW, "scale_from_world")
    b.add_fn(fn)
    s_ = R("radius_scale")
    for nl, gen in [(n_, g_) for n_ in (1, 2, 3) for g_ in (1, 2)]:
        radii = [R(f"r_{k}") for k in range(nl)]
        layers_old = {f"layer{k}": {"radius": radii[k], "type": "x"} for k in range(nl)}
        if gen == 2:
            # the source is itself the product of an earlier scale_from_world: its layer configs carry the derived keys (chains of derivations)
            for k in range(nl):
                inner = radii[k - 1] if k else sp.Integer(0)
                layers_old[f"layer{k}"].update(radius_inner=inner, thickness=radii[k] - inner)
        keys0 = {k_: dict(v_) for k_, v_ in layers_old.items()}
        cfg = {"name": "w", "radius": radii[-1], "layers": layers_old}
        import copy
        rec = {}

        def bfw(ex, node, old_world, new_config=None, new_name=None):
            rec["cfg"] = new_config
            rec["name"] = new_name
            return "NEW"
        world = Obj(None, config=cfg, name="w")
        pre = [sp.Gt(s_, 0)] + [sp.Gt(r, 0) for r in radii] + [sp.Lt(radii[k], radii[k + 1]) for k in range(nl - 1)]
        ex = Exec(fn, pre=pre, globals_env=dict(clean_world_config=lambda ex_, node, c_, make_copy=True: copy.deepcopy(c_), build_from_world=bfw,
                                                 MissingArgumentError="MissingArgumentError", NotYetImplementedError="NotYetImplementedError"),
                  opts=dict(check_feasibility=True))
        try:
            paths = ex.run(dict(old_world=world, new_name="scaled", radius_scale=s_))
        except SymExError as e:
            b.subset_exits.append(f"{fn.key}: {e}")
            return
        b.absorb_exec(ex)
        ret = [p for p in paths if p.outcome == "return"]
        if len(ret) != 1 or "cfg" not in rec:
            b.subset_exits.append(f"{fn.key}: {len(ret)} returning paths for {nl} layers")
            continue
        new = rec["cfg"]
        goals = [sp.Eq(new["radius"], s_ * radii[-1])]
        for k in range(nl):
            L = new["layers"][f"layer{k}"]
            inner_old = radii[k - 1] if k else sp.Integer(0)
            goals += [sp.Eq(L["radius"], s_ * radii[k]), sp.Eq(L["radius_inner"], s_ * inner_old), sp.Eq(L["thickness"], L["radius"] - L["radius_inner"])]
            # volume fraction invariant
            V = lambda ro, ri: ro ** 3 - ri ** 3
            goals.append(sp.Eq(V(L["radius"], L["radius_inner"]) * V(radii[-1], 0), V(radii[k], inner_old) * V(new["radius"], 0)))
        b.add(Obligation(oid=f"{fn.key}::ensures:lengths_scaled[layers={nl}" + (";source_already_scaled" if gen == 2 else "") + "]", fn=fn.key,
                         clause="ensures every radius / inner radius x s, thickness = radius - radius_inner (contiguous), layer volume fractions unchanged",
                         goal=sp.And(*goals), hyps=pre + ret[0].hyps))
        unchanged = cfg["radius"] == radii[-1] and all(layers_old[f"layer{k}"] == keys0[f"layer{k}"] for k in range(nl))
        ground(b, f"{fn.key}::frame:old_config[layers={nl}" + (";source_already_scaled" if gen == 2 else "") + "]", fn.key, "frame: the source world's config dictionary is not modified by scaling", unchanged)


# ---------------------------------------------------------------------------------------------
def naming_and_frame(b):
    fn = Fn(FW, "build_from_world")
    b.add_fn(fn)
    old_name = S("old_name")
    scenarios = [("name_from_argument", S("new_name"), None), ("name_from_new_config", None, S("cfg_name")), ("name_inherited", None, None)]
    for label, arg_name, cfg_name in scenarios:
        log = []
        old_cfg = AbsDict({"old_world.config"}, "old_world.config", log)
        new_cfg = AbsDict({"new_config"}, "new_config", log)
        if cfg_name is not None:
            new_cfg.known["name"] = cfg_name
        world = Obj(None, config=old_cfg, name=old_name)
        built = {}

        def clean(ex, node, cfg, make_copy=True):
            # contract of clean_world_config (verified below): fresh copy when make_copy, name preserved
            c_ = AbsDict({f"fresh#clean"}, "clean(old_world.config)", log)
            c_.known["name"] = old_name
            return c_

        def merge(ex, node, a_, b_, make_copies=True):
            # contract of nested_merge (verified below): fresh result that may hold references into new_dict; 'name' from new if present
            m = AbsDict({"fresh#merge"}, "nested_merge", log)
            m.stored |= b_.reach()
            m.known["name"] = b_.known.get("name", a_.known.get("name"))
            return m

        def bw(ex, node, name, cfg):
            built["name"] = name
            built["cfg"] = cfg
            return "NEW_WORLD"
        has_name_in_cfg = cfg_name is not None

        class X(HeapExec):
            def compare(self, op, a_, b_, node):
                if isinstance(op, (ast.In, ast.NotIn)) and a_ == "name" and b_ is new_cfg:
                    return has_name_in_cfg if isinstance(op, ast.In) else not has_name_in_cfg
                return super().compare(op, a_, b_, node)
        ex = X(fn, pre=[], globals_env=dict(clean_world_config=clean, nested_merge=merge, build_world=bw), opts=dict(while_unroll=16, definedness=False))
        try:
            paths = ex.run(dict(old_world=world, new_config=new_cfg, new_name=arg_name))
        except SymExError as e:
            b.subset_exits.append(f"{fn.key} [{label}]: {e}")
            continue
        b.absorb_exec(ex)
        for i, p in enumerate(paths):
            tag = f"[{label}]@path{i}"
            hy = p.hyps
            ax = fmt_axioms(hy + ([sp.Eq(built.get("name"), old_name)] if isinstance(built.get("name"), sp.Basic) else []))
            if p.outcome == "raise" and p.value.typ == "@diverges":
                b.add(Obligation(oid=f"{fn.key}::terminates{tag}", fn=fn.key, clause="the variant-naming loop terminates for every name (loop head reached again with an identical store: divergence)",
                                 goal=None, decided=dict(verdict="refuted", backend="symex-divergence", reason=f"loop at line {p.value.args[0]} revisits an identical state under the path condition {[str(c) for c in p.pc]}",
                                                         model={"new_name": "<any name of the form X_variant_2>"}), meta=dict(path_condition=[str(c) for c in p.pc])))
                continue
            if p.outcome == "raise":
                b.add(Obligation(oid=f"{fn.key}::noraise{tag}", fn=fn.key, clause="no exception", goal=sp.false, hyps=hy + ax, meta=dict(raised=repr(p.value))))
                continue
            b.add(Obligation(oid=f"{fn.key}::terminates{tag}", fn=fn.key, clause="the variant-naming loop terminates on this path", goal=None,
                             decided=dict(verdict="discharged", backend="symex-divergence", reason="path reaches the return statement; every loop iteration changed the store or took a new decision", model=None)))
        # name distinctness and frame are evaluated on the LAST executed path's recorded call; re-run per path for exactness
        for i, p in enumerate(paths):
            if p.outcome != "return":
                continue
            nm = p.env.get("new_name")
            tag = f"[{label}]@path{i}"
            if isinstance(nm, sp.Basic):
                ax = fmt_axioms(p.hyps + [sp.Eq(nm, old_name)])
                b.add(Obligation(oid=f"{fn.key}::ensures:distinct_name{tag}", fn=fn.key, clause="ensures the derived world's name differs from the source world's name",
                                 goal=sp.Ne(nm, old_name), hyps=p.hyps + ax))
        bad = [w for w in log if any(o in ("old_world.config", "new_config") for o in w["origins"])]
        ground(b, f"{fn.key}::frame[{label}]", fn.key, "frame: no dictionary write of build_from_world reaches old_world.config or new_config (writes go to fresh copies only)", not bad, detail=str(bad)[:300])
    helper_frames(b)
    merge_semantics(b)
    b.replayer(f"{fn.key}::terminates*", _replay_naming)
    b.replayer("*", replay_generic)


def merge_semantics(b):
    """nested_merge on concrete key structures with symbolic leaves (the real source, executed): the merged configuration keeps the KEYS OF THE OLD
    dictionary IN THEIR ORDER at every level (layers are stacked bottom-up in the order of config['layers'], so the order is part of the result), appends
    new-only keys after them, takes new values over old ones, merges sub-dictionaries recursively, and leaves both inputs as they were."""
    import copy as _copy
    fn = Fn(FD, "nested_merge")
    b.add_fn(fn)
    L = lambda nm: {"radius": R(nm + "_radius"), "density": R(nm + "_density"), "type": nm + "_type"}
    shapes = {
        "subset_not_prefix": (lambda: {"name": "w", "radius": R("Rw"), "layers": {"Core": L("core"), "Mantle": L("mantle"), "Crust": L("crust")}, "tides": {"model": "m0", "l": R("l0")}},
                              lambda: {"layers": {"Mantle": {"density": R("mantle_density_new")}}, "mass": R("M_new")}),
        "reordered_layers": (lambda: {"name": "w", "layers": {"Core": L("core"), "Mantle": L("mantle"), "Crust": L("crust")}},
                             lambda: {"layers": {"Crust": {"radius": R("crust_radius_new")}, "Core": {"density": R("core_density_new")}}, "name": "w2"}),
        "new_layer_appended": (lambda: {"layers": {"Core": L("core"), "Mantle": L("mantle")}, "radius": R("Rw")},
                               lambda: {"radius": R("Rw_new"), "layers": {"Ocean": L("ocean"), "Mantle": {"type": "mantle_type_new"}}}),
        "flat_override": (lambda: {"name": "w", "radius": R("Rw"), "mass": R("Mw")}, lambda: {"mass": R("M_new"), "spin": R("spin_new")}),
    }

    def expected(old, new):
        out = {}
        for k_ in old:
            if k_ in new:
                out[k_] = expected(old[k_], new[k_]) if (isinstance(new[k_], dict) and isinstance(old[k_], dict)) else new[k_]
            else:
                out[k_] = old[k_]
        for k_ in new:
            if k_ not in old:
                out[k_] = new[k_]
        return out

    def same(x, y):
        if isinstance(x, dict) or isinstance(y, dict):
            return isinstance(x, dict) and isinstance(y, dict) and list(x.keys()) == list(y.keys()) and all(same(x[k_], y[k_]) for k_ in x)
        try:
            return x == y or sp.simplify(sp.sympify(x) - sp.sympify(y)) == 0
        except Exception:
            return False

    def order_of(x):
        return {k_: order_of(v_) for k_, v_ in x.items()} if isinstance(x, dict) else None
    for label, (mk_old, mk_new) in shapes.items():
        old, new = mk_old(), mk_new()
        old0, new0 = _copy.deepcopy(old), _copy.deepcopy(new)
        ex = Exec(fn, globals_env=dict(copy=Namespace("copy", {"deepcopy": (lambda ex_, node_, x_: _copy.deepcopy(x_))})), opts=dict(definedness=False, max_recursion=6))
        try:
            paths = ex.run(dict(old_dict=old, new_dict=new, make_copies=True))
        except SymExError as e:
            b.subset_exits.append(f"{fn.key} [{label}]: {e}")
            continue
        if len(paths) != 1 or paths[0].outcome != "return":
            b.subset_exits.append(f"{fn.key} [{label}]: {[p_.outcome for p_ in paths]}")
            continue
        got, want = paths[0].value, expected(old0, new0)
        ok_vals = isinstance(got, dict) and same({k_: got[k_] for k_ in sorted(got)}, {k_: want[k_] for k_ in sorted(want)}) if isinstance(got, dict) else False

        def unordered_same(x, y):
            if isinstance(x, dict) or isinstance(y, dict):
                return isinstance(x, dict) and isinstance(y, dict) and set(x) == set(y) and all(unordered_same(x[k_], y[k_]) for k_ in x)
            return same(x, y)
        ground(b, f"{fn.key}::ensures:merged_values[{label}]", fn.key, "ensures every key of either input is present; new values win; sub-dictionaries are merged recursively", unordered_same(got, want),
               detail=str(got)[:300])
        ok_order = isinstance(got, dict) and order_of(got) == order_of(want) and list(order_of(got)) == list(order_of(want)) and same(got, want)
        ground(b, f"{fn.key}::ensures:key_order[{label}]", fn.key,
               "ensures at every level: the old dictionary's keys come first and in their order (layer order = stacking order), new-only keys follow in the new dictionary's order",
               ok_order, detail=f"got {list(got.get('layers', got)) if isinstance(got, dict) else got}; want {list(want.get('layers', want))}",
               refuted_model=None if ok_order else dict(old_keys=str(order_of(old0))[:200], new_keys=str(order_of(new0))[:200], merged_keys=str(order_of(got))[:200] if isinstance(got, dict) else str(got)))
        ground(b, f"{fn.key}::frame:inputs_unchanged[{label}]", fn.key, "frame: both input dictionaries are as they were (keys, order, values) after the merge", same(old, old0) and same(new, new0))


def helper_frames(b):
    # nested_merge(make_copies=True): generic iteration, recursive call by contract
    fn = Fn(FD, "nested_merge")
    b.add_fn(fn)
    log = []
    old = AbsDict({"old_dict"}, "old_dict", log)
    new = AbsDict({"new_dict"}, "new_dict", log)

    def rec_merge(ex, node, old_dict=None, new_dict=None, make_copies=True):
        r = AbsDict({"fresh#rec"}, "nested_merge(rec)", log)
        if make_copies is not True:
            log.append(dict(kind="recursive call without copies", origins=sorted(old_dict.reach()), target="rec", line=node.lineno, key=""))
        r.stored |= new_dict.reach()
        return r
    ex = HeapExec(fn, globals_env=dict(copy=Namespace("copy", {"deepcopy": deepcopy_shim(log)}), nested_merge=rec_merge, type=type_shim), opts=dict(definedness=False))
    try:
        paths = ex.run(dict(old_dict=old, new_dict=new, make_copies=True))
        bad = [w for w in log if any(o in ("old_dict", "new_dict") for o in w["origins"])]
        ground(b, f"{fn.key}::frame", fn.key, "frame (make_copies=True): every write of nested_merge goes to the deep copy; neither input is modified; recursive calls keep make_copies=True",
               not bad and all(p.outcome in ("return", "raise") for p in paths), detail=str(bad)[:300], paths=len(paths))
        fresh_result = all(isinstance(p.value, AbsDict) and "old_dict" not in p.value.origins for p in paths if p.outcome == "return")
        ground(b, f"{fn.key}::fresh_result", fn.key, "the merged dictionary is a fresh object (not the caller's old_dict)", fresh_result)
    except SymExError as e:
        b.subset_exits.append(f"{fn.key}: {e}")
    fn = Fn(FCH, "clean_world_config")
    b.add_fn(fn)
    log = []
    cfg = AbsDict({"world_config"}, "world_config", log)
    ex = HeapExec(fn, globals_env=dict(copy=Namespace("copy", {"deepcopy": deepcopy_shim(log)}), type=type_shim), opts=dict(definedness=False))
    try:
        paths = ex.run(dict(world_config=cfg, make_copy=True))
        bad = [w for w in log if "world_config" in w["origins"]]
        ground(b, f"{fn.key}::frame", fn.key, "frame (make_copy=True): clean_world_config deletes keys only in its deep copy", not bad, detail=str(bad)[:300], paths=len(paths))
    except SymExError as e:
        b.subset_exits.append(f"{fn.key}: {e}")
    # build_world deep-copies its dict argument before use
    fn = Fn(FW, "build_world")
    b.add_fn(fn)
    first_if = [s for s in fn.node.body if isinstance(s, ast.If) and ast.unparse(s.test) == "world_config is not None"]
    ok = bool(first_if) and any(isinstance(s, ast.Assign) and ast.unparse(s) == "world_config = copy.deepcopy(world_config)" for s in first_if[0].body)
    before = fn.node.body[:fn.node.body.index(first_if[0])] if first_if else []
    uses_before = any(isinstance(x, ast.Name) and x.id == "world_config" for s in before for x in ast.walk(s))
    structural(b, f"{fn.key}::copies_config", fn.key, "build_world rebinds world_config to copy.deepcopy(world_config) before any other use of the dictionary",
               "ok" if (ok and not uses_before) else "unknown", detail="deep copy statement not found in the recognised place" if not ok else "world_config used before the copy")


def _replay_naming(ob, res):
    from tpv import native
    code = r'''
import multiprocessing as mp, time
def job(q):
    import TidalPy
    from TidalPy.structures.world_builder import build_world, build_from_world
    w = build_world("io_simple")
    w1 = build_from_world(w, {})
    w2 = build_from_world(w1, {})
    w3 = build_from_world(w2, {})
    q.put([w.name, w1.name, w2.name, w3.name])
q = mp.Queue(); p = mp.Process(target=job, args=(q,)); p.start(); p.join(60)
if p.is_alive():
    p.terminate(); result = {"hang": True}
else:
    result = {"hang": False, "names": q.get() if not q.empty() else None}
'''
    out = native.run(dict(code=code), timeout=180)
    rec = dict(replayed=True, native=out, what="chain of three build_from_world derivations of the shipped io_simple world with a 60 s watchdog")
    try:
        v = out["result"]
        rec["confirmed"] = bool(v.get("hang")) or (v.get("names") is not None and len(set(v["names"])) != 4)
    except Exception:
        rec["confirmed"] = False
    return rec


# ---------------------------------------------------------------------------------------------
_BOUNDED = r'''
import numpy as np, random, copy, math
import TidalPy
from TidalPy.structures.world_builder import build_world, scale_from_world
cfg = args
rnd = random.Random(cfg["seed"])
from TidalPy.structures.world_builder.config_handler import get_world_configs
from TidalPy.structures.world_builder import build_from_world
allcfg = get_world_configs()
names = sorted(k for k, v in allcfg.items() if str(v.get("type", "")).lower() != "burnman")[:cfg["max_worlds"]]
checked = 0; bad = []
def check(w, tag):
    global checked
    checked += 1
    if not hasattr(w, "layers"): return
    prev = 0.0; vol = 0.0
    for L in w.layers:
        if abs(L.radius_inner - prev) > 1e-9 * w.radius: bad.append((tag, "contiguity", L.name))
        prev = L.radius; vol += L.volume
        r = np.asarray(L.radii)
        if np.any(np.diff(r) <= 0) or abs(r[-1] - L.radius) > 1e-9 * L.radius: bad.append((tag, "slices", L.name))
        if abs(np.sum(L.volume_slices) - L.volume) > 1e-9 * L.volume: bad.append((tag, "slice volumes", L.name))
        if np.any(np.diff(L.mass_below_slices) < 0): bad.append((tag, "enclosed mass", L.name))
    if abs(prev - w.radius) > 1e-9 * w.radius: bad.append((tag, "top radius"))
    if abs(vol - w.volume) > 1e-9 * w.volume: bad.append((tag, "volume sum"))
    if abs(w.gravity_outer - 6.6743e-11 * w.mass / w.radius**2) > 1e-6 * w.gravity_outer: bad.append((tag, "gravity"))
    # a world whose shipped configuration gives no total mass derives it from its layers - also after any scaling / derivation
    root = tag.split("*")[0]
    if allcfg.get(root, {}).get("mass", None) is None:
        lm = float(sum(L.mass for L in w.layers))
        if abs(w.mass - lm) > 1e-9 * max(abs(lm), 1.0): bad.append((tag, "world mass != sum of layer masses (no mass in the shipped configuration)", float(w.mass), lm))
for nm in names:
    try:
        w = build_world(nm)
    except Exception as ex:
        continue
    check(w, nm)
    if "layers" not in w.config:
        continue            # radius scaling is defined for layered worlds only
    for s in (0.5, 2.0):
        try:
            w2 = scale_from_world(w, radius_scale=s)
            check(w2, nm + "*%g" % s)
            if abs(w2.radius - s * w.radius) > 1e-9 * w2.radius: bad.append((nm, "scale"))
            w3 = scale_from_world(w2, radius_scale=1.0 / s)
            check(w3, nm + "*%g*%g" % (s, 1.0 / s))
            if abs(w3.mass - w.mass) > 1e-9 * w.mass: bad.append((nm + "*%g*%g" % (s, 1.0 / s), "mass after scaling there and back", float(w3.mass), float(w.mass)))
        except Exception as ex:
            bad.append((nm, "scale raised", repr(ex)[:80]))
chains = 0
for nm in names[:4]:
    try:
        w = build_world(nm)
        for k in range(5):
            parent = w.name
            w = build_from_world(w, {}); chains += 1
            if w.name == parent: bad.append((nm, "derived name equals its source", w.name))
    except Exception as ex:
        bad.append((nm, "derivation chain raised", repr(ex)[:80]))
result = {"worlds": len(names), "checked": checked, "derivations": chains, "bad": bad[:10]}
'''


def bounded_assembly(b, tier, seed):
    from tpv import native
    max_worlds = 12 if tier == "quick" else 60
    out = native.run(dict(code=_BOUNDED, args=dict(seed=seed, max_worlds=max_worlds)), timeout=900)
    res = out.get("result") if isinstance(out, dict) else None
    b.bounded.append(dict(name="OOP assembly of shipped layered worlds + radius scaling x0.5 / x2 (native run, run-time contracts for contiguity, slice monotonicity, volume sums, enclosed mass, surface gravity)",
                          bound=f"first {max_worlds} shipped non-BurnMan configurations, 2 scale factors, derivation chains of length 5 for 4 worlds (a hang is caught by the 900 s timeout of the native run)", result=res if res is not None else out, counted_as_proved=False))
    if res is not None and res.get("bad"):
        b.notes.append(dict(bounded_run_found=res["bad"]))
        # a counterexample found by the bounded run is a genuine failing input (its refutations count, its passes never do)
        for item in res["bad"][:5]:
            ground(b, f"{FW}::build_world::bounded:assembly[{'|'.join(str(x) for x in item[:2])}]", f"{FW}::build_world",
                   "BOUNDED native run: a shipped layered world (and its scaled / derived variants) is contiguous, has increasing slices, volumes summing up, non-decreasing enclosed mass and surface gravity G M/R^2",
                   False, detail=str(item)[:300], refuted_model=dict(case=str(item)[:300]), bounded=True, native_confirmed=True)


_REPLAY_GENERIC = r'''
import copy, numpy as np
from TidalPy.structures.world_builder import build_world, scale_from_world, build_from_world
from TidalPy.structures.world_builder.config_handler import get_world_configs
bad = []
allcfg = get_world_configs()
names = [k for k, v in sorted(allcfg.items()) if str(v.get("type", "")).lower() != "burnman" and "layers" in v and len(v["layers"]) >= 3][:2] + \
        [k for k, v in sorted(allcfg.items()) if str(v.get("type", "")).lower() != "burnman" and "layers" in v and len(v["layers"]) == 2][:1]
def geometry(w, tag):
    prev = 0.0; vol = 0.0; below = 0.0
    for L in w.layers:
        if abs(L.radius_inner - prev) > 1e-9 * w.radius: bad.append((tag, "contiguity", L.name, float(L.radius_inner), float(prev)))
        if abs(L.thickness - (L.radius - prev)) > 1e-9 * w.radius: bad.append((tag, "thickness", L.name))
        if abs(L.mass_below - below) > 1e-9 * max(w.mass, 1.0): bad.append((tag, "mass_below != sum of lower layers", L.name, float(L.mass_below), float(below)))
        if np.any(np.diff(np.asarray(L.mass_below_slices)) < 0): bad.append((tag, "enclosed mass decreases", L.name))
        prev = L.radius; vol += L.volume; below += L.mass
    if abs(vol - w.volume) > 1e-9 * w.volume: bad.append((tag, "volume sum"))
for nm in names:
    w = build_world(nm)
    geometry(w, nm)
    fr0 = [L.volume / w.volume for L in w.layers]
    w1 = scale_from_world(w, radius_scale=2.0)
    geometry(w1, nm + "*2")
    snap = copy.deepcopy(w1.config)
    w2 = scale_from_world(w1, radius_scale=0.5)
    if snap != w1.config: bad.append((nm, "scale_from_world mutated the source config"))
    geometry(w2, nm + "*2*0.5")
    fr2 = [L.volume / w2.volume for L in w2.layers]
    if any(abs(a - c) > 1e-9 for a, c in zip(fr0, fr2)): bad.append((nm, "volume fractions changed by a chain of scalings", fr0, fr2))
    if abs(w2.radius - w.radius) > 1e-9 * w.radius: bad.append((nm, "radius after x2 x0.5"))
    snap = copy.deepcopy(w1.config)
    w3 = build_from_world(w1, {})
    if snap != w1.config: bad.append((nm, "build_from_world mutated the source config"))
    if w3.name == w1.name: bad.append((nm, "derived name equals source"))
result = dict(worlds=names, bad=[list(map(str, x)) for x in bad[:8]])
'''


_MERGE_REPLAY = r'''
from TidalPy.utilities.dictionary_utils import nested_merge
L = lambda nm: {"radius": 1.0, "density": 2.0, "type": nm}
old = {"name": "w", "radius": 5.0, "layers": {"Core": L("core"), "Mantle": L("mantle"), "Crust": L("crust")}, "tides": {"model": "m0"}}
cases = [({"layers": {"Mantle": {"density": 9.0}}, "mass": 3.0}, ["name", "radius", "layers", "tides", "mass"], ["Core", "Mantle", "Crust"]),
         ({"layers": {"Crust": {"radius": 7.0}, "Core": {"density": 8.0}}, "name": "w2"}, ["name", "radius", "layers", "tides"], ["Core", "Mantle", "Crust"]),
         ({"radius": 6.0, "layers": {"Ocean": L("ocean"), "Mantle": {"type": "x"}}}, ["name", "radius", "layers", "tides"], ["Core", "Mantle", "Crust", "Ocean"])]
bad = []
for new, top, layers in cases:
    m = nested_merge(old, new)
    if list(m) != top or list(m["layers"]) != layers:
        bad.append([list(m), list(m["layers"]), top, layers])
result = bad
'''


def replay_generic(ob, res):
    from tpv import native
    if "::bounded:" in ob.oid:
        return dict(replayed=True, confirmed=True, what="the failing case was produced by the native run itself", model=res.get("model"))
    if "nested_merge::" in ob.oid:
        out = native.run(dict(code=_MERGE_REPLAY), timeout=300)
        return dict(replayed=True, native=out, confirmed=bool(out.get("result")) or "exception" in out, what="key order of nested_merge(old, new) on three layered configurations")
    out = native.run(dict(code=_REPLAY_GENERIC), timeout=900)
    rec = dict(replayed=True, native=out, what="shipped 3-layer and 2-layer worlds: geometry / enclosed-mass invariants, chain scale x2 then x0.5, build_from_world of a scaled world, deep comparison of the source config")
    if "result" not in out:
        rec["confirmed"] = True
        rec["detail"] = "the real code raised or crashed on the chain"
        return rec
    rec["confirmed"] = bool(out["result"].get("bad"))
    return rec
