"""C13 — object-oriented world / orbit state is history independent (method-level proof + bounded histories).

Deductive core, with ghost state: the caches of TidesBase are uninterpreted functions of the values they were computed from,
   _eccentricity_results = E(e), _obliquity_results = O(I), (_unique_tidal_frequencies, _tidal_terms_by_frequency) = (F, T)(Omega, n, a, R, E, O),
   _tidal_susceptibility = S(M_host, R, a).
Contract of TidesBase.orbit_spin_changed(flags):
   requires  every cache is coherent with the OLD state, and a state component may differ from its old value only if its flag is True
             (the spin rate may also differ when only the orbital-frequency flag is set: either frequency flag recomputes the modes)
   ensures   every cache is coherent with the CURRENT state                                             (all 16 flag combinations)
Call sites (write provenance): every public world / orbit setter is executed on an object store; each state component it writes must be
flagged True in the flags that finally reach tides.orbit_spin_changed, and that call must happen.
The whole-history claim over layers / rheology / thermal objects is covered by a bounded native run only (labelled, not counted).
"""
import ast, itertools
import sympy as sp
from tpv.kit import *
from tpv import terms as T
from tpv.symex import ClassModel, MethodFn, Obj, Exec, SymExError, Contract, Namespace

FT = "TidalPy/tides/methods/base.py"
FWB = "TidalPy/structures/world_types/basic.py"
FWT = "TidalPy/structures/world_types/tidal.py"
FPH = "TidalPy/structures/physical.py"
FO = "TidalPy/structures/orbit/base.py"
Ef, Of = sp.Function("E_of", real=True), sp.Function("O_of", real=True)
Ff, Tf, Sf = sp.Function("FREQS_of", real=True), sp.Function("TERMS_of", real=True), sp.Function("SUSC_of", real=True)


def build(tier="quick", seed=0):
    b = Bundle("C13")
    tides_contract(b)
    call_sites(b)
    forwarding(b)
    layered_sums(b)
    fixed_parameters(b)
    strength_cache(b)
    notification(b)
    cascade(b)
    orbit_derivatives(b)
    global_collapse(b)
    layered_collapse(b)
    layered_getters(b)
    b.replayer("*::ensures:love_numbers_current*", _replay_fixed_q)
    b.replayer("*::invariant:compliance_is_reciprocal_shear*", _replay_strength)
    b.replayer("*::ensures:orbit_is_told*", _replay_strength)
    b.replayer("*PhysicsOrbit.dissipation_changed::*", _replay_orbit_derivs)
    b.replayer("*::forwards", _replay_stale)
    b.replayer("*::ensures:spin_follows_orbit*", _replay_c13)
    b.replayer("*#global_sums*", _replay_c13)
    bounded_histories(b, tier, seed)
    b.assume("ghost model: eccentricity_func, obliquity_func, calculate_modes_func and calc_tidal_susceptibility are deterministic functions of their arguments (uninterpreted); cache coherence is equality with that function of the CURRENT state")
    b.assume("collapse_modes, world.tidal_frequencies_changed, orbit.dissipation_changed and the layer / rheology / thermal cascade are taken by contract (no effect on the caches named above); the whole-history claim over those objects is only covered by the bounded native run")
    b.assume("world_signature_to_index maps the world to its slot; arrays vs scalars make no difference to the update logic (flags only)")
    return b


def tides_contract(b):
    cls = ClassModel("TidesBase", FT)
    c, node = cls.lookup("methods", "orbit_spin_changed")
    mfn = MethodFn(c, node)
    b.functions[mfn.key] = mfn.info()
    e0, I0, n0, O0, a0 = [R(x + "_old") for x in ("e", "I", "n", "Om", "a")]
    e1, I1, n1, O1, a1 = [R(x + "_now") for x in ("e", "I", "n", "Om", "a")]
    Rw, Mh = R("world_radius"), R("host_mass")
    for use_obl in (True, False):
        for flags in itertools.product((False, True), repeat=4):
            fe, fI, fn_, fO = flags
            pre = []
            if not fe:
                pre.append(sp.Eq(e1, e0))
            if not fI:
                pre.append(sp.Eq(I1, I0))
            if not fn_:
                pre += [sp.Eq(n1, n0), sp.Eq(a1, a0)]
            if not fO and not fn_:
                pre.append(sp.Eq(O1, O0))     # either frequency flag makes the object recompute everything frequency-related, so the spin may change under both
            Iold = I0 if use_obl else sp.Integer(0)
            Inow = I1 if use_obl else sp.Integer(0)
            world = Obj(None, radius=Rw, semi_major_axis=a1, orbital_frequency=n1, spin_frequency=O1, eccentricity=e1, obliquity=I1,
                        tidal_host=Obj(None, mass=Mh), tidal_frequencies_changed=lambda ex, node, **k: None)
            o = Obj(cls, world=world, _use_obliquity_tides=use_obl, _multiply_modes_by_sign=True,
                    _eccentricity_results=Ef(e0), _obliquity_results=Of(Iold),
                    _unique_tidal_frequencies=Ff(O0, n0, a0, Rw, Ef(e0), Of(Iold)), _tidal_terms_by_frequency=Tf(O0, n0, a0, Rw, Ef(e0), Of(Iold)),
                    _tidal_susceptibility=Sf(Mh, Rw, a0), _need_to_collapse_modes=False, _new_tidal_frequencies=False,
                    eccentricity_func=lambda ex, node, x: Ef(sp.sympify(x)), obliquity_func=lambda ex, node, x: Of(sp.sympify(x)),
                    calculate_modes_func=lambda ex, node, Om_, n_, a_, R_, E_, O_, *rest, **k: (Ff(Om_, n_, a_, R_, E_, O_), Tf(Om_, n_, a_, R_, E_, O_)))
            genv = dict(calc_tidal_susceptibility=lambda ex, node, M_, R_, a_: Sf(M_, R_, a_), IncompatibleModelError="IncompatibleModelError",
                        np=Namespace("np", {"zeros_like": lambda ex, node, x, **k: sp.Integer(0)}), len=lambda ex, node, x: sp.Integer(1))
            ex = Exec(mfn, pre=pre, globals_env=genv, contracts={".collapse_modes": Contract(".collapse_modes", None, None, result=lambda *a_, **k: None)},
                      opts=dict(definedness=False))
            try:
                paths = ex.run(dict(self=o, eccentricity_change=fe, obliquity_change=fI, orbital_freq_changed=fn_, spin_freq_changed=fO))
            except SymExError as ex_:
                b.subset_exits.append(f"{mfn.key}: {ex_}")
                return
            tag = f"[obliquity_tides={int(use_obl)};e={int(fe)};I={int(fI)};n={int(fn_)};Om={int(fO)}]"
            if len(paths) != 1 or paths[0].outcome != "return":
                b.subset_exits.append(f"{mfn.key} {tag}: {len(paths)} paths / {paths[0].outcome}")
                continue
            a = o._attrs
            Enow, Onow = Ef(e1), Of(Inow)
            want = {"_eccentricity_results": Enow, "_obliquity_results": Onow, "_tidal_terms_by_frequency": Tf(O1, n1, a1, Rw, Enow, Onow),
                    "_unique_tidal_frequencies": Ff(O1, n1, a1, Rw, Enow, Onow), "_tidal_susceptibility": Sf(Mh, Rw, a1)}
            for fld, spec in want.items():
                b.add(Obligation(oid=f"{mfn.key}::ensures:coherent:{fld}{tag}", fn=mfn.key,
                                 clause=f"ensures {fld} equals the value a fresh object computes from the CURRENT state (given: only flagged components changed)",
                                 goal=sp.Eq(sp.sympify(a[fld]), spec), hyps=pre + paths[0].hyps, meta=dict(flags=dict(e=fe, I=fI, n=fn_, Om=fO), field=fld)))
    b.replayer(f"{mfn.key}::ensures:coherent*", _replay_stale)
    b.replayer("*::bounded:history*", lambda ob, res: dict(replayed=True, confirmed=True, detail="the failing history was found by running the real code (see model)"))


# ---------------------------------------------------------------------------------------------
def call_sites(b):
    """every public setter: the components it writes are flagged in the call that reaches tides.orbit_spin_changed"""
    phys = ClassModel("PhysicalObjSpherical", FPH)
    base = ClassModel("BaseWorld", FWB, bases=[phys])
    tidal = ClassModel("TidalWorld", FWT, bases=[base])
    orbit_cls = ClassModel("OrbitBase", FO)
    val = R("new_value")

    def setup(sync):
        rec = []
        tides = Obj(None, orbit_spin_changed=lambda ex, node, **k: rec.append(dict(k)))
        world = Obj(tidal, _tides=tides, _obliquity=R("I_old"), _spin_frequency=R("Om_old"), _spin_period=R("Ps_old"), _force_spin_sync=sync, _is_spin_sync=sync,
                    _time=R("t_old"), name="w1", mass=R("m1"))
        host = Obj(tidal, _tides=None, _obliquity=R("Ih"), _spin_frequency=R("Omh"), _spin_period=R("Psh"), _force_spin_sync=False, _is_spin_sync=False, name="host", mass=R("M"))
        orbit = Obj(orbit_cls, _eccentricities=[R("e0"), R("e1_old")], _semi_major_axes=[R("a0"), R("a1_old")], _orbital_frequencies=[R("n0"), R("n1_old")],
                    _orbital_periods=[R("P0"), R("P1_old")], _tidal_objects=[host, world], _tidal_host=host, _star=None, _host_tide_raiser=None, _star_host=False)
        world.setattr("orbit", orbit)
        host.setattr("orbit", orbit)
        world._writes.clear()
        host._writes.clear()
        orbit._writes.clear()
        return world, host, orbit, tides, rec

    def idx_contract():
        return Contract(".world_signature_to_index", None, None, result=lambda self, sig, return_tidal_host=False: sp.Integer(1))
    conv = {"rads2days": Contract("rads2days", None, None, result=lambda x: fresh("days")), "days2rads": Contract("days2rads", None, None, result=lambda x: fresh("rads")),
            "semi_a2orbital_motion": Contract("semi_a2orbital_motion", None, None, result=lambda *a: fresh("n")),
            "orbital_motion2semi_a": Contract("orbital_motion2semi_a", None, None, result=lambda *a: fresh("a"))}
    contracts = dict(conv)
    contracts[".world_signature_to_index"] = idx_contract()
    contracts[".dissipation_changed"] = Contract(".dissipation_changed", None, None, result=lambda *a, **k: True)
    contracts[".time_changed"] = Contract(".time_changed", None, None, result=lambda *a, **k: None)
    genv = dict(TidalPy=Namespace("TidalPy", {"extensive_checks": False}), np=Namespace("np", {}))
    entries = [
        ("world.set_obliquity", "world", "set_obliquity", dict(obliquity=val), {"I"}),
        ("world.set_spin_frequency", "world", "set_spin_frequency", dict(spin_frequency=val), {"Om"}),
        ("world.set_spin_period", "world", "set_spin_period", dict(spin_period=val), {"Om"}),
        ("world.set_state(obliquity)", "world", "set_state", dict(obliquity=val), {"I"}),
        ("world.set_state(spin_frequency)", "world", "set_state", dict(spin_frequency=val), {"Om"}),
        ("world.set_state(spin_period)", "world", "set_state", dict(spin_period=val), {"Om"}),
        ("world.set_state(eccentricity)", "world", "set_state", dict(eccentricity=val), {"e"}),
        ("world.set_state(semi_major_axis)", "world", "set_state", dict(semi_major_axis=val), {"n"}),
        ("world.set_state(orbital_period)", "world", "set_state", dict(orbital_period=val), {"n"}),
        ("world.set_state(orbital_frequency)", "world", "set_state", dict(orbital_frequency=val), {"n"}),
        ("world.set_state(e,I,spin)", "world", "set_state", dict(eccentricity=val, obliquity=R("v2"), spin_frequency=R("v3")), {"e", "I", "Om"}),
        ("orbit.set_eccentricity", "orbit", "set_eccentricity", dict(world_signature=sp.Integer(1), eccentricity=val), {"e"}),
        ("orbit.set_semi_major_axis", "orbit", "set_semi_major_axis", dict(world_signature=sp.Integer(1), semi_major_axis=val), {"n"}),
        ("orbit.set_orbital_frequency", "orbit", "set_orbital_frequency", dict(world_signature=sp.Integer(1), orbital_frequency=val), {"n"}),
        ("orbit.set_orbital_period", "orbit", "set_orbital_period", dict(world_signature=sp.Integer(1), orbital_period=val), {"n"}),
        ("orbit.set_state(e)", "orbit", "set_state", dict(world_signature=sp.Integer(1), eccentricity=val), {"e"}),
        ("orbit.set_state(a)", "orbit", "set_state", dict(world_signature=sp.Integer(1), semi_major_axis=val), {"n"}),
        ("orbit.set_state(e,n)", "orbit", "set_state", dict(world_signature=sp.Integer(1), eccentricity=val, orbital_frequency=R("v2")), {"e", "n"}),
    ]
    flagname = {"e": "eccentricity_change", "I": "obliquity_change", "n": "orbital_freq_changed", "Om": "spin_freq_changed"}
    for label, target, meth, kwargs, expect_dirty in entries:
        for sync in (False, True):
            world, host, orbit, tides, rec = setup(sync)
            obj = world if target == "world" else orbit
            c, node = obj._cls.lookup("methods", meth)
            if node is None:
                b.subset_exits.append(f"{label}: method not found")
                continue
            mfn = MethodFn(c, node)
            b.functions[mfn.key] = mfn.info()
            ex = Exec(mfn, globals_env=genv, contracts=contracts, opts=dict(definedness=False, max_recursion=3))
            env = dict(self=obj)
            env.update(kwargs)
            try:
                paths = ex.run(env)
            except SymExError as e:
                b.subset_exits.append(f"{mfn.key} [{label}; sync={int(sync)}]: {e}")
                continue
            for f in ex.called:
                b.functions.setdefault(f, dict(function=f, note="executed inline from the real class source"))
            tag = f"[{label};sync={int(sync)}]"
            if len(paths) != 1 or paths[0].outcome != "return":
                b.subset_exits.append(f"{mfn.key} {tag}: {len(paths)} paths ({[p.outcome for p in paths]})")
                continue
            # dirty components = what was actually written on the object store during the call
            dirty = set()
            if "_obliquity" in world._writes:
                dirty.add("I")
            if "_spin_frequency" in world._writes:
                dirty.add("Om")
            if orbit._attrs["_eccentricities"][1] != R("e1_old"):
                dirty.add("e")
            if orbit._attrs["_orbital_frequencies"][1] != R("n1_old") or orbit._attrs["_semi_major_axes"][1] != R("a1_old"):
                dirty.add("n")
            if sync and "n" in dirty:
                om, n_now = world._attrs.get("_spin_frequency"), orbit._attrs["_orbital_frequencies"][1]
                same = sp.simplify(sp.sympify(om) - sp.sympify(n_now)) == 0
                ground(b, f"{mfn.key}::ensures:spin_follows_orbit{tag}", mfn.key, "a world forced into synchronous rotation has spin frequency == orbital frequency after the call changed the orbital frequency "
                       "(whichever of period / frequency / semi-major axis addressed it, through the world or through the orbit)", bool(same),
                       detail=f"spin {om}; orbital frequency {n_now}", refuted_model=None if same else dict(spin=str(om), orbital_frequency=str(n_now)))
            ground(b, f"{mfn.key}::writes{tag}", mfn.key, f"the setter writes the state components it is about ({sorted(expect_dirty)}" + (" plus the spin rate when spin-synchronous)" if sync else ")"),
                   expect_dirty <= dirty, detail=f"written: {sorted(dirty)}")
            last = rec[-1] if rec else None
            def covered(k):
                if not last:
                    return False
                if k == "Om":      # the spin rate is covered by either frequency flag (contract of TidesBase.orbit_spin_changed)
                    return last.get("spin_freq_changed") is True or last.get("orbital_freq_changed") is True
                return last.get(flagname[k]) is True
            missing = [k for k in sorted(dirty) if not covered(k)]
            ground(b, f"{mfn.key}::ensures:flags_cover_writes{tag}", mfn.key,
                   "ensures tides.orbit_spin_changed is finally called with a True flag for every state component written during this call (a False flag is justified only by an untouched component)",
                   last is not None and not missing, detail=f"written {sorted(dirty)}; calls {rec}", refuted_model=None if (last is not None and not missing) else {"unflagged": missing})
    # TidalWorld.orbit_spin_changed forwards the four flags one-to-one
    c, node = tidal.lookup("methods", "orbit_spin_changed")
    calls_ = [x for x in ast.walk(node) if isinstance(x, ast.Call) and ast.unparse(x.func) == "self.tides.orbit_spin_changed"]
    ok = len(calls_) == 1 and {k.arg: ast.unparse(k.value) for k in calls_[0].keywords} == dict(eccentricity_change="eccentricity_changed", obliquity_change="obliquity_changed",
                                                                                                 orbital_freq_changed="orbital_freq_changed", spin_freq_changed="spin_freq_changed")
    structural(b, f"{FWT}::TidalWorld.orbit_spin_changed::forwards", f"{FWT}::TidalWorld.orbit_spin_changed", "the world forwards its four change flags to the tides object unchanged",
               "ok" if ok else ("wrong" if len(calls_) == 1 else "unknown"), detail=str([ast.unparse(c_) for c_ in calls_])[:300])


def fixed_parameters(b):
    """GlobalApproxTides: after set_fixed_q / set_fixed_dt the stored CPL / CTL Love numbers that collapse_modes reads are the ones of the CURRENT
    fixed parameters (ghost model: the helper functions are uninterpreted functions of their arguments).  Coherence is checked at the moment
    collapse_modes is called and at exit."""
    FG = "TidalPy/tides/methods/global_approx.py"
    base = ClassModel("TidesBase", FT)
    cls = ClassModel("GlobalApproxTides", FG, bases=[base])
    CPL, CTL, GET = sp.Function("CPL_love"), sp.Function("CTL_love"), sp.Function("ctl_inputs_of")
    FRQ, k2 = R("unique_tidal_frequencies_obj"), R("fixed_k2")
    q0, q1, dt0, dt1, METH = R("q_old"), R("q_new"), R("dt_old"), R("dt_new"), R("ctl_method_obj")
    for setter, arg in (("set_fixed_q", "fixed_q"), ("set_fixed_dt", "fixed_dt")):
        for ctl in (False, True):
            c, node = cls.lookup("methods", setter)
            if node is None:
                b.subset_exits.append(f"{FG}::GlobalApproxTides.{setter}: not found")
                continue
            mfn = MethodFn(c, node)
            b.functions[mfn.key] = mfn.info()
            seen = []
            o = Obj(cls, _use_ctl=ctl, _fixed_q=q0, _fixed_dt=dt0, _fixed_k2=k2, _unique_tidal_frequencies=FRQ, _ctl_calc_method=METH,
                    _cpl_complex_love_by_unique_freq=CPL(FRQ, k2, q0), _ctl_complex_love_by_unique_freq=CTL(FRQ, k2, METH, GET(q0, dt0)),
                    _tidal_terms_by_frequency=R("terms_obj"), _need_to_collapse_modes=False, _new_tidal_frequencies=False)
            o.setattr("_ctl_calc_input_getter", lambda ex, node, *a_: GET(sp.sympify(o._attrs["_fixed_q"]), sp.sympify(o._attrs["_fixed_dt"])))

            def collapse(self_, *a_, **k_):
                seen.append((self_._attrs.get("_cpl_complex_love_by_unique_freq"), self_._attrs.get("_ctl_complex_love_by_unique_freq")))
                return None
            genv = dict(cpl_neg_imk_helper_func=lambda ex, node, f_, k_, q_: CPL(sp.sympify(f_), sp.sympify(k_), sp.sympify(q_)),
                        ctl_neg_imk_helper_func=lambda ex, node, f_, k_, m_, inp: CTL(sp.sympify(f_), sp.sympify(k_), sp.sympify(m_), sp.sympify(inp)))
            ex = Exec(mfn, globals_env=genv, contracts={".collapse_modes": Contract(".collapse_modes", None, None, result=collapse)}, opts=dict(definedness=False))
            new = q1 if arg == "fixed_q" else dt1
            try:
                paths = ex.run({"self": o, arg: new, "run_updates": True})
            except SymExError as e:
                b.subset_exits.append(f"{mfn.key} [ctl={int(ctl)}]: {e}")
                continue
            tag = f"[use_ctl={int(ctl)}]"
            if len(paths) != 1 or paths[0].outcome != "return":
                b.subset_exits.append(f"{mfn.key} {tag}: {[p.outcome for p in paths]}")
                continue
            qn = q1 if arg == "fixed_q" else q0
            dn = dt1 if arg == "fixed_dt" else dt0
            want = CTL(FRQ, k2, METH, GET(qn, dn)) if ctl else CPL(FRQ, k2, qn)
            fld = "_ctl_complex_love_by_unique_freq" if ctl else "_cpl_complex_love_by_unique_freq"
            at_call = [(x[1] if ctl else x[0]) for x in seen]
            ok_call = bool(seen) and all(v == want for v in at_call)
            ok_exit = o._attrs.get(fld) == want
            relevant = (ctl) or (arg == "fixed_q")          # fixed_dt does not enter the CPL law
            if not relevant:
                ok_call = ok_exit = True
            ground(b, f"{mfn.key}::ensures:love_numbers_current{tag}", mfn.key,
                   f"after {setter} the {'CTL' if ctl else 'CPL'} Love numbers that collapse_modes reads are those of the CURRENT fixed parameters (recomputed before the modes are collapsed)",
                   ok_call and ok_exit, detail=f"collapse_modes called {len(seen)} time(s); love at call {str(at_call)[:120]}; wanted {want}",
                   refuted_model=None if (ok_call and ok_exit) else dict(stored=str(o._attrs.get(fld)), wanted=str(want)))


def strength_cache(b):
    """representation invariant of the strength cache the complex compliances are built from: after every writer of (post-melt shear modulus,
    post-melt compliance) the two agree, compliance * shear == 1; and the rheology is told that the strength changed after the store.
    Writers: Rheology.set_state (manual override) and PartialMelt._calculate (temperature-driven)."""
    FRH, FPM = "TidalPy/rheology/rheology.py", "TidalPy/rheology/partial_melt/partialmelt.py"
    mu_old, J_old, eta_old, mu_new, eta_new = R("shear_before"), R("compliance_before"), R("viscosity_before"), R("shear_given"), R("viscosity_given")
    pre = [sp.Gt(x_, 0) for x_ in (mu_old, J_old, eta_old, mu_new, eta_new)] + [sp.Eq(mu_old * J_old, 1)]
    try:
        cls = ClassModel("Rheology", FRH)
    except ExtractError as e:
        b.subset_exits.append(str(e))
        return
    c, node = cls.lookup("methods", "set_state")
    if node is None:
        b.subset_exits.append(f"{FRH}::Rheology.set_state: method not found")
    else:
        mfn = MethodFn(c, node)
        b.functions[mfn.key] = mfn.info()
        for give_mu, give_eta in ((True, True), (True, False), (False, True)):
            pm = Obj(None, _postmelt_viscosity=eta_old, _postmelt_shear_modulus=mu_old, _postmelt_compliance=J_old)
            seen = []

            def changed(ex, node_, *a_, **k_):
                seen.append((pm._attrs["_postmelt_shear_modulus"], pm._attrs["_postmelt_compliance"], pm._attrs["_postmelt_viscosity"]))
                return None
            o = Obj(cls, _partial_melting_model=pm, _viscosity_model=Obj(None, _viscosity=R("premelt_visc")), _liquid_viscosity_model=Obj(None, _viscosity=R("liquid_visc")),
                    viscosity=eta_old, shear_modulus=mu_old, strength_changed=changed)
            genv = dict(TidalPy=Namespace("TidalPy", dict(extensive_checks=False)), MissingArgumentError="MissingArgumentError", UnusualRealValueError="UnusualRealValueError")
            ex = Exec(mfn, pre=pre, globals_env=genv, contracts={}, opts=dict(definedness=True))
            tag = f"[shear={int(give_mu)};viscosity={int(give_eta)}]"
            try:
                paths = ex.run({"self": o, "viscosity": eta_new if give_eta else None, "shear_modulus": mu_new if give_mu else None})
            except SymExError as e:
                b.subset_exits.append(f"{mfn.key} {tag}: {e}")
                continue
            b.absorb_exec(ex)
            if len(paths) != 1 or paths[0].outcome != "return":
                b.subset_exits.append(f"{mfn.key} {tag}: {[p_.outcome for p_ in paths]}")
                continue
            mu_n, J_n, eta_n = pm._attrs["_postmelt_shear_modulus"], pm._attrs["_postmelt_compliance"], pm._attrs["_postmelt_viscosity"]
            b.add(Obligation(oid=f"{mfn.key}::invariant:compliance_is_reciprocal_shear{tag}", fn=mfn.key,
                             clause="invariant kept: post-melt compliance * post-melt shear modulus == 1 (the compliances and the Love numbers are built from the compliance, the collapse from the shear modulus)",
                             goal=sp.Eq(sp.sympify(J_n) * sp.sympify(mu_n), 1), hyps=pre + paths[0].hyps, meta=dict(shear=str(mu_n), compliance=str(J_n))))
            b.add(Obligation(oid=f"{mfn.key}::ensures:stores_given{tag}", fn=mfn.key, clause="ensures the given strength values are the stored ones, the others are kept",
                             goal=sp.And(sp.Eq(sp.sympify(mu_n), mu_new if give_mu else mu_old), sp.Eq(sp.sympify(eta_n), eta_new if give_eta else eta_old)), hyps=pre + paths[0].hyps))
            ok = len(seen) >= 1 and all(sp.simplify(sp.sympify(x_[0]) - sp.sympify(mu_n)) == 0 and sp.simplify(sp.sympify(x_[1]) - sp.sympify(J_n)) == 0 and sp.simplify(sp.sympify(x_[2]) - sp.sympify(eta_n)) == 0 for x_ in seen[-1:])
            ground(b, f"{mfn.key}::ensures:notifies_after_store{tag}", mfn.key, "strength_changed() is called, and it sees the final stored values (compliances are recomputed from them)", ok, detail=f"{len(seen)} call(s): {seen[-1:]}")
    # temperature-driven writer
    try:
        fn = Fn(FPM, "PartialMelt._calculate")
    except ExtractError as e:
        b.subset_exits.append(str(e))
        return
    b.add_fn(fn)
    tail = [s_ for s_ in fn.node.body if isinstance(s_, ast.Assign) and any("_postmelt_" in ast.unparse(t_) or "_melt_fraction" in ast.unparse(t_) for t_ in s_.targets)]
    if not tail:
        b.subset_exits.append(f"{fn.key}: stores of the post-melt values not found")
        return
    pm = Obj(None, _postmelt_viscosity=eta_old, _postmelt_shear_modulus=mu_old, _postmelt_compliance=J_old, _melt_fraction=R("melt_before"))
    fr, ex, paths = run_fragment(b, fn, tail, "stores", dict(self=pm, melt_fraction=R("melt_new"), postmelt_viscosity=eta_new, postmelt_shear_modulus=mu_new), pre)
    if paths and len(paths) == 1:
        b.add(Obligation(oid=f"{fn.key}::invariant:compliance_is_reciprocal_shear", fn=fn.key, clause="invariant kept by the temperature-driven update: compliance * shear modulus == 1, and the new shear modulus is the stored one",
                         goal=sp.And(sp.Eq(sp.sympify(pm._attrs["_postmelt_compliance"]) * sp.sympify(pm._attrs["_postmelt_shear_modulus"]), 1), sp.Eq(sp.sympify(pm._attrs["_postmelt_shear_modulus"]), mu_new),
                                     sp.Eq(sp.sympify(pm._attrs["_postmelt_viscosity"]), eta_new)), hyps=pre + paths[0].hyps))


def notification(b):
    """TidalWorld.dissipation_changed: a change of a world's dissipation reaches the orbit (whose derivatives da/dt, de/dt, dn/dt depend on the
    dissipation of BOTH the tidal bodies and the tidal host), whatever role the world has in the orbit."""
    base = ClassModel("BaseWorld", FWB, bases=[ClassModel("PhysicalObjSpherical", FPH)])
    cls = ClassModel("TidalWorld", FWT, bases=[base])
    c, node = cls.lookup("methods", "dissipation_changed")
    if node is None:
        b.subset_exits.append(f"{FWT}::TidalWorld.dissipation_changed: method not found")
        return
    mfn = MethodFn(c, node)
    b.functions[mfn.key] = mfn.info()
    for role in ("tidal_body", "tidal_host", "star_host"):
        told = []
        orbit = Obj(None, dissipation_changed=(lambda ex, node_, *a_, **k_: told.append(a_)))
        w = Obj(cls, _orbit=orbit, orbit=orbit, world_class="layered", internal_heating_changed=(lambda ex, node_, *a_, **k_: None), name="w")
        other = Obj(None, name="other")
        orbit.setattr("tidal_host", w if role != "tidal_body" else other)
        orbit.setattr("star", w if role == "star_host" else other)
        orbit.setattr("tidal_objects", [w, other] if role != "tidal_body" else [other, w])
        orbit.setattr("star_host", role == "star_host")
        ex = Exec(mfn, globals_env={}, contracts={}, opts=dict(definedness=False))
        try:
            paths = ex.run({"self": w})
        except SymExError as e:
            b.subset_exits.append(f"{mfn.key} [{role}]: {e}")
            continue
        rets = [p_ for p_ in paths if p_.outcome == "return"]
        if len(paths) != 1 or len(rets) != 1:
            b.subset_exits.append(f"{mfn.key} [{role}]: {[p_.outcome for p_ in paths]}")
            continue
        ground(b, f"{mfn.key}::ensures:orbit_is_told[{role}]", mfn.key, "ensures (world has an orbit) orbit.dissipation_changed(self) is called: the orbit's derivatives are refreshed for a change of this world's dissipation",
               len(told) == 1 and len(told[0]) == 1 and told[0][0] is w, detail=f"calls: {len(told)}", refuted_model=None if len(told) == 1 else dict(role=role, calls=len(told)))


def cascade(b):
    """the change-flag cascade of the statement (temperature -> viscosity / melt -> strength -> complex compliances -> world -> tides; tidal frequencies ->
    layers -> rheology -> compliances -> world -> tides): every link, executed from the real source on an object with recording stubs for its
    neighbours, calls the next link - in the order the data flow needs, with the collapse flag forwarded unchanged.  (A dropped or re-ordered link
    leaves every later object with values of the previous state.)"""
    FRH, FLP, FLB, FWL = "TidalPy/rheology/rheology.py", "TidalPy/structures/layers/physics.py", "TidalPy/structures/layers/basic.py", "TidalPy/structures/world_types/layered.py"
    flag = R("collapse_flag_token")

    def spy(rec, name, ret=None):
        def f(ex, node_, *a_, **k_):
            rec.append((name, tuple(a_), dict(k_)))
            return ret
        return f

    def run(cls, method, mk, args, label, expect, clause):
        c, node = cls.lookup("methods", method)
        key0 = f"{cls.relpath}::{cls.name}.{method}"
        if node is None:
            b.subset_exits.append(f"{key0}: method not found")
            return
        mfn = MethodFn(c, node)
        b.functions[mfn.key] = mfn.info()
        rec = []
        o = mk(rec)
        ex = Exec(mfn, globals_env={}, contracts={}, opts=dict(definedness=False))
        try:
            paths = ex.run(dict(args, self=o))
        except SymExError as e:
            b.subset_exits.append(f"{mfn.key} [{label}]: {e}")
            return
        if len(paths) != 1 or paths[0].outcome != "return":
            b.subset_exits.append(f"{mfn.key} [{label}]: {[p_.outcome for p_ in paths]}")
            return
        got = [(n_, a_, k_) for n_, a_, k_ in rec]
        ok = len(got) == len(expect) and all(g_[0] == e_[0] and (e_[1] is None or (list(g_[1]) + [g_[2].get("collapse_tidal_modes", True)])[0:1] == [e_[1]]) for g_, e_ in zip(got, expect))
        ground(b, f"{mfn.key}::ensures:next_link[{label}]", mfn.key, clause, ok, detail=f"calls: {[(g_[0], g_[1], g_[2]) for g_ in got]}; expected {expect}",
               refuted_model=None if ok else dict(calls=str([g_[0] for g_ in got]), expected=str([e_[0] for e_ in expect])))

    try:
        rheo = ClassModel("Rheology", FRH)
        layer_base = ClassModel("LayerBase", FLB, bases=[ClassModel("PhysicalObjSpherical", FPH)])
        layer = ClassModel("PhysicsLayer", FLP, bases=[layer_base])
        base = ClassModel("BaseWorld", FWB, bases=[ClassModel("PhysicalObjSpherical", FPH)])
        tidal = ClassModel("TidalWorld", FWT, bases=[base])
        layered = ClassModel("LayeredWorld", FWL, bases=[tidal])
    except ExtractError as e:
        b.subset_exits.append(str(e))
        return

    def mk_rheo(rec, **over):
        lay = Obj(None, temperature=R("T_layer"), is_tidal=True, is_top_layer=over.pop("is_top_layer", True), layer_index=sp.Integer(0 if over.pop("bottom", True) else 1), complex_compliances_changed=spy(rec, "layer.complex_compliances_changed"), name="layer")
        at = dict(layer=lay, viscosity=R("eta"), shear_modulus=R("mu"), unique_tidal_frequencies=R("freqs"), complex_compliances=R("J"),
                  viscosity_model=Obj(None, calculate=spy(rec, "viscosity_model.calculate")), liquid_viscosity_model=Obj(None, calculate=spy(rec, "liquid_viscosity_model.calculate")),
                  partial_melting_model=Obj(None, calculate=spy(rec, "partial_melting_model.calculate")), complex_compliance_model=Obj(None, calculate=spy(rec, "complex_compliance_model.calculate")),
                  strength_changed=spy(rec, "self.strength_changed"), complex_compliances_changed=spy(rec, "self.complex_compliances_changed"))
        at.update(over)
        return Obj(rheo, **at)
    run(rheo, "temperature_pressure_changed", lambda rec: mk_rheo(rec), {}, "all models",
        [("viscosity_model.calculate", None), ("liquid_viscosity_model.calculate", None), ("partial_melting_model.calculate", None), ("self.strength_changed", None)],
        "ensures (layer has a temperature) solid and liquid viscosities are recalculated, THEN the partial melt (which reads them), THEN strength_changed()")
    run(rheo, "strength_changed", lambda rec: mk_rheo(rec), {}, "strength set",
        [("complex_compliance_model.calculate", None), ("self.complex_compliances_changed", None)],
        "ensures (viscosity and shear modulus set) the complex compliances are recalculated, THEN complex_compliances_changed()")
    # a single layer's strength update is a complete update: the collapse of the tidal modes must not be deferred to some other layer's update
    for top_, bottom_ in ((True, False), (False, True), (False, False)):
        run(rheo, "strength_changed", lambda rec, t_=top_, b_=bottom_: mk_rheo(rec, is_top_layer=t_, bottom=b_), {}, f"strength set;top={int(top_)};bottom={int(bottom_)}",
            [("complex_compliance_model.calculate", None), ("self.complex_compliances_changed", True)],
            "ensures the collapse of the tidal modes is requested (collapse_tidal_modes True) whichever layer's strength changed")
    for fl in (True, False):
        run(rheo, "tidal_frequencies_changed", lambda rec: mk_rheo(rec), dict(collapse_tidal_modes=fl), f"collapse={int(fl)}",
            [("complex_compliance_model.calculate", None), ("self.complex_compliances_changed", fl)],
            "ensures (tidal layer with frequencies) compliances are recalculated, THEN complex_compliances_changed(collapse_tidal_modes=<the caller's flag>)")
        run(rheo, "complex_compliances_changed", lambda rec: mk_rheo(rec), dict(collapse_tidal_modes=fl), f"collapse={int(fl)}",
            [("layer.complex_compliances_changed", fl)], "ensures (compliances set) the layer is told, with the caller's collapse flag")

    def mk_layer(rec):
        rh = Obj(None, temperature_pressure_changed=spy(rec, "rheology.temperature_pressure_changed"), strength_changed=spy(rec, "rheology.strength_changed"),
                 tidal_frequencies_changed=spy(rec, "rheology.tidal_frequencies_changed"))
        wd = Obj(None, complex_compliances_changed=spy(rec, "world.complex_compliances_changed"), name="world")
        return Obj(layer, rheology=rh, world=wd, name="layer")
    run(layer, "temperature_pressure_changed", mk_layer, {}, "layer", [("rheology.temperature_pressure_changed", None)], "ensures the layer's rheology is told that temperature / pressure changed")
    run(layer, "strength_changed", mk_layer, {}, "layer", [("rheology.strength_changed", None)], "ensures the layer's rheology is told that the strength changed")
    for fl in (True, False):
        run(layer, "tidal_frequencies_changed", mk_layer, dict(collapse_tidal_modes=fl), f"collapse={int(fl)}", [("rheology.tidal_frequencies_changed", fl)],
            "ensures the layer's rheology is told that the tidal frequencies changed, with the caller's collapse flag")
        run(layer, "complex_compliances_changed", mk_layer, dict(collapse_tidal_modes=fl), f"collapse={int(fl)}", [("world.complex_compliances_changed", fl)],
            "ensures the world is told that a layer's complex compliances changed, with the caller's collapse flag")

        def mk_world(rec):
            return Obj(layered, tides=Obj(None, complex_compliances_changed=spy(rec, "tides.complex_compliances_changed")), name="world")
        run(layered, "complex_compliances_changed", mk_world, dict(collapse_tidal_modes=fl), f"collapse={int(fl)}", [("tides.complex_compliances_changed", fl)],
            "ensures (world has a tides model) the tides model is told that complex compliances changed, with the caller's collapse flag")

    # last link: the layered tides model collapses the modes when (and only when) the caller's flag says so
    try:
        ltides = ClassModel("LayeredTides", "TidalPy/tides/methods/layered.py", bases=[ClassModel("TidesBase", FT)])
        for fl in (True, False):
            run(ltides, "complex_compliances_changed", lambda rec: Obj(ltides, collapse_modes=spy(rec, "self.collapse_modes"), name="tides"), dict(collapse_tidal_modes=fl), f"collapse={int(fl)}",
                [("self.collapse_modes", None)] if fl else [], "ensures the modes are collapsed iff collapse_tidal_modes is true (a frequency update passes False per layer and collapses once at the end)")
    except ExtractError as e:
        b.subset_exits.append(str(e))
    # every model's calculate(): the live inputs (viscosity, compliance, temperature ... of the layer NOW) are re-read before the model function runs
    try:
        mh = ClassModel("ModelHolder", "TidalPy/utilities/classes/model/model.py")
        c, node = mh.lookup("methods", "calculate")
        if node is not None:
            mfn = MethodFn(c, node)
            b.functions[mfn.key] = mfn.info()
            seen = []
            new_live = (R("live_now_0"), R("live_now_1"))
            o = Obj(mh, _live_inputs=(R("live_old_0"), R("live_old_1")), get_live_args=(lambda ex, node_: new_live), name="model")
            o.setattr("_calc_to_use", lambda ex, node_, *a_, **k_: (seen.append(o._attrs["_live_inputs"]), R("model_result"))[1])
            ex = Exec(mfn, globals_env=dict(AttributeNotSetError="AttributeNotSetError"), contracts={}, opts=dict(definedness=False))
            paths = ex.run({"self": o})
            rets = [p_ for p_ in paths if p_.outcome == "return"]
            ok = len(rets) == 1 and len(seen) == 1 and tuple(seen[0]) == new_live and rets[0].value == R("model_result")
            ground(b, f"{mfn.key}::ensures:live_inputs_refreshed", mfn.key, "ensures the live inputs are re-read (get_live_args) BEFORE the model's calculation runs, and its result is returned", ok, detail=f"live inputs seen by the calculation: {seen}")
    except (ExtractError, SymExError) as e:
        b.subset_exits.append(f"ModelHolder.calculate: {e}")
    # entry links: the layer's temperature / pressure / strength setters start the cascade
    Tn, Pn, eta_n, mu_n = R("T_given"), R("P_given"), R("eta_given"), R("mu_given")

    def mk_layer2(rec):
        rh = Obj(None, set_state=spy(rec, "rheology.set_state"))
        return Obj(layer, rheology=rh, name="layer", _temperature=R("T_old"), _pressure=R("P_old"), temperature_pressure_changed=spy(rec, "self.temperature_pressure_changed"))
    for meth, arg, val, field in (("set_temperature", "temperature", Tn, "_temperature"), ("set_pressure", "pressure", Pn, "_pressure")):
        c, node = layer.lookup("methods", meth)
        if node is None:
            b.subset_exits.append(f"{FLP}::PhysicsLayer.{meth}: method not found")
            continue
        mfn = MethodFn(c, node)
        b.functions[mfn.key] = mfn.info()
        seen = []
        o = mk_layer2([])
        o.setattr("temperature_pressure_changed", lambda ex, node_, *a_, **k_: seen.append(o._attrs[field]))
        ex = Exec(mfn, globals_env={}, contracts={}, opts=dict(definedness=False))
        try:
            paths = ex.run({"self": o, arg: val})
        except SymExError as e:
            b.subset_exits.append(f"{mfn.key}: {e}")
            continue
        ok = len(paths) == 1 and paths[0].outcome == "return" and (o._attrs[field] is val or o._attrs[field] == val) and len(seen) == 1 and (seen[0] is val or seen[0] == val)
        ground(b, f"{mfn.key}::ensures:stores_then_notifies", mfn.key, f"ensures the new {arg} is stored and temperature_pressure_changed() is called once, after the store", ok, detail=f"stored {o._attrs[field]}; seen at the call {seen}")
    c, node = layer.lookup("methods", "set_strength")
    if node is not None:
        mfn = MethodFn(c, node)
        b.functions[mfn.key] = mfn.info()
        rec = []
        o = mk_layer2(rec)
        ex = Exec(mfn, globals_env={}, contracts={}, opts=dict(definedness=False))
        try:
            paths = ex.run({"self": o, "viscosity": eta_n, "shear_modulus": mu_n})
            ok = len(paths) == 1 and paths[0].outcome == "return" and len(rec) == 1 and rec[0][0] == "rheology.set_state"
            if ok:
                bound = dict(zip(("viscosity", "shear_modulus"), rec[0][1]), **rec[0][2])
                ok = (bound.get("viscosity") is eta_n) and (bound.get("shear_modulus") is mu_n)
            ground(b, f"{mfn.key}::ensures:forwards_strength", mfn.key, "ensures rheology.set_state receives (viscosity, shear_modulus) under their own names", ok, detail=str(rec)[:200])
        except SymExError as e:
            b.subset_exits.append(f"{mfn.key}: {e}")


def orbit_derivatives(b):
    """PhysicsOrbit: the stored da/dt, de/dt, dn/dt of a tidal body are the functional API (single / dual semia_eccen_derivatives) evaluated at the
    orbit's CURRENT a, n, e and at the CURRENT masses and potential derivatives of the right bodies - whoever's dissipation changed (the body, or the
    tidal host whose tide raiser it is) - and dn/dt = -(3/2)(n/a) da/dt.  Executed from the real source with recording stubs for the two functions."""
    FPO = "TidalPy/structures/orbit/physics.py"
    try:
        base = ClassModel("OrbitBase", FO)
        cls = ClassModel("PhysicsOrbit", FPO, bases=[base])
    except ExtractError as e:
        b.subset_exits.append(str(e))
        return
    genv = dict(all_world_types="WORLD_TYPES", BadWorldSignature="BadWorldSignature", BadWorldSignatureType="BadWorldSignatureType", TidalPyOrbitError="TidalPyOrbitError")
    for host_active, body_active, body_is_raiser, changed in ((False, True, True, "body"), (True, True, True, "body"), (True, True, True, "host"), (True, False, True, "host"), (True, True, False, "body"), (False, True, False, "body")):
        rec = []

        def mk_world(nm, active):
            return Obj(None, name=nm, mass=R(nm + "_mass"), tides_on=True, tides=("TIDES" if active else None), dUdM=(R(nm + "_dUdM") if active else None), dUdw=(R(nm + "_dUdw") if active else None),
                       dUdO=(R(nm + "_dUdO") if active else None))
        host, body, other = mk_world("host", host_active), mk_world("body", body_active), mk_world("other", False)
        worlds = [host, body, other]
        slot = 1
        a_, n_, e_ = [[R(f"{q}{i}") for i in range(3)] for q in ("a", "n", "e")]
        o = Obj(cls, _semi_major_axes=list(a_), _orbital_frequencies=list(n_), _orbital_periods=[R(f"P{i}") for i in range(3)], _eccentricities=list(e_), _tidal_objects=worlds, _tidal_host=host,
                _star=Obj(None, name="star", mass=R("star_mass")), _host_tide_raiser=(body if body_is_raiser else other), _star_host=False,
                _all_tidal_world_orbit_index_by_instance={body: sp.Integer(1), other: sp.Integer(2)}, _all_tidal_world_orbit_index_by_name={"body": sp.Integer(1), "other": sp.Integer(2)},
                _eccentricity_time_derivatives=[R(f"de_old{i}") for i in range(3)], _semi_major_axis_time_derivatives=[R(f"da_old{i}") for i in range(3)],
                _orbital_motion_time_derivatives=[R(f"dn_old{i}") for i in range(3)], _last_calc_used_dual_body=None)
        da_s, de_s = R("da_from_single"), R("de_from_single")
        da_d, de_d = R("da_from_dual"), R("de_from_dual")

        def single(ex, node_, *a__, **k__):
            rec.append(("single", tuple(a__), dict(k__)))
            return (da_s, de_s)

        def dual(ex, node_, *a__, **k__):
            rec.append(("dual", tuple(a__), dict(k__)))
            return (da_d, de_d)
        c, node = cls.lookup("methods", "dissipation_changed")
        if node is None:
            b.subset_exits.append(f"{FPO}::PhysicsOrbit.dissipation_changed: method not found")
            return
        mfn = MethodFn(c, node)
        b.functions[mfn.key] = mfn.info()
        ex = Exec(mfn, globals_env=dict(genv, semia_eccen_derivatives=single, semia_eccen_derivatives_dual=dual), contracts={}, opts=dict(definedness=False, max_recursion=4))
        label = f"host_active={int(host_active)};body_active={int(body_active)};body_is_tide_raiser={int(body_is_raiser)};changed={changed}"
        try:
            paths = ex.run({"self": o, "world_signature": host if changed == "host" else body})
        except SymExError as e:
            b.subset_exits.append(f"{mfn.key} [{label}]: {e}")
            continue
        for f_ in ex.called:
            b.functions.setdefault(f_, dict(function=f_, note="executed inline from the real class source"))
        if len(paths) != 1 or paths[0].outcome != "return":
            b.subset_exits.append(f"{mfn.key} [{label}]: {[p_.outcome for p_ in paths]}")
            continue
        # expected call
        host_counts = host_active and body_is_raiser
        if host_counts and body_active:
            want = ("dual", (a_[slot], n_[slot], e_[slot], host._attrs["mass"], host._attrs["dUdM"], host._attrs["dUdw"], body._attrs["mass"], body._attrs["dUdM"], body._attrs["dUdw"]))
            da, de = da_d, de_d
        elif host_counts:
            want = ("single", (a_[slot], n_[slot], e_[slot], host._attrs["mass"], host._attrs["dUdM"], host._attrs["dUdw"], body._attrs["mass"]))
            da, de = da_s, de_s
        elif body_active:
            want = ("single", (a_[slot], n_[slot], e_[slot], body._attrs["mass"], body._attrs["dUdM"], body._attrs["dUdw"], host._attrs["mass"]))
            da, de = da_s, de_s
        else:
            want = None
        if changed == "host" and not body_is_raiser:
            continue
        A, E, N = o._attrs["_semi_major_axis_time_derivatives"], o._attrs["_eccentricity_time_derivatives"], o._attrs["_orbital_motion_time_derivatives"]
        if want is None:
            ok = not rec and A[slot] is None and E[slot] is None and N[slot] is None
            ground(b, f"{mfn.key}::ensures:derivatives_current[{label}]", mfn.key, "ensures (no active tides) the stored derivatives of the slot are cleared, not left at values of an earlier state", ok, detail=f"{rec} {A[slot]} {E[slot]} {N[slot]}")
            continue
        args_ok = len(rec) == 1 and rec[0][0] == want[0] and not rec[0][2] and len(rec[0][1]) == len(want[1]) and all(x_ is y_ or x_ == y_ for x_, y_ in zip(rec[0][1], want[1]))
        ground(b, f"{mfn.key}::ensures:functional_api_arguments[{label}]", mfn.key,
               "ensures the single / dual derivative function is evaluated once, at the orbit's current (a, n, e) of the body's slot and the current (mass, dU/dM, dU/dw) of the active body first (dual: host, then body) and the other body's mass",
               args_ok, detail=f"called {[(r_[0], [str(x_) for x_ in r_[1]]) for r_ in rec]}; expected {want[0]} {[str(x_) for x_ in want[1]]}"[:500],
               refuted_model=None if args_ok else dict(called=str([(r_[0], [str(x_) for x_ in r_[1]]) for r_ in rec])[:300], expected=str((want[0], [str(x_) for x_ in want[1]]))[:300]))
        stored = sp.And(sp.Eq(sp.sympify(A[slot]), da), sp.Eq(sp.sympify(E[slot]), de), sp.Eq(sp.sympify(N[slot]), -sp.Rational(3, 2) * (n_[slot] / a_[slot]) * da)) if all(x_ is not None for x_ in (A[slot], E[slot], N[slot])) else sp.false
        b.add(Obligation(oid=f"{mfn.key}::ensures:derivatives_current[{label}]", fn=mfn.key, clause="ensures the slot stores the returned da/dt, de/dt and dn/dt == -(3/2)(n/a) da/dt; other slots untouched",
                         goal=sp.And(stored, *[sp.Eq(sp.sympify(X[j]), sp.Symbol(f"{q}_old{j}", real=True)) for X, q in ((A, "da"), (E, "de"), (N, "dn")) for j in (0, 2)]), hyps=[sp.Gt(a_[slot], 0)] + paths[0].hyps))


def global_collapse(b):
    """GlobalApproxTides.collapse_modes (the CPL / CTL world's last link): the mode collapse is evaluated at the world's CURRENT (g, R, rho, scale), the host's
    current mass, the current susceptibility, Love numbers and tidal terms; its outputs are stored under their own names; and the world is told AFTER the
    store (the orbit then reads the new dU/dM, dU/dw)."""
    FG = "TidalPy/tides/methods/global_approx.py"
    try:
        base = ClassModel("TidesBase", FT)
        cls = ClassModel("GlobalApproxTides", FG, bases=[base])
    except ExtractError as e:
        b.subset_exits.append(str(e))
        return
    c, node = cls.lookup("methods", "collapse_modes")
    if node is None:
        b.subset_exits.append(f"{FG}::GlobalApproxTides.collapse_modes: method not found")
        return
    mfn = MethodFn(c, node)
    b.functions[mfn.key] = mfn.info()
    rec, seen = [], []
    outs = tuple(R(f"collapse_out{i}") for i in range(7))
    fields = ("_tidal_heating_global", "_dUdM", "_dUdw", "_dUdO", "_global_love_by_orderl", "_global_negative_imk_by_orderl", "_effective_q_by_orderl")

    def collapse(ex, node_, *a_, **k_):
        rec.append((tuple(a_), dict(k_)))
        return outs
    world = Obj(None, name="world", tidal_scale=R("w_scale"), density_bulk=R("w_rho"), gravity_surface=R("w_g"), radius=R("w_R"), _open=True)
    o = Obj(cls, world=world, _world=world, tidal_host=Obj(None, name="host", mass=R("host_mass")), _tidal_susceptibility=R("chi_now"), _tidal_terms_by_frequency=R("terms_now"), _use_ctl=False,
            _cpl_complex_love_by_unique_freq=R("love_now"), _ctl_complex_love_by_unique_freq=R("love_ctl"), _max_tidal_order_lvl=sp.Integer(3), _collapse_modes_func=collapse, collapse_modes_func=collapse,
            _radius=R("w_R"), radius=R("w_R"), _need_to_collapse_modes=True, **{f_: R("old" + f_) for f_ in fields})
    world.setattr("dissipation_changed", lambda ex, node_, *a_, **k_: seen.append(tuple(o._attrs[f_] for f_ in fields)))
    ex = Exec(mfn, globals_env={}, contracts={}, opts=dict(definedness=False))
    try:
        paths = ex.run({"self": o})
    except SymExError as e:
        b.subset_exits.append(f"{mfn.key}: {e}")
        return
    if len(paths) != 1 or paths[0].outcome != "return":
        b.subset_exits.append(f"{mfn.key}: {[p_.outcome for p_ in paths]}")
        return
    want = (R("w_g"), R("w_R"), R("w_rho"), 1, R("w_scale"), R("host_mass"), R("chi_now"), R("love_now"), R("terms_now"), sp.Integer(3))
    ok_args = False
    if len(rec) == 1:
        a_, k_ = rec[0]
        names = ("gravity", "radius", "density", "shear_modulus", "tidal_scale", "tidal_host_mass", "tidal_susceptibility", "complex_compliance_by_frequency", "tidal_terms_by_frequency", "max_order_l")
        bound = dict(zip(names, a_), **k_)
        ok_args = all((bound.get(n_) is w_) or (bound.get(n_) == w_) for n_, w_ in zip(names, want)) and bound.get("cpl_ctl_method") is True
    ground(b, f"{mfn.key}::ensures:collapse_arguments", mfn.key, "ensures the collapse function is called once with the world's current (g, R, rho), unit shear modulus, scale, host mass, susceptibility, Love numbers, tidal terms, l_max and cpl_ctl_method=True",
           ok_args, detail=str(rec)[:400])
    stored = all(o._attrs[f_] is outs[i] or o._attrs[f_] == outs[i] for i, f_ in enumerate(fields))
    ground(b, f"{mfn.key}::ensures:outputs_stored", mfn.key, "ensures heating, dU/dM, dU/dw, dU/dO, Love numbers, -Im k and effective Q are stored under their own names", stored,
           detail=str({f_: str(o._attrs[f_]) for f_ in fields})[:400])
    told = len(seen) == 1 and all(x_ is y_ or x_ == y_ for x_, y_ in zip(seen[0], outs))
    ground(b, f"{mfn.key}::ensures:world_told_after_store", mfn.key, "ensures world.dissipation_changed() is called once, after the new values are stored (what the orbit reads at that moment is current)", told,
           detail=f"{len(seen)} call(s); values visible at the call: {[str(x_) for x_ in (seen[0] if seen else ())]}"[:400])
    ret = paths[0].value
    ground(b, f"{mfn.key}::ensures:returns_current", mfn.key, "ensures the method returns the stored heating and potential derivatives", isinstance(ret, tuple) and len(ret) == 4 and all(x_ is y_ or x_ == y_ for x_, y_ in zip(ret, outs[:4])), detail=str(ret)[:200])


def layered_collapse(b):
    """LayeredTides.collapse_modes, per-layer part: each tidally active layer's collapse is evaluated with THAT layer's shear modulus and complex
    compliances, the scale / radius / density / gravity its getters return NOW (world-level getters override the last three when present), the host's mass,
    the current susceptibility and tidal terms, and cpl_ctl_method=False; its outputs are stored under that layer's key; an inactive layer gets None."""
    rel = "TidalPy/tides/methods/layered.py"
    try:
        fn = Fn(rel, "LayeredTides.collapse_modes")
    except ExtractError as e:
        b.subset_exits.append(str(e))
        return
    loops = [n for n in ast.walk(fn.node) if isinstance(n, ast.For) and "_tidal_input_getters_by_layer" in ast.unparse(n.iter)]
    if len(loops) != 1:
        b.subset_exits.append(f"{fn.key}: per-layer loop not found ({len(loops)})")
        return
    loop = loops[0]
    parent = [n for n in ast.walk(fn.node) if hasattr(n, "body") and isinstance(getattr(n, "body"), list) and loop in n.body]
    if len(parent) != 1:
        b.subset_exits.append(f"{fn.key}: enclosing block of the per-layer loop not found")
        return
    body = parent[0].body
    stmts = body[:body.index(loop) + 1]
    for world_getters in (False, True):
        rec = []

        def mk_layer(nm, active=True):
            return Obj(None, name=nm, shear_modulus=R(nm + "_mu") if active else None, rheology=Obj(None, complex_compliances=(R(nm + "_J") if active else None)))
        L1, L2, L3 = mk_layer("core"), mk_layer("ocean"), mk_layer("mantle")
        getter = lambda v_: (lambda ex, node_: v_)
        inputs = {L1: (getter(R("core_scale")), getter(R("core_R")), getter(R("core_rho")), getter(R("core_g"))), L2: None,
                  L3: (getter(R("mantle_scale")), getter(R("mantle_R")), getter(R("mantle_rho")), getter(R("mantle_g")))}
        outs = {}

        def collapse(ex, node_, *a_, **k_):
            o_ = tuple(R(f"out{len(rec)}_{i}") for i in range(7))
            rec.append((tuple(a_), dict(k_), o_))
            return o_
        o = Obj(None, _tidal_input_getters_by_layer=inputs, _world_tidal_input_getters=((getter(R("world_R")), getter(R("world_rho")), getter(R("world_g"))) if world_getters else None),
                collapse_modes_func=collapse, tidal_host=Obj(None, mass=R("host_mass")), tidal_susceptibility=R("chi_now"), tidal_terms_by_frequency=R("terms_now"), max_tidal_order_lvl=sp.Integer(2),
                _effective_q_by_orderl=None, _global_negative_imk_by_orderl=None, _global_love_by_orderl=None)
        fr, ex, paths = run_fragment(b, fn, stmts, f"per_layer[world_getters={int(world_getters)}]", dict(self=o), [], opts=dict(definedness=False))
        if not paths:
            continue
        if len(paths) != 1:
            b.subset_exits.append(f"{fr.key}: {len(paths)} paths")
            continue
        env = paths[0].env
        tag = f"[world_getters={int(world_getters)}]"
        ok_calls = len(rec) == 2
        detail = ""
        if ok_calls:
            for (a_, k_, o_), L, nm in zip(rec, (L1, L3), ("core", "mantle")):
                names = ("gravity", "radius", "density", "shear_modulus", "tidal_scale", "tidal_host_mass", "tidal_susceptibility", "complex_compliance_by_frequency", "tidal_terms_by_frequency", "max_order_l")
                bound = dict(zip(names, a_), **k_)
                src = "world" if world_getters else nm
                want = dict(gravity=R(src + "_g"), radius=R(src + "_R"), density=R(src + "_rho"), shear_modulus=R(nm + "_mu"), tidal_scale=R(nm + "_scale"), tidal_host_mass=R("host_mass"), tidal_susceptibility=R("chi_now"),
                            complex_compliance_by_frequency=R(nm + "_J"), tidal_terms_by_frequency=R("terms_now"), max_order_l=sp.Integer(2), cpl_ctl_method=False)
                wrong = {k2: str(bound.get(k2)) for k2, v2 in want.items() if not (bound.get(k2) is v2 or bound.get(k2) == v2)}
                if wrong:
                    ok_calls = False
                    detail += f"{nm}: {wrong}; "
        else:
            detail = f"{len(rec)} calls"
        ground(b, f"{fn.key}::ensures:per_layer_arguments{tag}", fn.key, "ensures one collapse per tidally active layer, with that layer's own shear modulus, compliances and scale, the current radius / density / gravity from its (or the world's) getters, host mass, susceptibility, terms, cpl_ctl_method=False",
               ok_calls, detail=detail[:400], refuted_model=None if ok_calls else dict(wrong=detail[:300]))
        ok_store = ok_calls
        if ok_calls:
            for (a_, k_, o_), L in zip(rec, (L1, L3)):
                for dname, idx in (("tidal_heating_by_layer", 0), ("dUdM_by_layer", 1), ("dUdw_by_layer", 2), ("dUdO_by_layer", 3), ("neg_imk_by_layer", 5)):
                    d_ = env.get(dname)
                    if not (isinstance(d_, dict) and L in d_ and (d_[L] is o_[idx] or d_[L] == o_[idx])):
                        ok_store = False
                        detail += f"{dname}[{L._attrs['name']}] = {d_.get(L) if isinstance(d_, dict) else d_}; "
            for dname in ("tidal_heating_by_layer", "dUdM_by_layer", "dUdw_by_layer", "dUdO_by_layer"):
                d_ = env.get(dname)
                if not (isinstance(d_, dict) and L2 in d_ and d_[L2] is None):
                    ok_store = False
                    detail += f"{dname}[ocean] not None; "
        ground(b, f"{fn.key}::ensures:per_layer_stores{tag}", fn.key, "ensures each layer's heating, dU/dM, dU/dw, dU/dO and -Im k are stored under that layer's key; an inactive layer gets None", ok_store, detail=detail[:400])


def layered_getters(b):
    """LayeredTides.reinit: the per-layer input getters stored for the collapse return, for EVERY tidally active layer, that layer's own tidal scale,
    radius, bulk density and surface gravity (the real loop is executed; closures have Python's late-binding semantics)."""
    rel = "TidalPy/tides/methods/layered.py"
    try:
        fn = Fn(rel, "LayeredTides.reinit")
    except ExtractError as e:
        b.subset_exits.append(str(e))
        return
    loops = [n for n in ast.walk(fn.node) if isinstance(n, ast.For) and ast.unparse(n.iter) == "self.world" and "_tidal_input_getters_by_layer" in ast.unparse(n)]
    if len(loops) != 1:
        b.subset_exits.append(f"{fn.key}: getter loop not found ({len(loops)})")
        return

    def mk(nm, tidal):
        return Obj(None, name=nm, is_tidal=tidal, tidal_scale=R(nm + "_scale"), radius=R(nm + "_R"), density_bulk=R(nm + "_rho"), gravity_surface=R(nm + "_g"), gravity=R(nm + "_g_state"), _open=True)
    layers = [mk("core", True), mk("ocean", False), mk("mantle", True), mk("crust", True)]
    o = Obj(None, world=layers, _tidal_input_getters_by_layer={}, _world_tidal_input_getters=None)
    fr, ex, paths = run_fragment(b, fn, [loops[0]], "input_getters", dict(self=o), [], globals_env=dict(BadAttributeValueError="BadAttributeValueError"), opts=dict(definedness=False))
    if not paths:
        return
    if len(paths) != 1:
        b.subset_exits.append(f"{fr.key}: {len(paths)} paths")
        return
    stored = o._attrs["_tidal_input_getters_by_layer"]
    wrong = []
    for L in layers:
        g_ = stored.get(L) if isinstance(stored, dict) else None
        nm = L._attrs["name"]
        if not L._attrs["is_tidal"]:
            if g_ is not None:
                wrong.append((nm, "inactive layer has getters"))
            continue
        if not (isinstance(g_, tuple) and len(g_) == 4 and all(callable(f_) for f_ in g_)):
            wrong.append((nm, f"stored {g_!r}"))
            continue
        try:
            vals = [f_(ex, loops[0]) for f_ in g_]
        except SymExError as e:
            b.subset_exits.append(f"{fr.key}: calling a stored getter: {e}")
            return
        want = [R(nm + "_scale"), R(nm + "_R"), R(nm + "_rho"), R(nm + "_g")]
        for what, v_, w_ in zip(("tidal_scale", "radius", "density_bulk", "gravity_surface"), vals, want):
            if not (v_ is w_ or v_ == w_):
                wrong.append((nm, what, str(v_)))
    ground(b, f"{fn.key}::ensures:getters_return_own_layer", fn.key,
           "ensures for every tidally active layer the stored getters return THAT layer's tidal scale, radius, bulk density and surface gravity (an inactive layer gets None)",
           not wrong, detail=str(wrong)[:400], refuted_model=None if not wrong else dict(wrong=str(wrong[:4])))
    b.replayer(f"{fn.key}::ensures:getters_return_own_layer", _replay_getters)


_C13_GETTERS = r'''
import logging, warnings
import numpy as np
warnings.filterwarnings('ignore')
from TidalPy.structures import build_world, build_from_world
from TidalPy.structures.orbit import PhysicsOrbit
logging.disable(logging.CRITICAL)
STAR = build_world('55cnc'); IO = build_world('io_simple')
c = {"force_spin_sync": True, "type": "layered", "tides": {"model": "layered", "eccentricity_truncation_lvl": 2, "max_tidal_order_l": 2, "obliquity_tides_on": True, "use_planet_params_for_love_calc": False},
     "layers": {"Core": {"is_tidally_active": True}, "Mantle": {"is_tidally_active": True}}}
ww = build_from_world(IO, new_config=c); ss = build_from_world(STAR, new_config={})
oo = PhysicsOrbit(ss, tidal_host=ss, tidal_bodies=ww)
out = {}
for layer, getters in ww.tides._tidal_input_getters_by_layer.items():
    if getters is None: continue
    ts, r, rho, g = [float(f()) for f in getters]
    out[layer.name] = dict(getter=[ts, r, rho, g], own=[float(layer.tidal_scale), float(layer.radius), float(layer.density_bulk), float(layer.gravity_surface)])
result = out
'''


def _replay_getters(ob, res):
    from tpv import native
    out = native.run(dict(code=_C13_GETTERS), timeout=900)
    rec = dict(replayed=True, native=out, what="layered Io with Core and Mantle tidally active: what each layer's stored getters return vs the layer's own tidal scale, radius, bulk density, surface gravity")
    try:
        rec["confirmed"] = any(max(abs(a_ - b_) / max(abs(b_), 1e-300) for a_, b_ in zip(v_["getter"], v_["own"])) > 1e-12 for v_ in out["result"].values())
    except Exception:
        rec["confirmed"] = "exception" in out
    return rec


def layered_sums(b):
    """LayeredTides.collapse_modes: the global heating / potential derivatives are the sums over the tidally active layers, for ARRAY-valued layer
    results as well, and forming them leaves every per-layer result (the objects also stored in tidal_heating_by_layer and exposed by the layers)
    unchanged.  Fragment: the statements of the `if not broke_out:` block up to the per-order-l loop, executed with ndarray object semantics."""
    from tpv.symex import NdArr
    rel = "TidalPy/tides/methods/layered.py"
    try:
        fn = Fn(rel, "LayeredTides.collapse_modes")
    except ExtractError as e:
        b.subset_exits.append(str(e))
        return
    blocks = [n for n in ast.walk(fn.node) if isinstance(n, ast.If) and ast.unparse(n.test) == "not broke_out"]
    if len(blocks) != 1:
        b.subset_exits.append(f"{fn.key}: `if not broke_out:` block not found")
        return
    stmts = []
    for st in blocks[0].body:
        if isinstance(st, ast.For) and "order_l" in ast.unparse(st.target):
            break
        stmts.append(st)
    if not any("_tidal_heating_global" in ast.unparse(st) for st in stmts):
        b.subset_exits.append(f"{fn.key}: global sums not found in the block")
        return
    for nlayers in (1, 2, 3):
        names = ("tidal_heating", "dUdM", "dUdw", "dUdO")
        orig = {nm: [[R(f"{nm}_{k}_{j}") for j in range(2)] for k in range(nlayers)] for nm in names}
        arrs = {nm: [NdArr(list(orig[nm][k])) for k in range(nlayers)] for nm in names}
        self_ = Obj(None)
        env = dict(self=self_, broke_out=False, tidal_heating_by_layer={f"layer{k}": arrs["tidal_heating"][k] for k in range(nlayers)},
                   neg_imk_by_layer={}, dUdM_by_layer={f"layer{k}": arrs["dUdM"][k] for k in range(nlayers)}, dUdw_by_layer={f"layer{k}": arrs["dUdw"][k] for k in range(nlayers)},
                   dUdO_by_layer={f"layer{k}": arrs["dUdO"][k] for k in range(nlayers)}, love_number_by_layer={},
                   nonNone_tidal_heating=list(arrs["tidal_heating"]), nonNone_dUdM=list(arrs["dUdM"]), nonNone_dUdw=list(arrs["dUdw"]), nonNone_dUdO=list(arrs["dUdO"]))
        fr, ex, paths = run_fragment(b, fn, stmts, f"global_sums[{nlayers}]", env, [], opts=dict(definedness=False))
        if not paths:
            continue
        if len(paths) != 1 or paths[0].outcome != "return":
            b.subset_exits.append(f"{fr.key}: {[p.outcome for p in paths]}")
            continue
        attr = {"tidal_heating": "_tidal_heating_global", "dUdM": "_dUdM", "dUdw": "_dUdw", "dUdO": "_dUdO"}
        bad_sum, bad_frame = [], []
        for nm in names:
            got = self_._attrs.get(attr[nm])
            want = [sum(orig[nm][k][j] for k in range(nlayers)) for j in range(2)]
            if not (isinstance(got, (list, NdArr)) and len(got) == 2 and all(sp.simplify(sp.sympify(g_) - w_) == 0 for g_, w_ in zip(got, want))):
                bad_sum.append((nm, str(got)[:80]))
            for k in range(nlayers):
                if [sp.sympify(x) for x in arrs[nm][k]] != [sp.sympify(x) for x in orig[nm][k]]:
                    bad_frame.append((nm, k, str(list(arrs[nm][k]))[:80]))
        ground(b, f"{fr.key}::ensures:global_is_sum_of_layers", fr.key, "global heating and potential derivatives == sum over the tidally active layers (element-wise for array-valued states)", not bad_sum,
               detail=str(bad_sum)[:200], refuted_model=dict(wrong=str(bad_sum)[:200]) if bad_sum else None)
        ground(b, f"{fr.key}::frame:layer_results_unchanged", fr.key, "forming the global sums does not modify any per-layer result array (they stay what layer.tidal_heating / tidal_heating_by_layer expose)", not bad_frame,
               detail=str(bad_frame)[:200], refuted_model=dict(modified=str(bad_frame)[:200]) if bad_frame else None)


def forwarding(b):
    """GlobalApproxTides / LayeredTides.orbit_spin_changed hand their four change flags to the base-class update one-to-one"""
    for rel, cname in (("TidalPy/tides/methods/global_approx.py", "GlobalApproxTides"), ("TidalPy/tides/methods/layered.py", "LayeredTides")):
        try:
            fn = Fn(rel, f"{cname}.orbit_spin_changed")
        except ExtractError:
            continue          # the subclass does not override the method: nothing to forward
        b.add_fn(fn)
        calls_ = [x for x in ast.walk(fn.node) if isinstance(x, ast.Call) and ast.unparse(x.func) == "super().orbit_spin_changed"]
        want = dict(eccentricity_change="eccentricity_change", obliquity_change="obliquity_change", orbital_freq_changed="orbital_freq_changed", spin_freq_changed="spin_freq_changed")
        got = [{k.arg: ast.unparse(k.value) for k in c_.keywords if k.arg in want} for c_ in calls_]
        ok = len(calls_) >= 1 and all(g_ == want for g_ in got)
        recognised = len(calls_) >= 1 and all(set(g_) == set(want) for g_ in got)      # every flag is passed by keyword: a different right-hand side is a different flag
        structural(b, f"{fn.key}::forwards", fn.key, "the four change flags reach the base-class update unchanged (super().orbit_spin_changed(eccentricity_change=eccentricity_change, ...))",
                   "ok" if ok else ("wrong" if recognised else "unknown"), detail=str(got)[:300])


# ---------------------------------------------------------------------------------------------
_HIST = r'''
import numpy as np, itertools, copy
import TidalPy
from TidalPy.structures import build_world, build_from_world
from TidalPy.structures.orbit import PhysicsOrbit
cfg = args
_star = build_world("55cnc"); _base = build_world("earth_simple")
_cfg = {"force_spin_sync": False, "type": "simple_tidal", "mass": 5.972e24, "slices": 40,
        "tides": {"model": "global_approx", "fixed_q": 125.0, "use_ctl": False, "eccentricity_truncation_lvl": 4, "max_tidal_order_l": 2, "obliquity_tides_on": True}}
def fresh(state):
    c_ = copy.deepcopy(_cfg); c_["tides"]["fixed_q"] = state.get("q", 125.0)
    w = build_from_world(_base, new_config=c_)
    o = PhysicsOrbit(_star, tidal_host=_star, tidal_bodies=w)
    w.set_state(orbital_period=state["P"], eccentricity=state["e"], obliquity=state["I"], spin_period=state["Ps"])
    return w
def obs(w):
    return [float(np.asarray(x).ravel()[0]) if x is not None else None for x in (w.tidal_heating_global, w.dUdM, w.dUdw, w.dUdO)]
ops = {"e": lambda w, v: w.set_state(eccentricity=v), "I": lambda w, v: w.set_state(obliquity=v), "Ps": lambda w, v: w.set_state(spin_period=v),
       "P": lambda w, v: w.set_state(orbital_period=v), "e_orbit": lambda w, v: w.orbit.set_eccentricity(w, v), "q": lambda w, v: w.tides.set_fixed_q(v)}
vals = {"e": [0.05, 0.2], "I": [0.1, 0.4], "Ps": [12.0, 25.0], "P": [30.0, 50.0], "e_orbit": [0.1, 0.3], "q": [50.0, 200.0]}
base = {"P": 30.0, "e": 0.05, "I": 0.1, "Ps": 12.0, "q": 125.0}
bad = []; n = 0
for L in range(1, cfg["maxlen"] + 1):
    for seq in itertools.product(sorted(ops), repeat=L):
        try:
            w = fresh(base); st = dict(base)
            for k_i, op in enumerate(seq):
                v = vals[op][(k_i + 1) % 2]
                ops[op](w, v); st["e" if op == "e_orbit" else op] = v
            ref = fresh(st)
            a, b_ = obs(w), obs(ref)
            n += 1
            for x, y in zip(a, b_):
                if (x is None) != (y is None) or (x is not None and abs(x - y) > 1e-9 * max(abs(x), abs(y), 1e-300)):
                    bad.append([list(seq), a, b_]); break
        except Exception as ex:
            bad.append([list(seq), "raised", repr(ex)[:120]])
        if len(bad) >= 5: break
    if len(bad) >= 5: break
result = {"histories": n, "bad": bad[:5]}
'''


def bounded_histories(b, tier, seed):
    from tpv import native
    maxlen = 2 if tier == "quick" else 3
    out = native.run(dict(code=_HIST, args=dict(maxlen=maxlen)), timeout=1800)
    res = out.get("result") if isinstance(out, dict) else None
    b.bounded.append(dict(name="history independence of a layered world in an orbit (native run): after every history of setter calls the derived quantities equal those of a freshly built world in the same state",
                          bound=f"all histories of length <= {maxlen} over 6 setters (e, obliquity, spin period, orbital period via the world; e via the orbit; fixed-Q via the tides object), Earth-like CPL world",
                          result=res if res is not None else out, counted_as_proved=False))
    # a counterexample found by the bounded run is a genuine failing history: reported (the stand-in is never counted as proof, its refutations are)
    if res is not None:
        for k_, item in enumerate(res.get("bad") or []):
            ground(b, f"{FT}::TidesBase.orbit_spin_changed::bounded:history[{'>'.join(str(x) for x in item[0])}]", f"{FT}::TidesBase.orbit_spin_changed",
                   "BOUNDED native run: after this history of setter calls the derived quantities equal those of a freshly built world in the final state", False,
                   detail=str(item)[:300], refuted_model=dict(history=str(item[0]), after_history=str(item[1])[:120], fresh_world=str(item[2])[:120]), bounded=True, native_confirmed=True)


_C13_STRENGTH = r'''
import logging, warnings
import numpy as np
warnings.filterwarnings('ignore')
from TidalPy.structures import build_world, build_from_world
from TidalPy.structures.orbit import PhysicsOrbit
logging.disable(logging.CRITICAL)
STAR = build_world('55cnc'); IO = build_world('io_simple')
c = {"force_spin_sync": True, "type": "layered", "tides": {"model": "layered", "eccentricity_truncation_lvl": 2, "max_tidal_order_l": 2, "obliquity_tides_on": True},
     "layers": {"Core": {"is_tidally_active": False}, "Mantle": {"is_tidally_active": True}}}
ww = build_from_world(IO, new_config=c); ss = build_from_world(STAR, new_config={})
hh = build_world('earth_simple')
oo = PhysicsOrbit(ss, tidal_host=hh, tidal_bodies=ww)
ww.set_state(orbital_period=3.0, eccentricity=0.05, obliquity=0.1)
ww.mantle.temperature = 1500.0
ww.mantle.set_strength(shear_modulus=3.0e10)
pm = ww.mantle.rheology.partial_melting_model
prod = float(np.asarray(pm.postmelt_compliance * pm.postmelt_shear_modulus).ravel()[0])
# orbit told
calls = []
orig = oo.dissipation_changed
def spy(world): calls.append(world.name); return orig(world)
oo.dissipation_changed = spy
hh.dissipation_changed()
n_host = len(calls)
ww.dissipation_changed()
result = dict(compliance_times_shear=prod, host_calls=n_host, body_calls=len(calls) - n_host)
'''


def _replay_strength(ob, res):
    from tpv import native
    out = native.run(dict(code=_C13_STRENGTH), timeout=900)
    rec = dict(replayed=True, native=out, what="layered Io: mantle.set_strength(shear_modulus=3e10) then compliance * shear; host.dissipation_changed() / body.dissipation_changed() with a spy on orbit.dissipation_changed")
    try:
        v = out["result"]
        rec["confirmed"] = bool(abs(v["compliance_times_shear"] - 1.0) > 1e-12 or v["host_calls"] != 1 or v["body_calls"] != 1)
    except Exception:
        rec["confirmed"] = "exception" in out
    return rec


_C13_ORBIT_DERIVS = r'''
import logging, warnings
import numpy as np
warnings.filterwarnings('ignore')
from TidalPy.structures import build_world, build_from_world
from TidalPy.structures.orbit import PhysicsOrbit
from TidalPy.dynamics import semia_eccen_derivatives, semia_eccen_derivatives_dual
logging.disable(logging.CRITICAL)
cfg = {"force_spin_sync": False, "type": "simple_tidal", "mass": 5.972e24, "slices": 40,
       "tides": {"model": "global_approx", "fixed_q": 125.0, "use_ctl": False, "eccentricity_truncation_lvl": 4, "max_tidal_order_l": 2, "obliquity_tides_on": True}}
f = lambda x: float(np.asarray(x).ravel()[0])
bad = []
# body-only dissipation around a star
star = build_world("55cnc"); w = build_from_world(build_world("earth_simple"), new_config=cfg)
o = PhysicsOrbit(star, tidal_host=star, tidal_bodies=w)
w.set_state(orbital_period=30.0, eccentricity=0.05, obliquity=0.1, spin_period=12.0)
a, n, e = f(o.get_semi_major_axis(w)), f(o.get_orbital_frequency(w)), f(o.get_eccentricity(w))
da, de = semia_eccen_derivatives(a, n, e, f(w.mass), f(w.dUdM), f(w.dUdw), f(star.mass))
got = (f(o.get_semi_major_axis_time_derivative(w)), f(o.get_eccentricity_time_derivative(w)), f(o.get_orbital_motion_time_derivative(w)))
want = (f(da), f(de), -1.5 * n / a * f(da))
for g_, w_, nm in zip(got, want, ("da/dt", "de/dt", "dn/dt")):
    if abs(g_ - w_) > 1e-9 * max(abs(w_), 1e-300): bad.append(["single", nm, g_, w_])
# dual: both active
h2 = build_from_world(build_world("earth_simple"), new_config=dict(cfg, mass=6.0e24)); b2 = build_from_world(build_world("earth_simple"), new_config=dict(cfg, mass=7.3e22))
s2 = build_world("55cnc")
o2 = PhysicsOrbit(s2, tidal_host=h2, tidal_bodies=b2, host_tide_raiser=b2)
b2.set_state(orbital_period=20.0, eccentricity=0.08, obliquity=0.05, spin_period=5.0)
h2.set_state(spin_period=1.5, obliquity=0.2)
a, n, e = f(o2.get_semi_major_axis(b2)), f(o2.get_orbital_frequency(b2)), f(o2.get_eccentricity(b2))
if h2.dUdM is not None and b2.dUdM is not None:
    da, de = semia_eccen_derivatives_dual(a, n, e, f(h2.mass), f(h2.dUdM), f(h2.dUdw), f(b2.mass), f(b2.dUdM), f(b2.dUdw))
    got = (f(o2.get_semi_major_axis_time_derivative(b2)), f(o2.get_eccentricity_time_derivative(b2)), f(o2.get_orbital_motion_time_derivative(b2)))
    want = (f(da), f(de), -1.5 * n / a * f(da))
    for g_, w_, nm in zip(got, want, ("da/dt", "de/dt", "dn/dt")):
        if abs(g_ - w_) > 1e-9 * max(abs(w_), 1e-300): bad.append(["dual", nm, g_, w_])
    dual_ran = True
else:
    dual_ran = False
result = dict(bad=bad, dual_ran=dual_ran)
'''


def _replay_orbit_derivs(ob, res):
    from tpv import native
    out = native.run(dict(code=_C13_ORBIT_DERIVS), timeout=900)
    rec = dict(replayed=True, native=out, what="orbit.get_*_time_derivative(world) vs the single / dual functional API at the orbit's current state (body-only around a star; host + tide raiser both active)")
    try:
        rec["confirmed"] = bool(out["result"]["bad"])
    except Exception:
        rec["confirmed"] = "exception" in out
    return rec


def _replay_stale(ob, res):
    from tpv import native
    code = r'''
import numpy as np
from TidalPy.structures import build_world, build_from_world
from TidalPy.structures.orbit import PhysicsOrbit
_star = build_world("55cnc"); _base = build_world("earth_simple")
_cfg = {"force_spin_sync": False, "type": "simple_tidal", "mass": 5.972e24, "slices": 40,
        "tides": {"model": "global_approx", "fixed_q": 125.0, "use_ctl": False, "eccentricity_truncation_lvl": 4, "max_tidal_order_l": 2, "obliquity_tides_on": True}}
def mk(e, I):
    w = build_from_world(_base, new_config=_cfg)
    o = PhysicsOrbit(_star, tidal_host=_star, tidal_bodies=w)
    w.set_state(orbital_period=30.0, eccentricity=e, obliquity=I, spin_period=12.0)
    return w
w = mk(0.05, 0.1)
h0 = float(np.asarray(w.tidal_heating_global).ravel()[0])
w.orbit.set_eccentricity(w, 0.2)
h1 = float(np.asarray(w.tidal_heating_global).ravel()[0])
ref = float(np.asarray(mk(0.2, 0.1).tidal_heating_global).ravel()[0])
w2 = mk(0.05, 0.1); w2.set_obliquity(0.4)
h2 = float(np.asarray(w2.tidal_heating_global).ravel()[0]); ref2 = float(np.asarray(mk(0.05, 0.4).tidal_heating_global).ravel()[0])
result = {"after_set_eccentricity": h1, "fresh_world_same_state": ref, "after_set_obliquity": h2, "fresh_world_same_obliquity": ref2, "before": h0}
'''
    out = native.run(dict(code=code), timeout=600)
    rec = dict(replayed=True, native=out, what="eccentricity 0.05 -> 0.2 through the orbit, and obliquity 0.1 -> 0.4 through the world, vs freshly built worlds in the final states")
    try:
        v = out["result"]
        rec["confirmed"] = abs(v["after_set_eccentricity"] - v["fresh_world_same_state"]) > 1e-9 * abs(v["fresh_world_same_state"]) or \
            abs(v["after_set_obliquity"] - v["fresh_world_same_obliquity"]) > 1e-9 * abs(v["fresh_world_same_obliquity"])
    except Exception:
        rec["confirmed"] = False
    return rec


_C13_NATIVE = r'''
import logging, warnings
import numpy as np
warnings.filterwarnings('ignore')
from TidalPy.structures import build_world, build_from_world
from TidalPy.structures.orbit import PhysicsOrbit
logging.disable(logging.CRITICAL)
fails = []
STAR = build_world('55cnc'); IO = build_world('io_simple')
# (a) forced spin synchronous world addressed by semi-major axis through the world's batched setter
cfg = {"force_spin_sync": True, "type": "simple_tidal", "mass": 5.972e24, "slices": 40,
       "tides": {"model": "global_approx", "fixed_q": 125.0, "use_ctl": False, "eccentricity_truncation_lvl": 2, "max_tidal_order_l": 2, "obliquity_tides_on": True}}
w = build_from_world(build_world("earth_simple"), new_config=cfg); star = build_from_world(STAR, new_config={})
orb = PhysicsOrbit(star, tidal_host=star, tidal_bodies=w)
w.set_state(orbital_period=4.0, eccentricity=0.05, obliquity=0.1)
w.set_state(semi_major_axis=2.0 * float(np.asarray(orb.get_semi_major_axis(w))))
n_, om = float(np.asarray(orb.get_orbital_frequency(w))), float(np.asarray(w.spin_frequency))
if abs(n_ - om) > 1e-12 * abs(n_): fails.append(["sync", "spin-synchronous world after world.set_state(semi_major_axis=...): spin %.6e, orbital frequency %.6e" % (om, n_)])
# (b) layered world, two tidally active layers, array-valued orbital period: layers add up to the global value and equal per-element float worlds
def lw():
    c = {"force_spin_sync": True, "type": "layered", "tides": {"model": "layered", "eccentricity_truncation_lvl": 2, "max_tidal_order_l": 2, "obliquity_tides_on": True},
         "layers": {"Core": {"is_tidally_active": True}, "Mantle": {"is_tidally_active": True}}}
    ww = build_from_world(IO, new_config=c); ss = build_from_world(STAR, new_config={})
    oo = PhysicsOrbit(ss, tidal_host=ss, tidal_bodies=ww)
    ww.core.temperature = 1750.0; ww.mantle.temperature = 1500.0
    return ww, oo
try:
    periods = np.asarray([3.0, 5.0])
    ww, oo = lw(); ww.set_state(orbital_period=periods, eccentricity=0.1, obliquity=0.1)
    by_layer = [np.asarray(L.tidal_heating, dtype=float) for L in ww.layers]
    tot = np.asarray(ww.tidal_heating_global, dtype=float)
    if not np.allclose(sum(by_layer), tot, rtol=1e-9): fails.append(["layered", "layers' tidal heating does not add up to the global value: %r vs %r" % ([x.tolist() for x in by_layer], tot.tolist())])
    for j, P in enumerate(periods):
        w1, o1 = lw(); w1.set_state(orbital_period=float(P), eccentricity=0.1, obliquity=0.1)
        for L_arr, L_f in zip(ww.layers, w1.layers):
            a_, f_ = float(np.asarray(L_arr.tidal_heating, dtype=float)[j]), float(np.asarray(L_f.tidal_heating))
            if abs(a_ - f_) > 1e-9 * max(abs(f_), 1e-300): fails.append(["layered", "layer %s: array state gives %.6e, scalar state %.6e" % (L_arr.name, a_, f_)])
except Exception as ex:
    fails.append(["layered-setup", repr(ex)[:200]])
result = dict(failures=fails[:6], n=len(fails))
'''


def _replay_c13(ob, res):
    from tpv import native
    out = native.run(dict(code=_C13_NATIVE), timeout=1500)
    rec = dict(replayed=True, native=out)
    if "result" not in out:
        rec["confirmed"] = False
        return rec
    fam = "sync" if "spin_follows_orbit" in ob.oid else ("layered" if "global_sums" in ob.oid else None)
    hits = [f for f in out["result"]["failures"] if f[0] == fam]
    rec["confirmed"] = bool(hits)
    rec["detail"] = hits[:3]
    return rec


def _replay_fixed_q(ob, res):
    from tpv import native
    code = r'''
import numpy as np, logging, warnings
warnings.filterwarnings('ignore'); logging.disable(logging.CRITICAL)
from TidalPy.structures import build_world, build_from_world
from TidalPy.structures.orbit import PhysicsOrbit
_star = build_world("55cnc"); _base = build_world("earth_simple")
def mk(q, ctl, dt):
    cfg = {"force_spin_sync": False, "type": "simple_tidal", "mass": 5.972e24, "slices": 40,
           "tides": {"model": "global_approx", "fixed_q": q, "fixed_dt": dt, "use_ctl": ctl, "eccentricity_truncation_lvl": 4, "max_tidal_order_l": 2, "obliquity_tides_on": True}}
    w = build_from_world(_base, new_config=cfg)
    o = PhysicsOrbit(_star, tidal_host=_star, tidal_bodies=w)
    w.set_state(orbital_period=30.0, eccentricity=0.1, obliquity=0.1, spin_period=12.0)
    return w
H = lambda w: float(np.asarray(w.tidal_heating_global).ravel()[0])
out = {}
w = mk(125.0, False, 1.0); w.tides.set_fixed_q(25.0); out["cpl"] = [H(w), H(mk(25.0, False, 1.0))]
w = mk(125.0, True, 1.0); w.tides.set_fixed_dt(5.0); out["ctl"] = [H(w), H(mk(125.0, True, 5.0))]
result = out
'''
    out = native.run(dict(code=code), timeout=900)
    rec = dict(replayed=True, native=out, what="set_fixed_q(125 -> 25) on a CPL world and set_fixed_dt(1 -> 5) on a CTL world vs freshly built worlds with the new parameter")
    try:
        v = out["result"]
        rec["confirmed"] = any(abs(a_ - b_) > 1e-9 * abs(b_) for a_, b_ in v.values())
    except Exception:
        rec["confirmed"] = False
    return rec
