import Mathlib

/-!
C16, slice arrays of `PhysicalObjSpherical.set_geometry`, for EVERY number of slices N.

The executor checks on the real source (N = 1, 2, 3, 5 and symbolic elements) that
  radii k        = r_in + (k+1) * (R - r_in) / N              (np.linspace(r_in, R, N+1)[1:])
  volume_slice k = c * (radii k ^ 3 - radii_lower k ^ 3),     radii_lower 0 = r_in, radii_lower (k+1) = radii k
These lemmas carry the three array clauses of the property from "each element has this form" to every N:
  * the radii are strictly increasing and end at R,
  * the slice volumes sum to the shell volume c * (R^3 - r_in^3),
  * hence (same lemma, c := density-weighted) the enclosed mass never decreases when every slice mass is >= 0.
-/

open Finset

/-- telescoping: the slice volumes of contiguous shells sum to the volume of the whole shell -/
theorem slice_volumes_sum (c : ℝ) (r : ℕ → ℝ) (N : ℕ) :
    ∑ k ∈ range N, c * (r (k + 1) ^ 3 - r k ^ 3) = c * (r N ^ 3 - r 0 ^ 3) := by
  rw [← Finset.mul_sum, Finset.sum_range_sub (fun k => r k ^ 3) N]

/-- the linspace radii are strictly increasing for a shell of positive thickness -/
theorem linspace_strict_mono (rin R : ℝ) (N : ℕ) (hN : 0 < N) (h : rin < R) :
    StrictMono (fun k : ℕ => rin + (k : ℝ) * (R - rin) / N) := by
  intro a b hab
  have hN' : (0 : ℝ) < N := by exact_mod_cast hN
  have hab' : (a : ℝ) < b := by exact_mod_cast hab
  have hd : 0 < (R - rin) / N := div_pos (by linarith) hN'
  have : (a : ℝ) * ((R - rin) / N) < (b : ℝ) * ((R - rin) / N) := mul_lt_mul_of_pos_right hab' hd
  simp only [mul_div_assoc]
  linarith

/-- the last linspace radius is the outer radius -/
theorem linspace_last (rin R : ℝ) (N : ℕ) (hN : 0 < N) :
    rin + (N : ℝ) * (R - rin) / N = R := by
  have hN' : (N : ℝ) ≠ 0 := by exact_mod_cast hN.ne'
  field_simp
  ring

/-- enclosed mass (mass below + running sum of non-negative slice masses) never decreases with the slice index -/
theorem enclosed_mass_mono (m : ℕ → ℝ) (hm : ∀ k, 0 ≤ m k) (mbelow : ℝ) :
    Monotone (fun n : ℕ => mbelow + ∑ k ∈ range n, m k) := by
  apply monotone_nat_of_le_succ
  intro n
  rw [Finset.sum_range_succ]
  linarith [hm n]
