#!/usr/bin/env python3
"""confirm and archive seeded changes: tools/keep_mutants.py <worktree> <property> <name-prefix> [indices...]
For each mutant_i.diff / demo_i.py in the worktree: demo must pass on the clean tree, fail with the change, and the pinned
test-suite must still pass with the change (892 passed).  Confirmed ones are copied to /verif/seeded/<prefix>_<i>/."""
import subprocess, sys, os, json, shutil, glob, re
wt, pid, prefix = sys.argv[1:4]
idx = sys.argv[4:] or sorted(re.findall(r"mutant_(\d+)\.diff", " ".join(glob.glob(wt + "/mutant_*.diff"))))
for i in idx:
    diff, demo = f"{wt}/mutant_{i}.diff", f"{wt}/demo_{i}.py"
    if not (os.path.exists(diff) and os.path.exists(demo)):
        print("missing", i); continue
    out = subprocess.run(["/verif/tools/confirm_mutant.sh", wt, diff, demo], capture_output=True, text=True).stdout.strip().splitlines()[-1]
    m = re.match(r"demo_clean_exit=(\d+) demo_mutant_exit=(\d+) tests=\[(.*)\]", out)
    ok = bool(m) and m.group(1) == "0" and m.group(2) != "0" and "892 passed" in m.group(3) and "failed" not in m.group(3)
    print(prefix, i, out, "KEEP" if ok else "DROP", flush=True)
    d = f"/verif/seeded/{prefix}_{i}"
    if ok:
        os.makedirs(d, exist_ok=True)
        shutil.copy(diff, d + "/patch.diff"); shutil.copy(demo, d + "/demo.py")
        meta = dict(property=pid, id=f"{prefix}_{i}", confirmed=dict(demo_on_clean_tree="exit 0", demo_with_change=f"exit {m.group(2)}", test_suite_with_change=m.group(3)),
                    ran=["tools/confirm_mutant.sh (scratch worktree: demo clean, apply, demo, full pytest, revert)"], needs_to_manifest="", detected_by="", files=[l[6:] for l in open(diff) if l.startswith("+++ b/")])
        json.dump(meta, open(d + "/meta.json", "w"), indent=1)
