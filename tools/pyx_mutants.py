#!/usr/bin/env python3
"""Hand-written source-level changes to .pyx (and .py) files, evaluated on a scratch copy of /repo (TPV_REPO), never on /repo itself.
No Cython here: .pyx changes cannot be compiled, tested or demonstrated natively; they exercise the source-level checks only.
usage: tools/pyx_mutants.py <spec.json> [names...]      spec: list of {name, file, old, new, checks, breaks}"""
import subprocess, sys, os, json, shutil
def main():
    spec = json.load(open(sys.argv[1]))
    want = set(sys.argv[2:])
    scratch = f"/tmp/repo_mut_pyx_{os.getpid()}"
    evd = f"/tmp/tpv_scratch_evidence_pyx_{os.getpid()}"
    subprocess.run(["rsync", "-a", "--exclude", ".git", "/repo/", scratch + "/"], check=True)
    res = {}
    try:
        for m in spec:
            if want and m["name"] not in want:
                continue
            if m.get("old") is None:
                continue
            full = os.path.join(scratch, m["file"])
            src = open(os.path.join("/repo", m["file"])).read()
            if src.count(m["old"]) < 1:
                print(f"[{m['name']}] pattern not found in {m['file']}", flush=True)
                continue
            open(full, "w").write(src.replace(m["old"], m["new"], m.get("count", 1)))
            out = {}
            for c in m["checks"]:
                r = subprocess.run(["python3-vt", "-m", "tpv.run_check", c, "--tier", "quick"], cwd="/verif", capture_output=True, text=True,
                                   env=dict(os.environ, TPV_NO_XCHECK="1", TPV_REPO=scratch, TPV_EVIDENCE_DIR=evd))
                lines = [l for l in r.stdout.splitlines() if l.startswith("VIOLATION") or l.startswith("[") or l.startswith("  SUBSET") or l.startswith("  UNDECIDED")]
                viol = [l for l in lines if l.startswith("VIOLATION")]
                out[c] = dict(exit=r.returncode, violations=len(viol), first=(viol[0][:260] if viol else ""), other=[l[:200] for l in lines if l.startswith("  ")][:2])
            open(full, "w").write(src)
            res[m["name"]] = out
            print(f"[{m['name']}] " + "; ".join(f"{c}: exit={v['exit']} violations={v['violations']}" for c, v in out.items()), flush=True)
            for c, v in out.items():
                if v["first"]:
                    print("     ", v["first"].replace(evd, "<scratch>"), flush=True)
                for o in v["other"]:
                    print("     ", o, flush=True)
    finally:
        shutil.rmtree(scratch, ignore_errors=True)
        shutil.rmtree(evd, ignore_errors=True)
    json.dump(res, open(f"/tmp/pyx_mutants_result_{os.path.basename(sys.argv[1])}", "w"), indent=1)
main()
