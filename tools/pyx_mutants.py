#!/usr/bin/env python3
"""Hand-written source-level changes to .pyx files (no Cython here: they cannot be compiled, tested or demonstrated natively; they exercise the
source-level checks only).  usage: tools/pyx_mutants.py <set> [names...]   -> applies each change to /repo, runs the listed checks, reverts."""
import subprocess, sys, os, json, re
SETS = {
 "radial": [
  ("iface_sign", "TidalPy/RadialSolver/interfaces/interfaces.pyx", None, None, ["C02"]),
 ],
}
def apply_run(name, path, old, new, checks, count=1):
    full = os.path.join("/repo", path)
    src = open(full).read()
    if src.count(old) < 1:
        print(f"[{name}] pattern not found in {path}"); return None
    open(full, "w").write(src.replace(old, new, count))
    out = {}
    try:
        bak = f"/tmp/evidence_bak_{os.getpid()}"
        subprocess.run(["rm", "-rf", bak]); subprocess.run(["cp", "-r", "/verif/evidence", bak])
        for c in checks:
            r = subprocess.run(["python3-vt", "-m", "tpv.run_check", c, "--tier", "quick"], cwd="/verif", capture_output=True, text=True, env=dict(os.environ, TPV_NO_XCHECK="1"))
            lines = [l for l in r.stdout.splitlines() if l.startswith("VIOLATION") or l.startswith("[")]
            viol = [l for l in lines if l.startswith("VIOLATION")]
            out[c] = dict(exit=r.returncode, violations=len(viol), first=(viol[0][:260] if viol else ""), summary=[l for l in lines if l.startswith("[")][-1:] )
    finally:
        subprocess.run(["git", "-C", "/repo", "checkout", "--", path])
        subprocess.run(["rm", "-rf", "/verif/evidence"]); subprocess.run(["mv", bak, "/verif/evidence"])
    print(f"[{name}] " + "; ".join(f"{c}: exit={v['exit']} violations={v['violations']}" for c, v in out.items()), flush=True)
    for c, v in out.items():
        if v["first"]:
            print("     ", v["first"])
    return out
if __name__ == "__main__":
    spec = json.load(open(sys.argv[1]))
    want = set(sys.argv[2:])
    res = {}
    for m in spec:
        if want and m["name"] not in want:
            continue
        res[m["name"]] = apply_run(m["name"], m["file"], m["old"], m["new"], m["checks"], m.get("count", 1))
    json.dump(res, open("/tmp/pyx_mutants_result.json", "w"), indent=1)
