#!/bin/bash
# Runs the pinned test-suite on a scratch copy of /repo's working tree (so /repo can be edited meanwhile).
# usage: tools/run_tests.sh <tag> [pytest args]   -> log in /tmp/tests_<tag>.log ; scratch copy removed afterwards
tag=$1; shift
d=/tmp/repo_test_$tag
rm -rf $d; rsync -a --exclude .git /repo/ $d/
cd $d
/venv/bin/python -c "import TidalPy,sys; print('TidalPy from', TidalPy.__file__)" > /tmp/tests_$tag.log 2>&1
/venv/bin/python -m pytest -ra -q -p no:cacheprovider --timeout=900 --continue-on-collection-errors "$@" >> /tmp/tests_$tag.log 2>&1
echo "exit=$?" >> /tmp/tests_$tag.log
cd /; rm -rf $d
tail -3 /tmp/tests_$tag.log
