claim("C12", "proof",
      "Every closed form in tides/love1d.py is proved equal to the statement's formula for all real l>=2 and all positive mu,g,R,rho and passive complex J (rational identity, exact normal form / z3); definedness of every division proved under the precondition; composition lemma gives the end-to-end formula.",
      "doubles treated as reals; numba ≡ CPython on the extracted bodies; agreement with the layered solver is inherited from the C01 Kelvin lemma, not re-proved",
      "sidecar contracts + AST symbolic execution, VCs discharged by exact Q[x] normal form and z3", "DESIGN §5 C12")
