claim("C12", "proof",
      "Every closed form in tides/love1d.py is proved equal to the statement's formula for all real l>=2 and all positive mu,g,R,rho and passive complex J (rational identity, exact normal form / z3); definedness of every division proved under the precondition; composition lemma gives the end-to-end formula.",
      "doubles treated as reals; numba ≡ CPython on the extracted bodies; agreement with the layered solver is inherited from the C01 Kelvin lemma, not re-proved",
      "sidecar contracts + AST symbolic execution, VCs discharged by exact Q[x] normal form and z3", "DESIGN §5 C12")
claim("C11", "proof",
      "The conservation laws of the statement are the postconditions of the real rate functions (single and dual): orbital-energy balance and, at zero obliquity, angular-momentum balance, proved as rational identities modulo Kepler III and sqrt(1-e^2)^2 = 1-e^2 for all states; de/dt = 0 at e = 0; every division proved defined under each path condition (this decided the e = 0 NaN defect); the quick_tides call site is checked modularly against the callee contracts (argument binding, Kepler precondition from orbital_motion2semi_a).",
      "doubles as reals; heating = Mhost (n dU/dM - Omega dU/dOmega) imported from C10; dU/dw = dU/dOmega at I = 0 imported from C10; the sliver 0 < |n a^2 e| <= 2^-52 is outside the angular-momentum clause; numpy element-wise semantics assumed for array inputs",
      "sidecar contracts + AST symbolic execution (path split on masks), VCs by exact Q[x] normal form modulo relations, z3", "DESIGN §5 C11")
