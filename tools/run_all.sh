#!/bin/bash
# runs every claimed quick check on the current /repo tree; usage: tools/run_all.sh [seed] [ids...]
cd /verif
seed=${1:-0}; shift
ids="$@"
if [ -z "$ids" ]; then ids=$(python3 -c "import json; print(' '.join(c['property_id'] for c in json.load(open('MANIFEST.json'))['checks']))"); fi
git -C /repo status --short | grep -v '^??' | head -3
for p in $ids; do
  VERIF_SEED=$seed python3-vt -m tpv.run_check $p --tier quick 2>&1 | grep -v "WARNING conda" | grep "^\[\|VIOLATION\|TOOL-FAULT\|UNDECIDED\|SUBSET" | cut -c1-300
done
python3-vt -c "
import json, jsonschema, glob
sch = json.load(open('/root/.vp/EVIDENCE.schema.json'))
for f in sorted(glob.glob('evidence/*.json')):
    d = json.load(open(f)); jsonschema.validate(d, sch)
    c = d['coverage']
    if d['level'] == 'proof' and c['obligations'] != c['discharged']: print('EVIDENCE MISMATCH', f, c['obligations'], c['discharged'])
jsonschema.validate(json.load(open('MANIFEST.json')), json.load(open('/root/.vp/MANIFEST.schema.json')))
print('evidence + manifest schemas ok')
" 2>&1 | grep -v "WARNING conda"
