#!/bin/bash
# usage: scratch_mutant.sh <name> <diff-or-"-"> <pid>...   evaluates a change on a scratch copy of /repo (never touches /repo or /verif/evidence)
# with "-" the scratch copy /tmp/repo_mut_<name> must already exist and be modified by the caller.
name=$1; diff=$2; shift 2
d=/tmp/repo_mut_$name
if [ "$diff" != "-" ]; then
  rm -rf $d; rsync -a --exclude .git /repo/ $d/
  (cd $d && patch -p1 -s < $diff) || { echo "PATCH FAILED"; exit 2; }
fi
for p in "$@"; do
  (cd /verif && TPV_REPO=$d TPV_EVIDENCE_DIR=/tmp/tpv_scratch_evidence_$name TPV_NO_XCHECK=${TPV_NO_XCHECK:-1} python3-vt -m tpv.run_check $p --tier quick 2>&1 | grep -v "WARNING conda" | grep "^\[\|VIOLATION\|TOOL-FAULT\|UNDECIDED\|SUBSET" | cut -c1-260 | head -${LINES_MAX:-6})
done
if [ "$diff" != "-" ]; then rm -rf $d /tmp/tpv_scratch_evidence_$name; fi
