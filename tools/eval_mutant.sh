#!/bin/bash
# usage: eval_mutant.sh <diff> <pid> [<pid>...]   : applies the diff to /repo, runs the quick checks, reverts.
diff=$1; shift
cd /repo
if ! git apply --check "$diff" 2>/dev/null; then echo "DIFF DOES NOT APPLY: $diff"; exit 2; fi
rm -rf /tmp/evidence_bak_$$; cp -r /verif/evidence /tmp/evidence_bak_$$
git apply "$diff"
for p in "$@"; do
  (cd /verif && TPV_NO_XCHECK=${TPV_NO_XCHECK:-0} python3-vt -m tpv.run_check $p --tier quick 2>&1 | grep -v "WARNING conda" | grep "^\[\|VIOLATION\|TOOL-FAULT\|UNDECIDED\|SUBSET" | cut -c1-260 | head -8)
done
git checkout -- . ; rm -rf /verif/evidence; mv /tmp/evidence_bak_$$ /verif/evidence; git status --short | grep -v '^??' | head -3
