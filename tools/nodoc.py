#!/usr/bin/env python3
"""print python source without docstrings/blank lines: tools/nodoc.py file [func]"""
import ast, sys
src = open(sys.argv[1]).read()
t = ast.parse(src)
for n in ast.walk(t):
    if isinstance(n, (ast.FunctionDef, ast.ClassDef, ast.Module)) and n.body and isinstance(n.body[0], ast.Expr) and isinstance(getattr(n.body[0], 'value', None), ast.Constant) and isinstance(n.body[0].value.value, str):
        n.body = n.body[1:] or [ast.Pass()]
if len(sys.argv) > 2:
    for n in ast.walk(t):
        if isinstance(n, (ast.FunctionDef, ast.ClassDef)) and n.name == sys.argv[2]:
            print(ast.unparse(n))
else:
    print(ast.unparse(t))
