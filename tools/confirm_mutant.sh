#!/bin/bash
# usage: confirm_mutant.sh <worktree> <diff> <demo> [notests]  -> confirms: demo passes clean, fails mutated, test-suite passes mutated
wt=$1; diff=$2; demo=$3
cd $wt; git checkout -- . 2>/dev/null
/venv/bin/python $demo > /tmp/confirm_clean.log 2>&1; c=$?
git apply $diff || { echo "apply failed"; exit 2; }
/venv/bin/python $demo > /tmp/confirm_mut.log 2>&1; m=$?
t="skipped"
if [ "$4" != "notests" ]; then
  /venv/bin/python -m pytest -q -p no:cacheprovider --timeout=900 Tests --deselect Tests/Test_Utilities/Test_Exoplanets 2>&1 | tail -1 > /tmp/confirm_tests_$$.log; t=$(cat /tmp/confirm_tests_$$.log)
fi
git checkout -- .
echo "demo_clean_exit=$c demo_mutant_exit=$m tests=[$t]"
