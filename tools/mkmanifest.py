#!/usr/bin/env python3
"""Regenerates /verif/MANIFEST.json from the table below (kept valid at all times)."""
import json, os
HERE = os.path.dirname(os.path.dirname(os.path.abspath(__file__)))
PY = "python3-vt -m tpv.run_check"

# pid -> (category, text, note, technique, design_ref)
CLAIMED = {}
def claim(pid, category, text, note, technique, ref):
    CLAIMED[pid] = (category, text, note, technique, ref)

exec(open(os.path.join(HERE, "tools", "claims.py")).read())

ALL = [json.loads(l)["id"] for l in open(os.path.join(HERE, "properties.jsonl"))]
NA = json.load(open(os.path.join(HERE, "tools", "not_applicable.json")))
checks = []
for pid in ALL:
    if pid not in CLAIMED:
        continue
    cat, text, note, tech, ref = CLAIMED[pid]
    checks.append(dict(property_id=pid, quick_cmd=f"{PY} {pid} --tier quick", thorough_cmd=f"{PY} {pid} --tier thorough",
                       evidence_file=f"/verif/evidence/{pid}.json", replay_cmd_template=f"{PY} --replay {{path}}",
                       engine="tpv", level_claimed=dict(category=cat, text=text, design_ref=ref), level_note=note, technique=tech))
na = [dict(property_id=p, reason=NA.get(p, "contract module not built yet in this session; no claim is made")) for p in ALL if p not in CLAIMED]
man = dict(
    version=1,
    setup_cmd="python3-vt -m compileall -q tpv contracts && python3-vt -m tpv.selftest",
    hooks=dict(guard="TIDALPY_VERIF", enable="no hooks: every check reads /repo source text; native replays use public APIs",
               baseline_off_cmd="cd /repo && /venv/bin/python -m pytest -ra -q -p no:cacheprovider --timeout=900 --continue-on-collection-errors",
               source_commits=[], add_only=True),
    engines=[dict(name="tpv", path="/verif/tpv", serves_properties=sorted(CLAIMED),
                  kind_free_text="contract-based deductive verification: sidecar contracts on the real functions, AST symbolic executor as VC generator (re-reads /repo source on every run; .pyx mechanically translated), obligations discharged by exact Q[x] normal form / z3 / cvc5 (Lean in the thorough tier)")],
    checks=checks, not_applicable=na,
    notes="Exit codes of every check: 0 all obligations discharged; 1 refuted obligation not listed in known_findings.json (VIOLATION line); 2 undecided; 3 tool fault. See DESIGN.md.")
json.dump(man, open(os.path.join(HERE, "MANIFEST.json"), "w"), indent=1)
print("claimed:", sorted(CLAIMED), "not_applicable:", [x["property_id"] for x in na])
