#!/bin/bash
# usage: tools/run_harmless_agent.sh [dir]   every behaviour-preserving diff of seeded/harmless/agent_*/ is applied to a scratch copy of /repo and
# the check of its property is run there: each must exit 0 (no VIOLATION, no undecided).
d=${1:-/verif/seeded/harmless/agent_1}
python3 - "$d" <<'PY' > /tmp/harmless_plan.txt
import json, sys
for c in json.load(open(sys.argv[1] + "/harmless.json")):
    print(c["index"], c["property"])
PY
while read i p; do
  LINES_MAX=3 /verif/tools/scratch_mutant.sh harm_$i $d/harmless_$i.diff $p 2>&1 | sed "s/^/[harmless_$i] /" | cut -c1-220 &
  if (( $(jobs -r | wc -l) >= 4 )); then wait -n; fi
done < /tmp/harmless_plan.txt
wait
rm -f /tmp/harmless_plan.txt
