#!/bin/bash
# usage: mkworktree.sh <name>  -> /tmp/wt_<name>: git worktree of /repo HEAD plus the (git-ignored) prebuilt extension modules
set -e
d=/tmp/wt_$1
git -C /repo worktree remove --force $d 2>/dev/null || true
rm -rf $d
git -C /repo worktree add --detach $d HEAD >/dev/null 2>&1
rsync -a --ignore-existing --exclude .git /repo/ $d/
echo $d
