#!/usr/bin/env python3
"""fills /verif/seeded/<id>/meta.json with what each change needs in order to manifest and which check catches it"""
import json, os
NOTES = {
 "C11a_1": ("dual-body semia_eccen_derivatives: dR_dw_2 multiplied by mass_2 instead of mass_1; needs the dual-body path, unequal masses, e > 0, a dissipating secondary (angular momentum only; energy still closes)",
            "C11: TidalPy/dynamics/dual_dissipation.py::semia_eccen_derivatives::ensures:angmom (refuted; native budget replay confirms)"),
 "C11a_2": ("quick_dual_body_tidal_dissipation: spin rates computed after the loop with the stale loop variable host_mass; needs the dual calculator with unequal masses",
            "C11: quick_dual_body_tidal_dissipation::ensures:energy_balance and ::torque_balance (whole-function symbolic execution of the call site, added after this change was first missed)"),
 "C11a_3": ("calculate_terms: dUdM built from n_sig instead of n_coeff; only the m = 0 modes with l-2p+q < 0 differ; needs e > 0",
            "C10: calculate_terms::ensures:per_mode_identity, collapse_modes::ensures:heating_identity / grouping_invariance (C11 imports the C10 identity as a hypothesis and is rightly silent)"),
 "C12a_1": ("complex_love_general delegates to static_love_general without forwarding order_l; exact at l = 2, wrong by (l-1) for l >= 3",
            "C12: love1d.py::complex_love_general::ensures:k_l (needed auto-inlining of same-module helpers; first run was 'undecided')"),
 "C12a_2": ("collapse_modes: merged effective_rigidity_general call with the CPL branch inverted (order_l = 2 used for every degree on the viscoelastic path); needs max_order_l >= 3 and a real rheology",
            "C12: collapse_modes::ensures:love_number_uses_degree[3] (call-site obligation added after this change was first missed)"),
 "C12a_3": ("complex_love_general rebuilds J as |Re J| + i Im J; identical for every compliance with Re J >= 0, wrong for the shipped fixed_q law (Re J < 0)",
            "C12: love1d.py::complex_love_general::ensures:k_l@path1 (needed the precondition 'passive compliance' to be weakened to any complex J; first run missed it)"),
 "C17a_1": ("OrbitBase.orbital_motion2semi_a takes world_signature.mass when the signature is an instance; wrong only for the HOST instance (host + host instead of host + tide raiser), frequency/period driven updates",
            "C17: OrbitBase.set_state / setters ::kepler for addressing=host (added: all addressing modes, real world_signature_to_index)"),
 "C17a_2": ("OrbitBase.set_orbital_frequency drops set_stellar_orbit when forwarding to set_orbital_period; period of a stellar-orbit update lands in the tide raiser's slot",
            "C17: set_orbital_frequency[host;stellar]::kepler and ::frame (stellar-orbit scenarios added)"),
 "C17a_3": ("semi_a2orbital_motion: broken swap when target_mass > host_mass (uses 2 m_target)",
            "C17: conversions.py::semi_a2orbital_motion::inverse_of / paths_agree and the compiled twin (multi-path functions added)"),
 "C17a_4": ("conversions_x.pyx source: cf_orbital_motion2semi_a loses the parentheses around n*n (cannot be compiled here)",
            "C17: conversions_x.pyx::cf_orbital_motion2semi_a::ensures:kepler, ::twin, inverse pairs (source-level, no-failing-input-found: the binary is stale)"),

 "C10a_1": ("calculate_terms: |n_coeff| frequency signature applied to every mode instead of m = 0 only; modes (+c, m) and (-c, m) share -Im k; needs non-zero obliquity or truncation >= e^6 and a frequency-dependent rheology",
            "C10: calculate_terms::ensures:frequency_of_signature, collapse_modes::ensures:grouping_invariance (caught on the first run)"),
 "C10a_2": ("collapse_modes: `neg_imk_potential = neg_imk; neg_imk_potential /= M` - in place through an alias; only with ndarray frequencies; heating too small by the host mass",
            "C10: collapse_modes::alias#0.* (engine: alias-safety obligation for in-place updates, added after this change was first missed; native array-vs-scalar replay)"),
 "C10a_3": ("quick_tidal_dissipation: CTL default time lag 1/(Q spin) instead of 1/(Q n); negative heating for retrograde spin",
            "C10: quick_tidal_dissipation::ctl_site_pre / ctl_site_default (call-site contract added after this change was first missed)"),
 "C14a_1": ("nsr_med_eccen_no_obliquity: static P20 term adds the first instead of the second theta-derivative to U_theta_theta; use_static=True only",
            "C14: ::ensures:derivative_consistency / laplace / zero_obliquity_limit[...static=1][U_theta_theta] (first run)"),
 "C14a_2": ("nsr_med_eccen_gen_obliquity: sign of the e^3 sin^3 cos coefficient of mode o-3n", "C14: nsr_modes_med_eccen_gen_obliquity::ensures:modal_sum[...] (first run)"),
 "C14a_3": ("nsr_modes_low_eccen_gen_obliquity: longitude multiplier of mode o+2n 1 -> 2 (non-harmonic mode)", "C14: ::ensures:laplace and low_vs_medium_eccentricity[o+2n] (first run)"),
 "C16a_1": ("LayerBase.set_geometry: mass of the layer below instead of the mass below; needs >= 3 layers", "C16: LayerBase.set_geometry::ensures:mass_below[layers>=3] (first run; native chain replayer added)"),
 "C16a_2": ("scale_from_world: setdefault('radius_inner') keeps the stale inner radius when an already scaled world is scaled again",
            "C16: scale_from_world::ensures:lengths_scaled[layers=n;source_already_scaled] (first run undecided: dict.setdefault unsupported; second-generation source configs added)"),
 "C16a_3": ("clean_world_config pops derived keys from the SOURCE layer dicts", "C16: clean_world_config::frame (first run undecided: pop on abstract dictionaries; now a logged write)"),
 "C19a_1": ("isotope: `break` on a zero-concentration entry drops all later isotopes", "C19: isotope#step::no_early_exit, ::reference_value (first run: tool fault on `break` in a loop-body fragment; fragments now end in break/continue outcomes)"),
 "C19a_2": ("convection: boundary layer set to MIN_THICKNESS for thinner layers; convective flux below conduction for L < 50 m", "C19: convection::ensures:at_least_conduction (first run)"),
 "C19a_3": ("reference viscosity: overflow clamp gets the wrong sign; viscosity collapses for very cold material", "C19: reference::ensures:nonincreasing_in_T (first run)"),
 "C19a_4": ("henning: merged exponent has the wrong sign inside the critical window; viscosity rises with melt fraction", "C19: henning::ensures:viscosity_nonincreasing_in_melt (first run)"),
 "C15a_1": ("calculate_strain_stress: 2 y1 - l(l+1) y3 'factored' as l (y1 - (l+1) y3); wrong for l != 2", "C15: calculate_strain_stress::ensures:traction[0] (first run undecided; exact refutation modulo relations added)"),
 "C15a_2": ("calculate_strain_stress: y4/shear guard tests Re(shear) < 1e-10; kills shear strain of strongly relaxed Maxwell layers",
            "C15: ::ensures:traction[3|4]@path0 (first run: np.real unsupported + single-path contract; contract made multi-path, bound-aware exact sampler)"),
 "C15a_3": ("calculate_volumetric_heating: in-place arithmetic on np.imag(stress), a view of the caller's array", "C15: calculate_volumetric_heating::frame#* (engine: ndarray object semantics - views, in-place updates, frame obligation on argument arrays - added after this change was first undecided)"),

 "C05a_1": ("sensitivity_to_shear: numerators of the three-point gradient weights swapped; only on non-uniform grids", "C05: ::stencil_exact_on_linear / quadratics, energy_identity (first run)"),
 "C05a_2": ("sensitivity_to_shear: |mu|^2 written as Re(mu^2); visible for strongly dissipative layers", "C05: ::sum_of_squares, energy_identity (first run)"),
 "C05a_3": ("calc_radial_tidal_heating: heating zeroed where |mu| < 1e-3 max|mu| (soft solid layers)", "C05: calc_radial_tidal_heating::ensures:shell_integrand (first run undecided: np.abs / np.max unmodelled; now abs with its defining fact, max as an upper bound)"),
 "C07a_1": ("legacy andrade(): zeta factored out with the wrong exponent sign; invisible at zeta = 1", "C07: compliance_models.py::andrade / sundberg ::equals_published_compliance (first run)"),
 "C07a_2": ("legacy burgers(): Voigt offsets dropped (defaults used)", "C07: compliance_models.py::burgers::equals_published_compliance (first run)"),
 "C07a_3": ("legacy maxwell(): zero-frequency guard widened to sqrt(eps) ~ 1.5e-8 rad/s", "C07: ::equals_published_compliance@path0 of the Maxwell family (first run undecided: np.sqrt unmodelled)"),
 "C18a_1": ("restart scan: a case directory containing error.log is sent back to 'rerun' even when it later succeeded", "C18: #restart_scan::skip_iff_marker (added after this change was first missed)"),
 "C18a_2": ("reload loop: grid index by divmod of the stale requested point count", "C18: #reload_indices::own_index_on_reload (bounded; added after this change was first missed)"),
 "C18a_3": ("journal line formats the bounds with :g", "C18: #journal::roundtrip[...] (bounded; non-round bounds added after this change was first missed)"),

 "C13a_1": ("GlobalApproxTides.orbit_spin_changed passes obliquity_change=eccentricity_change to the base class; obliquity-only changes leave CPL/CTL tides stale",
            "C13: GlobalApproxTides.orbit_spin_changed::forwards (added; first run caught only by the bounded native histories, whose counterexamples are now reported)"),
 "C13a_2": ("BaseWorld.set_state: the spin-sync block is moved before semi_major_axis is promoted to a frequency change; a forced-synchronous world addressed by semi-major axis keeps its old spin",
            "C13: BaseWorld.set_state::ensures:spin_follows_orbit[world.set_state(semi_major_axis);sync=1] (invariant added after this change was first missed)"),
 "C13a_3": ("LayeredTides.collapse_modes: global sums accumulated in place starting from the first layer's own array; the first tidal layer reports the global heating (arrays, >= 2 tidal layers)",
            "C13: LayeredTides.collapse_modes#global_sums[n]::frame:layer_results_unchanged (fragment executed with ndarray object semantics; added after this change was first missed)"),

 "C08a_1": ("orderl3 trunc8: spurious alias [3][3] = [0][3] (a mode whose Hansen coefficient vanishes identically gets the value of its neighbour)", "C08: orderl3.py::eccentricity_funcs_trunc8::G2[3,3] (first run)"),
 "C08a_2": ("mode_calc_helper: the (truncation 16, max l 6) helper takes the l = 5 table of truncation 14", "C08: eccen_calc_orderl6.py::eccentricity_truncation_16_maxl_6 (first run; native helper-vs-table replayer added)"),
 "C08a_3": ("orderl4 trunc6: sign of the e^4 term of G^2_{4,1,1} flipped (and its alias (3,-1))", "C08: orderl4.py::eccentricity_funcs_trunc6::G2[1,1], G2[3,-1] (first run)"),

 "C20a_1": ("interpreted sqrt_neg, complex branch: Algorithm-312 style rewrite loses the imaginary sign / purely imaginary inputs (real_part selectors use z_r > 0, z_r < 0 only)", "C20: special.py::_sqrt_neg_python::ensures:principal_square_root@path2/4 (first run), array_is_elementwise[complex;element*]"),
 "C20a_2": ("interpreted sqrt_neg, real branch: whole-array `np.any(real(z) < 0)` decides the 1j factor, so positive elements of a mixed-sign array come out imaginary", "C20: ::ensures:array_is_elementwise[real] (first run missed: only scalars were under contract; engine now has elementwise compare / np.any / np.all / shims on NdArr)"),
 "C20a_3": ("interpreted (2l+1)!! table built with int64 np.cumprod: overflows from l = 21", "C20: initial/functions.py::l2p1_double_factorials::table[l=21..24] (first run missed: the table was outside the contract; module-level construction now extracted and executed, native replayer imports the table)"),
 "C09a_1": ("orderl3 calc_inclination: cos_i = sqrt(1 - sin_i^2) loses the sign of cos I; wrong only for retrograde obliquities (I > 90 deg) and entries with odd powers of cos I",
            "C09: orderl3.py::calc_inclination::entry(1,1),(1,2),(2,0),(2,1) (first run: tool fault on a non-polynomial entry; now exact refutation at rational points of the circle incl. retrograde ones, replay at I = 2.0 / 2.9 rad)"),
 "C09a_2": ("universal_coeffs: l = 6, m = 6 entry halved (missing (2 - delta_0m))", "C09: universal_coeffs.py::get_universal_coeffs::l6m6 (first run; also C10 grouping_invariance at max l = 7)"),
 "C09a_3": ("orderl7 calc_inclination_off: key (3,2) typed as (3,1)", "C09: orderl7.py::calc_inclination_off::entry(3,1) and entry(3,2) (first run)"),
}
for k, (needs, det) in NOTES.items():
    p = f"/verif/seeded/{k}/meta.json"
    if os.path.exists(p):
        d = json.load(open(p)); d["needs_to_manifest"] = needs; d["detected_by"] = det
        json.dump(d, open(p, "w"), indent=1)
        print("updated", k)
