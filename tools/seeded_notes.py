#!/usr/bin/env python3
"""fills /verif/seeded/<id>/meta.json with what each change needs in order to manifest and which check catches it"""
import json, os
NOTES = {
 "C11a_1": ("dual-body semia_eccen_derivatives: dR_dw_2 multiplied by mass_2 instead of mass_1; needs the dual-body path, unequal masses, e > 0, a dissipating secondary (angular momentum only; energy still closes)",
            "C11: TidalPy/dynamics/dual_dissipation.py::semia_eccen_derivatives::ensures:angmom (refuted; native budget replay confirms)"),
 "C11a_2": ("quick_dual_body_tidal_dissipation: spin rates computed after the loop with the stale loop variable host_mass; needs the dual calculator with unequal masses",
            "C11: quick_dual_body_tidal_dissipation::ensures:energy_balance and ::torque_balance (whole-function symbolic execution of the call site, added after this change was first missed)"),
 "C11a_3": ("calculate_terms: dUdM built from n_sig instead of n_coeff; only the m = 0 modes with l-2p+q < 0 differ; needs e > 0",
            "C10: calculate_terms::ensures:per_mode_identity, collapse_modes::ensures:heating_identity / grouping_invariance (C11 imports the C10 identity as a hypothesis and is rightly silent)"),
 "C12a_1": ("complex_love_general delegates to static_love_general without forwarding order_l; exact at l = 2, wrong by (l-1) for l >= 3",
            "C12: love1d.py::complex_love_general::ensures:k_l (needed auto-inlining of same-module helpers; first run was 'undecided')"),
 "C12a_2": ("collapse_modes: merged effective_rigidity_general call with the CPL branch inverted (order_l = 2 used for every degree on the viscoelastic path); needs max_order_l >= 3 and a real rheology",
            "C12: collapse_modes::ensures:love_number_uses_degree[3] (call-site obligation added after this change was first missed)"),
 "C12a_3": ("complex_love_general rebuilds J as |Re J| + i Im J; identical for every compliance with Re J >= 0, wrong for the shipped fixed_q law (Re J < 0)",
            "C12: love1d.py::complex_love_general::ensures:k_l@path1 (needed the precondition 'passive compliance' to be weakened to any complex J; first run missed it)"),
 "C17a_1": ("OrbitBase.orbital_motion2semi_a takes world_signature.mass when the signature is an instance; wrong only for the HOST instance (host + host instead of host + tide raiser), frequency/period driven updates",
            "C17: OrbitBase.set_state / setters ::kepler for addressing=host (added: all addressing modes, real world_signature_to_index)"),
 "C17a_2": ("OrbitBase.set_orbital_frequency drops set_stellar_orbit when forwarding to set_orbital_period; period of a stellar-orbit update lands in the tide raiser's slot",
            "C17: set_orbital_frequency[host;stellar]::kepler and ::frame (stellar-orbit scenarios added)"),
 "C17a_3": ("semi_a2orbital_motion: broken swap when target_mass > host_mass (uses 2 m_target)",
            "C17: conversions.py::semi_a2orbital_motion::inverse_of / paths_agree and the compiled twin (multi-path functions added)"),
 "C17a_4": ("conversions_x.pyx source: cf_orbital_motion2semi_a loses the parentheses around n*n (cannot be compiled here)",
            "C17: conversions_x.pyx::cf_orbital_motion2semi_a::ensures:kepler, ::twin, inverse pairs (source-level, no-failing-input-found: the binary is stale)"),
}
for k, (needs, det) in NOTES.items():
    p = f"/verif/seeded/{k}/meta.json"
    if os.path.exists(p):
        d = json.load(open(p)); d["needs_to_manifest"] = needs; d["detected_by"] = det
        json.dump(d, open(p, "w"), indent=1)
        print("updated", k)
