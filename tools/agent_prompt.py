#!/usr/bin/env python3
"""prints the prompt for a mutation sub-agent: property text only + worktree path"""
import json, sys
pid, wt = sys.argv[1], sys.argv[2]
n = int(sys.argv[3]) if len(sys.argv) > 3 else 2
for l in open('/verif/properties.jsonl'):
    p = json.loads(l)
    if p['id'] == pid:
        break
print(f"""You are helping to evaluate a software-assurance setup by acting as a careful "bug seeder" for the open-source Python package TidalPy (tidal heating / orbital evolution / Love numbers of planets).

Your scratch copy of the repository is the git worktree {wt} (work ONLY there; never touch /repo or /verif; do not read /verif). The package imports from the current directory, so run things as `cd {wt} && /venv/bin/python ...`. The test-suite is run with
  cd {wt} && /venv/bin/python -m pytest -q -p no:cacheprovider --timeout=900 -x Tests --deselect Tests/Test_Utilities/Test_Exoplanets
(about 3-5 minutes; the Exoplanets tests need network and are excluded). There is NO Cython compiler in this sandbox: `.pyx` files cannot be rebuilt (the prebuilt `.so` next to each is what runs), so make your changes in `.py` files unless told otherwise. There is no network.

Here is a semantic property that TidalPy is supposed to satisfy:

  id: {p['id']} — {p['title']}
  statement: {p['statement']}
  quantified over: {p['quantifier']['text']}
  code it is anchored in: {', '.join(p['anchors']['files'])}
  mechanisms: {'; '.join(m['name'] + ' @ ' + m['where'] for m in p['anchors']['mechanism'])}

Task: produce {n} DIFFERENT, independent, realistic source changes (each a separate small patch against the worktree's HEAD) that BREAK this property while the package still imports and the existing test-suite still passes. Realistic means: the kind of slip or well-meant refactor a maintainer could make (wrong sign/factor/index in one branch, a guard that is too narrow or too wide, a stale cached value, a swapped argument, an off-by-one in a table or loop, handling added for one case that breaks another) — not vandalism. Prefer changes that need something specific to manifest (an unusual input, a particular branch, a multi-step sequence of calls, or two cooperating sites that each look fine alone) rather than ones ordinary use would expose at once.

For each change i = 1..{n}:
 1. make the edit in the worktree, run the test-suite command above and confirm it passes (same pass count as without the change: 892 passed);
 2. write a demonstration script {wt}/demo_i.py that exits 0 / prints PASS on the unmodified code and exits 1 / prints FAIL with the change (it should exercise the public API and check the property, not just grep the source);
 3. save the patch: `git -C {wt} diff > {wt}/mutant_i.diff` (only the source change, not the demo), then `git -C {wt} checkout -- .` before starting the next one, and verify demo_i.py passes again on the clean tree.

Finish by replying with, for each change: the path of the diff, the path of the demo, one paragraph on what it breaks and what is needed for it to manifest, and the exact test-suite summary line you observed. Do not commit anything. Do not leave the worktree modified at the end (the mutant_*.diff and demo_*.py files are the deliverables).""")
