import mpmath as mp
mp.mp.dps=50
def sphj(l,x): return mp.sqrt(mp.pi/(2*x))*mp.besselj(l+mp.mpf(1)/2,x)
def df2(n):
    r=mp.mpf(1)
    while n>1: r*=n; n-=2
    return r
def phi(l,z2):
    x=mp.sqrt(z2); return df2(2*l+1)*sphj(l,x)/x**l
def start(r, fixed, l=2, rho=mp.mpf(3000), K=mp.mpf('1e11'), mu=mp.mpf('5e10'), G=mp.mpf('6.6743e-11')):
    lame=K-mp.mpf(2)/3*mu
    alpha2=(lame+2*mu)/rho; beta2=mu/rho; gamma=4*mp.pi*G*rho/3
    lp1=l+1; lm1=l-1; dlp1=2*l+1; dlp3=2*l+3; llp1=l*lp1; r2=r*r; ri=1/r
    kqp=4*gamma/alpha2; kq=kqp**2+4*llp1*gamma**2/(alpha2*beta2); ks=mp.sqrt(kq)
    k2={0:(kqp-ks)/2, 1:(kqp+ks)/2}   # neg_index=0, pos_index=1
    S=[[None]*6 for _ in range(3)]
    f={}; h={}; ph={}; ph1={}; ps={}
    for s in (0,1):
        f[s]=beta2*k2[s]/gamma; h[s]=f[s]-lp1
        z2=k2[s]*r2
        ph[s]=phi(l,z2); ph1[s]=phi(l+1,z2); ps[s]=(2*(2*l+3)/z2)*(1-ph[s])
        S[s][0]=(-r**lp1/dlp3)*(mp.mpf('0.5')*l*h[s]*ps[s]+f[s]*ph1[s])
        S[s][1]=-(lame+2*mu)*r**l*f[s]*ph[s]+(mu*r**l/dlp3)*(-l*lm1*h[s]*ps[s]+2*(2*f[s]+llp1)*ph1[s])
        S[s][2]=(-r**lp1/dlp3)*(mp.mpf('0.5')*h[s]*ps[s]-ph1[s])
        S[s][3]=mu*r**l*(ph[s]-(1/mp.mpf(dlp3))*(lm1*h[s]*ps[s]+2*(f[s]+1)*ph1[s]))
        S[s][4]=r**(l+2)*((alpha2*f[s]-lp1*beta2)/r2-(3*gamma*f[s]/(2*dlp3))*ps[s])
    S[2][0]=l*r**lm1; S[2][1]=2*mu*l*lm1*r**(l-2); S[2][2]=r**lm1; S[2][3]=2*mu*lm1*r**(l-2); S[2][4]=l*gamma*r**l
    for s in (0,1):
        src = s if fixed else (0 if s==1 else 1)     # as coded: pos(1) uses [0*num_ys+4], neg(0) uses [1*num_ys+4]
        S[s][5]=dlp1*ri*S[src][4]+(3*l*gamma*h[s]*r**lp1/(2*dlp3))*ps[s]
    S[2][5]=dlp1*ri*S[2][4]-3*l*gamma*r**lm1
    return S, dict(rho=rho,K=K,mu=mu,G=G,l=l,gamma=gamma)
def A_times(y,r,p):
    rho,K,mu,G,l=p['rho'],p['K'],p['mu'],p['G'],p['l']
    g=p['gamma']*r; lame=K-mp.mpf(2)/3*mu; ri=1/r; llp1=l*(l+1); lp1=l+1; lm1=l-1
    y1,y2,y3,y4,y5,y6=y; gt=4*mp.pi*G*rho; dg=rho*g; two=2*mu*ri; y13=2*y1-llp1*y3
    dy1=(1/(lame+2*mu))*(y13*-lame*ri+y2)
    dy2=ri*(y1*-2*dg+y2*-2+y4*llp1+y5*rho*lp1+y6*-rho*r+dy1*2*lame+y13*(2*(lame+mu)*ri-dg))
    dy3=-y1*ri+y3*ri+y4/mu
    dy4=ri*(y1*(dg+two)+y3*-two+y4*-3+y5*-rho+dy1*-lame+y13*-(lame+2*mu)*ri)
    dy5=y1*gt-y5*lp1*ri+y6
    dy6=ri*(y1*gt*lm1+y6*lm1+y13*gt)
    return [dy1,dy2,dy3,dy4,dy5,dy6]
for fixed in (False,True):
    r=mp.mpf('2.0e6'); hh=mp.mpf('1e-10')*r
    S,p=start(r,fixed); Sp,_=start(r+hh,fixed); Sm,_=start(r-hh,fixed)
    Smat=mp.matrix(6,3)
    for s in range(3):
        for i in range(6): Smat[i,s]=S[s][i]
    print('fixed' if fixed else 'as coded')
    for s in range(3):
        d=[(Sp[s][i]-Sm[s][i])/(2*hh) for i in range(6)]
        Ay=A_times(S[s],r,p)
        res=mp.matrix([d[i]-Ay[i] for i in range(6)])
        # scale rows
        sc=[max(abs(Smat[i,j]) for j in range(3)) for i in range(6)]
        Ms=mp.matrix(6,3); rs=mp.matrix(6,1)
        for i in range(6):
            rs[i]=res[i]/sc[i]*r
            for j in range(3): Ms[i,j]=Smat[i,j]/sc[i]
        m=mp.lu_solve(Ms,rs)   # least squares
        rr=Ms*m-rs
        print('  solution',s,'|res|',mp.nstr(mp.norm(rs),5),'| distance to span',mp.nstr(mp.norm(rr),5))
