import numpy as np, inspect, warnings
warnings.filterwarnings('ignore')
from TidalPy.tides import potential as P
def call(f, use_static=False, e=0.13, obl=0.35, n=2.1e-5, o=3.7e-5):
    sig=inspect.signature(f.py_func)
    vals=dict(radius=1.0e6, longitude=0.7, colatitude=1.1, time=1234.5, orbital_frequency=n, rotation_frequency=o,
              eccentricity=e, obliquity=obl, host_mass=1.0e27, semi_major_axis=4.0e8, use_static=use_static)
    return f(*[vals[k] for k in sig.parameters])
def tot(res): return np.array([sum(float(v[i]) for v in res[2].values()) for i in range(6)])
for e in (0.0, 0.01, 0.05, 0.1, 0.2):
    out=[]
    for ob in (1e-2,1e-3,1e-4):
        A=tot(call(P.tidal_potential_obliquity_nsr,False,e=e,obl=ob)); C=tot(call(P.tidal_potential_gen_obliquity_nsr,False,e=e,obl=ob))
        out.append(np.max(np.abs(A-C))/np.max(np.abs(C)))
    print('e',e,'rel diff at I=1e-2,1e-3,1e-4:',out)
# per-mode comparison at small obliquity, e=0.1
ra=call(P.tidal_potential_obliquity_nsr_modes,False,e=0.1,obl=1e-3); rb=call(P.tidal_potential_gen_obliquity_nsr_modes,False,e=0.1,obl=1e-3)
for k in sorted(set(ra[2])|set(rb[2])):
    a=float(ra[2][k][0]) if k in ra[2] else None; b=float(rb[2][k][0]) if k in rb[2] else None
    if a is None or b is None or abs(a-b)>1e-7*max(abs(a),abs(b),1e-300): print(k,a,b)
