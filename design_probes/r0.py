import numpy as np, warnings
from TidalPy.RadialSolver.solver import radial_solver
G=6.6743e-11
def run(r0frac, kamata, static=False, incomp=False, l=2, N=400, freq=1e-5, mu=5e10+1e9j, K=1e13):
    R=6.0e6; rho0=3000.
    r=np.linspace(r0frac*R,R,N)
    rho=np.full(N,rho0); g=4/3*np.pi*G*rho*r
    Ka=np.full(N,K); m=np.full(N,mu,dtype=np.complex128)
    s=radial_solver(r,rho,g,Ka,m,freq,rho0,('solid',),(static,),(incomp,),(R,),degree_l=l,use_kamata=kamata,
                    integration_rtol=1e-10,integration_atol=1e-14, integration_method='DOP853')
    return s.k[0] if s.success else s.message
mu=5e10+1e9j
gR=4/3*np.pi*G*3000*6e6
for l in (2,3):
    m_l=(2*l*l+4*l+3)*mu/(l*3000*gR*6e6)
    print('closed form l',l, 3/(2*(l-1))/(1+m_l))
    for kam in (False,True):
        for static in (False,True):
            for inc in ((False,True) if kam else (False,)):
                if kam and static and inc: continue
                res=[run(f,kam,static,inc,l) for f in (1e-6,1e-3,1e-2,0.1,0.3,0.5)]
                print('l',l,'kamata',kam,'static',static,'incomp',inc,[ (complex(np.round(x,6)) if not isinstance(x,str) else x[:30]) for x in res])
